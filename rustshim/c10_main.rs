// ---- C10 MAIN (last part of the assembled program) ------------------------------------------------------
// Harness only: it feeds decoded StationToDetector field values to the detector items cut out of the
// repository above and reports what THEY did.  No acceptance rule is written here.
//
// input  (one record per line, TAB separated; `-` = field absent; strings are `x<hex of utf-8>`):
//   R                                   start a new SessionTracker (the harness' reset, not the detector's Clear)
//   A <ns>                              advance the logical clock
//   M <id> <phantom_ip> <client_ip> <timeout_ns> <operation> <dst_port> <src_port> <proto>
//     <flow_src hex bytes> <flow_dst hex bytes> <flow_dst_port> <flow_proto iana> <lifetime_ns>
//                                       one published message + the flow the registration's client will send
//   L <id> <flow_src hex> <flow_dst hex> <flow_dst_port> <flow_proto iana>
//                                       the detector's expiry sweep at the current logical time, then its lookup of that flow
// output (one line per M record, TAB separated key=value)

use std::io::{self, BufRead, Write};
use std::net::{Ipv4Addr, Ipv6Addr};

fn shim_unhex(s: &str) -> Option<Vec<u8>> {
    if s.len() % 2 != 0 {
        return None;
    }
    let b = s.as_bytes();
    let mut out = Vec::with_capacity(b.len() / 2);
    let nib = |c: u8| -> Option<u8> {
        match c {
            b'0'..=b'9' => Some(c - b'0'),
            b'a'..=b'f' => Some(c - b'a' + 10),
            b'A'..=b'F' => Some(c - b'A' + 10),
            _ => None,
        }
    };
    let mut i = 0;
    while i < b.len() {
        out.push(nib(b[i])? << 4 | nib(b[i + 1])?);
        i += 2;
    }
    Some(out)
}

fn shim_hex(b: &[u8]) -> String {
    let mut s = String::with_capacity(b.len() * 2);
    for x in b {
        s.push_str(&format!("{:02x}", x));
    }
    s
}

fn shim_opt_str(f: &str) -> Option<String> {
    if f == "-" {
        return None;
    }
    let raw = shim_unhex(&f[1..]).expect("bad hex string field");
    Some(String::from_utf8(raw).expect("string field is not utf-8"))
}

fn shim_opt_num<T: std::str::FromStr>(f: &str) -> Option<T> {
    if f == "-" {
        None
    } else {
        Some(f.parse::<T>().ok().expect("bad numeric field"))
    }
}

// the address as it appears in the IP header of the client's packet: an IPv4 address handed over in its
// 16-byte (v4-mapped) form travels in an IPv4 header
fn shim_wire_ip(hexbytes: &str) -> Option<IpAddr> {
    if hexbytes == "-" {
        return None;
    }
    let b = shim_unhex(hexbytes)?;
    match b.len() {
        4 => Some(IpAddr::V4(Ipv4Addr::new(b[0], b[1], b[2], b[3]))),
        16 => {
            let mut o = [0u8; 16];
            o.copy_from_slice(&b);
            let v6 = Ipv6Addr::from(o);
            match v6.to_ipv4_mapped() {
                Some(v4) => Some(IpAddr::V4(v4)),
                None => Some(IpAddr::V6(v6)),
            }
        }
        _ => None,
    }
}

fn shim_set_clock(v: u128) {
    *SHIM_NOW_NS.lock().unwrap() = v;
}

fn main() {
    let stdin = io::stdin();
    let stdout = io::stdout();
    let mut out = io::BufWriter::new(stdout.lock());
    let mut st = SessionTracker::new();
    shim_set_clock(1_000_000_000_000_000_000u128);

    for line in stdin.lock().lines() {
        let line = line.expect("read");
        let f: Vec<&str> = line.split('\t').collect();
        match f[0] {
            "R" => {
                st = SessionTracker::new();
            }
            "A" => {
                let d: u128 = f[1].parse().expect("bad advance");
                shim_set_clock(precise_time_ns() + d);
            }
            "M" => {
                assert!(f.len() == 14, "M record needs 14 fields");
                let id = f[1];
                let mut s2d = StationToDetector::default();
                s2d.phantom_ip = shim_opt_str(f[2]);
                s2d.client_ip = shim_opt_str(f[3]);
                s2d.timeout_ns = shim_opt_num::<u64>(f[4]);
                s2d.operation = shim_opt_num::<i32>(f[5]).map(::protobuf::EnumOrUnknown::from_i32);
                s2d.dst_port = shim_opt_num::<u32>(f[6]);
                s2d.src_port = shim_opt_num::<u32>(f[7]);
                s2d.proto = shim_opt_num::<i32>(f[8]).map(::protobuf::EnumOrUnknown::from_i32);

                let flow: Option<FlowNoSrcPort> = match (shim_wire_ip(f[9]), shim_wire_ip(f[10])) {
                    (Some(src), Some(dst)) => Some(FlowNoSrcPort {
                        src_ip: src,
                        dst_ip: dst,
                        dst_port: f[11].parse::<u16>().expect("bad flow port"),
                        proto: IpNextHeaderProtocol(f[12].parse::<u8>().expect("bad flow proto")),
                    }),
                    _ => None,
                };
                let life: Option<u128> = shim_opt_num::<u128>(f[13]);

                // (1) what the detector's own conversion makes of the message
                let parsed = SessionResult::from(&s2d);
                let mut rep = format!("id={}", id);
                match &parsed {
                    Ok(sd) => {
                        rep.push_str(&format!(
                            "\tparse=ok\tsd_client={}\tsd_phantom={}\tsd_dport={}\tsd_sport={}\tsd_proto={}\tsd_timeout={}",
                            sd.client_ip, sd.phantom_ip, sd.dst_port, sd.src_port, sd.proto.0, sd.timeout
                        ));
                    }
                    Err(e) => {
                        rep.push_str(&format!("\tparse={:?}", e));
                    }
                }
                rep.push_str(&format!("\top={:?}", s2d.operation()));

                // (2) the detector's handler applied to its session map
                let now = precise_time_ns();
                let before: HashMap<String, u128> = st.tracked_sessions.read().unwrap().clone();
                let prev_rem: Option<u128> = flow
                    .as_ref()
                    .and_then(|fl| before.get(&fl.tag()).cloned())
                    .map(|v| v.saturating_sub(now));
                SHIM_LOG.lock().unwrap().clear();
                pubsub_handle_s2d(&st.tracked_sessions, &s2d);
                let after: HashMap<String, u128> = st.tracked_sessions.read().unwrap().clone();
                let mut nchanged = 0usize;
                for (k, v) in after.iter() {
                    if before.get(k) != Some(v) {
                        nchanged += 1;
                    }
                }
                for k in before.keys() {
                    if !after.contains_key(k) {
                        nchanged += 1;
                    }
                }
                rep.push_str(&format!("\tlen_before={}\tlen_after={}\tnchanged={}", before.len(), after.len(), nchanged));

                // (3) would the detector now divert the packets of the registration's client?
                match flow.as_ref() {
                    None => rep.push_str("\tflow=na"),
                    Some(fl) => {
                        let tracked = st.is_tracked_session(fl);
                        let rem = after.get(&fl.tag()).map(|v| v.saturating_sub(now));
                        rep.push_str(&format!(
                            "\tflow=ok\tprev_rem={}\ttracked={}\trem={}",
                            prev_rem.map(|v| v.to_string()).unwrap_or("-".to_string()),
                            tracked as u8,
                            rem.map(|v| v.to_string()).unwrap_or("-".to_string())
                        ));
                        // (4) the detector's own expiry sweep on a copy of the map, one nanosecond before and
                        //     exactly at the end of the station's lifetime
                        if let Some(l) = life {
                            if l > 0 {
                                let mut copy = SessionTracker::new();
                                *copy.tracked_sessions.write().unwrap() = after.clone();
                                shim_set_clock(now + l - 1);
                                copy.drop_stale_sessions();
                                let p1 = copy.is_tracked_session(fl);
                                shim_set_clock(now + l);
                                copy.drop_stale_sessions();
                                let p2 = copy.is_tracked_session(fl);
                                shim_set_clock(now);
                                rep.push_str(&format!("\tprobe_before={}\tprobe_at={}", p1 as u8, p2 as u8));
                            }
                        }
                    }
                }
                let logs = SHIM_LOG.lock().unwrap().join(" | ");
                rep.push_str(&format!("\tlog=x{}", shim_hex(logs.as_bytes())));
                writeln!(out, "{}", rep).expect("write");
            }
            "L" => {
                // a packet of the registration's client arrives now: the detector's periodic sweep has run
                // (drop_stale_sessions at the current logical time), then the packet path's lookup
                assert!(f.len() == 6, "L record needs 6 fields");
                let id = f[1];
                let dropped = st.drop_stale_sessions();
                let len = st.len();
                match (shim_wire_ip(f[2]), shim_wire_ip(f[3])) {
                    (Some(src), Some(dst)) => {
                        let fl = FlowNoSrcPort {
                            src_ip: src,
                            dst_ip: dst,
                            dst_port: f[4].parse::<u16>().expect("bad flow port"),
                            proto: IpNextHeaderProtocol(f[5].parse::<u8>().expect("bad flow proto")),
                        };
                        let tracked = st.is_tracked_session(&fl);
                        let now = precise_time_ns();
                        let rem = st.tracked_sessions.read().unwrap().get(&fl.tag()).map(|v| v.saturating_sub(now));
                        writeln!(
                            out,
                            "id={}\tlookup=1\tflow=ok\ttracked={}\trem={}\tdropped={}\tlen={}",
                            id,
                            tracked as u8,
                            rem.map(|v| v.to_string()).unwrap_or("-".to_string()),
                            dropped,
                            len
                        )
                        .expect("write");
                    }
                    _ => writeln!(out, "id={}\tlookup=1\tflow=na\tdropped={}\tlen={}", id, dropped, len).expect("write"),
                }
            }
            "" => {}
            other => panic!("unknown record type {:?}", other),
        }
    }
    out.flush().expect("flush");
}
