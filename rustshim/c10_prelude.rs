// C10 detector shim – PRELUDE (part 1 of the assembled program; see cmd/vcheck/prop_c10.go).
//
// This file contains NO detector logic.  It only provides what the items cut out of the repository's
// src/signalling.rs, src/sessions.rs and src/flow_tracker.rs at check time need in order to compile with a
// std-only rustc (edition 2015, like the detector crate, so that `::protobuf::X` names the module below):
//   * `mod protobuf`  – the three names of the rust-protobuf runtime the generated code refers to
//                       (Enum, EnumOrUnknown, SpecialFields) with rust-protobuf 3 semantics,
//   * `IpNextHeaderProtocol(s)` – pnet's newtype and its Tcp / Udp constants (IANA numbers 6 / 17),
//   * `precise_time_ns` – a LOGICAL clock driven by the harness,
//   * the `log` macros – they collect what the detector would have logged,
//   * `FLOW_CLIENT_LOG`, `ingest_from_pubsub` – referenced by extracted items, never used.
#![allow(warnings)]

use std::collections::HashMap;
use std::convert::From;
use std::fmt;
use std::net::IpAddr;
use std::sync::{Arc, Mutex, RwLock};
use std::thread;
use std::time;

pub mod protobuf {
    use std::marker::PhantomData;

    /// rust-protobuf 3: trait implemented by generated enums (only the items the generated impl defines).
    pub trait Enum: Sized + Copy + 'static {
        const NAME: &'static str;
        const VALUES: &'static [Self];
        fn value(&self) -> i32;
        fn from_i32(value: i32) -> Option<Self>;
    }

    /// rust-protobuf 3: an enum field keeps the number read from the wire, known or not.
    #[derive(PartialEq, Eq, Clone, Copy, Debug, Default, Hash)]
    pub struct EnumOrUnknown<E> {
        value: i32,
        _marker: PhantomData<E>,
    }
    impl<E: Enum> EnumOrUnknown<E> {
        pub fn from_i32(value: i32) -> EnumOrUnknown<E> {
            EnumOrUnknown { value, _marker: PhantomData }
        }
        pub fn enum_value_or(&self, map_unknown: E) -> E {
            E::from_i32(self.value).unwrap_or(map_unknown)
        }
    }

    #[derive(PartialEq, Clone, Default, Debug)]
    pub struct SpecialFields;
}

#[derive(PartialEq, Eq, PartialOrd, Ord, Clone, Copy, Debug, Hash)]
pub struct IpNextHeaderProtocol(pub u8);
#[allow(non_snake_case, non_upper_case_globals)]
pub mod IpNextHeaderProtocols {
    use super::IpNextHeaderProtocol;
    pub const Tcp: IpNextHeaderProtocol = IpNextHeaderProtocol(6);
    pub const Udp: IpNextHeaderProtocol = IpNextHeaderProtocol(17);
}

pub static mut FLOW_CLIENT_LOG: bool = false;

static SHIM_NOW_NS: Mutex<u128> = Mutex::new(0);
pub fn precise_time_ns() -> u128 {
    *SHIM_NOW_NS.lock().unwrap()
}

static SHIM_LOG: Mutex<Vec<String>> = Mutex::new(Vec::new());
macro_rules! debug { ($($a:tt)*) => { SHIM_LOG.lock().unwrap().push(format!($($a)*)) } }
macro_rules! info { ($($a:tt)*) => { SHIM_LOG.lock().unwrap().push(format!($($a)*)) } }
macro_rules! warn { ($($a:tt)*) => { SHIM_LOG.lock().unwrap().push(format!($($a)*)) } }
macro_rules! error { ($($a:tt)*) => { SHIM_LOG.lock().unwrap().push(format!($($a)*)) } }

// `impl SessionTracker` contains spawn_update_thread, which names the Redis subscriber loop; the shim feeds
// the messages itself, so the loop is never started.
fn ingest_from_pubsub(_map: Arc<RwLock<HashMap<String, u128>>>) {
    unreachable!("the shim never starts the Redis subscriber")
}

// ---- end of prelude; everything up to the C10 MAIN marker below is cut out of the repository at check time ----
