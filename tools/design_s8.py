#!/usr/bin/env python3
"""Regenerates the measured-cost table of DESIGN.md §8 from the sweep logs in work/runall/ (tools/runall.sh)."""
import glob, os, re
V = '/verif'
rows = {}
pat = re.compile(r'^OK property=(C\d\d) tier=(\w+) seed=(\d+) evaluations=(\d+) distinct=(\d+) known_findings=(\d+) wall=([\d.]+)s')
for f in glob.glob(f'{V}/work/runall/*.log'):
    for l in open(f, errors='replace'):
        m = pat.match(l)
        if m:
            p, tier, seed, ev, di, kf, wall = m.groups()
            rows.setdefault(p, {}).setdefault(tier, []).append((int(seed), int(ev), int(di), float(wall)))
out = ["<!-- S8-BEGIN -->",
       "Measured on this machine (16 cores) during the final sweeps of the later session (quick: seeds 1–6 on the final tree for all twenty, three to ten",
       "checks at a time, seed 3 with all twenty at once while a thorough run was going, and seeds 7–9 for the ten checks with real-time or",
       "probabilistic stages – so a single check run alone is faster; thorough: the last thorough log of each check – C03 C05 C08 C09 C10 C16 C18 from the",
       "final tree, the others from the earlier session's sweep, whose changed checks were re-run clean at the thorough tier during the later",
       "session at seed 1, and all twenty at seed 2); `evaluations` / `distinct` are the evidence counters of one run.  Quick: range over the seeds swept.",
       "",
       "| check | quick wall (s) | quick evaluations | quick distinct | seeds swept (quick) | thorough wall (s) | thorough evaluations |",
       "|---|---|---|---|---|---|---|"]
tq = tt = 0.0
for p in sorted(rows):
    q = rows[p].get('quick', [])
    t = rows[p].get('thorough', [])
    if q:
        w = [x[3] for x in q]
        tq += sum(w) / len(w)
        qs = f"{min(w):.0f}–{max(w):.0f}" if len(w) > 1 else f"{w[0]:.0f}"
        ev = f"{min(x[1] for x in q):,}–{max(x[1] for x in q):,}" if len(q) > 1 else f"{q[0][1]:,}"
        di = f"{min(x[2] for x in q):,}–{max(x[2] for x in q):,}" if len(q) > 1 else f"{q[0][2]:,}"
        seeds = ",".join(str(s) for s in sorted({x[0] for x in q}))
    else:
        qs = ev = di = seeds = "—"
    if t:
        last = sorted(t)[-1]
        tt += last[3]
        ts, te = f"{last[3]:.0f}", f"{last[1]:,}"
    else:
        ts = te = "—"
    out.append(f"| {p} | {qs} | {ev} | {di} | {seeds} | {ts} | {te} |")
out.append("")
out.append(f"Sum of the mean quick walls ≈ {tq/60:.0f} min (serial), thorough ≈ {tt/60:.0f} min (serial).  Cold build of the instrumented packages ≈ 20 s")
out.append("(`-race` ≈ 45 s), cached afterwards.  Scratch copies (C11 fuzzing, C20 tmpfs) are created with `mktemp -d` outside /repo and /verif and")
out.append("removed by the check that made them; nothing a registered command needs lives under /tmp.")
out.append("<!-- S8-END -->")
text = "\n".join(out) + "\n"
p = f'{V}/DESIGN.md'
s = open(p).read()
if '<!-- S8-BEGIN -->' in s:
    s = re.sub(r'<!-- S8-BEGIN -->.*<!-- S8-END -->\n', lambda _: text, s, flags=re.S)
else:
    i = s.index('## 8. Cost summary')
    j = s.index('---------------', i) if '---------------' in s[i:] else len(s)
    s = s[:i] + '## 8. Cost summary\n\n' + text + '\n' + s[j:]
open(p, 'w').write(s)
print("checks with data:", len(rows))
