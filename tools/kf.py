#!/usr/bin/env python3
"""kf.py merge                      : move every fragment entry of known_findings.d/*.json into known_findings.json (status kept)
   kf.py fixed <prop> <commit> <sig-substring> [...] : mark matching entries (in file or fragments) as fixed by <commit>"""
import json, sys, glob, os
here = os.path.dirname(os.path.dirname(os.path.abspath(__file__)))
main = os.path.join(here, "known_findings.json")
k = json.load(open(main))
def merge():
    for f in sorted(glob.glob(os.path.join(here, "known_findings.d", "*.json"))):
        frag = json.load(open(f))
        for e in frag.get("findings", []):
            if not any(x["property"] == e["property"] and x["signature"] == e["signature"] for x in k["findings"]):
                k["findings"].append(e)
        os.remove(f)
merge()
if sys.argv[1] == "fixed":
    prop, commit, subs = sys.argv[2], sys.argv[3], sys.argv[4:]
    n = 0
    for e in k["findings"]:
        if e["property"] == prop and e["status"] == "known" and any(s in e["signature"] for s in subs):
            e["status"] = "fixed"; e["commit"] = commit; n += 1
            k.setdefault("lines", []).append(f"fixed: property={prop} {commit} {e['what'][:300]} [signature {e['signature']}]")
    print("marked fixed:", n)
json.dump(k, open(main, "w"), indent=1)
print("findings:", len(k["findings"]), "known:", sum(1 for e in k["findings"] if e["status"] == "known"))
