#!/bin/bash
# usage: tools/mut.sh <name> <prop> <python-edit-script-file> [vcheck args...]
# Makes a scratch copy of /repo, applies the edit script (python, cwd = scratch copy), runs the check against it, removes the copy.
set -u
name=$1; prop=$2; edit=$3; shift 3
d=/tmp/mut-$name-$$
rsync -a --exclude .git /repo/ $d/ || exit 2
( cd $d && python3 "$edit" ) || { echo "EDIT FAILED"; rm -rf $d; exit 2; }
( cd $d && GOFLAGS= GOPROXY=off GOSUMDB=off GOTOOLCHAIN=local go build ./... 2>&1 | head -5 )
export GOFLAGS=-mod=mod GOWORK=off GOPROXY=off GOSUMDB=off GOTOOLCHAIN=local
VERIF_REPO=$d /verif/bin/vcheck $prop --no-evidence "$@" 2>&1 | grep -v "^INCONCLUSIVE" | sed "s#$d#SCRATCH#g" | head -${MUT_LINES:-12}
rc=${PIPESTATUS[0]}
rm -rf $d
exit $rc
