#!/usr/bin/env python3
"""Regenerates /verif/MANIFEST.json from the table below (kept in one place so it stays valid)."""
import json, os, subprocess

ENV = "GOFLAGS=-mod=mod GOWORK=off GOPROXY=off GOSUMDB=off GOTOOLCHAIN=local"

# id -> (level category, technique, level text, level note, design ref)
CHECKS = {}
_d = os.path.join(os.path.dirname(os.path.abspath(__file__)), "manifest.d")
for _f in sorted(os.listdir(_d)):
    if _f.endswith(".json"):
        _e = json.load(open(os.path.join(_d, _f)))
        CHECKS[_e["property_id"]] = (_e["category"], _e["technique"], _e["text"], _e["note"], _e["design_ref"])


PENDING_REASON = "check not built yet in this session (work in progress; see DESIGN.md §4 for the planned monitor)"

def main():
    here = os.path.dirname(os.path.dirname(os.path.abspath(__file__)))
    props = [json.loads(l) for l in open(os.path.join(here, "properties.jsonl"))]
    checks, na = [], []
    for p in props:
        pid = p["id"]
        if pid in CHECKS:
            cat, tech, text, note, ref = CHECKS[pid]
            checks.append({
                "property_id": pid,
                "quick_cmd": f"bin/vcheck {pid} --tier quick",
                "thorough_cmd": f"bin/vcheck {pid} --tier thorough",
                "evidence_file": f"/verif/evidence/{pid}.json",
                "replay_cmd_template": f"bin/vcheck {pid} --replay {{path}}",
                "engine": "vcheck",
                "level_claimed": {"category": cat, "text": text, "design_ref": ref},
                "level_note": note,
                "technique": tech,
            })
        else:
            na.append({"property_id": pid, "reason": PENDING_REASON})
    hooks_commits = []
    hp = os.path.join(here, "MANIFEST.hooks")
    if os.path.exists(hp):
        hooks_commits = [l.split()[0] for l in open(hp) if l.strip() and not l.startswith("#")]
    m = {
        "version": 1,
        "setup_cmd": f"cd /verif && {ENV} go build -o bin/vcheck ./cmd/vcheck",
        "hooks": {
            "guard": "verif",
            "enable": "go test -tags verif (build tag); drivers are added at build time with go test -overlay and never replace repository files",
            "baseline_off_cmd": "for m in . cmd/application cmd/registration-server util/station-debug; do (cd /repo/$m && GOFLAGS= GOPROXY=off GOSUMDB=off GOTOOLCHAIN=local go test -json -vet=off -count=1 -timeout 25m ./...); done",
            "source_commits": hooks_commits,
            "add_only": True,
        },
        "engines": [
            {"name": "vcheck", "path": "/verif/cmd/vcheck", "serves_properties": sorted(CHECKS),
             "kind_free_text": "orchestrator: injects drivers (drivers/*) into the repository's packages via go test -overlay, runs them as child processes against /repo's working tree (optionally -race / network namespace), collects monitor event logs, runs offline oracles (porcupine, detector shim, log grep), filters through known_findings.json, writes evidence"},
        ],
        "checks": checks,
        "not_applicable": na,
        "notes": "Technique family: runtime monitoring and sanitizers. See DESIGN.md. known_findings.json lists recorded and fixed defects.",
    }
    json.dump(m, open(os.path.join(here, "MANIFEST.json"), "w"), indent=1)
    print("checks:", len(checks), "not_applicable:", len(na))

main()
