#!/usr/bin/env python3
import json, sys
pid = sys.argv[1]
rnd = sys.argv[2] if len(sys.argv) > 2 else "1"
for l in open('/verif/properties.jsonl'):
    p = json.loads(l)
    if p['id'] == pid:
        break
wt = f"/tmp/seed-{pid}" if rnd == "1" else f"/tmp/seed{rnd}-{pid}"
VA, VB = {"1": ("A", "B"), "2": ("C", "D"), "3": ("E", "F"), "4": ("G", "H"), "5": ("I", "J"), "6": ("K", "L"), "7": ("M", "N"), "8": ("O", "P")}[rnd]
avoid = ""
if rnd in ("3", "4", "5", "6", "7", "8"):
    # round 3: name what other developers already tried for this property, so that effort goes elsewhere
    # (descriptions of the earlier changes only – nothing about how anything is checked)
    short = json.load(open('/verif/seeded/SHORT.json'))
    prev = [f"  - {v}" for k, v in sorted(short.items()) if k.startswith(pid + "-")]
    avoid = "\n\nOther developers have already tried the following changes for this property; do NOT repeat them or close variations of them (different code location, different mechanism, different trigger, please):\n" + "\n".join(prev)
print(f"""You are given a git worktree of the Go/Rust repository refraction-networking/conjure (a refraction-networking "Conjure" station: registration ingest/tracking, phantom address selection, wrapping/connecting transports that proxy censored clients to covert destinations) at `{wt}`. Work ONLY inside that directory (never touch /repo or /verif, do not read /verif). The sandbox has no network. Go environment for every shell call: `cd {wt} && export GOFLAGS= GOPROXY=off GOSUMDB=off GOTOOLCHAIN=local` (the repo is a go.work workspace: modules `.`, `cmd/application`, `cmd/registration-server`, `util/station-debug`; run `go test -vet=off -count=1 ./pkg/...` from the root and `go test -vet=off -count=1 .` inside cmd/application). One existing test, TestConjureLibConfigResolveBlocklisted, fails for lack of DNS even on the untouched tree - ignore it. Some existing tests bind fixed ports (ZMQ 39000 etc.) and may collide with other users of this machine: if such a test hangs or fails, re-run it once before concluding anything (or run the tests in a private network namespace: `unshare -n sh -c 'ip link set lo up; go test …'`).

Here is a semantic property that this code base is supposed to satisfy:

  {p['id']} - {p['title']}
  STATEMENT: {p['statement']}
  QUANTIFIED OVER: {p['quantifier']['text']}
  Code it is anchored in: {', '.join(p['anchors']['files'])}

Your job is to play the role of a developer who introduces a REALISTIC BUG: produce TWO different, independent source changes (variant {VA} and variant {VB}, each a small diff to non-test source files of the repository) such that, for each variant:
  1. the repository still compiles (`go build ./...` in the affected modules) and `go vet` is not needed;
  2. the EXISTING test suite still passes (run at least the tests of every package you touched and of the packages that import it most directly; the whole suite takes ~70 s: `go test -vet=off -count=1 ./...` at the root and in cmd/application);
  3. the property above is violated by the changed code;
  4. the violation needs something SPECIFIC to manifest - a particular interleaving, a crash or fault at a particular point, a multi-step sequence of operations, an unusual input, or two cooperating sites that each look fine alone - i.e. NOT something that ordinary use or a casual smoke test would expose at once. Prefer changes that look like plausible refactorings, optimisations or "fixes" a reviewer might wave through. The two variants should break the property in different ways / different code locations.
For each variant write a DEMONSTRATION: a Go test (or small program) that FAILS on the changed tree and PASSES on the unchanged tree, and that shows the property violation concretely (put the demo test file next to the code it exercises so it can reach unexported things, named `zz_seed_demo_<variant>_test.go`; it must not be part of the patch).

Deliverables, all under `{wt}/SEEDED/` (create it):
  - `{VA}/patch.diff`, `{VB}/patch.diff`: output of `git diff` for the source change only (no demo files, nothing under SEEDED/). Each must apply with `git apply` to a clean checkout of this worktree's HEAD.
  - `{VA}/demo/…`, `{VB}/demo/…`: the demonstration file(s) with, in `{VA}/demo/README.txt`, the exact path where each file must be placed and the exact command to run it.
  - `{VA}/meta.json`, `{VB}/meta.json`: {{"property": "{p['id']}", "variant": "{VA}", "summary": "...what the change does...", "why_it_breaks_the_property": "...", "needs_to_manifest": "...the specific input / interleaving / fault / sequence...", "files_touched": [...], "existing_tests_run": "...commands and results...", "demo_command": "...", "demo_result_with_change": "FAIL ...", "demo_result_without_change": "PASS"}}
Before finishing (do NOT use `git stash` - the stash is shared by all worktrees of this repository and other developers are working in sibling worktrees; use `git diff > file; git checkout -- .; git apply file` instead): `git checkout` so that the worktree's tracked files are back at HEAD (leave only SEEDED/ and nothing else untracked), and verify once more from that clean state that each patch applies, builds, passes the existing tests of the touched packages, and that the demo fails with / passes without it. Also create `SEEDED/go.mod` containing `module seeded` so that the stored demo files do not disturb `go test ./...` at the repository root. Aim for breaks that are NOT the first thing one would think of for this property: favour subtle state-dependent, ordering-dependent, boundary-value or cross-component changes over simply deleting a check. Report briefly what the two variants are.""" + avoid)
