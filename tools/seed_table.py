#!/usr/bin/env python3
"""Prints the markdown table of seeded changes for DESIGN.md §9 from /verif/seeded/*/meta.json."""
import json, glob, os
st = json.load(open('/verif/seeded/STRENGTHENING.json')) if os.path.exists('/verif/seeded/STRENGTHENING.json') else {}
rows = []
for f in sorted(glob.glob('/verif/seeded/C*-*/meta.json')):
    sid = os.path.basename(os.path.dirname(f))
    m = json.load(open(f))
    c = m.get('confirmation', {})
    ok = all(c.get(k) for k in ('patch_applies', 'builds', 'existing_tests_pass', 'demo_passes_without_change', 'demo_fails_with_change'))
    summ = (m.get('summary') or '').replace('\n', ' ').replace('|', '/')
    if len(summ) > 230:
        summ = summ[:227] + '…'
    det = ', '.join(c.get('detected_by', [])) or '—'
    note = ''
    if sid in st:
        note = f" (initially: {st[sid]['initially']}; then: {st[sid]['then']})"
    rows.append(f"| {sid} | {summ} | {'yes' if ok else 'partly: see meta.json'} | {det}{note} |")
print("| id | change (from the seeding agent's meta.json) | confirmed (applies, builds, existing tests pass, demo fails with / passes without) | detected by (quick tier) |")
print("|---|---|---|---|")
print("\n".join(rows))
