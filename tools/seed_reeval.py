#!/usr/bin/env python3
"""seed_reeval.py [--jobs N] [--only C09,C11] [--skip C11]: re-confirms every kept seeded change against /repo's current HEAD and the
current checks (same list of checks as when it was first evaluated), N at a time.  Results go into each meta.json."""
import glob, json, os, subprocess, sys
from concurrent.futures import ThreadPoolExecutor
args = sys.argv[1:]
opt = lambda n, d: args[args.index(n) + 1] if n in args else d
jobs = int(opt('--jobs', '3'))
only = [x for x in opt('--only', '').split(',') if x]
skip = [x for x in opt('--skip', '').split(',') if x]
work = []
for f in sorted(glob.glob('/verif/seeded/C*-*/meta.json')):
    sid = os.path.basename(os.path.dirname(f))
    prop, var = sid.split('-')
    if (only and prop not in only) or prop in skip:
        continue
    c = json.load(open(f)).get('confirmation', {})
    checks = list(c.get('checks', {}).keys()) or [prop]
    if prop not in checks:
        checks.insert(0, prop)
    work.append((prop, var, ','.join(checks)))
def run(w):
    p = subprocess.run(['python3', '/verif/tools/seed_eval.py', w[0], w[1], '--src', '/nonexistent', '--checks', w[2]], stdout=subprocess.PIPE, stderr=subprocess.STDOUT, text=True)
    line = (p.stdout.strip().splitlines() or ['?'])[-1]
    print(line, flush=True)
with ThreadPoolExecutor(jobs) as ex:
    list(ex.map(run, work))
print('REEVAL-DONE', len(work))
