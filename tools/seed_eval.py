#!/usr/bin/env python3
"""seed_eval.py <PROP> <VARIANT> [--src /tmp/seed-PROP] [--checks C02,C09] [--tier quick] [--keep-only-if-valid]

Confirms a seeded change produced by an independent sub-agent and runs our check(s) against it:
  1. copies SEEDED/<VARIANT>/ from the agent's worktree into /verif/seeded/<PROP>-<VARIANT>/ (patch.diff, demo/, meta.json)
  2. makes two scratch copies of /repo's HEAD (git worktree export via `git archive`), applies the patch to one
  3. builds both, runs the EXISTING tests of the touched packages on the patched copy
  4. installs the demo in both and runs it: must FAIL with the change and PASS without
  5. runs `bin/vcheck <check> --no-evidence` with VERIF_REPO=<patched copy> for every listed check
  6. records everything under "confirmation" in meta.json, removes the scratch copies.
"""
import json, os, re, shlex, shutil, subprocess, sys, tempfile, time

def sh(cmd, cwd=None, env=None, timeout=1800):
    e = dict(os.environ)
    e.update({"GOFLAGS": "", "GOPROXY": "off", "GOSUMDB": "off", "GOTOOLCHAIN": "local"})
    e.pop("GOWORK", None)  # a GOWORK=off exported for building /verif must not leak into the repository's workspace builds
    if env:
        e.update(env)
    try:
        p = subprocess.run(cmd, shell=True, cwd=cwd, env=e, stdout=subprocess.PIPE, stderr=subprocess.STDOUT, timeout=timeout, text=True)
        return p.returncode, p.stdout
    except subprocess.TimeoutExpired as ex:
        return 124, (ex.stdout or "") + "\nTIMEOUT"

def netns(cmd):
    """existing tests use fixed ports (ZMQ 39000, …): give each run its own loopback"""
    return "unshare -n sh -c " + shlex.quote("ip link set lo up; " + cmd)

def main():
    prop, var = sys.argv[1], sys.argv[2]
    args = sys.argv[3:]
    def opt(name, default):
        return args[args.index(name) + 1] if name in args else default
    src = opt("--src", f"/tmp/seed-{prop}")
    checks = opt("--checks", prop).split(",")
    tier = opt("--tier", "quick")
    base_commit = opt("--base", "HEAD")  # evaluate against an older commit of /repo when a later fix: moved the patch's anchor
    dst = f"/verif/seeded/{prop}-{var}"
    sdir = os.path.join(src, "SEEDED", var)
    if os.path.isdir(sdir):
        if os.path.isdir(dst):
            shutil.rmtree(dst)
        shutil.copytree(sdir, dst)
    meta_path = os.path.join(dst, "meta.json")
    try:
        meta = json.load(open(meta_path))
    except Exception as ex:
        meta = {"property": prop, "variant": var, "meta_error": str(ex)}
    patch = os.path.join(dst, "patch.diff")
    previous = meta.get("confirmation")
    conf = {"at_repo_commit": subprocess.check_output(f"git -C /repo rev-parse --short {base_commit}", shell=True, text=True).strip(), "when": time.strftime("%Y-%m-%d %H:%M:%S")}
    base = tempfile.mkdtemp(prefix=f"seedeval-{prop}{var}-", dir="/tmp")
    clean, mut = os.path.join(base, "clean"), os.path.join(base, "mut")
    try:
        for d in (clean, mut):
            os.makedirs(d)
            rc, out = sh(f"git -C /repo archive {base_commit} | tar -x -C {d}")
            assert rc == 0, out
        rc, out = sh(f"git apply --whitespace=nowarn {patch}", cwd=mut)
        if rc != 0:
            rc, out2 = sh(f"patch -p1 < {patch}", cwd=mut)
            out += out2
        conf["patch_applies"] = rc == 0
        if rc != 0:
            conf["patch_error"] = out[-1500:]
            raise SystemExit
        touched = sorted(set(re.findall(r"^\+\+\+ b/(\S+)", open(patch).read(), re.M)))
        conf["files_touched"] = touched
        # build
        mods = {"."}
        for f in touched:
            if f.startswith("cmd/application/"):
                mods.add("cmd/application")
            if f.startswith("cmd/registration-server/"):
                mods.add("cmd/registration-server")
        if any(f.startswith(("pkg/station", "pkg/transports", "pkg/phantoms", "pkg/core", "pkg/dtls")) for f in touched):
            mods.add("cmd/application")
        ok = True
        for m in sorted(mods):
            rc, out = sh("go build ./... 2>&1 | tail -20", cwd=os.path.join(mut, m))
            if "rror" in out or rc != 0:
                ok = False
                conf.setdefault("build_output", "")
                conf["build_output"] += out[-1500:]
        conf["builds"] = ok
        # existing tests of touched packages (+ the handler module)
        pkgs = sorted({"./" + os.path.dirname(f) for f in touched if f.endswith(".go") and not f.startswith("cmd/")})
        tests = {}
        if pkgs:
            rc, out = sh(netns("go test -vet=off -count=1 " + " ".join(pkgs) + " 2>&1 | grep -E '^(ok|FAIL|---|panic)' | head -30"), cwd=mut, timeout=1500)
            tests["root:" + " ".join(pkgs)] = out.strip()
        if "cmd/application" in mods:
            rc, out = sh(netns("go test -vet=off -count=1 . 2>&1 | grep -E '^(ok|FAIL|---|panic)' | head"), cwd=os.path.join(mut, "cmd/application"), timeout=900)
            tests["cmd/application"] = out.strip()
        if any(f.endswith(".go") and (f.startswith("pkg/transports") or f.startswith("pkg/station/lib")) for f in touched):
            rc, out = sh(netns("go test -vet=off -count=1 ./internal/... 2>&1 | grep -E '^(ok|FAIL|---|panic)' | head"), cwd=mut, timeout=900)
            tests["internal"] = out.strip()
        # fixed-port tests (ZMQ 39000, …) collide with other users of the machine: re-run a failing group once
        def run_group(key):
            if key.startswith("root:"):
                return sh("go test -vet=off -count=1 " + key[5:] + " 2>&1 | grep -E '^(ok|FAIL|---|panic)' | head -30", cwd=mut, timeout=1500)[1].strip()
            if key == "cmd/application":
                return sh("go test -vet=off -count=1 . 2>&1 | grep -E '^(ok|FAIL|---|panic)' | head", cwd=os.path.join(mut, "cmd/application"), timeout=900)[1].strip()
            return sh("go test -vet=off -count=1 ./internal/... 2>&1 | grep -E '^(ok|FAIL|---|panic)' | head", cwd=mut, timeout=900)[1].strip()
        def group_bad(v):
            return any((l.startswith("--- FAIL") and "TestConjureLibConfigResolveBlocklisted" not in l) or l.startswith("panic") or (l.startswith("FAIL") and "pkg/station/lib" not in l and l.strip() != "FAIL") for l in v.splitlines())
        for k in list(tests):
            if group_bad(tests[k]):
                tests[k + " (re-run)"] = run_group(k)
                tests[k + " (first run, superseded)"] = tests.pop(k)
        conf["existing_tests"] = tests
        bad = [l for v in tests.values() for l in v.splitlines() if l.startswith(("--- FAIL", "FAIL", "panic")) and "TestConjureLibConfigResolveBlocklisted" not in l and "pkg/station/lib" not in l.replace("--- FAIL", "")]
        # the lib package always reports FAIL because of the DNS test; look at individual tests instead
        conf["existing_tests_pass"] = not any(group_bad(v) for k, v in tests.items() if "superseded" not in k)
        # demo
        demo_dir = os.path.join(dst, "demo")
        readme = ""
        if os.path.exists(os.path.join(demo_dir, "README.txt")):
            readme = open(os.path.join(demo_dir, "README.txt")).read()
        conf["demo_readme"] = readme[:1500]
        cmd = meta.get("demo_command", "")
        cmd = re.sub(r"\s+\([^()]*\)\s*$", "", cmd)  # a trailing remark in parentheses is not part of the command
        def install(root):
            n = 0
            for fn in os.listdir(demo_dir):
                if fn == "README.txt":
                    continue
                if os.path.isdir(os.path.join(demo_dir, fn)):
                    # a sub-tree: mirrors the repository layout (pkg/…, internal/…, cmd/…) or names a package dir
                    for dp, _, fns in os.walk(os.path.join(demo_dir, fn)):
                        for f2 in fns:
                            rel = os.path.relpath(os.path.join(dp, f2), demo_dir)
                            if rel.split(os.sep)[0] in ("pkg", "internal", "cmd", "proto", "util"):
                                target = os.path.join(root, rel)
                            else:
                                cands = re.findall(r"((?:pkg|internal|cmd)/[\w./-]*/)" + re.escape(f2), readme + " " + json.dumps(meta))
                                pick = [c for c in cands if c.rstrip("/").endswith(fn)] or cands
                                target = os.path.join(root, pick[0] if pick else "", f2)
                            os.makedirs(os.path.dirname(target), exist_ok=True)
                            shutil.copy(os.path.join(dp, f2), target)
                            n += 1
                    continue
                # destination: a path mentioned in README/meta ending with the file name
                cands = re.findall(r"([\w./-]*/)" + re.escape(fn), readme + " " + json.dumps(meta))
                good = [c for c in cands if re.search(r"(^|/)(pkg|cmd|internal|proto|util)/", c) and "SEEDED" not in c]
                rel = (good or cands or [""])[0]
                rel = re.sub(r"/tmp/seed\d?-C\d\d/", "", rel.replace(src + "/", "")).lstrip("/")
                rel = re.sub(r"^.*?(pkg/|cmd/|internal/|proto/|util/)", r"\1", rel) if rel else rel
                target = os.path.join(root, rel, fn)
                os.makedirs(os.path.dirname(target), exist_ok=True)
                shutil.copy(os.path.join(demo_dir, fn), target)
                n += 1
            return n
        conf["demo_files_installed"] = install(clean)
        install(mut)
        for root in (clean, mut):  # demo commands often start with `cp SEEDED/<V>/demo/... <pkg>/`
            shutil.copytree(demo_dir, os.path.join(root, "SEEDED", var, "demo"), dirs_exist_ok=True)
            open(os.path.join(root, "SEEDED", "go.mod"), "w").write("module seeded\n\ngo 1.22\n")
        cmd2 = re.sub(r"/tmp/seed\d?-C\d\d\b", "{ROOT}", cmd.replace(src, "{ROOT}"))
        cmd2 = re.sub(r"cd\s+\{ROOT\}\s*&&", "", cmd2)
        def run_demo(root):
            c = cmd2.replace("{ROOT}", root)
            return sh(c + " 2>&1 | tail -25", cwd=root, timeout=1500)
        rc_c, out_c = run_demo(clean)
        rc_m, out_m = run_demo(mut)
        conf["demo_command_used"] = cmd2
        conf["demo_without_change"] = out_c[-1200:]
        conf["demo_with_change"] = out_m[-1200:]
        passed = lambda o: re.search(r"^(ok|PASS)\b", o, re.M) is not None and "FAIL" not in o
        conf["demo_passes_without_change"] = passed(out_c)
        conf["demo_fails_with_change"] = "FAIL" in out_m or "panic" in out_m
        # our checks
        res = {}
        for c in checks:
            t0 = time.time()
            rc, out = sh(f"/verif/bin/vcheck {c} --tier {tier} --no-evidence 2>&1 | grep -v '^INCONCLUSIVE' | cut -c1-260 | head -14", cwd="/verif",
                         env={"VERIF_REPO": mut, "GOFLAGS": "-mod=mod", "GOWORK": "off"}, timeout=3000)
            viol = "VIOLATION" in out
            res[c] = {"detected": viol, "wall_s": round(time.time() - t0, 1), "output": out.replace(mut, "<patched tree>")[-1800:]}
        conf["checks"] = res
        conf["detected_by"] = [c for c, r in res.items() if r["detected"]]
    except SystemExit:
        pass
    finally:
        shutil.rmtree(base, ignore_errors=True)
    if previous and previous.get("patch_applies") and not conf.get("patch_applies"):
        # later fix: commits moved the anchor; the earlier confirmation (at previous["at_repo_commit"]) stands
        previous["recheck"] = {"at_repo_commit": conf["at_repo_commit"], "when": conf["when"], "result": "patch no longer applies to HEAD", "patch_error": conf.get("patch_error", "")[-400:]}
        conf = previous
    meta["confirmation"] = conf
    json.dump(meta, open(meta_path, "w"), indent=1)
    brief = {k: conf.get(k) for k in ("patch_applies", "builds", "existing_tests_pass", "demo_passes_without_change", "demo_fails_with_change", "detected_by")}
    print(prop, var, json.dumps(brief))

main()
