#!/bin/bash
# usage: tools/seed_round.sh <round> <parallel> <PROP:VAR[:checks]>...   e.g. tools/seed_round.sh 7 4 C20:M C20:N C10:M:C10,C08
rnd=$1; par=$2; shift 2
mkdir -p /verif/work/r$rnd
printf '%s\n' "$@" | xargs -P $par -I{} sh -c '
  IFS=: read p v c <<X
{}
X
  [ -z "$c" ] && c=$p
  python3 /verif/tools/seed_eval.py $p $v --src /tmp/seed'$rnd'-$p --checks $c > /verif/work/r'$rnd'/$p-$v.log 2>&1; tail -1 /verif/work/r'$rnd'/$p-$v.log'
