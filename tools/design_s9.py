#!/usr/bin/env python3
"""Regenerates DESIGN.md §9 (sensitivity) from /verif/seeded/*/meta.json, seeded/SHORT.json,
seeded/STRENGTHENING.json and seeded/own/RESULTS.json.  The section lives between the markers
<!-- S9-BEGIN --> and <!-- S9-END --> (appended at the end of the file if the markers are absent)."""
import json, glob, os, re

V = '/verif'
short = json.load(open(f'{V}/seeded/SHORT.json'))
st = json.load(open(f'{V}/seeded/STRENGTHENING.json'))
own = json.load(open(f'{V}/seeded/own/RESULTS.json'))

rows, n, n_conf, n_det, n_own_prop, n_missed_first = [], 0, 0, 0, 0, 0
undetected = []
for f in sorted(glob.glob(f'{V}/seeded/C*-*/meta.json')):
    sid = os.path.basename(os.path.dirname(f))
    m = json.load(open(f))
    c = m.get('confirmation', {})
    ok = all(c.get(k) for k in ('patch_applies', 'builds', 'existing_tests_pass', 'demo_passes_without_change', 'demo_fails_with_change'))
    det = c.get('detected_by', [])
    n += 1
    n_conf += ok
    n_det += bool(det)
    n_own_prop += sid[:3] in det
    if not det:
        undetected.append(sid)
    note = ''
    if sid in st:
        n_missed_first += 1
        note = f"initially {st[sid]['initially']} → {st[sid]['then']}"
    rnd = {'A': '1', 'B': '1', 'C': '2', 'D': '2', 'E': '3', 'F': '3', 'G': '4', 'H': '4', 'I': '5', 'J': '5', 'K': '6', 'L': '6', 'M': '7', 'N': '7'}.get(sid[-1], '8')
    rows.append(f"| {sid} | {rnd} | {short.get(sid, (m.get('summary') or '')[:150]).replace('|', '/')} | {'yes' if ok else 'NOT fully (see meta.json)'} | {', '.join(det) or '**none**'} | {note.replace('|', '/')} |")

out = []
out.append("## 9. Sensitivity: which checks catch which seeded changes\n")
out.append(f"""Eight rounds of *independent* seeding: in every round, for every property, a fresh sub-agent (round 1: variants A, B;
round 2: C, D; round 3: E, F; round 4: G, H; round 5: I, J; round 6: K, L; rounds 7 and 8, in a later session: M, N and – for eight of the properties – O, P) was given only the property's text (`tools/seed_prompt.py`) and a scratch git worktree of /repo
under /tmp – nothing from /verif, nothing about how anything is checked – and asked for two realistic changes that break the
property, still compile, and pass the existing tests, each with a demonstration.  Rounds 2–8 asked for breaks that are
"not the first thing one would think of"; rounds 3–8 additionally listed one-line descriptions of the earlier rounds' changes for
that property (the `change` column below, nothing else) so that effort went elsewhere.  Each delivery was confirmed by
`tools/seed_eval.py` on two scratch copies of /repo's HEAD (patch applies; all touched modules build; the existing tests of the
touched packages, `cmd/application` and `internal/` pass – `TestConjureLibConfigResolveBlocklisted` needs DNS and fails on the
unchanged tree too; the demonstration fails with the change and passes without) and then the quick tier of the listed
checks was run with `VERIF_REPO=<patched copy>` (never in /repo).  Kept under `seeded/<id>/` (patch.diff, demo/, meta.json
with the agent's description and my `confirmation` block including each check's output).  Nothing of this was ever applied to
/repo.

Totals: {n} seeded changes, {n_conf} fully confirmed, {n_det} detected by at least one check at the quick tier, {n_own_prop} by
the check of the property they were aimed at.  {n_missed_first} of them were missed (or caught only by another property's check,
or only through a time-out) when first evaluated; the last column says what was missing in the workload or the oracle and
what was added – in every case more observation or a wider workload, never a looser oracle.  After each strengthening the
check was re-run on the unchanged tree at several seeds before the seed was re-evaluated.{' Still undetected: ' + ', '.join(undetected) + '.' if undetected else ''}

| id | round | change | confirmed | detected by (quick) | strengthening |
|---|---|---|---|---|---|""")
out.extend(rows)
out.append("""
What the misses had in common (and what a reader should take as the limit of this family, §6): a monitor only sees what
the workload drives.  The initially missed changes needed (i) *two* cooperating inputs – a registration of an unusual but
admissible shape and then a correct first flight for it (C11-D, C04-B, C06-A); (ii) an error path that succeeds in every
ordinary run (C13-B/C11-C: IPv6 selection failing after IPv4 succeeded; C17-A/D: a write or dial that fails at a
particular moment; C06-D: the admitted address refusing); (iii) sizes or timings at an implementation boundary (C04-C: a
segment of exactly the read-buffer size; C16-D: traffic after an establishment deadline; C09-B: a buffer of capacity 0);
(iv) genuine overlap (C15-D, C18-D, C09-D, C08-C); or (v) the *real* environment instead of a scripted one (C07-D real
TCP probes, C20-B a directory that survives the kill).  Each class is now part of the fixed case lists.

Rounds 7 and 8 (56 changes, 24 missed at first) added two more classes: (vi) a *history that spans a handler's
lifetime* – the handler looks a registration up, something happens to the registry (expiry, sweep, re-registration,
refusal), and only then does the handler finish (C02-M, C10-M/N, C09-P; the stale-activation history of this class also
exposed a genuine defect, eab6a08); and (vii) *methods or inputs the scripted stand-ins did not offer* – `CloseWrite` on
the relay's connections (C17-N), `(0, nil)` reads (C05-O), client flags (C06-N), non-literal address strings (C18-O),
fresh processes (C11-M), answers larger than a datagram (C12-N, C15-M).  A stand-in narrower than the real thing is a
blind spot of exactly its missing width.
""")
out.append("### 9.1 My own mutation list\n")
out.append("""Written by the author of the checks while building them (weaker evidence than the independent seeds; kept because they
pin down the *intended* sensitivity of each oracle).  Scripts and results: `seeded/own/`.  Each compiles and passes the
touched package's own tests.

| id | property | change | detected by the quick check |
|---|---|---|---|""")
for k, v in sorted(own.items()):
    out.append(f"| {k} | {v['property']} | {v['change']} | {'yes' if v['detected_by_quick_check'] else 'no'} |")
out.append("""
The agents that built C01, C06–C08, C10–C12, C14–C16, C18–C20 kept their own mutation tables in
`drivers/<dir>/NOTES_cNN.md` (same procedure: scratch copy, `VERIF_REPO`, quick tier).
""")
text = "<!-- S9-BEGIN -->\n" + "\n".join(out) + "\n<!-- S9-END -->\n"
p = f'{V}/DESIGN.md'
s = open(p).read()
if '<!-- S9-BEGIN -->' in s:
    s = re.sub(r'<!-- S9-BEGIN -->.*<!-- S9-END -->\n', lambda _: text, s, flags=re.S)
else:
    s = s.rstrip('\n') + "\n\n---------------------------------------------------------------------------------------------------\n\n" + text
open(p, 'w').write(s)
print(f"{n} seeds, {n_conf} confirmed, {n_det} detected, undetected: {undetected}")
