#!/bin/bash
# usage: tools/mkmut.sh <seed-id>  -> prints the path of a scratch copy of /repo HEAD with seeded/<id>/patch.diff applied
id=$1; d=$(mktemp -d /tmp/mut-$id-XXXX)
git -C /repo archive HEAD | tar -x -C $d && (cd $d && git apply --whitespace=nowarn /verif/seeded/$id/patch.diff) && echo $d
