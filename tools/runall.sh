#!/bin/bash
# usage: tools/runall.sh [tier] [seed] [parallel] [ids...]   -> runs the checks, one log per check in work/runall/
tier=${1:-quick}; seed=${2:-1}; par=${3:-4}; shift 3 2>/dev/null
here=$(cd "$(dirname "$0")/.." && pwd)
cd "$here"
export VERIF_DIR="$here"
ids="$@"
[ -z "$ids" ] && ids=$(python3 -c "import json;print(' '.join(c['property_id'] for c in json.load(open('MANIFEST.json'))['checks']))")
mkdir -p work/runall
export GOFLAGS=-mod=mod GOWORK=off GOPROXY=off GOSUMDB=off GOTOOLCHAIN=local
[ -x bin/vcheck ] || go build -o bin/vcheck ./cmd/vcheck || exit 2
printf '%s\n' $ids | xargs -P $par -I{} sh -c "s=\$(date +%s); bin/vcheck {} --tier $tier --seed $seed $VERIF_RUNALL_EXTRA > work/runall/{}.$tier.s$seed.log 2>&1; rc=\$?; e=\$(date +%s); echo \"{} rc=\$rc \$((e-s))s \$(grep -c '^VIOLATION' work/runall/{}.$tier.s$seed.log) viol \$(grep -c '^KNOWN-FINDING' work/runall/{}.$tier.s$seed.log) known \$(grep -c '^INCONCLUSIVE' work/runall/{}.$tier.s$seed.log) incon\"; grep -E '^(VIOLATION|ERROR|  signature)' work/runall/{}.$tier.s$seed.log | cut -c1-220 | head -8"
