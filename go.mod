module verif

go 1.22

require github.com/anishathalye/porcupine v1.3.0
