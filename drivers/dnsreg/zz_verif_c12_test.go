//go:build verif

package dnsregserver

// C12 at the DNS layer – "told the client ⇒ told the stations".  The real DNSRegServer.processRequest
// sits on a real RegProcessor (real constructors, subnet overrides armed, nested exclusions) whose ZMQ
// socket is a recorder with per-request fault plans (ETERM / EINVAL / EAGAIN / EINTR / ...; always, once,
// k times, short count).  Oracle: a DnsResponse with success=true requires that the socket ACCEPTED a
// message (a failed send does not count), and for a bidirectional request that bidirectional_response
// equals the response carried in the accepted message; when every send fails success must not be true.

import (
	"bytes"
	"crypto/ed25519"
	"errors"
	"fmt"
	"io"
	"math/rand"
	"os"
	"syscall"
	"testing"
	"time"

	zmq "github.com/pebbe/zmq4"
	logrus "github.com/sirupsen/logrus"
	"google.golang.org/protobuf/proto"
	"google.golang.org/protobuf/types/known/anypb"

	"github.com/refraction-networking/conjure/internal/conjurepath"
	kit "github.com/refraction-networking/conjure/internal/verifkit"
	"github.com/refraction-networking/conjure/pkg/metrics"
	"github.com/refraction-networking/conjure/pkg/regserver/regprocessor"
	"github.com/refraction-networking/conjure/pkg/station/lib"
	"github.com/refraction-networking/conjure/pkg/transports/wrapping/min"
	"github.com/refraction-networking/conjure/pkg/transports/wrapping/obfs4"
	"github.com/refraction-networking/conjure/pkg/transports/wrapping/prefix"
	pb "github.com/refraction-networking/conjure/proto"
)

type verifC12Plan struct {
	Pattern, Errno string
	err            error
	failN          int
	short          bool
}

func (p verifC12Plan) class() string {
	if p.Errno == "EAGAIN" || p.Errno == "EINTR" {
		return "transient-error"
	}
	return "final-error"
}

var verifC12Errnos = []struct {
	name string
	err  error
}{
	{"ETERM", zmq.ETERM}, {"EINVAL", zmq.Errno(syscall.EINVAL)}, {"EAGAIN", zmq.Errno(syscall.EAGAIN)}, {"EINTR", zmq.Errno(syscall.EINTR)},
	{"EHOSTUNREACH", zmq.Errno(syscall.EHOSTUNREACH)}, {"generic", errors.New("send refused")},
}

func verifC12RandPlan(r *rand.Rand) verifC12Plan {
	if r.Intn(2) == 0 {
		return verifC12Plan{}
	}
	e := verifC12Errnos[r.Intn(len(verifC12Errnos))]
	p := verifC12Plan{Errno: e.name, err: e.err}
	switch x := r.Intn(20); {
	case x < 9:
		p.Pattern, p.failN = "always", -1
	case x < 13:
		p.Pattern, p.failN = "once", 1
	case x < 17:
		p.failN = []int{2, 3, 5}[r.Intn(3)]
		p.Pattern = fmt.Sprintf("k%d", p.failN)
	default:
		p.Pattern, p.Errno, p.err, p.short = "short", "none", nil, true
	}
	return p
}

// verifC12Sender: msgs holds only what the socket accepted.
type verifC12Sender struct {
	msgs             [][]byte
	plan             verifC12Plan
	attempts, failed int
}

func (s *verifC12Sender) reset(p verifC12Plan) { s.msgs, s.plan, s.attempts, s.failed = nil, p, 0, 0 }
func (s *verifC12Sender) SendBytes(b []byte, _ zmq.Flag) (int, error) {
	s.attempts++
	if s.plan.Pattern != "" && !s.plan.short && (s.plan.failN < 0 || s.attempts <= s.plan.failN) {
		s.failed++
		return -1, s.plan.err
	}
	s.msgs = append(s.msgs, append([]byte(nil), b...))
	if s.plan.short {
		return len(b) / 2, nil
	}
	return len(b), nil
}
func (s *verifC12Sender) Close() error { return nil }

func verifC12Subnet(cidr string, w float64, port uint32, tr string, id int) regprocessor.Subnet {
	var n regprocessor.Ipnet
	if err := n.UnmarshalText([]byte(cidr)); err != nil {
		panic(err)
	}
	return regprocessor.Subnet{CIDR: n, Weight: w, Port: port, Transport: tr, PrefixId: prefix.PrefixID(id)}
}

func verifC12RespDiff(a, b *pb.RegistrationResponse) string {
	switch {
	case a.GetIpv4Addr() != b.GetIpv4Addr():
		return "ipv4"
	case !bytes.Equal(a.GetIpv6Addr(), b.GetIpv6Addr()):
		return "ipv6"
	case a.GetDstPort() != b.GetDstPort() || (a != nil && a.DstPort != nil) != (b != nil && b.DstPort != nil):
		return "dst_port"
	case !proto.Equal(a.GetTransportParams(), b.GetTransportParams()):
		return "transport_params"
	}
	return ""
}

func TestVerifC12DNS(t *testing.T) {
	rec := kit.NewRec("C12", "dns-layer")
	defer rec.Close()
	r := kit.Rand("c12-dns")
	os.Setenv("PHANTOM_SUBNET_LOCATION", conjurepath.Root+"/pkg/station/lib/test/phantom_subnets.toml")
	lg := logrus.New()
	lg.SetOutput(io.Discard)
	met := metrics.NewMetrics(logrus.NewEntry(lg), 24*time.Hour)

	overrides := []regprocessor.Subnet{
		verifC12Subnet("10.1.1.0/24", 1, 443, "Min_Transport", 0), verifC12Subnet("10.1.2.0/28", 2, 443, "Min_Transport", 0),
		verifC12Subnet("10.2.1.0/24", 1, 80, "Prefix_Transport", 1), verifC12Subnet("10.2.2.0/30", 1.5, 22, "Prefix_Transport", 9),
	}
	exclusions := []regprocessor.Subnet{
		verifC12Subnet("192.122.190.64/26", 1, 80, "Min_Transport", 0), verifC12Subnet("192.122.190.0/24", 1, 80, "Min_Transport", 0),
	}

	n := kit.Tier(1500, 20000)
	for _, auth := range []bool{false, true} {
		var rp *regprocessor.RegProcessor
		var err error
		if auth {
			seed := make([]byte, ed25519.SeedSize)
			r.Read(seed)
			rp, err = regprocessor.NewRegProcessor("127.0.0.1", 0, ed25519.NewKeyFromSeed(seed), false, nil, met, true, overrides, exclusions, 100, 100)
		} else {
			rp, err = regprocessor.NewRegProcessorNoAuth("127.0.0.1", 0, met, true, overrides, exclusions, 100, 100)
		}
		if err != nil {
			t.Fatalf("cannot build the registrar (infrastructure): %v", err)
		}
		snd := &verifC12Sender{}
		rp.VerifC11SetSender(snd)
		for tt, tr := range map[pb.TransportType]lib.Transport{pb.TransportType_Min: min.Transport{}, pb.TransportType_Obfs4: obfs4.Transport{}, pb.TransportType_Prefix: prefix.DefaultSet()} {
			if err := rp.AddTransport(tt, tr); err != nil {
				t.Fatal(err)
			}
		}
		// processRequest does not touch the responder: the server is assembled without binding a UDP socket
		s := &DNSRegServer{processor: rp, latestCCGen: 957, logger: lg.WithField("registrar", "DNS"), metrics: met}

		for i := 0; i < n; i++ {
			tt := []pb.TransportType{pb.TransportType_Min, pb.TransportType_Obfs4, pb.TransportType_Prefix}[r.Intn(3)]
			c2s := &pb.ClientToStation{Transport: &tt, ClientLibVersion: proto.Uint32(uint32(3 + r.Intn(2))), DecoyListGeneration: proto.Uint32([]uint32{1, 2, 957}[r.Intn(3)]),
				V4Support: proto.Bool(r.Intn(5) != 0), V6Support: proto.Bool(r.Intn(2) == 0), CovertAddress: proto.String("192.0.2.1:443")}
			if tt == pb.TransportType_Prefix {
				c2s.TransportParams, _ = anypb.New(&pb.PrefixTransportParams{PrefixId: proto.Int32(int32(r.Intn(10))), RandomizeDstPort: proto.Bool(r.Intn(2) == 0)})
			} else if r.Intn(2) == 0 {
				c2s.TransportParams, _ = anypb.New(&pb.GenericTransportParams{RandomizeDstPort: proto.Bool(r.Intn(2) == 0)})
			}
			if r.Intn(5) == 0 {
				c2s.DisableRegistrarOverrides = proto.Bool(true)
			}
			w := &pb.C2SWrapper{RegistrationPayload: c2s, SharedSecret: make([]byte, 32)}
			r.Read(w.SharedSecret)
			bd := r.Intn(4) != 0
			src := pb.RegistrationSource_DNS
			if bd {
				src = pb.RegistrationSource_BidirectionalDNS
			}
			w.RegistrationSource = &src
			if r.Intn(3) == 0 { // forged registrar-only fields
				w.RegistrationResponse = &pb.RegistrationResponse{Ipv4Addr: proto.Uint32(0x0b0b0b0b), DstPort: proto.Uint32(1)}
				w.RegRespBytes = []byte{0x18, 0x50}
				w.RegRespSignature = bytes.Repeat([]byte{1}, 64)
			}
			body, _ := proto.Marshal(w)
			kind := "unidirectional"
			if bd {
				kind = "bidirectional"
			}
			plan := verifC12RandPlan(r)
			rec.CaseCheap(map[string]interface{}{"kind": kind, "auth": auth, "transport": tt.String(), "fault": plan.Errno + "/" + plan.Pattern, "wrapper_hex": kit.Hex(body)})
			snd.reset(plan)

			out, perr := s.processRequest(body)
			rec.Count("evaluations", 1)
			if plan.Pattern != "" {
				rec.Count("send_fault_cases", 1)
			}
			dr := &pb.DnsResponse{}
			told := perr == nil && out != nil && proto.Unmarshal(out, dr) == nil && dr.GetSuccess()
			rec.Count(fmt.Sprintf("success_%t", told), 1)
			rec.Distinct("nontrivial", kind, auth, tt, plan.Errno, plan.Pattern, told, len(snd.msgs))
			if !told {
				continue
			}
			if len(snd.msgs) == 0 {
				sig := "dns:told-client-but-no-message-accepted:" + kind
				if plan.Pattern != "" {
					sig += ":" + plan.class()
				}
				rec.Violation(sig, "the DNS registrar answered success=true although the socket accepted no message for the stations",
					map[string]interface{}{"send_attempts": snd.attempts, "failed_attempts": snd.failed, "fault": plan.Errno + "/" + plan.Pattern})
				continue
			}
			for _, b := range snd.msgs {
				fw := &pb.C2SWrapper{}
				if err := proto.Unmarshal(b, fw); err != nil {
					rec.Violation("dns:forwarded-bytes-unparsable", "the accepted message is not a C2SWrapper", err.Error())
					continue
				}
				if !bd {
					if fw.RegistrationResponse != nil || len(fw.RegRespBytes) > 0 || len(fw.RegRespSignature) > 0 {
						rec.Violation("dns:forged-fields-survive:unidirectional", "registrar-only fields in a forwarded unidirectional registration", nil)
					}
					continue
				}
				if d := verifC12RespDiff(dr.GetBidirectionalResponse(), fw.GetRegistrationResponse()); d != "" || fw.RegistrationResponse == nil || dr.BidirectionalResponse == nil {
					rec.Violation("dns:returned-vs-forwarded:"+d, "bidirectional_response differs from the response carried in the accepted message in "+d,
						map[string]string{"told": dr.GetBidirectionalResponse().String(), "forwarded": fw.GetRegistrationResponse().String()})
				}
				if c2s.GetDisableRegistrarOverrides() && dr.GetBidirectionalResponse().GetTransportParams() != nil {
					rec.Violation("dns:overrides-though-disabled", "transport parameters sent to a client that disabled overrides", dr.GetBidirectionalResponse().String())
				}
			}
		}
		if auth {
			zmq.AuthStop()
		}
	}
}
