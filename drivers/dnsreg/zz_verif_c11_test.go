//go:build verif

package dnsregserver

// C11 – entry point (4): DNSRegServer.processRequest behind the real Responder.RecvAndRespond on a
// loopback UDP socket, in front of a real RegProcessor (authenticated constructor, the registration
// server's four transports, recorder instead of the ZMQ socket).
//
// Each input is the plaintext a client puts into the Noise-encrypted DNS request (≤ ~90 bytes fit
// into one DNS name).  It is first handed to processRequest directly under recover (a panic there is
// reported with the input and the input is NOT sent: in the real path the panic would be in an
// unrecovered goroutine and end the run); every other input is encrypted with the real Noise
// configuration, framed, base32-packed into a query for the server's domain and sent over UDP.
// Requests the server cannot decode get no answer by design, so the monitor does not wait per
// request: after every 32 datagrams on a socket it sends a well-formed registration ("ping") and
// waits for its answer, which shows that everything sent before has been read; at the end it waits
// until no request goroutine is left.  Oracle: process survival (+ recovered panics of the direct call).

import (
	"bytes"
	"crypto/ed25519"
	"encoding/base32"
	"fmt"
	"io"
	golog "log"
	"math/rand"
	"net"
	"os"
	"runtime"
	"sync"
	"sync/atomic"
	"testing"
	"time"

	"github.com/flynn/noise"
	zmq "github.com/pebbe/zmq4"
	logrus "github.com/sirupsen/logrus"
	"google.golang.org/protobuf/proto"

	"github.com/refraction-networking/conjure/internal/conjurepath"
	kit "github.com/refraction-networking/conjure/internal/verifkit"
	"github.com/refraction-networking/conjure/pkg/metrics"
	"github.com/refraction-networking/conjure/pkg/registrars/dns-registrar/dns"
	"github.com/refraction-networking/conjure/pkg/registrars/dns-registrar/encryption"
	"github.com/refraction-networking/conjure/pkg/registrars/dns-registrar/msgformat"
	"github.com/refraction-networking/conjure/pkg/regserver/regprocessor"
	"github.com/refraction-networking/conjure/pkg/station/lib"
	"github.com/refraction-networking/conjure/pkg/transports/connecting/dtls"
	"github.com/refraction-networking/conjure/pkg/transports/wrapping/min"
	"github.com/refraction-networking/conjure/pkg/transports/wrapping/obfs4"
	"github.com/refraction-networking/conjure/pkg/transports/wrapping/prefix"
	pb "github.com/refraction-networking/conjure/proto"
)

const verifC11DNSEntry = "dnsregserver.processRequest"
const verifC11Domain = "r.example.com"

type verifC11Sender struct{ n atomic.Int64 }

func (s *verifC11Sender) SendBytes(b []byte, _ zmq.Flag) (int, error) { s.n.Add(1); return len(b), nil }
func (s *verifC11Sender) Close() error                                { return nil }

type verifC11DNS struct {
	s       *DNSRegServer
	addr    *net.UDPAddr
	pubkey  []byte
	domain  dns.Name
	snd     *verifC11Sender
	rec     *kit.Rec
	pool    chan *verifC11Sock
	ping    []byte
	sent    atomic.Int64
	pings   atomic.Int64
	answers atomic.Int64
	tooLong atomic.Int64
	serveEr chan error

	dead       atomic.Bool // a control registration stayed unanswered: stop sending
	controlsOK atomic.Int64
}

type verifC11Sock struct {
	c     *net.UDPConn
	since int
}

func verifC11DNSSetup(t testing.TB, listen bool) *verifC11DNS {
	os.Setenv("PHANTOM_SUBNET_LOCATION", conjurepath.Root+"/pkg/station/lib/test/phantom_subnets.toml")
	golog.SetOutput(io.Discard) // the responder reports dropped datagrams on the standard logger
	lg := logrus.New()
	lg.SetOutput(io.Discard)
	lg.SetLevel(logrus.TraceLevel)
	met := metrics.NewMetrics(logrus.NewEntry(lg), 24*time.Hour)
	seed := make([]byte, ed25519.SeedSize)
	kit.Rand("c11-registrar-key").Read(seed)
	rp, err := regprocessor.NewRegProcessor("127.0.0.1", 0, ed25519.NewKeyFromSeed(seed), false, nil, met, false, nil, nil, 50, 50)
	if err != nil {
		t.Fatalf("cannot build the registrar (infrastructure): %v", err)
	}
	h := &verifC11DNS{snd: &verifC11Sender{}, serveEr: make(chan error, 1), pool: make(chan *verifC11Sock, 64)}
	rp.VerifC11SetSender(h.snd)
	for tt, tr := range map[pb.TransportType]lib.Transport{ // cmd/registration-server/main.go defaultTransports
		pb.TransportType_Min: min.Transport{}, pb.TransportType_Obfs4: obfs4.Transport{}, pb.TransportType_Prefix: prefix.DefaultSet(), pb.TransportType_DTLS: dtls.Transport{},
	} {
		if err := rp.AddTransport(tt, tr); err != nil {
			t.Fatal(err)
		}
	}
	priv := make([]byte, 32)
	kit.Rand("c11-dns-key").Read(priv)
	h.pubkey = encryption.PubkeyFromPrivkey(priv)
	h.domain, err = dns.ParseName(verifC11Domain)
	if err != nil {
		t.Fatal(err)
	}
	h.s, err = NewDNSRegServer(verifC11Domain, "127.0.0.1:0", priv, rp, 957, lg.WithField("registrar", "DNS"), met)
	if err != nil {
		t.Fatalf("cannot build the DNS registrar (infrastructure): %v", err)
	}
	src := pb.RegistrationSource_DNS
	h.ping, _ = proto.Marshal(&pb.C2SWrapper{SharedSecret: bytes.Repeat([]byte{7}, 32), RegistrationSource: &src,
		RegistrationPayload: &pb.ClientToStation{Transport: pb.TransportType_Min.Enum(), ClientLibVersion: proto.Uint32(4), DecoyListGeneration: proto.Uint32(957), V4Support: proto.Bool(true)}})
	if listen {
		h.addr = h.s.dnsResponder.VerifC11LocalAddr().(*net.UDPAddr)
		go func() { h.serveEr <- h.s.ListenAndServe() }()
	}
	return h
}

var verifC11B32 = base32.StdEncoding.WithPadding(base32.NoPadding)

// verifQuery builds the datagram a real requester would send for plaintext p (nil if it does not fit a name).
func (h *verifC11DNS) verifQuery(p []byte, id uint16) []byte {
	cfg := encryption.NewConfig()
	cfg.Initiator = true
	cfg.PeerStatic = h.pubkey
	hs, err := noise.NewHandshakeState(cfg)
	if err != nil {
		panic("verif infrastructure: noise: " + err.Error())
	}
	msg, _, _, err := hs.WriteMessage(nil, p)
	if err != nil {
		panic("verif infrastructure: noise: " + err.Error())
	}
	if len(msg) > 255 {
		return nil // AddRequestFormat would truncate the length octet: such a request cannot be sent (C15's subject)
	}
	msg, _ = msgformat.AddRequestFormat(msg)
	enc := make([]byte, verifC11B32.EncodedLen(len(msg)))
	verifC11B32.Encode(enc, msg)
	enc = bytes.ToLower(enc)
	var labels [][]byte
	for len(enc) > 0 {
		n := len(enc)
		if n > 63 {
			n = 63
		}
		labels = append(labels, enc[:n])
		enc = enc[n:]
	}
	labels = append(labels, h.domain...)
	name, err := dns.NewName(labels)
	if err != nil {
		return nil
	}
	q := &dns.Message{ID: id, Flags: 0x0100, Question: []dns.Question{{Name: name, Type: dns.RRTypeTXT, Class: dns.ClassIN}},
		Additional: []dns.RR{{Name: dns.Name{}, Type: dns.RRTypeOPT, Class: 4096, TTL: 0, Data: []byte{}}}}
	b, err := q.WireFormat()
	if err != nil {
		return nil
	}
	return b
}

func (h *verifC11DNS) verifControlOn(c *net.UDPConn, id uint16, wait time.Duration) bool {
	q := h.verifQuery(h.ping, id)
	if q == nil {
		panic("verif infrastructure: the ping registration does not fit a DNS name")
	}
	c.Write(q)
	h.pings.Add(1)
	c.SetReadDeadline(time.Now().Add(wait))
	buf := make([]byte, 4096)
	for {
		n, err := c.Read(buf)
		if err != nil {
			return false
		}
		h.answers.Add(1)
		if n >= 2 && buf[0] == byte(id>>8) && buf[1] == byte(id) {
			return true
		}
	}
}

// verifPing is the CONTROL exchange: a well-formed registration, which a healthy DNS registrar answers.
// Unanswered => retried twice on fresh sockets => the stacks decide: the responder's receive loop
// parked in a channel operation / select / lock instead of its socket read on three scans = hang
// (violation with the stack), anything else = inconclusive.  Either way the run stops sending.
func (h *verifC11DNS) verifPing(s *verifC11Sock) bool {
	if h.dead.Load() {
		return false
	}
	if h.verifControlOn(s.c, 0xf000, 10*time.Second) {
		h.controlsOK.Add(1)
		return true
	}
	for try := 1; try <= 2; try++ {
		uc, err := net.DialUDP("udp", nil, h.addr)
		if err != nil {
			panic(fmt.Sprintf("verif infrastructure: %v", err))
		}
		ok := h.verifControlOn(uc, uint16(0xf000+try), 10*time.Second)
		uc.Close()
		if ok {
			h.controlsOK.Add(1)
			h.rec.Count("controls_answered_only_on_retry", 1)
			return true
		}
	}
	if !h.dead.CompareAndSwap(false, true) {
		return false
	}
	blocked, found, state, stack := kit.C11LoopBlocked("responder.(*Responder).RecvAndRespond", "RecvAndRespond.func")
	d := map[string]interface{}{"receive_loop_found": found, "receive_loop_state": state, "receive_loop_stack": stack,
		"request_goroutines_alive": len(kit.InFunc(kit.Stacks(), "RecvAndRespond.func1")), "datagrams_sent_so_far": h.sent.Load(), "controls_answered_so_far": h.controlsOK.Load()}
	if found && blocked {
		h.rec.Violation("hang:dns-registrar:receive-loop-blocked", "a well-formed control registration got no answer (3 attempts, 2 on fresh sockets): the DNS registrar's receive loop is parked in ["+state+
			"], not in its socket read – it will never answer a request again", d)
	} else {
		h.rec.Inconclusive("a well-formed control registration got no answer (3 attempts) but the receive loop is not stably parked outside its socket read", d)
	}
	return false
}

// verifAlive: the one DNS registrar of this run is fed bursts (300, 1 000, 5 000; one socket and four
// at once) of requests of each class that it drops without an answer – plaintext that is not a
// C2SWrapper, the QR bit set, not a Noise message – and of the answered classes, each burst in chunks
// that fit the socket buffer with a CONTROL registration after every chunk and at the end.
func (h *verifC11DNS) verifAlive() {
	type junk struct {
		name string
		gen  func(r *rand.Rand) []byte
	}
	classes := []junk{
		{"plaintext-not-a-wrapper(dropped)", func(r *rand.Rand) []byte {
			p := make([]byte, 1+r.Intn(40))
			r.Read(p)
			p[0] = 0xff // an invalid protobuf tag
			return h.verifQuery(p, uint16(r.Intn(0x7fff)))
		}},
		{"qr-bit-set(no answer)", func(r *rand.Rand) []byte {
			q := h.verifQuery(h.ping, uint16(r.Intn(0x7fff)))
			q[2] |= 0x80
			return q
		}},
		{"not-a-noise-message(dropped)", func(r *rand.Rand) []byte {
			q := h.verifQuery(h.ping, uint16(r.Intn(0x7fff)))
			q[20] ^= 0x01 // one base32 character of the encrypted request
			if q[20] < 'a' || q[20] > 'z' {
				q[20] = 'b'
			}
			return q
		}},
		{"registration-refused(answered)", func(r *rand.Rand) []byte {
			return h.verifQuery([]byte{0x0a, 0x02, 1, 2}, uint16(r.Intn(0x7fff))) // a 2-byte secret
		}},
		{"valid-registration(answered)", func(r *rand.Rand) []byte { return h.verifQuery(h.ping, uint16(r.Intn(0x7fff))) }},
	}
	classes = append(classes, junk{"mixed", func(r *rand.Rand) []byte { return classes[r.Intn(5)].gen(r) }})
	for _, jc := range classes {
		for _, sz := range []struct{ n, sockets int }{{300, 1}, {1000, 1}, {5000, 4}} {
			h.rec.Case(map[string]interface{}{"alive_after_junk": fmt.Sprintf("%d x %s from %d socket(s)", sz.n, jc.name, sz.sockets)})
			var wg sync.WaitGroup
			for k := 0; k < sz.sockets; k++ {
				wg.Add(1)
				go func(k int) {
					defer wg.Done()
					r := kit.Rand(fmt.Sprintf("c11-dnsreg-alive/%s/%d/%d", jc.name, sz.n, k))
					uc, err := net.DialUDP("udp", nil, h.addr)
					if err != nil {
						panic(fmt.Sprintf("verif infrastructure: %v", err))
					}
					defer uc.Close()
					s := &verifC11Sock{c: uc}
					for i, in := k, 0; i < sz.n && !h.dead.Load(); i += sz.sockets {
						if q := jc.gen(r); q != nil {
							uc.Write(q)
							h.sent.Add(1)
							h.rec.Count("junk_sent["+jc.name+"]", 1)
						}
						if in++; in >= 100/sz.sockets+8 {
							in = 0
							h.verifPing(s)
						}
					}
					h.verifPing(s)
				}(k)
			}
			wg.Wait()
			h.rec.Count("evaluations", sz.n)
			h.rec.Distinct("nontrivial", "alive-after-junk", jc.name, sz.n, sz.sockets)
			if h.dead.Load() {
				return
			}
		}
	}
	if n := runtime.NumGoroutine(); n > 10000 {
		stable, parked, sample := kit.C11Lingering("RecvAndRespond.func1")
		d := map[string]interface{}{"request_goroutines_lingering": stable, "of_them_parked": parked, "sample_stack": sample}
		if stable > 10000 && parked > 10000 {
			h.rec.Violation("resource:goroutines-leaked:dns-registrar", fmt.Sprintf("%d request goroutines linger, parked, after the bursts have settled (three scans)", parked), d)
		} else {
			h.rec.Inconclusive("many goroutines after the bursts, but not stably parked request goroutines", d)
		}
	}
}

func (h *verifC11DNS) verifExec(c *kit.C11Case) string {
	// (a) the plain function call, under the runner's recover
	resp, err := h.s.processRequest(c.In)
	out := "answered"
	if err != nil {
		out = "refused-without-answer"
	} else {
		d := &pb.DnsResponse{}
		if proto.Unmarshal(resp, d) == nil && d.GetSuccess() {
			out = "registered"
		}
	}
	if h.addr == nil {
		return out
	}
	// (b) the real path
	q := h.verifQuery(c.In, uint16(h.sent.Load())&0x7fff)
	if q == nil {
		h.tooLong.Add(1)
		return out + "/direct-only(too long for one DNS name)"
	}
	if h.dead.Load() {
		return out + "/not-sent(registrar no longer answers)"
	}
	var s *verifC11Sock
	select {
	case s = <-h.pool:
	default:
		uc, err := net.DialUDP("udp", nil, h.addr)
		if err != nil {
			panic(fmt.Sprintf("verif infrastructure: %v", err))
		}
		s = &verifC11Sock{c: uc}
	}
	s.c.Write(q)
	h.sent.Add(1)
	s.since++
	if s.since >= 32 {
		s.since = 0
		h.verifPing(s) // decides itself (violation / inconclusive) when the control is not answered
	}
	select {
	case h.pool <- s:
	default:
		s.c.Close()
	}
	return out + "/sent"
}

func verifC11DNSGen(r *rand.Rand, idx int) kit.C11Case { return kit.C11WrapperInput(r, true) }

func TestVerifC11DNS(t *testing.T) {
	rec := kit.NewRec("C11", "registrar-dns")
	defer rec.Close()
	h := verifC11DNSSetup(t, true)
	h.rec = rec
	h.verifAlive() // ONE registrar for the whole run: still answering after bursts of junk?
	kit.C11Drive(rec, kit.C11Entry{Name: verifC11DNSEntry, N: kit.Tier(40000, 500000), Workers: 4, Budget: 120 * time.Second,
		Gen: verifC11DNSGen, Exec: h.verifExec, SampleEvery: 5000})
	// everything that was sent must have been read and fully processed before the verdict "survived"
	if !h.dead.Load() {
		uc, err := net.DialUDP("udp", nil, h.addr)
		if err != nil {
			t.Fatal(err)
		}
		h.verifPing(&verifC11Sock{c: uc})
		if left := kit.WaitNoGoroutineIn(60*time.Second, "RecvAndRespond.func1"); left != nil {
			rec.Inconclusive("request goroutines of the responder still running 60 s after the last datagram", map[string]interface{}{"count": len(left), "first": left[0].Raw})
		}
	}
	select {
	case err := <-h.serveEr:
		rec.Violation("dns-server-stopped:"+verifC11DNSEntry, "ListenAndServe returned while requests were being sent: the DNS registrar stopped serving", fmt.Sprint(err))
	default:
	}
	rec.Count("datagrams_sent", int(h.sent.Load()))
	rec.Count("pings_sent", int(h.pings.Load()))
	rec.Count("controls_answered", int(h.controlsOK.Load()))
	rec.Count("answers_received", int(h.answers.Load()))
	rec.Count("inputs_too_long_for_one_dns_name", int(h.tooLong.Load()))
	rec.Count("messages_handed_to_zmq", int(h.snd.n.Load()))
}

func FuzzVerifC11DNS(f *testing.F) {
	h := verifC11DNSSetup(f, false)
	for _, s := range kit.C11Seeds(verifC11DNSEntry, 300, verifC11DNSGen) {
		f.Add(s)
	}
	f.Fuzz(func(t *testing.T, b []byte) {
		c := &kit.C11Case{In: b, Kind: "fuzz"}
		if p := kit.C11FuzzOne(verifC11DNSEntry, b, func() { h.verifExec(c) }); p != nil && os.Getenv("VERIF_C11_FUZZ_OUT") == "" {
			t.Fatalf("panic in %s: %s\n%v", p.Frame, p.Val, p.Stack)
		}
	})
}
