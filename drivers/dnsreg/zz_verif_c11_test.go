//go:build verif

package dnsregserver

// C11 – entry point (4): DNSRegServer.processRequest behind the real Responder.RecvAndRespond on a
// loopback UDP socket, in front of a real RegProcessor (authenticated constructor, the registration
// server's four transports, recorder instead of the ZMQ socket).
//
// Each input is the plaintext a client puts into the Noise-encrypted DNS request (≤ ~90 bytes fit
// into one DNS name).  It is first handed to processRequest directly under recover (a panic there is
// reported with the input and the input is NOT sent: in the real path the panic would be in an
// unrecovered goroutine and end the run); every other input is encrypted with the real Noise
// configuration, framed, base32-packed into a query for the server's domain and sent over UDP.
// Requests the server cannot decode get no answer by design, so the monitor does not wait per
// request: after every 32 datagrams on a socket it sends a well-formed registration ("ping") and
// waits for its answer, which shows that everything sent before has been read; at the end it waits
// until no request goroutine is left.  Oracle: process survival (+ recovered panics of the direct call).

import (
	"bytes"
	"crypto/ed25519"
	"encoding/base32"
	"fmt"
	"io"
	golog "log"
	"math/rand"
	"net"
	"os"
	"sync/atomic"
	"testing"
	"time"

	"github.com/flynn/noise"
	zmq "github.com/pebbe/zmq4"
	logrus "github.com/sirupsen/logrus"
	"google.golang.org/protobuf/proto"

	"github.com/refraction-networking/conjure/internal/conjurepath"
	kit "github.com/refraction-networking/conjure/internal/verifkit"
	"github.com/refraction-networking/conjure/pkg/metrics"
	"github.com/refraction-networking/conjure/pkg/registrars/dns-registrar/dns"
	"github.com/refraction-networking/conjure/pkg/registrars/dns-registrar/encryption"
	"github.com/refraction-networking/conjure/pkg/registrars/dns-registrar/msgformat"
	"github.com/refraction-networking/conjure/pkg/regserver/regprocessor"
	"github.com/refraction-networking/conjure/pkg/station/lib"
	"github.com/refraction-networking/conjure/pkg/transports/connecting/dtls"
	"github.com/refraction-networking/conjure/pkg/transports/wrapping/min"
	"github.com/refraction-networking/conjure/pkg/transports/wrapping/obfs4"
	"github.com/refraction-networking/conjure/pkg/transports/wrapping/prefix"
	pb "github.com/refraction-networking/conjure/proto"
)

const verifC11DNSEntry = "dnsregserver.processRequest"
const verifC11Domain = "r.example.com"

type verifC11Sender struct{ n atomic.Int64 }

func (s *verifC11Sender) SendBytes(b []byte, _ zmq.Flag) (int, error) { s.n.Add(1); return len(b), nil }
func (s *verifC11Sender) Close() error                                { return nil }

type verifC11DNS struct {
	s       *DNSRegServer
	addr    *net.UDPAddr
	pubkey  []byte
	domain  dns.Name
	snd     *verifC11Sender
	rec     *kit.Rec
	pool    chan *verifC11Sock
	ping    []byte
	sent    atomic.Int64
	pings   atomic.Int64
	answers atomic.Int64
	tooLong atomic.Int64
	serveEr chan error
}

type verifC11Sock struct {
	c     *net.UDPConn
	since int
}

func verifC11DNSSetup(t testing.TB, listen bool) *verifC11DNS {
	os.Setenv("PHANTOM_SUBNET_LOCATION", conjurepath.Root+"/pkg/station/lib/test/phantom_subnets.toml")
	golog.SetOutput(io.Discard) // the responder reports dropped datagrams on the standard logger
	lg := logrus.New()
	lg.SetOutput(io.Discard)
	lg.SetLevel(logrus.TraceLevel)
	met := metrics.NewMetrics(logrus.NewEntry(lg), 24*time.Hour)
	seed := make([]byte, ed25519.SeedSize)
	kit.Rand("c11-registrar-key").Read(seed)
	rp, err := regprocessor.NewRegProcessor("127.0.0.1", 0, ed25519.NewKeyFromSeed(seed), false, nil, met, false, nil, nil, 50, 50)
	if err != nil {
		t.Fatalf("cannot build the registrar (infrastructure): %v", err)
	}
	h := &verifC11DNS{snd: &verifC11Sender{}, serveEr: make(chan error, 1), pool: make(chan *verifC11Sock, 64)}
	rp.VerifC11SetSender(h.snd)
	for tt, tr := range map[pb.TransportType]lib.Transport{ // cmd/registration-server/main.go defaultTransports
		pb.TransportType_Min: min.Transport{}, pb.TransportType_Obfs4: obfs4.Transport{}, pb.TransportType_Prefix: prefix.DefaultSet(), pb.TransportType_DTLS: dtls.Transport{},
	} {
		if err := rp.AddTransport(tt, tr); err != nil {
			t.Fatal(err)
		}
	}
	priv := make([]byte, 32)
	kit.Rand("c11-dns-key").Read(priv)
	h.pubkey = encryption.PubkeyFromPrivkey(priv)
	h.domain, err = dns.ParseName(verifC11Domain)
	if err != nil {
		t.Fatal(err)
	}
	h.s, err = NewDNSRegServer(verifC11Domain, "127.0.0.1:0", priv, rp, 957, lg.WithField("registrar", "DNS"), met)
	if err != nil {
		t.Fatalf("cannot build the DNS registrar (infrastructure): %v", err)
	}
	src := pb.RegistrationSource_DNS
	h.ping, _ = proto.Marshal(&pb.C2SWrapper{SharedSecret: bytes.Repeat([]byte{7}, 32), RegistrationSource: &src,
		RegistrationPayload: &pb.ClientToStation{Transport: pb.TransportType_Min.Enum(), ClientLibVersion: proto.Uint32(4), DecoyListGeneration: proto.Uint32(957), V4Support: proto.Bool(true)}})
	if listen {
		h.addr = h.s.dnsResponder.VerifC11LocalAddr().(*net.UDPAddr)
		go func() { h.serveEr <- h.s.ListenAndServe() }()
	}
	return h
}

var verifC11B32 = base32.StdEncoding.WithPadding(base32.NoPadding)

// verifQuery builds the datagram a real requester would send for plaintext p (nil if it does not fit a name).
func (h *verifC11DNS) verifQuery(p []byte, id uint16) []byte {
	cfg := encryption.NewConfig()
	cfg.Initiator = true
	cfg.PeerStatic = h.pubkey
	hs, err := noise.NewHandshakeState(cfg)
	if err != nil {
		panic("verif infrastructure: noise: " + err.Error())
	}
	msg, _, _, err := hs.WriteMessage(nil, p)
	if err != nil {
		panic("verif infrastructure: noise: " + err.Error())
	}
	if len(msg) > 255 {
		return nil // AddRequestFormat would truncate the length octet: such a request cannot be sent (C15's subject)
	}
	msg, _ = msgformat.AddRequestFormat(msg)
	enc := make([]byte, verifC11B32.EncodedLen(len(msg)))
	verifC11B32.Encode(enc, msg)
	enc = bytes.ToLower(enc)
	var labels [][]byte
	for len(enc) > 0 {
		n := len(enc)
		if n > 63 {
			n = 63
		}
		labels = append(labels, enc[:n])
		enc = enc[n:]
	}
	labels = append(labels, h.domain...)
	name, err := dns.NewName(labels)
	if err != nil {
		return nil
	}
	q := &dns.Message{ID: id, Flags: 0x0100, Question: []dns.Question{{Name: name, Type: dns.RRTypeTXT, Class: dns.ClassIN}},
		Additional: []dns.RR{{Name: dns.Name{}, Type: dns.RRTypeOPT, Class: 4096, TTL: 0, Data: []byte{}}}}
	b, err := q.WireFormat()
	if err != nil {
		return nil
	}
	return b
}

// verifPing sends a well-formed registration on the socket and waits for the answer.
func (h *verifC11DNS) verifPing(s *verifC11Sock) bool {
	buf := make([]byte, 4096)
	for try := 0; try < 3; try++ {
		id := uint16(0xf000 + try)
		q := h.verifQuery(h.ping, id)
		if q == nil {
			panic("verif infrastructure: the ping registration does not fit a DNS name")
		}
		s.c.Write(q)
		h.pings.Add(1)
		s.c.SetReadDeadline(time.Now().Add(20 * time.Second))
		for {
			n, err := s.c.Read(buf)
			if err != nil {
				break
			}
			h.answers.Add(1)
			if n >= 2 && buf[0] == byte(id>>8) && buf[1] == byte(id) {
				return true
			}
		}
	}
	return false
}

func (h *verifC11DNS) verifExec(c *kit.C11Case) string {
	// (a) the plain function call, under the runner's recover
	resp, err := h.s.processRequest(c.In)
	out := "answered"
	if err != nil {
		out = "refused-without-answer"
	} else {
		d := &pb.DnsResponse{}
		if proto.Unmarshal(resp, d) == nil && d.GetSuccess() {
			out = "registered"
		}
	}
	if h.addr == nil {
		return out
	}
	// (b) the real path
	q := h.verifQuery(c.In, uint16(h.sent.Load())&0x7fff)
	if q == nil {
		h.tooLong.Add(1)
		return out + "/direct-only(too long for one DNS name)"
	}
	var s *verifC11Sock
	select {
	case s = <-h.pool:
	default:
		uc, err := net.DialUDP("udp", nil, h.addr)
		if err != nil {
			panic(fmt.Sprintf("verif infrastructure: %v", err))
		}
		s = &verifC11Sock{c: uc}
	}
	s.c.Write(q)
	h.sent.Add(1)
	s.since++
	if s.since >= 32 {
		s.since = 0
		if !h.verifPing(s) {
			h.rec.Inconclusive("a well-formed DNS registration got no answer within 3 x 20 s although the process is alive (datagram loss?)", nil)
		}
	}
	select {
	case h.pool <- s:
	default:
		s.c.Close()
	}
	return out + "/sent"
}

func verifC11DNSGen(r *rand.Rand, idx int) kit.C11Case { return kit.C11WrapperInput(r, true) }

func TestVerifC11DNS(t *testing.T) {
	rec := kit.NewRec("C11", "registrar-dns")
	defer rec.Close()
	h := verifC11DNSSetup(t, true)
	h.rec = rec
	kit.C11Drive(rec, kit.C11Entry{Name: verifC11DNSEntry, N: kit.Tier(40000, 500000), Workers: 4, Budget: 120 * time.Second,
		Gen: verifC11DNSGen, Exec: h.verifExec, SampleEvery: 5000})
	// everything that was sent must have been read and fully processed before the verdict "survived"
	uc, err := net.DialUDP("udp", nil, h.addr)
	if err != nil {
		t.Fatal(err)
	}
	if !h.verifPing(&verifC11Sock{c: uc}) {
		rec.Inconclusive("the final well-formed DNS registration got no answer within 3 x 20 s", nil)
	}
	if left := kit.WaitNoGoroutineIn(60*time.Second, "RecvAndRespond.func1"); left != nil {
		rec.Inconclusive("request goroutines of the responder still running 60 s after the last datagram", map[string]interface{}{"count": len(left), "first": left[0].Raw})
	}
	select {
	case err := <-h.serveEr:
		rec.Violation("dns-server-stopped:"+verifC11DNSEntry, "ListenAndServe returned while requests were being sent: the DNS registrar stopped serving", fmt.Sprint(err))
	default:
	}
	rec.Count("datagrams_sent", int(h.sent.Load()))
	rec.Count("pings_sent", int(h.pings.Load()))
	rec.Count("answers_received", int(h.answers.Load()))
	rec.Count("inputs_too_long_for_one_dns_name", int(h.tooLong.Load()))
	rec.Count("messages_handed_to_zmq", int(h.snd.n.Load()))
}

func FuzzVerifC11DNS(f *testing.F) {
	h := verifC11DNSSetup(f, false)
	for _, s := range kit.C11Seeds(verifC11DNSEntry, 300, verifC11DNSGen) {
		f.Add(s)
	}
	f.Fuzz(func(t *testing.T, b []byte) {
		c := &kit.C11Case{In: b, Kind: "fuzz"}
		if p := kit.C11FuzzOne(verifC11DNSEntry, b, func() { h.verifExec(c) }); p != nil && os.Getenv("VERIF_C11_FUZZ_OUT") == "" {
			t.Fatalf("panic in %s: %s\n%v", p.Frame, p.Val, p.Stack)
		}
	})
}
