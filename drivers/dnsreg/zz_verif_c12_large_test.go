//go:build verif

package dnsregserver

// C12 over the whole DNS front end with LARGE registrar parameter overrides.  The other DNS stage calls
// processRequest with the constructor's override set (built-in prefixes: every answer is < 150 bytes), so
// nothing that depends on the size of the answer was ever exercised.  Here the registrar is configured with
// operator prefix overrides of 16 ... 3000 bytes (file-based through the real overrides.ParsePrefixes, fixed
// through the real overrides.NewFixedPrefixOverride; densely around 900-1300 bytes, where the answer stops
// fitting one DNS reply), a real DNSRegServer listens on a loopback UDP socket (real Responder), and the
// CLIENT is the real requester.Requester: what it decrypts is what the client is told.
//
// Oracle (statement, first sentence): when the client receives a DnsResponse with success=true for a
// bidirectional registration, its phantoms, port and transport parameters equal those of the response carried
// in the message the registrar's socket accepted.  An answer the Responder replaced by the empty answer
// (reply too large for one datagram), or no answer at all, tells the client nothing and decides nothing.

import (
	"crypto/ed25519"
	"fmt"
	"io"
	golog "log"
	"net"
	"os"
	"strings"
	"testing"
	"time"

	zmq "github.com/pebbe/zmq4"
	logrus "github.com/sirupsen/logrus"
	"google.golang.org/protobuf/proto"
	"google.golang.org/protobuf/types/known/anypb"

	"github.com/refraction-networking/conjure/internal/conjurepath"
	kit "github.com/refraction-networking/conjure/internal/verifkit"
	"github.com/refraction-networking/conjure/pkg/core/interfaces"
	"github.com/refraction-networking/conjure/pkg/metrics"
	"github.com/refraction-networking/conjure/pkg/registrars/dns-registrar/encryption"
	"github.com/refraction-networking/conjure/pkg/registrars/dns-registrar/requester"
	"github.com/refraction-networking/conjure/pkg/regserver/overrides"
	"github.com/refraction-networking/conjure/pkg/regserver/regprocessor"
	"github.com/refraction-networking/conjure/pkg/station/lib"
	"github.com/refraction-networking/conjure/pkg/transports/wrapping/min"
	"github.com/refraction-networking/conjure/pkg/transports/wrapping/obfs4"
	"github.com/refraction-networking/conjure/pkg/transports/wrapping/prefix"
	pb "github.com/refraction-networking/conjure/proto"
)

const verifC12Domain = "r.example.com"

// verifC12BigPrefix is an operator-defined prefix handed to the real FixedPrefixOverride.
type verifC12BigPrefix struct {
	b    []byte
	id   prefix.PrefixID
	fp   int32
	port uint16
}

func (p verifC12BigPrefix) Bytes() []byte         { return p.b }
func (p verifC12BigPrefix) FlushPolicy() int32    { return p.fp }
func (p verifC12BigPrefix) ID() prefix.PrefixID   { return p.id }
func (p verifC12BigPrefix) DstPort([]byte) uint16 { return p.port }

type verifC12Obs struct {
	out []byte
	err error
}

type verifC12Answer struct {
	b   []byte
	err error
}

func verifC12SizeBucket(n int) string {
	switch {
	case n < 900:
		return "<900"
	case n < 1000:
		return "900-999"
	case n < 1100:
		return "1000-1099"
	case n < 1200:
		return "1100-1199"
	case n < 1300:
		return "1200-1299"
	case n < 1500:
		return "1300-1499"
	}
	return ">=1500"
}

func TestVerifC12DNSLarge(t *testing.T) {
	rec := kit.NewRec("C12", "dns-large-override")
	defer rec.Close()
	r := kit.Rand("c12-dns-large")
	os.Setenv("PHANTOM_SUBNET_LOCATION", conjurepath.Root+"/pkg/station/lib/test/phantom_subnets.toml")
	golog.SetOutput(io.Discard) // the responder reports every oversized reply on the standard logger
	lg := logrus.New()
	lg.SetOutput(io.Discard)
	met := metrics.NewMetrics(logrus.NewEntry(lg), 24*time.Hour)

	// override sizes: a sparse ladder over 16 ... 3000 and a dense band where the answer stops fitting a reply
	var sizes []int
	for _, s := range []int{16, 40, 100, 250, 400, 550, 700, 800, 850, 900, 950, 1400, 1500, 1700, 2000, 2500, 3000} {
		sizes = append(sizes, s)
	}
	for s := 900; s <= 1300; s += kit.Tier(10, 2) {
		sizes = append(sizes, s+r.Intn(kit.Tier(10, 2)))
	}
	perConf := kit.Tier(2, 6)
	maxReceived := 0
	defer func() { rec.Note(fmt.Sprintf("largest DnsResponse a client received: %d bytes", maxReceived)) }()

	const alnum = "abcdefghijklmnopqrstuvwxyzABCDEFGHIJKLMNOPQRSTUVWXYZ0123456789/+=-_.:;,"
	for _, auth := range []bool{false, true} {
		var rp *regprocessor.RegProcessor
		var err error
		if auth {
			seed := make([]byte, ed25519.SeedSize)
			r.Read(seed)
			rp, err = regprocessor.NewRegProcessor("127.0.0.1", 0, ed25519.NewKeyFromSeed(seed), false, nil, met, false, nil, nil, 0, 0)
		} else {
			rp, err = regprocessor.NewRegProcessorNoAuth("127.0.0.1", 0, met, false, nil, nil, 0, 0)
		}
		if err != nil {
			t.Fatalf("cannot build the registrar (infrastructure): %v", err)
		}
		snd := &verifC12Sender{}
		rp.VerifC11SetSender(snd)
		for tt, tr := range map[pb.TransportType]lib.Transport{pb.TransportType_Min: min.Transport{}, pb.TransportType_Obfs4: obfs4.Transport{}, pb.TransportType_Prefix: prefix.DefaultSet()} {
			if err := rp.AddTransport(tt, tr); err != nil {
				t.Fatal(err)
			}
		}
		priv := make([]byte, 32)
		r.Read(priv)
		s, err := NewDNSRegServer(verifC12Domain, "127.0.0.1:0", priv, rp, 957, lg.WithField("registrar", "DNS"), met)
		if err != nil {
			t.Fatalf("cannot build the DNS registrar (infrastructure): %v", err)
		}
		addr := s.dnsResponder.VerifC11LocalAddr().(*net.UDPAddr)
		// ListenAndServe with an observer between the responder and processRequest (what ListenAndServe does,
		// plus a copy of what processRequest returned)
		obsCh := make(chan verifC12Obs, 64)
		go func() {
			_ = s.dnsResponder.RecvAndRespond(func(b []byte) ([]byte, error) {
				out, err := s.processRequest(b)
				obsCh <- verifC12Obs{append([]byte(nil), out...), err}
				return out, err
			})
		}()
		newClient := func() *requester.Requester {
			c, err := requester.NewRequester(&requester.Config{TransportMethod: requester.UDP, Target: addr.String(), BaseDomain: verifC12Domain, Pubkey: encryption.PubkeyFromPrivkey(priv)})
			if err != nil {
				t.Fatalf("cannot build the DNS requester (infrastructure): %v", err)
			}
			return c
		}
		client := newClient()

		for _, size := range sizes {
			for _, kind := range []string{"file", "fixed"} {
				// --- registrar configuration: one operator prefix of `size` bytes
				id := []int{-2, -1, 0, 1, 5, 9, 77}[r.Intn(7)]
				port := []int{0, 443, 8443, 53}[r.Intn(4)]
				pfx := make([]byte, size)
				var confDesc string
				if kind == "file" {
					for i := range pfx {
						pfx[i] = alnum[r.Intn(len(alnum))]
					}
					if pfx[0] == '#' {
						pfx[0] = 'G'
					}
					line := fmt.Sprintf("# verif\n100 100 %d %d %s\n", id, port, pfx)
					po, err := overrides.ParsePrefixes(strings.NewReader(line))
					if err != nil {
						t.Fatalf("prefix override file refused (infrastructure): %v", err)
					}
					rp.VerifC12SetOverrides(interfaces.Overrides([]interfaces.RegOverride{po}))
					confDesc = fmt.Sprintf("file: 100 100 %d %d <%d bytes>", id, port, size)
				} else {
					r.Read(pfx)
					fp := int32(r.Intn(3))
					rp.VerifC12SetOverrides(interfaces.Overrides([]interfaces.RegOverride{overrides.NewFixedPrefixOverride(verifC12BigPrefix{pfx, prefix.PrefixID(id), fp, uint16(port)})}))
					confDesc = fmt.Sprintf("fixed: id %d port %d flush %d <%d bytes>", id, port, fp, size)
				}

				for k := 0; k < perConf; k++ {
					// --- the request (must fit one DNS name: small)
					tt := pb.TransportType_Prefix
					if r.Intn(8) == 0 {
						tt = []pb.TransportType{pb.TransportType_Min, pb.TransportType_Obfs4}[r.Intn(2)]
					}
					c2s := &pb.ClientToStation{Transport: &tt, ClientLibVersion: proto.Uint32(uint32(3 + r.Intn(2))), DecoyListGeneration: proto.Uint32([]uint32{1, 957}[r.Intn(2)]),
						V4Support: proto.Bool(r.Intn(4) != 0)}
					if r.Intn(2) == 0 {
						c2s.V6Support = proto.Bool(true)
					}
					if tt == pb.TransportType_Prefix {
						c2s.TransportParams, _ = anypb.New(&pb.PrefixTransportParams{PrefixId: proto.Int32(int32(r.Intn(3))), RandomizeDstPort: proto.Bool(r.Intn(2) == 0)})
						// a wrapper with a 32-byte secret and a typed Any (47-byte type URL) exceeds the ~97 bytes that fit one
						// DNS name after Noise + base32; the registrar accepts an Any without type URL (UnmarshalAnypbTo)
						c2s.TransportParams.TypeUrl = ""
					}
					disabled := r.Intn(6) == 0
					if disabled {
						c2s.DisableRegistrarOverrides = proto.Bool(true)
					}
					w := &pb.C2SWrapper{RegistrationPayload: c2s, SharedSecret: make([]byte, 32)}
					r.Read(w.SharedSecret)
					bd := r.Intn(8) != 0
					src := pb.RegistrationSource_DNS
					kindReq := "unidirectional"
					if bd {
						src, kindReq = pb.RegistrationSource_BidirectionalDNS, "bidirectional"
					}
					w.RegistrationSource = &src
					body, _ := proto.Marshal(w)
					rec.CaseCheap(map[string]interface{}{"kind": kindReq, "auth": auth, "transport": tt.String(), "override": confDesc, "override_prefix_bytes": size, "disabled": disabled, "wrapper_hex": kit.Hex(body)})
					snd.reset(verifC12Plan{})
					for len(obsCh) > 0 {
						<-obsCh
					}

					ansCh := make(chan verifC12Answer, 1)
					go func(c *requester.Requester) {
						b, err := c.RequestAndRecv(body)
						ansCh <- verifC12Answer{b, err}
					}(client)

					// 1. the registrar processed the request (or the client could not even send it)
					var obs verifC12Obs
					var ans verifC12Answer
					gotAns := false
					select {
					case obs = <-obsCh:
					case ans = <-ansCh:
						gotAns = true
						select {
						case obs = <-obsCh:
						default:
							rec.Count("request_not_sent_or_dropped", 1)
							rec.Count("request_error["+fmt.Sprintf("%.40s", fmt.Sprint(ans.err))+"]", 1)
							continue
						}
					case <-time.After(30 * time.Second):
						rec.Inconclusive("the DNS registrar did not process a request within 30 s (datagram lost?)", map[string]interface{}{"override": confDesc})
						client = newClient()
						continue
					}
					rec.Count("evaluations", 1)
					// 2. what the client receives
					if !gotAns {
						select {
						case ans = <-ansCh:
						case <-time.After(30 * time.Second):
							rec.Inconclusive("the client got no DNS reply within 30 s after the registrar processed its request", map[string]interface{}{"override": confDesc, "answer_bytes": len(obs.out)})
							client = newClient()
							continue
						}
					}
					bucket := verifC12SizeBucket(len(obs.out))
					dr := &pb.DnsResponse{}
					received := ans.err == nil && len(ans.b) > 0 && proto.Unmarshal(ans.b, dr) == nil
					told := received && dr.GetSuccess()
					rec.Count(fmt.Sprintf("answer_bytes[%s]/client_received=%t", bucket, received), 1)
					if received && len(ans.b) > maxReceived {
						maxReceived = len(ans.b)
					}
					if received && rec.WantSample() {
						rec.Sample(map[string]interface{}{"override": confDesc, "kind": kindReq, "auth": auth, "answer_bytes": len(ans.b), "told_success": told,
							"told_transport_params_bytes": len(dr.GetBidirectionalResponse().GetTransportParams().GetValue())})
					}
					overridden := dr.GetBidirectionalResponse().GetTransportParams() != nil
					rec.Distinct("nontrivial", "dns-large", kindReq, auth, kind, tt, bucket, received, told, disabled, overridden, len(snd.msgs))
					if !told {
						continue // empty answer / refusal: the client has been told nothing
					}
					rec.Count("client_told_success", 1)
					if len(snd.msgs) == 0 {
						rec.Violation("dns:told-client-but-no-message-accepted:"+kindReq, "the client received success=true over DNS although the socket accepted no message for the stations", map[string]interface{}{"override": confDesc})
						continue
					}
					if !bd {
						continue
					}
					toldResp := dr.GetBidirectionalResponse()
					for _, b := range snd.msgs {
						fw := &pb.C2SWrapper{}
						if err := proto.Unmarshal(b, fw); err != nil {
							rec.Violation("dns:forwarded-bytes-unparsable", "the accepted message is not a C2SWrapper", err.Error())
							continue
						}
						if d := verifC12RespDiff(toldResp, fw.GetRegistrationResponse()); d != "" || fw.RegistrationResponse == nil || dr.BidirectionalResponse == nil {
							rec.Violation("dns:client-received-vs-forwarded:"+d, "the bidirectional_response the client received over DNS differs from the response carried in the message accepted for the stations in "+d,
								map[string]interface{}{"override": confDesc, "answer_bytes_from_processRequest": len(obs.out), "answer_bytes_received": len(ans.b),
									"told_transport_params_bytes": len(toldResp.GetTransportParams().GetValue()), "forwarded_transport_params_bytes": len(fw.GetRegistrationResponse().GetTransportParams().GetValue()),
									"told_v4": toldResp.GetIpv4Addr(), "forwarded_v4": fw.GetRegistrationResponse().GetIpv4Addr(), "told_port": toldResp.GetDstPort(), "forwarded_port": fw.GetRegistrationResponse().GetDstPort()})
						}
						if disabled && toldResp.GetTransportParams() != nil {
							rec.Violation("dns:overrides-though-disabled", "transport parameters sent to a client that disabled overrides", map[string]interface{}{"override": confDesc})
						}
					}
					if overridden && size >= 256 {
						rec.Count("client_told_large_override", 1)
					}
				}
			}
		}
		if auth {
			zmq.AuthStop()
		}
	}
}
