//go:build verif

package dtls

// C11 – entry point (6) for the DTLS transport, and its Connect:
//   dtls.ParseParams   station-side ParseParams + GetDstPort + ParamStrings and the client-side
//                      ParseParams / SetSessionParams on an arbitrary (library version, Any) pair
//   dtls.Connect       the station transport's Connect for a registration whose parameters were
//                      parsed from such a pair (absent / empty / odd-length source addresses,
//                      out-of-range ports) and whose secret has an arbitrary length, with the REAL
//                      DNAT (/dev/null as the tun device) and a REAL dtls.Listener on a loopback port;
//                      the context expires after 40 ms (the station uses 5 s)
// Oracle: no panic (recovered per case; the two goroutines Connect starts are unrecovered, a panic
// there ends the process and the orchestrator reports it with the in-flight inputs) + watchdog.
// Input framing: kit.C11UnframeAny; for Connect In[0] additionally selects phantom family (bit 6)
// and secret length (In[len-1] % 70).

import (
	"context"
	"io"
	"math/rand"
	"net"
	"os"
	"testing"
	"time"

	kit "github.com/refraction-networking/conjure/internal/verifkit"
	"github.com/refraction-networking/conjure/pkg/dtls"
	"github.com/refraction-networking/conjure/pkg/dtls/dnat"
	pb "github.com/refraction-networking/conjure/proto"
	"google.golang.org/protobuf/proto"
	"google.golang.org/protobuf/types/known/anypb"
)

var verifC11Seed = []byte("0123456789abcdef")

func verifC11ExecParams(c *kit.C11Case) string {
	lv, a := kit.C11UnframeAny(c.In)
	clone := func() *anypb.Any {
		if a == nil {
			return nil
		}
		return proto.Clone(a).(*anypb.Any)
	}
	out := "station-ok"
	p, err := Transport{}.ParseParams(lv, clone())
	if err != nil {
		out = "station-refused"
	}
	_, _ = Transport{}.GetDstPort(lv, verifC11Seed, p)
	_ = Transport{}.ParamStrings(p)
	ct := &ClientTransport{}
	_ = ct.SetParams(&pb.GenericTransportParams{RandomizeDstPort: proto.Bool(true)})
	_, _ = ct.ParseParams(clone())
	_ = ct.SetSessionParams(clone())
	_ = ct.SetSessionParams(clone(), true)
	_, _ = ct.GetParams()
	_, _ = ct.GetDstPort(verifC11Seed)
	return out
}

type verifC11RegStub struct {
	secret  []byte
	phantom net.IP
	params  any
	tt      pb.TransportType
}

func (r *verifC11RegStub) SharedSecret() []byte               { return r.secret }
func (r *verifC11RegStub) GetRegistrationAddress() string     { return "203.0.113.77" }
func (r *verifC11RegStub) GetDstPort() uint16                 { return 443 }
func (r *verifC11RegStub) PhantomIP() *net.IP                 { return &r.phantom }
func (r *verifC11RegStub) TransportType() pb.TransportType    { return r.tt }
func (r *verifC11RegStub) TransportParams() any               { return r.params }
func (r *verifC11RegStub) SetTransportKeys(interface{}) error { return nil }
func (r *verifC11RegStub) TransportKeys() interface{}         { return nil }
func (r *verifC11RegStub) TransportReader() io.Reader         { return nil }

var verifC11T *Transport

func verifC11Setup(t testing.TB) {
	nop := func(*net.IP) {}
	ln, err := dtls.Listen("udp", &net.UDPAddr{IP: net.IPv4(127, 0, 0, 1), Port: 0}, &dtls.Config{LogAuthFail: nop, LogOther: nop})
	if err != nil {
		t.Fatalf("dtls listener: %v", err)
	}
	tun, err := os.OpenFile(os.DevNull, os.O_RDWR, 0)
	if err != nil {
		t.Fatal(err)
	}
	verifC11T = &Transport{DNAT: dnat.VerifC11NewDNAT(tun), dtlsListener: ln, logDialSuccess: nop, logListenSuccess: nop}
}

func verifC11ExecConnect(c *kit.C11Case) string {
	lv, a := kit.C11UnframeAny(c.In)
	p, err := Transport{}.ParseParams(lv, a)
	if err != nil {
		return "params-refused" // the station drops such a registration before Connect
	}
	reg := &verifC11RegStub{params: p, tt: pb.TransportType_DTLS, phantom: net.ParseIP("192.122.190.40").To4()}
	n := 32
	if len(c.In) > 0 {
		if c.In[0]&0x40 != 0 {
			reg.phantom = net.ParseIP("2001:48a8:687f:1::40")
		}
		if c.In[0]&0x20 != 0 {
			n = int(c.In[len(c.In)-1]) % 70
		}
	}
	reg.secret = make([]byte, n)
	for i := range reg.secret {
		reg.secret[i] = byte(i*7) ^ byte(len(c.In))
	}
	ctx, cancel := context.WithTimeout(context.Background(), 40*time.Millisecond)
	defer cancel()
	conn, err := verifC11T.Connect(ctx, reg)
	if conn != nil {
		conn.Close()
		return "connected"
	}
	if err == context.DeadlineExceeded {
		return "timeout"
	}
	return "failed"
}

func verifC11Gen(r *rand.Rand, idx int) kit.C11Case {
	c := kit.C11ParamsInput(r, "dtls")
	if len(c.In) > 0 && r.Intn(2) == 0 {
		c.In[0] = c.In[0]&0x0f | byte(r.Intn(4))<<5
	}
	return c
}

func TestVerifC11Params(t *testing.T) {
	rec := kit.NewRec("C11", "params-dtls")
	defer rec.Close()
	verifC11Setup(t)
	kit.C11Drive(rec, kit.C11Entry{Name: "dtls.ParseParams", N: kit.Tier(40000, 2000000), Workers: 4, Gen: verifC11Gen, Exec: verifC11ExecParams, SampleEvery: 5000})
	kit.C11Drive(rec, kit.C11Entry{Name: "dtls.Connect", N: kit.Tier(8000, 200000), Workers: 128, Gen: verifC11Gen, Exec: verifC11ExecConnect, SampleEvery: 1000})
	if left := kit.WaitNoGoroutineIn(30*time.Second, "dtls.(*Transport).Connect"); left != nil {
		rec.Inconclusive("goroutines started by Connect still running 30 s after the last case", map[string]interface{}{"count": len(left), "first": left[0].Raw})
	}
}

func FuzzVerifC11ParamsDTLS(f *testing.F) {
	for _, s := range kit.C11Seeds("dtls.ParseParams", 300, verifC11Gen) {
		f.Add(s)
	}
	f.Fuzz(func(t *testing.T, b []byte) {
		c := &kit.C11Case{In: b, Kind: "fuzz"}
		if p := kit.C11FuzzOne("dtls.ParseParams", b, func() { verifC11ExecParams(c) }); p != nil && os.Getenv("VERIF_C11_FUZZ_OUT") == "" {
			t.Fatalf("panic in %s: %s\n%v", p.Frame, p.Val, p.Stack)
		}
	})
}
