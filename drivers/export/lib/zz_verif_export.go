//go:build verif

package lib

// Export shims for the /verif runtime monitors (injected by `go test -overlay`, never part of the
// repository).  Keep this file tiny: it is compiled into every check that touches this package.

import (
	"time"
)

// VerifParseRegMessage exposes parseRegMessage to drivers living in other packages.
func (rm *RegistrationManager) VerifParseRegMessage(b []byte) ([]*DecoyRegistration, error) {
	return rm.parseRegMessage(b)
}

// VerifIngest exposes ingestRegistration.
func (rm *RegistrationManager) VerifIngest(reg *DecoyRegistration) { rm.ingestRegistration(reg) }

// VerifBackdate moves every tracked registration's timeout record d into the past.
func (rm *RegistrationManager) VerifBackdate(d time.Duration) {
	r := rm.registeredDecoys
	r.m.Lock()
	defer r.m.Unlock()
	for _, t := range r.decoysTimeouts {
		t.registrationTime = t.registrationTime.Add(-d)
	}
}

// VerifTransportParams returns the parsed transport parameters of a registration.
func (reg *DecoyRegistration) VerifTransportParams() any { return reg.transportParams }

// VerifRegistrationAddr returns the registrant address bytes.
func (reg *DecoyRegistration) VerifRegistrationAddr() []byte { return reg.registrationAddr }
