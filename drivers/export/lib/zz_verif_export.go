//go:build verif

package lib

// Export shims for the /verif runtime monitors (injected by `go test -overlay`, never part of the
// repository).  Keep this file tiny: it is compiled into every check that touches this package.

import (
	"reflect"
	"strings"
	"time"

	"github.com/go-redis/redis/v8"
)

// VerifParseRegMessage exposes parseRegMessage to drivers living in other packages.
func (rm *RegistrationManager) VerifParseRegMessage(b []byte) ([]*DecoyRegistration, error) {
	return rm.parseRegMessage(b)
}

// VerifIngest exposes ingestRegistration.
func (rm *RegistrationManager) VerifIngest(reg *DecoyRegistration) { rm.ingestRegistration(reg) }

// VerifBackdate moves every tracked registration's timeout record d into the past.
func (rm *RegistrationManager) VerifBackdate(d time.Duration) {
	r := rm.registeredDecoys
	r.m.Lock()
	defer r.m.Unlock()
	for _, t := range r.decoysTimeouts {
		t.registrationTime = t.registrationTime.Add(-d)
	}
}

// VerifTransportParams returns the parsed transport parameters of a registration.
func (reg *DecoyRegistration) VerifTransportParams() any { return reg.transportParams }

// VerifRegistrationAddr returns the registrant address bytes.
func (reg *DecoyRegistration) VerifRegistrationAddr() []byte { return reg.registrationAddr }

// VerifUseRedis points the package's detector channel at addr (the station hard-codes localhost:6379).
func VerifUseRedis(addr string) {
	once.Do(func() {})
	client = redis.NewClient(&redis.Options{Addr: addr, PoolSize: 100})
}

// VerifUsed reports whether the registration's timeout record is in the "used" state, and whether
// the record exists at all.
func (rm *RegistrationManager) VerifUsed(reg *DecoyRegistration) (used, tracked bool) {
	r := rm.registeredDecoys
	r.m.RLock()
	defer r.m.RUnlock()
	tr, ok := r.transports[reg.Transport]
	if !ok {
		return false, false
	}
	// independent of how the map is keyed: find the record by what it records
	id, ph := tr.GetIdentifier(reg), reg.PhantomIp.String()
	// the usual key first (constant time: long runs track hundreds of thousands of registrations) …
	if t, ok := r.decoysTimeouts[ph+"|"+id]; ok {
		if d, i := verifTimeoutOf(t, ph+"|"+id); d == ph && i == id {
			return t.status == regStatusUsed, true
		}
	}
	// … then independent of how the map is keyed: find the record by what it records
	for key, t := range r.decoysTimeouts {
		if d, i := verifTimeoutOf(t, key); d == ph && i == id {
			return t.status == regStatusUsed, true
		}
	}
	return false, false
}

// VerifTotals returns (registrations tracked, timeout records).
func (rm *RegistrationManager) VerifTotals() (int, int) {
	r := rm.registeredDecoys
	r.m.RLock()
	defer r.m.RUnlock()
	return r.totalRegistrations(), len(r.decoysTimeouts)
}

// verifTimeoutOf tells which registration a timeout record belongs to; the record's fields are read through
// reflection (a tree in which they were renamed or removed still compiles), the map key is the fallback.
func verifTimeoutOf(t *DecoyTimeout, key string) (decoy, identifier string) {
	v := reflect.ValueOf(t).Elem()
	fd, fi := v.FieldByName("decoy"), v.FieldByName("identifier")
	if fd.IsValid() && fi.IsValid() && fd.Kind() == reflect.String && fi.Kind() == reflect.String {
		return fd.String(), fi.String()
	}
	if i := strings.Index(key, "|"); i >= 0 {
		return key[:i], key[i+1:]
	}
	return "", ""
}
