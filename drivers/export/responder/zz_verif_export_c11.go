//go:build verif

package responder

// Export shim for the C11 monitor living in dnsregserver (injected by `go test -overlay`, never
// part of the repository).

import "net"

// VerifC11LocalAddr is the address the responder's UDP socket is bound to.
func (r *Responder) VerifC11LocalAddr() net.Addr { return r.transport.LocalAddr() }
