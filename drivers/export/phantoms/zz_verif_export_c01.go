//go:build verif

package phantoms

// Export shim for the /verif C01 monitor (injected by `go test -overlay`, never part of the repository).

import (
	"math/big"
	"net"
)

// VerifC01AddrFromOffset runs the real offset -> address mapping of the HKDF selector.
func VerifC01AddrFromOffset(cidr string, off *big.Int) (net.IP, error) {
	n, err := parseSubnet(cidr)
	if err != nil {
		return nil, err
	}
	p, err := selectAddrFromSubnetOffset(&phantomNet{IPNet: n}, off)
	if err != nil {
		return nil, err
	}
	return *p.IP(), nil
}
