//go:build verif

package dnat

// Export shim for the C11 monitor (injected by `go test -overlay`, never part of the repository):
// the real DNAT (gopacket serialisation of a packet built from the CLIENT-SUPPLIED source address)
// around a stand-in for the tun device (NewDNAT itself opens /dev/net/tun).

import (
	"os"

	"github.com/refraction-networking/conjure/pkg/core/interfaces"
)

// VerifC11NewDNAT returns the repository's dnat writing to tun.
func VerifC11NewDNAT(tun *os.File) interfaces.DNAT { return &dnat{tun: tun} }
