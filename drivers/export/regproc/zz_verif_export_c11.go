//go:build verif

package regprocessor

// Export shim for the C11 monitors living in apiregserver / dnsregserver (injected by
// `go test -overlay`, never part of the repository).

import zmq "github.com/pebbe/zmq4"

// VerifC11SetSender swaps the ZMQ PUB socket of a RegProcessor built by the real constructor for a
// recorder (the bytes handed to ZMQ are what a station would ingest).
func (p *RegProcessor) VerifC11SetSender(s interface {
	SendBytes([]byte, zmq.Flag) (int, error)
	Close() error
}) {
	if p.sock != nil {
		_ = p.sock.Close()
	}
	p.sock = s
}
