//go:build verif

package regprocessor

// Export shim for the C12 monitor living in dnsregserver (injected by `go test -overlay`, never
// part of the repository).

import "github.com/refraction-networking/conjure/pkg/core/interfaces"

// VerifC12SetOverrides installs the registrar's transport-parameter override set (the constructors
// hard-wire one; operators configure file-based / fixed prefix overrides through this field).
func (p *RegProcessor) VerifC12SetOverrides(o interfaces.Overrides) { p.regOverrides = o }
