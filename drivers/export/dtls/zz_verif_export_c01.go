//go:build verif

package dtls

// Export shim for the /verif C01 monitor (injected by `go test -overlay`, never part of the repository).

import "crypto/tls"

// VerifC01Creds runs the real credential derivation both DTLS endpoints use for a pre-shared key.
func VerifC01Creds(psk []byte) (client, server *tls.Certificate, helloRandom []byte, err error) {
	if client, server, err = certsFromSeed(psk); err != nil {
		return nil, nil, nil, err
	}
	r, err := clientHelloRandomFromSeed(psk)
	return client, server, r[:], err
}
