//go:build verif

package dtls

// Export shims for the /verif runtime monitors (injected by `go test -overlay`, never part of the
// repository).  Keep this file tiny: it is compiled into every check.

import (
	"context"
	"net"

	"github.com/refraction-networking/conjure/pkg/core/interfaces"
	"github.com/refraction-networking/conjure/pkg/dtls"
)

// VerifNewTransport builds the station transport around a stand-in listener and DNAT (NewTransport
// itself binds the fixed UDP port 41245 and opens the tun device).
func VerifNewTransport(l interface {
	AcceptWithContext(context.Context, *dtls.Config) (net.Conn, error)
}, d interfaces.DNAT) *Transport {
	nop := func(*net.IP) {}
	return &Transport{DNAT: d, dtlsListener: l, logDialSuccess: nop, logListenSuccess: nop}
}

// VerifClientPSK returns the key the client transport hands to the DTLS layer.
func (t *ClientTransport) VerifClientPSK() []byte { return t.psk }
