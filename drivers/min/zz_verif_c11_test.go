//go:build verif

package min

// C11 – entry point (6) for the min transport: the station-side ParseParams (followed by what the
// station and registrar do with its result: GetDstPort, ParamStrings) and the client-side
// ParseParams / SetSessionParams (what a client does with parameters a registrar returns) on an
// arbitrary (library version, google.protobuf.Any) pair: correct, foreign, empty, legacy and garbage
// type URLs; valid, truncated, mutated and random values; raw mutations of the framed pair.
// Oracle: no panic (recovered per case, reported with the framed input) + the per-input watchdog.
// Input framing: see kit.C11UnframeAny.

import (
	"math/rand"
	"os"
	"testing"

	kit "github.com/refraction-networking/conjure/internal/verifkit"
	"google.golang.org/protobuf/proto"
	"google.golang.org/protobuf/types/known/anypb"
)

const verifC11Entry = "min.ParseParams"

var verifC11Seed = []byte("0123456789abcdef")

func verifC11Exec(c *kit.C11Case) string {
	lv, a := kit.C11UnframeAny(c.In)
	clone := func() *anypb.Any {
		if a == nil {
			return nil
		}
		return proto.Clone(a).(*anypb.Any)
	}
	out := "station-ok"
	p, err := Transport{}.ParseParams(lv, clone())
	if err != nil {
		out = "station-refused"
	}
	_, _ = Transport{}.GetDstPort(lv, verifC11Seed, p)
	_ = Transport{}.ParamStrings(p)
	// client side, initialised the way the client library initialises it
	ct := &ClientTransport{}
	if err := ct.SetParams(nil); err != nil {
		return out + "/client-init-failed"
	}
	if _, err := ct.ParseParams(clone()); err != nil {
		out += "/client-refused"
	} else {
		out += "/client-ok"
	}
	_ = ct.SetSessionParams(clone())
	_ = ct.SetSessionParams(clone(), true)
	_, _ = ct.GetParams()
	_, _ = ct.GetDstPort(verifC11Seed)
	return out
}

func verifC11Gen(r *rand.Rand, idx int) kit.C11Case { return kit.C11ParamsInput(r, "generic") }

func TestVerifC11Params(t *testing.T) {
	rec := kit.NewRec("C11", "params-min")
	defer rec.Close()
	kit.C11Drive(rec, kit.C11Entry{Name: verifC11Entry, N: kit.Tier(40000, 2000000), Workers: 4, Gen: verifC11Gen, Exec: verifC11Exec, SampleEvery: 5000})
}

func FuzzVerifC11ParamsMin(f *testing.F) {
	for _, s := range kit.C11Seeds(verifC11Entry, 300, verifC11Gen) {
		f.Add(s)
	}
	f.Fuzz(func(t *testing.T, b []byte) {
		c := &kit.C11Case{In: b, Kind: "fuzz"}
		if p := kit.C11FuzzOne(verifC11Entry, b, func() { verifC11Exec(c) }); p != nil && os.Getenv("VERIF_C11_FUZZ_OUT") == "" {
			t.Fatalf("panic in %s: %s\n%v", p.Frame, p.Val, p.Stack)
		}
	})
}
