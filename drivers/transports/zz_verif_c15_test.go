//go:build verif

package transports

// C15 – tag obfuscation and URL-less transport-parameter packing.
//   obfuscators  for every variant (GCM, CTR, XOR, Nil) × key pairs (random, clamped, unclamped, extreme, ed25519-derived as
//                the station derives its key) × tag lengths 0..300: Obfuscate error, or TryReveal(Obfuscate(tag)) == tag;
//                two obfuscations of the same tag by a randomised variant must differ in their first 32 bytes
//                (the ephemeral key representative; for XOR the random pad, judged only for tags of 16+ bytes);
//                TryReveal on arbitrary bytes must not panic;
//                the SAME encoded buffer revealed repeatedly (right key twice; wrong key(s) then right key; right, wrong, right –
//                what a station trying several private keys on the bytes it read does) must yield the tag every time the right
//                key is used, TryReveal must leave the caller's buffer byte-for-byte unchanged whatever the key, and a result
//                returned earlier must not change under a later reveal
//   scripted     (own stage / process, single-threaded) crypto/rand.Reader is replaced by a reader serving chosen streams: runs of
//                k = 0,1,2,5,15,16,17,40,200 keys WITHOUT an Elligator representative (found by search) followed by representable
//                ones, constant all-zero / all-0xFF streams, streams that end in an error at chosen points, reads delivered in
//                short pieces.  Whatever the randomness: Obfuscate returns an error, or something TryReveal opens to the tag.
//   anypb        for every transport params message type × generated values × {type URL kept, stripped, legacy "tapdance."
//                URL} × {object handed over directly, carried inside a marshalled ClientToStation}: UnmarshalAnypbTo yields a
//                message proto.Equal to the original; a non-empty URL of another type must be refused

import (
	"bytes"
	"crypto/rand"
	"errors"
	"fmt"
	mrand "math/rand"
	"runtime/debug"
	"strings"
	"testing"
	"time"

	kit "github.com/refraction-networking/conjure/internal/verifkit"
	pb "github.com/refraction-networking/conjure/proto"
	"github.com/refraction-networking/ed25519"
	"github.com/refraction-networking/ed25519/extra25519"
	"golang.org/x/crypto/curve25519"
	"google.golang.org/protobuf/proto"
	"google.golang.org/protobuf/types/known/anypb"
)

func c15Try(f func()) (panicked bool, val interface{}, stack string) {
	defer func() {
		if r := recover(); r != nil {
			panicked, val, stack = true, r, string(debug.Stack())
		}
	}()
	f()
	return
}

type c15KeyPair struct {
	kind string
	priv [32]byte
	pub  [32]byte
}

func c15KeyPairs(rng *mrand.Rand, n int) []c15KeyPair {
	var out []c15KeyPair
	mk := func(kind string, priv [32]byte) {
		kp := c15KeyPair{kind: kind, priv: priv}
		curve25519.ScalarBaseMult(&kp.pub, &kp.priv)
		out = append(out, kp)
	}
	// the way the station derives its key (as in the repository's own tests)
	_, edpriv, _ := ed25519.GenerateKey(rng)
	var p [32]byte
	extra25519.PrivateKeyToCurve25519(&p, edpriv)
	mk("ed25519-derived", p)
	var z, f [32]byte
	for i := range f {
		f[i] = 0xff
	}
	mk("all-zero-scalar", z)
	mk("all-ff-scalar", f)
	for i := 0; len(out) < n; i++ {
		var k [32]byte
		rng.Read(k[:])
		switch i % 3 {
		case 0:
			mk("random-unclamped", k)
		case 1:
			k[0] &= 248
			k[31] &= 127
			k[31] |= 64
			mk("random-clamped", k)
		case 2: // unclamped on purpose: low bits and top bit set
			k[0] |= 7
			k[31] |= 0x80
			mk("random-anticlamped", k)
		}
	}
	return out
}

type c15Obf struct {
	name       string
	o          Obfuscator
	randomised bool
	freshFrom  int // smallest tag length for which two encodings must differ
}

func TestVerifC15Obfuscators(t *testing.T) {
	rec := kit.NewRec("C15", "obfuscators")
	defer rec.Close()
	rng := kit.Rand("c15obfs")

	obfs := []c15Obf{
		{"gcm", GCMObfuscator{}, true, 0},
		{"ctr", CTRObfuscator{}, true, 0},
		{"xor", XORObfuscator{}, true, 16},
		{"nil", NilObfuscator{}, false, 0},
	}
	keys := c15KeyPairs(rng, kit.Tier(9, 40))
	maxLen := 300
	for ki, kp := range keys {
		for n := 0; n <= maxLen; n++ {
			// every length for the first two key pairs, a stride for the others (quick); all in thorough
			if !kit.Thorough() && ki >= 2 && n > 70 && n%7 != ki%7 {
				continue
			}
			tag := make([]byte, n)
			switch (n + ki) % 4 {
			case 0:
				rng.Read(tag)
			case 1: // all zero
			case 2:
				for i := range tag {
					tag[i] = 0xff
				}
			case 3:
				for i := range tag {
					tag[i] = byte(i)
				}
			}
			var wrong [][32]byte
			for j := 1; j <= 3; j++ {
				wrong = append(wrong, keys[(ki+j)%len(keys)].priv)
			}
			for _, ob := range obfs {
				c15ObfCase(rec, ob, kp, tag, wrong)
			}
		}
	}
	rec.Exhaustive(fmt.Sprintf("4 obfuscators × every tag length 0..%d for 2 key pairs (all %d key pairs in thorough)", maxLen, len(keys)))

	// TryReveal on arbitrary bytes: no panic (errors and garbage are both fine)
	var priv [32]byte
	for i, n := 0, kit.Tier(3000, 60000); i < n; i++ {
		b := make([]byte, rng.Intn(120))
		if i%5 == 0 {
			b = make([]byte, []int{0, 1, 31, 32, 33, 47, 48, 49, 64}[rng.Intn(9)])
		}
		rng.Read(b)
		rng.Read(priv[:])
		for _, ob := range obfs {
			rec.CaseCheap(fmt.Sprintf("arbitrary %s %s", ob.name, kit.HexN(b, 16)))
			snap := append([]byte(nil), b...)
			if pk, v, st := c15Try(func() { ob.o.TryReveal(b, priv) }); pk {
				rec.Violation("obfs:"+ob.name+":reveal-panic-on-arbitrary-bytes", "TryReveal panicked on arbitrary bytes",
					map[string]interface{}{"input": kit.Hex(snap), "panic": fmt.Sprint(v), "stack": st})
			}
			if !bytes.Equal(b, snap) {
				rec.Violation("obfs:"+ob.name+":reveal-modifies-its-input", "TryReveal changed the caller's buffer",
					map[string]interface{}{"case": "arbitrary bytes", "key": "arbitrary", "first_changed_byte": c15FirstDiff(b, snap), "before": kit.HexN(snap, 56), "after": kit.HexN(b, 56)})
				copy(b, snap)
			}
			rec.Count("arbitrary_decodes", 1)
		}
	}
}

func c15ObfCase(rec *kit.Rec, ob c15Obf, kp c15KeyPair, tag []byte, wrong [][32]byte) {
	desc := fmt.Sprintf("%s key=%s:%s taglen=%d", ob.name, kp.kind, kit.HexN(kp.priv[:], 4), len(tag))
	rec.CaseCheap(desc)
	rec.Count("evaluations", 1)
	orig := append([]byte(nil), tag...)
	lenClass := "nonempty-tag"
	if len(tag) == 0 {
		lenClass = "empty-tag"
	}
	var enc []byte
	var err error
	if pk, v, st := c15Try(func() { enc, err = ob.o.Obfuscate(tag, kp.pub[:]) }); pk {
		rec.Violation("obfs:"+ob.name+":obfuscate-panic", "Obfuscate panicked", map[string]interface{}{"case": desc, "panic": fmt.Sprint(v), "stack": st})
		return
	}
	if err != nil {
		rec.Count("rejected", 1)
		rec.Distinct("nontrivial", desc)
		return
	}
	encCopy := append([]byte(nil), enc...)
	var dec []byte
	var derr error
	if pk, v, st := c15Try(func() { dec, derr = ob.o.TryReveal(encCopy, kp.priv) }); pk {
		rec.Violation("obfs:"+ob.name+":reveal-panic-on-own-encoding", "TryReveal panicked on Obfuscate's output", map[string]interface{}{"case": desc, "panic": fmt.Sprint(v), "stack": st})
		return
	}
	switch {
	case derr != nil:
		rec.Violation("obfs:"+ob.name+":reveal-rejects-own-encoding:"+lenClass, "Obfuscate accepted the tag (no error) but TryReveal refuses the result with the matching private key",
			map[string]interface{}{"case": desc, "tag": kit.HexN(orig, 16), "encoded_len": len(enc), "encoded": kit.HexN(enc, 48), "reveal_error": derr.Error()})
		return
	case !bytes.Equal(dec, orig):
		rec.Violation("obfs:"+ob.name+":roundtrip-mismatch:"+lenClass, "TryReveal(Obfuscate(tag)) != tag",
			map[string]interface{}{"case": desc, "tag": kit.HexN(orig, 16), "revealed": kit.HexN(dec, 16), "encoded": kit.HexN(enc, 48), "top_bits_of_representative": func() interface{} {
				if len(enc) >= 32 {
					return enc[31] >> 6
				}
				return nil
			}()})
		return
	}
	rec.Count("accepted_roundtrips", 1)
	if !bytes.Equal(encCopy, enc) {
		rec.Violation("obfs:"+ob.name+":reveal-modifies-its-input", "TryReveal changed the caller's buffer (reveal with the matching key)",
			map[string]interface{}{"case": desc, "key": "right", "first_changed_byte": c15FirstDiff(encCopy, enc), "before": kit.HexN(enc, 56), "after": kit.HexN(encCopy, 56)})
	}
	// quick tier: the same-buffer schedules run for every tag length up to 70 and every third length beyond
	if (kit.Thorough() || len(tag) <= 70 || len(tag)%3 == 0) && !c15RevealSchedules(rec, ob, kp, desc, orig, enc, wrong) {
		return
	}
	if len(enc) >= 32 && (ob.name == "gcm" || ob.name == "ctr") {
		rec.Distinct("representative_top_bits_"+ob.name, enc[31]>>6) // all four values must be exercised: the reveal side masks them
	}
	if len(tag) > 0 {
		rec.Distinct("nontrivial", desc)
	}
	if ob.randomised && len(tag) >= ob.freshFrom {
		var enc2 []byte
		var err2 error
		if pk, v, st := c15Try(func() { enc2, err2 = ob.o.Obfuscate(tag, kp.pub[:]) }); pk {
			rec.Violation("obfs:"+ob.name+":obfuscate-panic", "Obfuscate panicked", map[string]interface{}{"case": desc, "panic": fmt.Sprint(v), "stack": st})
			return
		}
		if err2 == nil {
			n := 32
			if len(enc) < n {
				n = len(enc)
			}
			if len(enc2) < n {
				n = len(enc2)
			}
			rec.Count("freshness_checks", 1)
			if n > 0 && bytes.Equal(enc[:n], enc2[:n]) {
				rec.Violation("obfs:"+ob.name+":not-fresh", "two obfuscations of the same tag under the same station key begin with the same 32 bytes",
					map[string]interface{}{"case": desc, "first": kit.HexN(enc, 40), "second": kit.HexN(enc2, 40)})
				return
			}
			// the second encoding must reveal as well
			d2, e2 := ob.o.TryReveal(enc2, kp.priv)
			if e2 != nil || !bytes.Equal(d2, orig) {
				rec.Violation("obfs:"+ob.name+":roundtrip-mismatch:"+lenClass, "TryReveal(Obfuscate(tag)) != tag (second encoding)", map[string]interface{}{"case": desc, "encoded": kit.HexN(enc2, 48)})
				return
			}
		}
	}
	if rec.WantSample() && len(tag) == 32 {
		rec.Sample(map[string]interface{}{"case": desc, "encoded_len": len(enc), "encoded_head": kit.HexN(enc, 12), "revealed_equal": true})
	}
}

func c15FirstDiff(a, b []byte) int {
	n := len(a)
	if len(b) < n {
		n = len(b)
	}
	for i := 0; i < n; i++ {
		if a[i] != b[i] {
			return i
		}
	}
	if len(a) != len(b) {
		return n
	}
	return -1
}

// c15RevealSchedules reveals ONE buffer several times, as a station does that tries each of its private keys on the bytes it
// read: 'R' = the matching key, 'w' = a non-matching key.  The buffer is never restored between steps.
func c15RevealSchedules(rec *kit.Rec, ob c15Obf, kp c15KeyPair, desc string, tag, enc []byte, wrong [][32]byte) bool {
	ok := true
	for _, sched := range []string{"RR", "wR", "wwwR", "RwR"} {
		buf := append([]byte(nil), enc...)
		type res struct {
			step int
			out  []byte
		}
		var rights []res
		wi := 0
		for step, k := range sched {
			key, kind := kp.priv, "right"
			if k == 'w' {
				key, kind = wrong[wi%len(wrong)], "wrong"
				wi++
			}
			if bytes.Equal(key[:], kp.priv[:]) && kind == "wrong" {
				continue
			}
			sdesc := fmt.Sprintf("%s schedule=%s step=%d(%s key)", desc, sched, step, kind)
			rec.CaseCheap(sdesc)
			rec.Count("same_buffer_reveals", 1)
			before := append([]byte(nil), buf...)
			var out []byte
			var err error
			if pk, v, st := c15Try(func() { out, err = ob.o.TryReveal(buf, key) }); pk {
				rec.Violation("obfs:"+ob.name+":reveal-panic-on-own-encoding", "TryReveal panicked on Obfuscate's output", map[string]interface{}{"case": sdesc, "panic": fmt.Sprint(v), "stack": st})
				return false
			}
			if !bytes.Equal(buf, before) {
				ok = false
				rec.Violation("obfs:"+ob.name+":reveal-modifies-its-input", "TryReveal changed the caller's buffer",
					map[string]interface{}{"case": sdesc, "key": kind, "reveal_error": fmt.Sprint(err), "first_changed_byte": c15FirstDiff(buf, before),
						"before": kit.HexN(before, 56), "after": kit.HexN(buf, 56)})
			}
			if kind == "right" {
				if err != nil || !bytes.Equal(out, tag) {
					ok = false
					rec.Violation("obfs:"+ob.name+":right-key-fails-on-a-buffer-revealed-before", "the matching key does not yield the tag from a buffer that an earlier TryReveal has already looked at",
						map[string]interface{}{"case": sdesc, "reveal_error": fmt.Sprint(err), "revealed": kit.HexN(out, 16), "tag": kit.HexN(tag, 16),
							"buffer_still_equals_encoding": bytes.Equal(buf, enc)})
				} else {
					rights = append(rights, res{step, out})
				}
			}
		}
		for _, r := range rights { // results handed out earlier must still be the tag
			if !bytes.Equal(r.out, tag) {
				ok = false
				rec.Violation("obfs:"+ob.name+":earlier-result-changed-by-later-reveal", "a tag returned by TryReveal changed when the same buffer was revealed again",
					map[string]interface{}{"case": fmt.Sprintf("%s schedule=%s result-of-step=%d", desc, sched, r.step), "now": kit.HexN(r.out, 16), "tag": kit.HexN(tag, 16)})
			}
		}
		if ok {
			rec.Count("same_buffer_schedules_ok", 1)
			rec.Distinct("nontrivial", desc, sched)
		}
	}
	return ok
}

// ---- anypb --------------------------------------------------------------------------------------------------------------

func c15Bool(rng *mrand.Rand) *bool {
	switch rng.Intn(3) {
	case 0:
		return nil
	case 1:
		return proto.Bool(true)
	}
	return proto.Bool(false)
}

func c15I32(rng *mrand.Rand) *int32 {
	switch rng.Intn(6) {
	case 0:
		return nil
	case 1:
		return proto.Int32(0)
	case 2:
		return proto.Int32(-1)
	case 3:
		return proto.Int32(int32(rng.Intn(20)) - 2)
	case 4:
		return proto.Int32(-1 << 31)
	}
	return proto.Int32(int32(rng.Uint32()))
}

func c15Addr(rng *mrand.Rand, n int) *pb.Addr {
	switch rng.Intn(4) {
	case 0:
		return nil
	case 1:
		return &pb.Addr{}
	}
	ip := make([]byte, n)
	rng.Read(ip)
	a := &pb.Addr{IP: ip}
	if rng.Intn(4) != 0 {
		a.Port = proto.Uint32(uint32(rng.Intn(70000)))
	}
	return a
}

func c15GenParams(rng *mrand.Rand, typ int) proto.Message {
	switch typ {
	case 0:
		return &pb.GenericTransportParams{RandomizeDstPort: c15Bool(rng)}
	case 1:
		p := &pb.PrefixTransportParams{PrefixId: c15I32(rng), CustomFlushPolicy: c15I32(rng), RandomizeDstPort: c15Bool(rng)}
		switch rng.Intn(4) {
		case 0:
		case 1:
			p.Prefix = []byte{}
		default:
			p.Prefix = make([]byte, rng.Intn(300))
			rng.Read(p.Prefix)
		}
		return p
	default:
		return &pb.DTLSTransportParams{SrcAddr4: c15Addr(rng, 4), SrcAddr6: c15Addr(rng, 16), RandomizeDstPort: c15Bool(rng), Unordered: c15Bool(rng)}
	}
}

func c15NewOf(typ int) proto.Message {
	switch typ {
	case 0:
		return &pb.GenericTransportParams{}
	case 1:
		return &pb.PrefixTransportParams{}
	}
	return &pb.DTLSTransportParams{}
}

var c15TypeNames = []string{"GenericTransportParams", "PrefixTransportParams", "DTLSTransportParams"}

func TestVerifC15Anypb(t *testing.T) {
	rec := kit.NewRec("C15", "anypb")
	defer rec.Close()
	rng := kit.Rand("c15anypb")
	n := kit.Tier(600, 20000)
	for i := 0; i < n; i++ {
		typ := i % 3
		orig := c15GenParams(rng, typ)
		for _, urlMode := range []string{"kept", "stripped", "legacy-tapdance"} {
			for _, path := range []string{"direct", "via-c2s-wire"} {
				for _, dstMode := range []string{"fresh", "prepopulated"} {
					desc := fmt.Sprintf("%s url=%s path=%s dst=%s value={%s}", c15TypeNames[typ], urlMode, path, dstMode, c15Val(orig))
					rec.CaseCheap(desc)
					rec.Count("evaluations", 1)
					src, err := anypb.New(orig)
					if err != nil {
						t.Fatal(err)
					}
					switch urlMode {
					case "stripped":
						src.TypeUrl = ""
					case "legacy-tapdance":
						src.TypeUrl = strings.ReplaceAll(src.TypeUrl, "proto.", "tapdance.")
					}
					if path == "via-c2s-wire" { // the way the value really travels: inside the registration message
						c2s := &pb.ClientToStation{TransportParams: src, Transport: pb.TransportType_Prefix.Enum()}
						b, err := proto.Marshal(c2s)
						if err != nil {
							t.Fatal(err)
						}
						back := &pb.ClientToStation{}
						if err := proto.Unmarshal(b, back); err != nil {
							t.Fatal(err)
						}
						src = back.GetTransportParams()
					}
					dst := c15NewOf(typ)
					if dstMode == "prepopulated" {
						dst = c15GenParams(rng, typ)
					}
					valueBefore := append([]byte(nil), src.GetValue()...)
					var uerr error
					if pk, v, st := c15Try(func() { uerr = UnmarshalAnypbTo(src, dst) }); pk {
						rec.Violation("anypb:panic", "UnmarshalAnypbTo panicked", map[string]interface{}{"case": desc, "panic": fmt.Sprint(v), "stack": st})
						continue
					}
					if uerr != nil {
						rec.Violation("anypb:"+urlMode+":decoder-rejects-own-encoding", "UnmarshalAnypbTo refused a params message packed by anypb.New",
							map[string]interface{}{"case": desc, "error": uerr.Error()})
						continue
					}
					if again := c15NewOf(typ); UnmarshalAnypbTo(src, again) != nil || !proto.Equal(again, orig) || !bytes.Equal(src.GetValue(), valueBefore) {
						rec.Violation("anypb:"+urlMode+":second-decode-differs-or-input-modified", "unpacking the same Any a second time fails or differs, or its packed bytes were modified",
							map[string]interface{}{"case": desc, "value_unchanged": bytes.Equal(src.GetValue(), valueBefore)})
						continue
					}
					if !proto.Equal(dst, orig) {
						rec.Violation("anypb:"+urlMode+":roundtrip-mismatch", "UnmarshalAnypbTo produced a different message",
							map[string]interface{}{"case": desc, "got": c15Val(dst), "want": c15Val(orig)})
						continue
					}
					rec.Count("accepted_roundtrips", 1)
					if proto.Size(orig) > 0 {
						rec.Distinct("nontrivial", desc)
					}
					if rec.WantSample() && urlMode == "stripped" && path == "via-c2s-wire" && proto.Size(orig) > 4 {
						rec.Sample(map[string]interface{}{"case": desc, "packed_bytes": len(src.GetValue()), "decoded_equal": true})
					}
				}
			}
		}
		// a non-empty type URL naming another message type must be refused, never decoded into dst
		other := (typ + 1 + rng.Intn(2)) % 3
		src, _ := anypb.New(orig)
		dst := c15NewOf(other)
		desc := fmt.Sprintf("wrong-type %s into %s", c15TypeNames[typ], c15TypeNames[other])
		rec.CaseCheap(desc)
		rec.Count("evaluations", 1)
		var uerr error
		if pk, v, st := c15Try(func() { uerr = UnmarshalAnypbTo(src, dst) }); pk {
			rec.Violation("anypb:panic", "UnmarshalAnypbTo panicked", map[string]interface{}{"case": desc, "panic": fmt.Sprint(v), "stack": st})
		} else if uerr == nil {
			rec.Violation("anypb:wrong-type-url-accepted", "a params message carrying the type URL of another type was decoded instead of refused", map[string]interface{}{"case": desc})
		} else {
			rec.Count("wrong_type_refused", 1)
			rec.Distinct("nontrivial", desc)
		}
	}
	// nil source: documented as "no error, dst untouched"
	for typ := 0; typ < 3; typ++ {
		dst := c15NewOf(typ)
		rec.Count("evaluations", 1)
		if err := UnmarshalAnypbTo(nil, dst); err != nil || !proto.Equal(dst, c15NewOf(typ)) {
			rec.Violation("anypb:nil-source", "a nil source produced an error or changed dst", map[string]interface{}{"type": c15TypeNames[typ]})
		}
	}
}

// c15Val is a stable written-out form of a message (protobuf's String() is deliberately unstable).
func c15Val(m proto.Message) string {
	b, _ := proto.MarshalOptions{Deterministic: true}.Marshal(m)
	return kit.HexN(b, 48)
}

// ---- scripted randomness ------------------------------------------------------------------------------------------------------

// c15Script is an io.Reader standing in for crypto/rand.Reader: it serves `head`, then `tail` repeated up to maxTail times,
// then fails; at most `piece` bytes per Read (0 = as many as asked).
type c15Script struct {
	head    []byte
	tail    []byte
	maxTail int
	piece   int
	served  int
	reads   int
	tailN   int
	tailOff int
}

var errC15ScriptEnd = errors.New("verif: scripted random source exhausted")

func (r *c15Script) Read(p []byte) (int, error) {
	r.reads++
	if len(p) == 0 {
		return 0, nil
	}
	n := len(p)
	if r.piece > 0 && n > r.piece {
		n = r.piece
	}
	for i := 0; i < n; i++ {
		switch {
		case r.served < len(r.head):
			p[i] = r.head[r.served]
		case len(r.tail) > 0 && r.tailN < r.maxTail:
			p[i] = r.tail[r.tailOff]
			r.tailOff++
			if r.tailOff == len(r.tail) {
				r.tailOff = 0
				r.tailN++
			}
		default:
			if i == 0 {
				return 0, errC15ScriptEnd
			}
			return i, nil
		}
		r.served++
	}
	return n, nil
}

// c15FindKeys sorts seeded 32-byte strings by whether, used as a private key, they have an Elligator representative.
func c15FindKeys(rng *mrand.Rand, nUnlucky, nLucky int) (unlucky, lucky [][]byte) {
	for len(unlucky) < nUnlucky || len(lucky) < nLucky {
		var priv, pub, repr [32]byte
		rng.Read(priv[:])
		if extra25519.ScalarBaseMult(&pub, &repr, &priv) {
			if len(lucky) < nLucky {
				lucky = append(lucky, append([]byte(nil), priv[:]...))
			}
		} else if len(unlucky) < nUnlucky {
			unlucky = append(unlucky, append([]byte(nil), priv[:]...))
		}
	}
	return
}

func TestVerifC15ScriptedRandomness(t *testing.T) {
	rec := kit.NewRec("C15", "scripted")
	defer rec.Close()
	rng := kit.Rand("c15scripted")
	realReader := rand.Reader
	defer func() { rand.Reader = realReader }()

	unlucky, lucky := c15FindKeys(rng, 260, 8)
	var zeroKey, ffKey [32]byte
	for i := range ffKey {
		ffKey[i] = 0xff
	}
	hasRepr := func(k [32]byte) bool {
		var pub, repr [32]byte
		return extra25519.ScalarBaseMult(&pub, &repr, &k)
	}
	rec.Note(fmt.Sprintf("all-zero key has a representative: %v; all-0xFF key has a representative: %v", hasRepr(zeroKey), hasRepr(ffKey)))

	obfs := []c15Obf{{"gcm", GCMObfuscator{}, true, 0}, {"ctr", CTRObfuscator{}, true, 0}, {"xor", XORObfuscator{}, true, 16}, {"nil", NilObfuscator{}, false, 0}}
	keys := c15KeyPairs(rng, 4)

	type stream struct {
		name string
		mk   func() *c15Script
	}
	var streams []stream
	filler := make([]byte, 4096) // what follows the scripted keys: seeded bytes (top-bit byte, XOR pads)
	rng.Read(filler)
	for _, k := range []int{0, 1, 2, 5, 15, 16, 17, 40, 200} {
		for _, piece := range []int{0, 1, 7, 31} {
			if piece != 0 && k != 0 && k != 16 && k != 17 {
				continue
			}
			k, piece := k, piece
			off := rng.Intn(len(unlucky) - k)
			good := lucky[rng.Intn(len(lucky))]
			streams = append(streams, stream{fmt.Sprintf("%d-keys-without-representative-then-a-representable-one piece=%d", k, piece), func() *c15Script {
				var head []byte
				for _, u := range unlucky[off : off+k] {
					head = append(head, u...)
				}
				head = append(head, good...)
				return &c15Script{head: head, tail: filler, maxTail: 4, piece: piece}
			}})
			// the same run, but the source fails right after the unlucky keys / after the good key (before the top-bit byte)
			if piece == 0 {
				streams = append(streams, stream{fmt.Sprintf("%d-keys-without-representative-then-source-fails", k), func() *c15Script {
					var head []byte
					for _, u := range unlucky[off : off+k] {
						head = append(head, u...)
					}
					return &c15Script{head: head}
				}})
				streams = append(streams, stream{fmt.Sprintf("%d-keys-without-representative-then-a-representable-one-then-source-fails", k), func() *c15Script {
					var head []byte
					for _, u := range unlucky[off : off+k] {
						head = append(head, u...)
					}
					return &c15Script{head: append(head, good...)}
				}})
			}
		}
	}
	// constant streams (bounded: after 600 key-sized repetitions the source fails, so a draw loop that never finds a key ends in an error)
	streams = append(streams,
		stream{"all-zero-bytes (bounded to 600 keys, then the source fails)", func() *c15Script { return &c15Script{tail: zeroKey[:], maxTail: 600} }},
		stream{"all-0xFF-bytes (bounded to 600 keys, then the source fails)", func() *c15Script { return &c15Script{tail: ffKey[:], maxTail: 600} }},
		stream{"one-key-without-representative-repeated (bounded to 600, then the source fails)", func() *c15Script { return &c15Script{tail: unlucky[0], maxTail: 600} }},
		stream{"source-fails-at-once", func() *c15Script { return &c15Script{} }},
		stream{"source-fails-after-5-bytes", func() *c15Script { return &c15Script{head: filler[:5]} }},
	)

	for _, st := range streams {
		for _, ob := range obfs {
			for ti, taglen := range []int{0, 1, 16, 32, 100} {
				kp := keys[(ti+len(st.name))%len(keys)]
				tag := make([]byte, taglen)
				rng.Read(tag)
				desc := fmt.Sprintf("%s stream=[%s] key=%s taglen=%d", ob.name, st.name, kp.kind, taglen)
				rec.Case(desc)
				rec.Count("evaluations", 1)
				src := st.mk()
				type result struct {
					enc    []byte
					err    error
					pk     bool
					pv, ps string
				}
				ch := make(chan result, 1)
				rand.Reader = src
				go func() {
					var r result
					var v interface{}
					r.pk, v, r.ps = c15Try(func() { r.enc, r.err = ob.o.Obfuscate(tag, kp.pub[:]) })
					r.pv = fmt.Sprint(v)
					ch <- r
				}()
				var r result
				select {
				case r = <-ch:
				case <-time.After(60 * time.Second):
					// the stream is finite, so the code is looping without drawing; leave the goroutine behind and stop
					rec.Inconclusive("Obfuscate did not return within 60 s on a finite scripted random stream", map[string]interface{}{"case": desc, "reads": "unknown (still running)"})
					return
				}
				rand.Reader = realReader
				d := map[string]interface{}{"case": desc, "random_bytes_drawn": src.served, "reads": src.reads}
				switch {
				case r.pk:
					rec.Violation("obfs:"+ob.name+":scripted-randomness:obfuscate-panic", "Obfuscate panicked under a scripted random source", map[string]interface{}{"case": desc, "panic": r.pv, "stack": r.ps})
					continue
				case r.err != nil:
					rec.Count("rejected", 1)
					rec.Distinct("nontrivial", desc)
					rec.Distinct("reject_reasons", fmt.Sprintf("%.50s", r.err.Error()))
					continue
				}
				var dec []byte
				var derr error
				if pk, v, stk := c15Try(func() { dec, derr = ob.o.TryReveal(append([]byte(nil), r.enc...), kp.priv) }); pk {
					rec.Violation("obfs:"+ob.name+":scripted-randomness:reveal-panic-on-own-encoding", "TryReveal panicked on what Obfuscate returned", map[string]interface{}{"case": desc, "panic": fmt.Sprint(v), "stack": stk})
					continue
				}
				if taglen == 0 && ob.name == "xor" && derr != nil && len(r.enc) == 0 {
					// (cannot happen on a tree where XOR refuses the empty tag; kept so that the old finding keeps its own signature)
					rec.Violation("obfs:xor:reveal-rejects-own-encoding:empty-tag", "Obfuscate accepted the tag (no error) but TryReveal refuses the result with the matching private key", d)
					continue
				}
				if derr != nil || !bytes.Equal(dec, tag) {
					d["encoded"] = kit.HexN(r.enc, 48)
					d["reveal_error"] = fmt.Sprint(derr)
					d["first_32_bytes_all_zero"] = len(r.enc) >= 32 && bytes.Equal(r.enc[:32], make([]byte, 32))
					rec.Violation("obfs:"+ob.name+":scripted-randomness:nil-error-but-unrevealable",
						"under a scripted random source Obfuscate returned an encoding without an error that TryReveal with the matching key does not open to the tag", d)
					continue
				}
				rec.Count("accepted_roundtrips", 1)
				rec.Distinct("nontrivial", desc)
				rec.Distinct("streams_with_accepted_roundtrip", st.name)
				if rec.WantSample() && strings.HasPrefix(st.name, "17-keys") && taglen == 32 && (ob.name == "gcm" || ob.name == "ctr") {
					rec.Sample(d)
				}
			}
		}
	}
}
