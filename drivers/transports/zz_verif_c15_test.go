//go:build verif

package transports

// C15 – tag obfuscation and URL-less transport-parameter packing.
//   obfuscators  for every variant (GCM, CTR, XOR, Nil) × key pairs (random, clamped, unclamped, extreme, ed25519-derived as
//                the station derives its key) × tag lengths 0..300: Obfuscate error, or TryReveal(Obfuscate(tag)) == tag;
//                two obfuscations of the same tag by a randomised variant must differ in their first 32 bytes
//                (the ephemeral key representative; for XOR the random pad, judged only for tags of 16+ bytes);
//                TryReveal on arbitrary bytes must not panic;
//                the SAME encoded buffer revealed repeatedly (right key twice; wrong key(s) then right key; right, wrong, right –
//                what a station trying several private keys on the bytes it read does) must yield the tag every time the right
//                key is used, TryReveal must leave the caller's buffer byte-for-byte unchanged whatever the key, and a result
//                returned earlier must not change under a later reveal
//   anypb        for every transport params message type × generated values × {type URL kept, stripped, legacy "tapdance."
//                URL} × {object handed over directly, carried inside a marshalled ClientToStation}: UnmarshalAnypbTo yields a
//                message proto.Equal to the original; a non-empty URL of another type must be refused

import (
	"bytes"
	"fmt"
	mrand "math/rand"
	"runtime/debug"
	"strings"
	"testing"

	kit "github.com/refraction-networking/conjure/internal/verifkit"
	pb "github.com/refraction-networking/conjure/proto"
	"github.com/refraction-networking/ed25519"
	"github.com/refraction-networking/ed25519/extra25519"
	"golang.org/x/crypto/curve25519"
	"google.golang.org/protobuf/proto"
	"google.golang.org/protobuf/types/known/anypb"
)

func c15Try(f func()) (panicked bool, val interface{}, stack string) {
	defer func() {
		if r := recover(); r != nil {
			panicked, val, stack = true, r, string(debug.Stack())
		}
	}()
	f()
	return
}

type c15KeyPair struct {
	kind string
	priv [32]byte
	pub  [32]byte
}

func c15KeyPairs(rng *mrand.Rand, n int) []c15KeyPair {
	var out []c15KeyPair
	mk := func(kind string, priv [32]byte) {
		kp := c15KeyPair{kind: kind, priv: priv}
		curve25519.ScalarBaseMult(&kp.pub, &kp.priv)
		out = append(out, kp)
	}
	// the way the station derives its key (as in the repository's own tests)
	_, edpriv, _ := ed25519.GenerateKey(rng)
	var p [32]byte
	extra25519.PrivateKeyToCurve25519(&p, edpriv)
	mk("ed25519-derived", p)
	var z, f [32]byte
	for i := range f {
		f[i] = 0xff
	}
	mk("all-zero-scalar", z)
	mk("all-ff-scalar", f)
	for i := 0; len(out) < n; i++ {
		var k [32]byte
		rng.Read(k[:])
		switch i % 3 {
		case 0:
			mk("random-unclamped", k)
		case 1:
			k[0] &= 248
			k[31] &= 127
			k[31] |= 64
			mk("random-clamped", k)
		case 2: // unclamped on purpose: low bits and top bit set
			k[0] |= 7
			k[31] |= 0x80
			mk("random-anticlamped", k)
		}
	}
	return out
}

type c15Obf struct {
	name       string
	o          Obfuscator
	randomised bool
	freshFrom  int // smallest tag length for which two encodings must differ
}

func TestVerifC15Obfuscators(t *testing.T) {
	rec := kit.NewRec("C15", "obfuscators")
	defer rec.Close()
	rng := kit.Rand("c15obfs")

	obfs := []c15Obf{
		{"gcm", GCMObfuscator{}, true, 0},
		{"ctr", CTRObfuscator{}, true, 0},
		{"xor", XORObfuscator{}, true, 16},
		{"nil", NilObfuscator{}, false, 0},
	}
	keys := c15KeyPairs(rng, kit.Tier(9, 40))
	maxLen := 300
	for ki, kp := range keys {
		for n := 0; n <= maxLen; n++ {
			// every length for the first two key pairs, a stride for the others (quick); all in thorough
			if !kit.Thorough() && ki >= 2 && n > 70 && n%7 != ki%7 {
				continue
			}
			tag := make([]byte, n)
			switch (n + ki) % 4 {
			case 0:
				rng.Read(tag)
			case 1: // all zero
			case 2:
				for i := range tag {
					tag[i] = 0xff
				}
			case 3:
				for i := range tag {
					tag[i] = byte(i)
				}
			}
			var wrong [][32]byte
			for j := 1; j <= 3; j++ {
				wrong = append(wrong, keys[(ki+j)%len(keys)].priv)
			}
			for _, ob := range obfs {
				c15ObfCase(rec, ob, kp, tag, wrong)
			}
		}
	}
	rec.Exhaustive(fmt.Sprintf("4 obfuscators × every tag length 0..%d for 2 key pairs (all %d key pairs in thorough)", maxLen, len(keys)))

	// TryReveal on arbitrary bytes: no panic (errors and garbage are both fine)
	var priv [32]byte
	for i, n := 0, kit.Tier(3000, 60000); i < n; i++ {
		b := make([]byte, rng.Intn(120))
		if i%5 == 0 {
			b = make([]byte, []int{0, 1, 31, 32, 33, 47, 48, 49, 64}[rng.Intn(9)])
		}
		rng.Read(b)
		rng.Read(priv[:])
		for _, ob := range obfs {
			rec.CaseCheap(fmt.Sprintf("arbitrary %s %s", ob.name, kit.HexN(b, 16)))
			snap := append([]byte(nil), b...)
			if pk, v, st := c15Try(func() { ob.o.TryReveal(b, priv) }); pk {
				rec.Violation("obfs:"+ob.name+":reveal-panic-on-arbitrary-bytes", "TryReveal panicked on arbitrary bytes",
					map[string]interface{}{"input": kit.Hex(snap), "panic": fmt.Sprint(v), "stack": st})
			}
			if !bytes.Equal(b, snap) {
				rec.Violation("obfs:"+ob.name+":reveal-modifies-its-input", "TryReveal changed the caller's buffer",
					map[string]interface{}{"case": "arbitrary bytes", "key": "arbitrary", "first_changed_byte": c15FirstDiff(b, snap), "before": kit.HexN(snap, 56), "after": kit.HexN(b, 56)})
				copy(b, snap)
			}
			rec.Count("arbitrary_decodes", 1)
		}
	}
}

func c15ObfCase(rec *kit.Rec, ob c15Obf, kp c15KeyPair, tag []byte, wrong [][32]byte) {
	desc := fmt.Sprintf("%s key=%s:%s taglen=%d", ob.name, kp.kind, kit.HexN(kp.priv[:], 4), len(tag))
	rec.CaseCheap(desc)
	rec.Count("evaluations", 1)
	orig := append([]byte(nil), tag...)
	lenClass := "nonempty-tag"
	if len(tag) == 0 {
		lenClass = "empty-tag"
	}
	var enc []byte
	var err error
	if pk, v, st := c15Try(func() { enc, err = ob.o.Obfuscate(tag, kp.pub[:]) }); pk {
		rec.Violation("obfs:"+ob.name+":obfuscate-panic", "Obfuscate panicked", map[string]interface{}{"case": desc, "panic": fmt.Sprint(v), "stack": st})
		return
	}
	if err != nil {
		rec.Count("rejected", 1)
		rec.Distinct("nontrivial", desc)
		return
	}
	encCopy := append([]byte(nil), enc...)
	var dec []byte
	var derr error
	if pk, v, st := c15Try(func() { dec, derr = ob.o.TryReveal(encCopy, kp.priv) }); pk {
		rec.Violation("obfs:"+ob.name+":reveal-panic-on-own-encoding", "TryReveal panicked on Obfuscate's output", map[string]interface{}{"case": desc, "panic": fmt.Sprint(v), "stack": st})
		return
	}
	switch {
	case derr != nil:
		rec.Violation("obfs:"+ob.name+":reveal-rejects-own-encoding:"+lenClass, "Obfuscate accepted the tag (no error) but TryReveal refuses the result with the matching private key",
			map[string]interface{}{"case": desc, "tag": kit.HexN(orig, 16), "encoded_len": len(enc), "encoded": kit.HexN(enc, 48), "reveal_error": derr.Error()})
		return
	case !bytes.Equal(dec, orig):
		rec.Violation("obfs:"+ob.name+":roundtrip-mismatch:"+lenClass, "TryReveal(Obfuscate(tag)) != tag",
			map[string]interface{}{"case": desc, "tag": kit.HexN(orig, 16), "revealed": kit.HexN(dec, 16), "encoded": kit.HexN(enc, 48), "top_bits_of_representative": func() interface{} {
				if len(enc) >= 32 {
					return enc[31] >> 6
				}
				return nil
			}()})
		return
	}
	rec.Count("accepted_roundtrips", 1)
	if !bytes.Equal(encCopy, enc) {
		rec.Violation("obfs:"+ob.name+":reveal-modifies-its-input", "TryReveal changed the caller's buffer (reveal with the matching key)",
			map[string]interface{}{"case": desc, "key": "right", "first_changed_byte": c15FirstDiff(encCopy, enc), "before": kit.HexN(enc, 56), "after": kit.HexN(encCopy, 56)})
	}
	// quick tier: the same-buffer schedules run for every tag length up to 70 and every third length beyond
	if (kit.Thorough() || len(tag) <= 70 || len(tag)%3 == 0) && !c15RevealSchedules(rec, ob, kp, desc, orig, enc, wrong) {
		return
	}
	if len(enc) >= 32 && (ob.name == "gcm" || ob.name == "ctr") {
		rec.Distinct("representative_top_bits_"+ob.name, enc[31]>>6) // all four values must be exercised: the reveal side masks them
	}
	if len(tag) > 0 {
		rec.Distinct("nontrivial", desc)
	}
	if ob.randomised && len(tag) >= ob.freshFrom {
		var enc2 []byte
		var err2 error
		if pk, v, st := c15Try(func() { enc2, err2 = ob.o.Obfuscate(tag, kp.pub[:]) }); pk {
			rec.Violation("obfs:"+ob.name+":obfuscate-panic", "Obfuscate panicked", map[string]interface{}{"case": desc, "panic": fmt.Sprint(v), "stack": st})
			return
		}
		if err2 == nil {
			n := 32
			if len(enc) < n {
				n = len(enc)
			}
			if len(enc2) < n {
				n = len(enc2)
			}
			rec.Count("freshness_checks", 1)
			if n > 0 && bytes.Equal(enc[:n], enc2[:n]) {
				rec.Violation("obfs:"+ob.name+":not-fresh", "two obfuscations of the same tag under the same station key begin with the same 32 bytes",
					map[string]interface{}{"case": desc, "first": kit.HexN(enc, 40), "second": kit.HexN(enc2, 40)})
				return
			}
			// the second encoding must reveal as well
			d2, e2 := ob.o.TryReveal(enc2, kp.priv)
			if e2 != nil || !bytes.Equal(d2, orig) {
				rec.Violation("obfs:"+ob.name+":roundtrip-mismatch:"+lenClass, "TryReveal(Obfuscate(tag)) != tag (second encoding)", map[string]interface{}{"case": desc, "encoded": kit.HexN(enc2, 48)})
				return
			}
		}
	}
	if rec.WantSample() && len(tag) == 32 {
		rec.Sample(map[string]interface{}{"case": desc, "encoded_len": len(enc), "encoded_head": kit.HexN(enc, 12), "revealed_equal": true})
	}
}

func c15FirstDiff(a, b []byte) int {
	n := len(a)
	if len(b) < n {
		n = len(b)
	}
	for i := 0; i < n; i++ {
		if a[i] != b[i] {
			return i
		}
	}
	if len(a) != len(b) {
		return n
	}
	return -1
}

// c15RevealSchedules reveals ONE buffer several times, as a station does that tries each of its private keys on the bytes it
// read: 'R' = the matching key, 'w' = a non-matching key.  The buffer is never restored between steps.
func c15RevealSchedules(rec *kit.Rec, ob c15Obf, kp c15KeyPair, desc string, tag, enc []byte, wrong [][32]byte) bool {
	ok := true
	for _, sched := range []string{"RR", "wR", "wwwR", "RwR"} {
		buf := append([]byte(nil), enc...)
		type res struct {
			step int
			out  []byte
		}
		var rights []res
		wi := 0
		for step, k := range sched {
			key, kind := kp.priv, "right"
			if k == 'w' {
				key, kind = wrong[wi%len(wrong)], "wrong"
				wi++
			}
			if bytes.Equal(key[:], kp.priv[:]) && kind == "wrong" {
				continue
			}
			sdesc := fmt.Sprintf("%s schedule=%s step=%d(%s key)", desc, sched, step, kind)
			rec.CaseCheap(sdesc)
			rec.Count("same_buffer_reveals", 1)
			before := append([]byte(nil), buf...)
			var out []byte
			var err error
			if pk, v, st := c15Try(func() { out, err = ob.o.TryReveal(buf, key) }); pk {
				rec.Violation("obfs:"+ob.name+":reveal-panic-on-own-encoding", "TryReveal panicked on Obfuscate's output", map[string]interface{}{"case": sdesc, "panic": fmt.Sprint(v), "stack": st})
				return false
			}
			if !bytes.Equal(buf, before) {
				ok = false
				rec.Violation("obfs:"+ob.name+":reveal-modifies-its-input", "TryReveal changed the caller's buffer",
					map[string]interface{}{"case": sdesc, "key": kind, "reveal_error": fmt.Sprint(err), "first_changed_byte": c15FirstDiff(buf, before),
						"before": kit.HexN(before, 56), "after": kit.HexN(buf, 56)})
			}
			if kind == "right" {
				if err != nil || !bytes.Equal(out, tag) {
					ok = false
					rec.Violation("obfs:"+ob.name+":right-key-fails-on-a-buffer-revealed-before", "the matching key does not yield the tag from a buffer that an earlier TryReveal has already looked at",
						map[string]interface{}{"case": sdesc, "reveal_error": fmt.Sprint(err), "revealed": kit.HexN(out, 16), "tag": kit.HexN(tag, 16),
							"buffer_still_equals_encoding": bytes.Equal(buf, enc)})
				} else {
					rights = append(rights, res{step, out})
				}
			}
		}
		for _, r := range rights { // results handed out earlier must still be the tag
			if !bytes.Equal(r.out, tag) {
				ok = false
				rec.Violation("obfs:"+ob.name+":earlier-result-changed-by-later-reveal", "a tag returned by TryReveal changed when the same buffer was revealed again",
					map[string]interface{}{"case": fmt.Sprintf("%s schedule=%s result-of-step=%d", desc, sched, r.step), "now": kit.HexN(r.out, 16), "tag": kit.HexN(tag, 16)})
			}
		}
		if ok {
			rec.Count("same_buffer_schedules_ok", 1)
			rec.Distinct("nontrivial", desc, sched)
		}
	}
	return ok
}

// ---- anypb --------------------------------------------------------------------------------------------------------------

func c15Bool(rng *mrand.Rand) *bool {
	switch rng.Intn(3) {
	case 0:
		return nil
	case 1:
		return proto.Bool(true)
	}
	return proto.Bool(false)
}

func c15I32(rng *mrand.Rand) *int32 {
	switch rng.Intn(6) {
	case 0:
		return nil
	case 1:
		return proto.Int32(0)
	case 2:
		return proto.Int32(-1)
	case 3:
		return proto.Int32(int32(rng.Intn(20)) - 2)
	case 4:
		return proto.Int32(-1 << 31)
	}
	return proto.Int32(int32(rng.Uint32()))
}

func c15Addr(rng *mrand.Rand, n int) *pb.Addr {
	switch rng.Intn(4) {
	case 0:
		return nil
	case 1:
		return &pb.Addr{}
	}
	ip := make([]byte, n)
	rng.Read(ip)
	a := &pb.Addr{IP: ip}
	if rng.Intn(4) != 0 {
		a.Port = proto.Uint32(uint32(rng.Intn(70000)))
	}
	return a
}

func c15GenParams(rng *mrand.Rand, typ int) proto.Message {
	switch typ {
	case 0:
		return &pb.GenericTransportParams{RandomizeDstPort: c15Bool(rng)}
	case 1:
		p := &pb.PrefixTransportParams{PrefixId: c15I32(rng), CustomFlushPolicy: c15I32(rng), RandomizeDstPort: c15Bool(rng)}
		switch rng.Intn(4) {
		case 0:
		case 1:
			p.Prefix = []byte{}
		default:
			p.Prefix = make([]byte, rng.Intn(300))
			rng.Read(p.Prefix)
		}
		return p
	default:
		return &pb.DTLSTransportParams{SrcAddr4: c15Addr(rng, 4), SrcAddr6: c15Addr(rng, 16), RandomizeDstPort: c15Bool(rng), Unordered: c15Bool(rng)}
	}
}

func c15NewOf(typ int) proto.Message {
	switch typ {
	case 0:
		return &pb.GenericTransportParams{}
	case 1:
		return &pb.PrefixTransportParams{}
	}
	return &pb.DTLSTransportParams{}
}

var c15TypeNames = []string{"GenericTransportParams", "PrefixTransportParams", "DTLSTransportParams"}

func TestVerifC15Anypb(t *testing.T) {
	rec := kit.NewRec("C15", "anypb")
	defer rec.Close()
	rng := kit.Rand("c15anypb")
	n := kit.Tier(600, 20000)
	for i := 0; i < n; i++ {
		typ := i % 3
		orig := c15GenParams(rng, typ)
		for _, urlMode := range []string{"kept", "stripped", "legacy-tapdance"} {
			for _, path := range []string{"direct", "via-c2s-wire"} {
				for _, dstMode := range []string{"fresh", "prepopulated"} {
					desc := fmt.Sprintf("%s url=%s path=%s dst=%s value={%s}", c15TypeNames[typ], urlMode, path, dstMode, c15Val(orig))
					rec.CaseCheap(desc)
					rec.Count("evaluations", 1)
					src, err := anypb.New(orig)
					if err != nil {
						t.Fatal(err)
					}
					switch urlMode {
					case "stripped":
						src.TypeUrl = ""
					case "legacy-tapdance":
						src.TypeUrl = strings.ReplaceAll(src.TypeUrl, "proto.", "tapdance.")
					}
					if path == "via-c2s-wire" { // the way the value really travels: inside the registration message
						c2s := &pb.ClientToStation{TransportParams: src, Transport: pb.TransportType_Prefix.Enum()}
						b, err := proto.Marshal(c2s)
						if err != nil {
							t.Fatal(err)
						}
						back := &pb.ClientToStation{}
						if err := proto.Unmarshal(b, back); err != nil {
							t.Fatal(err)
						}
						src = back.GetTransportParams()
					}
					dst := c15NewOf(typ)
					if dstMode == "prepopulated" {
						dst = c15GenParams(rng, typ)
					}
					valueBefore := append([]byte(nil), src.GetValue()...)
					var uerr error
					if pk, v, st := c15Try(func() { uerr = UnmarshalAnypbTo(src, dst) }); pk {
						rec.Violation("anypb:panic", "UnmarshalAnypbTo panicked", map[string]interface{}{"case": desc, "panic": fmt.Sprint(v), "stack": st})
						continue
					}
					if uerr != nil {
						rec.Violation("anypb:"+urlMode+":decoder-rejects-own-encoding", "UnmarshalAnypbTo refused a params message packed by anypb.New",
							map[string]interface{}{"case": desc, "error": uerr.Error()})
						continue
					}
					if again := c15NewOf(typ); UnmarshalAnypbTo(src, again) != nil || !proto.Equal(again, orig) || !bytes.Equal(src.GetValue(), valueBefore) {
						rec.Violation("anypb:"+urlMode+":second-decode-differs-or-input-modified", "unpacking the same Any a second time fails or differs, or its packed bytes were modified",
							map[string]interface{}{"case": desc, "value_unchanged": bytes.Equal(src.GetValue(), valueBefore)})
						continue
					}
					if !proto.Equal(dst, orig) {
						rec.Violation("anypb:"+urlMode+":roundtrip-mismatch", "UnmarshalAnypbTo produced a different message",
							map[string]interface{}{"case": desc, "got": c15Val(dst), "want": c15Val(orig)})
						continue
					}
					rec.Count("accepted_roundtrips", 1)
					if proto.Size(orig) > 0 {
						rec.Distinct("nontrivial", desc)
					}
					if rec.WantSample() && urlMode == "stripped" && path == "via-c2s-wire" && proto.Size(orig) > 4 {
						rec.Sample(map[string]interface{}{"case": desc, "packed_bytes": len(src.GetValue()), "decoded_equal": true})
					}
				}
			}
		}
		// a non-empty type URL naming another message type must be refused, never decoded into dst
		other := (typ + 1 + rng.Intn(2)) % 3
		src, _ := anypb.New(orig)
		dst := c15NewOf(other)
		desc := fmt.Sprintf("wrong-type %s into %s", c15TypeNames[typ], c15TypeNames[other])
		rec.CaseCheap(desc)
		rec.Count("evaluations", 1)
		var uerr error
		if pk, v, st := c15Try(func() { uerr = UnmarshalAnypbTo(src, dst) }); pk {
			rec.Violation("anypb:panic", "UnmarshalAnypbTo panicked", map[string]interface{}{"case": desc, "panic": fmt.Sprint(v), "stack": st})
		} else if uerr == nil {
			rec.Violation("anypb:wrong-type-url-accepted", "a params message carrying the type URL of another type was decoded instead of refused", map[string]interface{}{"case": desc})
		} else {
			rec.Count("wrong_type_refused", 1)
			rec.Distinct("nontrivial", desc)
		}
	}
	// nil source: documented as "no error, dst untouched"
	for typ := 0; typ < 3; typ++ {
		dst := c15NewOf(typ)
		rec.Count("evaluations", 1)
		if err := UnmarshalAnypbTo(nil, dst); err != nil || !proto.Equal(dst, c15NewOf(typ)) {
			rec.Violation("anypb:nil-source", "a nil source produced an error or changed dst", map[string]interface{}{"type": c15TypeNames[typ]})
		}
	}
}

// c15Val is a stable written-out form of a message (protobuf's String() is deliberately unstable).
func c15Val(m proto.Message) string {
	b, _ := proto.MarshalOptions{Deterministic: true}.Marshal(m)
	return kit.HexN(b, 48)
}
