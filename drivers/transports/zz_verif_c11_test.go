//go:build verif

package transports

// C11 – the helpers every transport's parameter parsing and tag recognition rests on:
//   transports.UnmarshalAnypbTo    arbitrary Any (incl. nil) into each of the three parameter messages
//   transports.Obfuscator.TryReveal  arbitrary ciphertexts (random at every threshold length, genuine
//                                  obfuscated tags raw-mutated / truncated) through the GCM, CTR, XOR
//                                  and Nil obfuscators with the station's private key
// Oracle: no panic (recovered per case, reported with the input) + the per-input watchdog.

import (
	"math/rand"
	"os"
	"testing"

	kit "github.com/refraction-networking/conjure/internal/verifkit"
	pb "github.com/refraction-networking/conjure/proto"
	"golang.org/x/crypto/curve25519"
	"google.golang.org/protobuf/proto"
	"google.golang.org/protobuf/types/known/anypb"
)

func verifC11ExecAny(c *kit.C11Case) string {
	_, a := kit.C11UnframeAny(c.In)
	ok := 0
	for _, dst := range []proto.Message{&pb.GenericTransportParams{}, &pb.PrefixTransportParams{}, &pb.DTLSTransportParams{}} {
		var src *anypb.Any
		if a != nil {
			src = proto.Clone(a).(*anypb.Any)
		}
		if err := UnmarshalAnypbTo(src, dst); err == nil {
			ok++
		}
	}
	return []string{"refused-by-all", "accepted-by-1", "accepted-by-2", "accepted-by-3"}[ok]
}

func verifC11GenAny(r *rand.Rand, idx int) kit.C11Case {
	return kit.C11ParamsInput(r, []string{"generic", "prefix", "dtls"}[r.Intn(3)])
}

var verifC11Priv, verifC11Pub [32]byte
var verifC11Obfs = []Obfuscator{GCMObfuscator{}, CTRObfuscator{}, XORObfuscator{}, NilObfuscator{}}

func verifC11Keys() {
	kit.Rand("c11-station-key").Read(verifC11Priv[:])
	verifC11Priv[0] &= 248
	verifC11Priv[31] &= 127
	verifC11Priv[31] |= 64
	pub, err := curve25519.X25519(verifC11Priv[:], curve25519.Basepoint)
	if err != nil {
		panic(err)
	}
	copy(verifC11Pub[:], pub)
}

func verifC11ExecReveal(c *kit.C11Case) string {
	ok := 0
	for _, o := range verifC11Obfs {
		if out, err := o.TryReveal(append([]byte(nil), c.In...), verifC11Priv); err == nil && out != nil {
			ok++
		}
	}
	if ok > 2 {
		return "revealed-by-3+"
	}
	return "revealed-by-<=2"
}

var verifC11TagLens = []int{0, 1, 2, 15, 16, 31, 32, 33, 47, 48, 49, 63, 64, 65, 79, 80, 81, 96, 255, 1024}

func verifC11GenReveal(r *rand.Rand, idx int) kit.C11Case {
	switch x := r.Intn(10); {
	case x < 3:
		b := make([]byte, verifC11TagLens[r.Intn(len(verifC11TagLens))])
		r.Read(b)
		return kit.C11Case{In: b, Kind: "random@threshold"}
	case x < 4:
		return kit.C11Case{In: kit.C11Random(r, 200), Kind: "random"}
	}
	tag := make([]byte, []int{0, 1, 16, 32, 32, 32, 33, 64}[r.Intn(8)])
	r.Read(tag)
	o := verifC11Obfs[r.Intn(3)]
	ct, err := o.Obfuscate(tag, verifC11Pub[:])
	if err != nil {
		return kit.C11Case{In: tag, Kind: "plain"}
	}
	switch r.Intn(4) {
	case 0:
		return kit.C11Case{In: ct, Kind: "genuine"}
	case 1:
		return kit.C11Case{In: ct[:r.Intn(len(ct)+1)], Kind: "genuine-cut"}
	}
	b, k := kit.C11Mutate(r, ct, nil)
	return kit.C11Case{In: b, Kind: k}
}

func TestVerifC11Transports(t *testing.T) {
	rec := kit.NewRec("C11", "transport-helpers")
	defer rec.Close()
	verifC11Keys()
	n := kit.Tier(40000, 2000000)
	kit.C11Drive(rec, kit.C11Entry{Name: "transports.UnmarshalAnypbTo", N: n, Workers: 4, Gen: verifC11GenAny, Exec: verifC11ExecAny, SampleEvery: 5000})
	kit.C11Drive(rec, kit.C11Entry{Name: "transports.Obfuscator.TryReveal", N: n, Workers: 8, Gen: verifC11GenReveal, Exec: verifC11ExecReveal, SampleEvery: 5000})
}

func verifC11Fuzz(f *testing.F, entry string, gen func(r *rand.Rand, idx int) kit.C11Case, exec func(c *kit.C11Case) string) {
	verifC11Keys()
	for _, s := range kit.C11Seeds(entry, 300, gen) {
		f.Add(s)
	}
	f.Fuzz(func(t *testing.T, b []byte) {
		c := &kit.C11Case{In: b, Kind: "fuzz"}
		if p := kit.C11FuzzOne(entry, b, func() { exec(c) }); p != nil && os.Getenv("VERIF_C11_FUZZ_OUT") == "" {
			t.Fatalf("panic in %s: %s\n%v", p.Frame, p.Val, p.Stack)
		}
	})
}

func FuzzVerifC11UnmarshalAny(f *testing.F) {
	verifC11Fuzz(f, "transports.UnmarshalAnypbTo", verifC11GenAny, verifC11ExecAny)
}
func FuzzVerifC11TryReveal(f *testing.F) {
	verifC11Fuzz(f, "transports.Obfuscator.TryReveal", verifC11GenReveal, verifC11ExecReveal)
}
