package verifkit

import (
	"bufio"
	"fmt"
	"io"
	"net"
	"strconv"
	"strings"
	"sync"
	"sync/atomic"
)

// FakeRedis is a minimal RESP server (PING, PUBLISH, HELLO/CLIENT/SELECT answered benignly) that
// records every PUBLISH payload in arrival order.
type FakeRedis struct {
	ln   net.Listener
	mu   sync.Mutex
	pubs []Pub
	cond *sync.Cond
	// StallPublish: a PUBLISH is read and recorded but never answered (a redis that accepts commands and does not
	// reply: overloaded, or a half-dead connection)
	StallPublish atomic.Bool
}

// Pub is one published message.
type Pub struct {
	T       int64
	Channel string
	Payload []byte
}

// NewFakeRedis listens on addr ("127.0.0.1:0" for a random port).
func NewFakeRedis(addr string) (*FakeRedis, error) {
	ln, err := net.Listen("tcp", addr)
	if err != nil {
		return nil, err
	}
	r := &FakeRedis{ln: ln}
	r.cond = sync.NewCond(&r.mu)
	go r.serve()
	return r, nil
}

func (r *FakeRedis) Addr() string { return r.ln.Addr().String() }
func (r *FakeRedis) Close()       { r.ln.Close() }

func (r *FakeRedis) serve() {
	for {
		c, err := r.ln.Accept()
		if err != nil {
			return
		}
		go r.handle(c)
	}
}

func readCmd(br *bufio.Reader) ([][]byte, error) {
	line, err := br.ReadString('\n')
	if err != nil {
		return nil, err
	}
	line = strings.TrimRight(line, "\r\n")
	if !strings.HasPrefix(line, "*") {
		// inline command
		var out [][]byte
		for _, f := range strings.Fields(line) {
			out = append(out, []byte(f))
		}
		return out, nil
	}
	n, err := strconv.Atoi(line[1:])
	if err != nil {
		return nil, err
	}
	out := make([][]byte, 0, n)
	for i := 0; i < n; i++ {
		l, err := br.ReadString('\n')
		if err != nil {
			return nil, err
		}
		l = strings.TrimRight(l, "\r\n")
		if !strings.HasPrefix(l, "$") {
			return nil, fmt.Errorf("bad bulk header %q", l)
		}
		sz, err := strconv.Atoi(l[1:])
		if err != nil {
			return nil, err
		}
		b := make([]byte, sz+2)
		if _, err := io.ReadFull(br, b); err != nil {
			return nil, err
		}
		out = append(out, b[:sz])
	}
	return out, nil
}

func (r *FakeRedis) handle(c net.Conn) {
	defer c.Close()
	br := bufio.NewReader(c)
	for {
		cmd, err := readCmd(br)
		if err != nil {
			return
		}
		if len(cmd) == 0 {
			continue
		}
		switch strings.ToUpper(string(cmd[0])) {
		case "PING":
			c.Write([]byte("+PONG\r\n"))
		case "PUBLISH":
			if len(cmd) >= 3 {
				r.mu.Lock()
				r.pubs = append(r.pubs, Pub{T: Tick(), Channel: string(cmd[1]), Payload: append([]byte(nil), cmd[2]...)})
				r.cond.Broadcast()
				r.mu.Unlock()
			}
			if r.StallPublish.Load() {
				continue
			}
			c.Write([]byte(":1\r\n"))
		case "HELLO":
			c.Write([]byte("-ERR unknown command 'HELLO'\r\n"))
		default:
			c.Write([]byte("+OK\r\n"))
		}
	}
}

// Pubs returns a copy of everything published so far.
func (r *FakeRedis) Pubs() []Pub {
	r.mu.Lock()
	defer r.mu.Unlock()
	return append([]Pub(nil), r.pubs...)
}

// Len is the number of publications so far.
func (r *FakeRedis) Len() int { r.mu.Lock(); defer r.mu.Unlock(); return len(r.pubs) }

// Reset forgets recorded publications.
func (r *FakeRedis) Reset() { r.mu.Lock(); r.pubs = nil; r.mu.Unlock() }
