package verifkit

import (
	"bytes"
	"errors"
	"fmt"
	"io"
	"net"
	"os"
	"sync"
	"syscall"
	"time"
)

// Seg is one step of a read script.
type Seg struct {
	Data  []byte // bytes returned by this Read (split over several Reads if the buffer is smaller)
	Err   error  // returned together with the last byte of Data, or alone if Data is empty
	Stall bool   // block until the (real) deadline passes, Close, or Release
	// Pause: the peer sends nothing for this long (virtual time).  If a read deadline is set and would fire
	// during the pause the Read returns a timeout at once (and the remaining pause stays); otherwise the pause
	// is skipped.  Pauses are compared one by one against the real clock, so several of them never add up
	// against a deadline: the emulation can only be more lenient than real time, never stricter.
	Pause time.Duration
}

// WStep is one step of a write script: the k-th Write accepts Accept bytes (<0: all) and returns Err.
type WStep struct {
	Accept int
	Err    error
	Block  bool // the Write parks (like a full send buffer) until the conn is closed, then fails with "use of closed"
}

// What the conn does when the read script is exhausted.
const (
	EndEOF            = iota // return io.EOF
	EndBlock                 // block until real deadline / Close
	EndVirtualTimeout        // if a read deadline is set: return a timeout error at once ("virtual deadline")
)

// Op is one recorded call on the conn.
type Op struct {
	T    int64     `json:"t"`
	Op   string    `json:"op"` // read write close setdeadline setreaddeadline setwritedeadline
	N    int       `json:"n"`
	Req  int       `json:"req,omitempty"` // bytes offered to Write
	Err  string    `json:"err,omitempty"`
	Arg  time.Time `json:"-"` // deadline argument
	Now  time.Time `json:"-"` // wall time at the call
	Virt bool      `json:"virt,omitempty"`
}

// ScriptConn is a scripted, recording, fault-injecting net.Conn.
type ScriptConn struct {
	Name          string
	Local, Remote net.Addr
	AtEnd         int
	WScript       map[int]WStep // by write index (0-based)
	DeadlineErr   map[int]error // by index over all Set*Deadline calls (0-based)
	CloseErr      error
	CloseDelay    time.Duration // every Close call takes this long
	OnWrite       func([]byte)  // called (outside the lock) with every accepted chunk
	MaxBlock      time.Duration // watchdog for a block with no deadline (default 20s); then EOF + HungNoDeadline
	OnRemoteAddr  func()        // called (outside the lock) whenever RemoteAddr is asked for: a rendezvous point for drivers

	mu         sync.Mutex
	cond       *sync.Cond
	segs       []Seg
	pos, off   int
	written    bytes.Buffer
	nWrites    int
	nDL        int
	ops        []Op
	closed     bool
	nClose     int
	nCloseDone int
	rdl, wdl   time.Time
	released   bool
	timer      *time.Timer
	readBytes  int

	// monitor-visible flags
	HungNoDeadline   bool
	VirtualFired     bool
	TerminalReadErr  error // first error a Read returned
	ReadAfterTermErr int
}

// NewScriptConn builds a conn; addresses default to distinctive TCP addresses.
func NewScriptConn(name string, local, remote net.Addr, segs []Seg, atEnd int) *ScriptConn {
	c := &ScriptConn{Name: name, Local: local, Remote: remote, segs: segs, AtEnd: atEnd}
	c.cond = sync.NewCond(&c.mu)
	return c
}

// ---- error construction, shaped exactly as package net shapes them -------------------------------

// NetOpErr builds the *net.OpError that package net would return for op on a conn with these addrs.
func NetOpErr(op string, local, remote net.Addr, inner error) error {
	switch op {
	case "set":
		return &net.OpError{Op: "set", Net: "tcp", Source: nil, Addr: local, Err: inner}
	case "dial":
		return &net.OpError{Op: "dial", Net: "tcp", Source: nil, Addr: remote, Err: inner}
	}
	return &net.OpError{Op: op, Net: "tcp", Source: local, Addr: remote, Err: inner}
}

// SysErr builds os.NewSyscallError(call, errno).
func SysErr(call string, e syscall.Errno) error { return os.NewSyscallError(call, e) }

func (c *ScriptConn) timeoutErr(op string) error {
	return NetOpErr(op, c.Local, c.Remote, os.ErrDeadlineExceeded)
}
func (c *ScriptConn) closedErr(op string) error {
	return NetOpErr(op, c.Local, c.Remote, net.ErrClosed)
}

// ---- feeding ---------------------------------------------------------------------------------

// Feed appends segments to the read script and wakes a blocked reader.
func (c *ScriptConn) Feed(segs ...Seg) {
	c.mu.Lock()
	c.segs = append(c.segs, segs...)
	c.cond.Broadcast()
	c.mu.Unlock()
}

// WaitConsumed blocks until every fed segment has been consumed by Reads, the conn was closed, or
// the timeout passed; it reports whether everything was consumed.
func (c *ScriptConn) WaitConsumed(d time.Duration) bool {
	deadline := time.Now().Add(d)
	t := time.AfterFunc(d, func() { c.mu.Lock(); c.cond.Broadcast(); c.mu.Unlock() })
	defer t.Stop()
	c.mu.Lock()
	defer c.mu.Unlock()
	for c.pos < len(c.segs) && !c.closed && time.Now().Before(deadline) {
		c.cond.Wait()
	}
	return c.pos >= len(c.segs)
}

// SetAtEnd changes the end-of-script behaviour and wakes a blocked reader.
func (c *ScriptConn) SetAtEnd(m int) {
	c.mu.Lock()
	c.AtEnd = m
	c.cond.Broadcast()
	c.mu.Unlock()
}

// Release ends a Stall.
func (c *ScriptConn) Release() {
	c.mu.Lock()
	c.released = true
	c.cond.Broadcast()
	c.mu.Unlock()
}

func (c *ScriptConn) rec(o Op) {
	o.T = Tick()
	o.Now = time.Now()
	c.ops = append(c.ops, o)
}

func errStr(e error) string {
	if e == nil {
		return ""
	}
	return e.Error()
}

func (c *ScriptConn) armTimer() {
	if c.timer != nil {
		c.timer.Stop()
		c.timer = nil
	}
	if !c.rdl.IsZero() {
		d := time.Until(c.rdl)
		if d < 0 {
			d = 0
		}
		c.timer = time.AfterFunc(d, func() { c.mu.Lock(); c.cond.Broadcast(); c.mu.Unlock() })
	}
}

// Read implements net.Conn.
func (c *ScriptConn) Read(p []byte) (int, error) {
	c.mu.Lock()
	defer c.mu.Unlock()
	n, err, virt := c.read(p)
	if err != nil {
		if c.TerminalReadErr == nil {
			c.TerminalReadErr = err
		} else {
			c.ReadAfterTermErr++
		}
	}
	c.readBytes += n
	c.rec(Op{Op: "read", N: n, Err: errStr(err), Virt: virt})
	c.cond.Broadcast()
	return n, err
}

func (c *ScriptConn) read(p []byte) (int, error, bool) {
	var blockStart time.Time
	for {
		if c.closed {
			return 0, c.closedErr("read"), false
		}
		if !c.rdl.IsZero() && !time.Now().Before(c.rdl) {
			return 0, c.timeoutErr("read"), false
		}
		if c.pos < len(c.segs) {
			s := &c.segs[c.pos]
			if s.Pause > 0 {
				if !c.rdl.IsZero() && c.rdl.Before(time.Now().Add(s.Pause)) {
					s.Pause -= time.Until(c.rdl)
					c.VirtualFired = true
					return 0, c.timeoutErr("read"), true
				}
				c.pos++
				c.cond.Broadcast() // a waiting WaitConsumed sees the pause as consumed
				continue
			}
			if s.Stall {
				if c.released {
					c.released = false
					c.pos++
					continue
				}
			} else {
				if len(p) == 0 {
					return 0, nil, false
				}
				n := copy(p, s.Data[c.off:])
				c.off += n
				if c.off >= len(s.Data) {
					err := s.Err
					c.pos++
					c.off = 0
					return n, err, false
				}
				return n, nil, false
			}
		} else {
			switch c.AtEnd {
			case EndEOF:
				return 0, errEOF, false
			case EndVirtualTimeout:
				if !c.rdl.IsZero() {
					c.VirtualFired = true
					return 0, c.timeoutErr("read"), true
				}
			}
		}
		// block
		if blockStart.IsZero() {
			blockStart = time.Now()
		}
		if c.rdl.IsZero() {
			mb := c.MaxBlock
			if mb == 0 {
				mb = 20 * time.Second
			}
			if time.Since(blockStart) > mb {
				c.HungNoDeadline = true
				return 0, errEOF, false
			}
			t := time.AfterFunc(mb/4+time.Millisecond, func() { c.mu.Lock(); c.cond.Broadcast(); c.mu.Unlock() })
			c.cond.Wait()
			t.Stop()
		} else {
			c.cond.Wait()
		}
	}
}

var errEOF = io.EOF

// Write implements net.Conn.
func (c *ScriptConn) Write(p []byte) (int, error) {
	c.mu.Lock()
	if c.closed {
		err := c.closedErr("write")
		c.rec(Op{Op: "write", N: 0, Err: errStr(err)})
		c.mu.Unlock()
		return 0, err
	}
	if !c.wdl.IsZero() && !time.Now().Before(c.wdl) {
		err := c.timeoutErr("write")
		c.rec(Op{Op: "write", N: 0, Err: errStr(err)})
		c.mu.Unlock()
		return 0, err
	}
	idx := c.nWrites
	c.nWrites++
	n := len(p)
	var err error
	if st, ok := c.WScript[idx]; ok {
		if st.Block {
			c.rec(Op{Op: "write-blocked", Req: len(p)})
			for !c.closed && (c.wdl.IsZero() || time.Now().Before(c.wdl)) {
				if !c.wdl.IsZero() {
					t := time.AfterFunc(time.Until(c.wdl)+time.Millisecond, func() { c.mu.Lock(); c.cond.Broadcast(); c.mu.Unlock() })
					c.cond.Wait()
					t.Stop()
				} else {
					c.cond.Wait()
				}
			}
			err := c.closedErr("write")
			if !c.closed {
				err = c.timeoutErr("write")
			}
			c.rec(Op{Op: "write", N: 0, Req: len(p), Err: errStr(err)})
			c.mu.Unlock()
			return 0, err
		}
		if st.Accept >= 0 && st.Accept < n {
			n = st.Accept
		}
		err = st.Err
	}
	c.written.Write(p[:n])
	c.rec(Op{Op: "write", N: n, Req: len(p), Err: errStr(err)})
	cb := c.OnWrite
	var chunk []byte
	if cb != nil && n > 0 {
		chunk = append([]byte(nil), p[:n]...)
	}
	c.mu.Unlock()
	if chunk != nil {
		cb(chunk)
	}
	return n, err
}

// Close implements net.Conn.
func (c *ScriptConn) Close() error {
	c.mu.Lock()
	c.nClose++
	d := c.CloseDelay
	c.mu.Unlock()
	if d > 0 {
		time.Sleep(d) // a close that takes time (SO_LINGER, a wrapped transport flushing)
	}
	c.mu.Lock()
	defer c.mu.Unlock()
	defer func() { c.nCloseDone++ }()
	if c.closed {
		err := c.closedErr("close")
		c.rec(Op{Op: "close", Err: errStr(err)})
		return err
	}
	c.closed = true
	if c.timer != nil {
		c.timer.Stop()
	}
	c.rec(Op{Op: "close", Err: errStr(c.CloseErr)})
	c.cond.Broadcast()
	return c.CloseErr
}

func (c *ScriptConn) setDL(op string, t time.Time, r, w bool) error {
	c.mu.Lock()
	defer c.mu.Unlock()
	idx := c.nDL
	c.nDL++
	if c.closed {
		err := NetOpErr("set", c.Local, c.Remote, net.ErrClosed)
		c.rec(Op{Op: op, Arg: t, Err: errStr(err)})
		return err
	}
	if e, ok := c.DeadlineErr[idx]; ok && e != nil {
		c.rec(Op{Op: op, Arg: t, Err: errStr(e)})
		return e
	}
	if r {
		c.rdl = t
		c.armTimer()
	}
	if w {
		c.wdl = t
	}
	c.rec(Op{Op: op, Arg: t})
	c.cond.Broadcast()
	return nil
}

func (c *ScriptConn) SetDeadline(t time.Time) error { return c.setDL("setdeadline", t, true, true) }
func (c *ScriptConn) SetReadDeadline(t time.Time) error {
	return c.setDL("setreaddeadline", t, true, false)
}
func (c *ScriptConn) SetWriteDeadline(t time.Time) error {
	return c.setDL("setwritedeadline", t, false, true)
}
func (c *ScriptConn) LocalAddr() net.Addr { return c.Local }
func (c *ScriptConn) RemoteAddr() net.Addr {
	if f := c.OnRemoteAddr; f != nil {
		f()
	}
	return c.Remote
}

// ---- observation -----------------------------------------------------------------------------

// Written returns a copy of everything Write accepted.
func (c *ScriptConn) Written() []byte {
	c.mu.Lock()
	defer c.mu.Unlock()
	return append([]byte(nil), c.written.Bytes()...)
}

// Ops returns a copy of the recorded calls.
func (c *ScriptConn) Ops() []Op {
	c.mu.Lock()
	defer c.mu.Unlock()
	return append([]Op(nil), c.ops...)
}

// ClosesDone is the number of Close calls that have returned.
func (c *ScriptConn) ClosesDone() int { c.mu.Lock(); defer c.mu.Unlock(); return c.nCloseDone }

// Closes is the number of Close calls so far.
func (c *ScriptConn) Closes() int { c.mu.Lock(); defer c.mu.Unlock(); return c.nClose }

// Consumed reports (segments consumed, total segments, bytes read).
func (c *ScriptConn) Consumed() (int, int, int) {
	c.mu.Lock()
	defer c.mu.Unlock()
	return c.pos, len(c.segs), c.readBytes
}

// State snapshot used by monitors at handler return.
type ConnState struct {
	Closed, VirtualFired, HungNoDeadline bool
	SegsConsumed, SegsTotal, BytesRead   int
	BytesWritten, Writes, Closes         int
	TerminalReadErr                      error
}

func (c *ScriptConn) State() ConnState {
	c.mu.Lock()
	defer c.mu.Unlock()
	return ConnState{Closed: c.closed, VirtualFired: c.VirtualFired, HungNoDeadline: c.HungNoDeadline,
		SegsConsumed: c.pos, SegsTotal: len(c.segs), BytesRead: c.readBytes,
		BytesWritten: c.written.Len(), Writes: c.nWrites, Closes: c.nClose, TerminalReadErr: c.TerminalReadErr}
}

// TCPAddr is a helper.
func TCPAddr(ip string, port int) *net.TCPAddr { return &net.TCPAddr{IP: net.ParseIP(ip), Port: port} }

// IsTimeout reports whether err is a net timeout.
func IsTimeout(err error) bool {
	var ne net.Error
	return errors.As(err, &ne) && ne.Timeout()
}

func (o Op) String() string { return fmt.Sprintf("%s(%d,%q)", o.Op, o.N, o.Err) }
