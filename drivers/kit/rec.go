// Package verifkit is the shared driver library of the /verif runtime monitors.  It is NOT part of
// the repository: it is injected as a virtual package by `go test -overlay` at check time.
package verifkit

import (
	"bufio"
	"crypto/sha256"
	"encoding/binary"
	"encoding/hex"
	"encoding/json"
	"fmt"
	"math/rand"
	"os"
	"path/filepath"
	"strconv"
	"sync"
	"sync/atomic"
)

// ---------------------------------------------------------------------------------------------
// environment

// Seed returns VERIF_SEED (default 1).
func Seed() int64 {
	if s := os.Getenv("VERIF_SEED"); s != "" {
		if v, err := strconv.ParseInt(s, 10, 64); err == nil {
			return v
		}
	}
	return 1
}

// Thorough reports whether VERIF_TIER=thorough.
func Thorough() bool { return os.Getenv("VERIF_TIER") == "thorough" }

// Tier picks the quick or the thorough value.
func Tier(quick, thorough int) int {
	if Thorough() {
		return thorough
	}
	return quick
}

// OutDir is where drivers write their event logs.
func OutDir() string {
	d := os.Getenv("VERIF_OUT")
	if d == "" {
		d = os.TempDir()
	}
	return d
}

// Rand returns a PRNG determined by VERIF_SEED and name.
func Rand(name string) *rand.Rand {
	h := sha256.Sum256([]byte(fmt.Sprintf("%d/%s", Seed(), name)))
	return rand.New(rand.NewSource(int64(binary.BigEndian.Uint64(h[:8]))))
}

// ---------------------------------------------------------------------------------------------
// logical clock

var clock atomic.Int64

// Tick returns the next value of the process-wide logical clock.
func Tick() int64 { return clock.Add(1) }

// ---------------------------------------------------------------------------------------------
// recorder

// Event is one JSONL record.
type Event struct {
	T      int64       `json:"t"`
	K      string      `json:"k"` // case | violation | summary | ev | inconclusive
	Prop   string      `json:"prop,omitempty"`
	Mon    string      `json:"mon,omitempty"`
	Sig    string      `json:"sig,omitempty"`
	Msg    string      `json:"msg,omitempty"`
	Detail interface{} `json:"detail,omitempty"`
}

// Summary is what a monitor observed; it is written once, by Close.
type Summary struct {
	Counts       map[string]int64 `json:"counts"`
	Distinct     map[string]int64 `json:"distinct"`
	Samples      []interface{}    `json:"samples"`
	Violations   int64            `json:"violations"`
	Inconclusive int64            `json:"inconclusive"`
	Exhaustive   []string         `json:"exhaustive,omitempty"`
	Notes        []string         `json:"notes,omitempty"`
}

// Rec records what one monitor of one property observes.
type Rec struct {
	Prop, Mon string

	mu       sync.Mutex
	f        *os.File
	w        *bufio.Writer
	counts   map[string]int64
	distinct map[string]map[[8]byte]struct{}
	samples  []interface{}
	nviol    int64
	nincon   int64
	vsigs    map[string]int
	exh      []string
	notes    []string
	lastCase interface{}
	maxSamp  int
	closed   bool
}

// NewRec opens $VERIF_OUT/<prop>.<mon>.jsonl.
func NewRec(prop, mon string) *Rec {
	p := filepath.Join(OutDir(), prop+"."+mon+".jsonl")
	f, err := os.OpenFile(p, os.O_CREATE|os.O_WRONLY|os.O_APPEND, 0o644)
	if err != nil {
		panic(err)
	}
	return &Rec{Prop: prop, Mon: mon, f: f, w: bufio.NewWriter(f),
		counts: map[string]int64{}, distinct: map[string]map[[8]byte]struct{}{},
		vsigs: map[string]int{}, maxSamp: 6}
}

func (r *Rec) emit(e Event, flush bool) {
	e.T = Tick()
	e.Prop, e.Mon = r.Prop, r.Mon
	b, err := json.Marshal(e)
	if err != nil {
		b, _ = json.Marshal(Event{T: e.T, K: e.K, Prop: e.Prop, Mon: e.Mon, Sig: e.Sig, Msg: e.Msg, Detail: fmt.Sprintf("%+v", e.Detail)})
	}
	r.w.Write(b)
	r.w.WriteByte('\n')
	if flush {
		r.w.Flush()
	}
}

// Case logs the descriptor of the case about to be executed (flushed, so that it survives a crash).
func (r *Rec) Case(desc interface{}) {
	r.mu.Lock()
	defer r.mu.Unlock()
	r.lastCase = desc
	// keep the file small: rewrite a single "last case" side file instead of appending every case
	b, _ := json.Marshal(Event{T: Tick(), K: "case", Prop: r.Prop, Mon: r.Mon, Detail: desc})
	_ = os.WriteFile(filepath.Join(OutDir(), r.Prop+"."+r.Mon+".lastcase"), b, 0o644)
}

// CaseCheap remembers the descriptor without writing it (for very hot loops whose cases cannot
// crash the process independently of the descriptor being known).
func (r *Rec) CaseCheap(desc interface{}) {
	r.mu.Lock()
	r.lastCase = desc
	r.mu.Unlock()
}

// Ev logs a free-form event (used for offline oracles).
func (r *Rec) Ev(msg string, detail interface{}) {
	r.mu.Lock()
	defer r.mu.Unlock()
	r.emit(Event{K: "ev", Msg: msg, Detail: detail}, false)
}

// Violation records a violation.  sig is the canonical signature used by the known-findings
// filter; at most 5 events per signature are written in full, the rest are only counted.
func (r *Rec) Violation(sig, msg string, detail interface{}) {
	r.mu.Lock()
	defer r.mu.Unlock()
	r.nviol++
	r.vsigs[sig]++
	if r.vsigs[sig] <= 5 {
		r.emit(Event{K: "violation", Sig: sig, Msg: msg, Detail: map[string]interface{}{"detail": detail, "case": r.lastCase}}, true)
	}
}

// Inconclusive records an observation that could decide neither way.
func (r *Rec) Inconclusive(msg string, detail interface{}) {
	r.mu.Lock()
	defer r.mu.Unlock()
	r.nincon++
	if r.nincon <= 20 {
		r.emit(Event{K: "inconclusive", Msg: msg, Detail: detail}, true)
	}
}

// Count adds n to a named counter.
func (r *Rec) Count(key string, n int) {
	r.mu.Lock()
	r.counts[key] += int64(n)
	r.mu.Unlock()
}

// Distinct adds a value to a named distinct-set (only a 64-bit hash is kept).
func (r *Rec) Distinct(key string, v ...interface{}) {
	h := sha256.New()
	for _, x := range v {
		fmt.Fprintf(h, "%v\x00", x)
	}
	var k [8]byte
	copy(k[:], h.Sum(nil))
	r.mu.Lock()
	m := r.distinct[key]
	if m == nil {
		m = map[[8]byte]struct{}{}
		r.distinct[key] = m
	}
	m[k] = struct{}{}
	r.mu.Unlock()
}

// Sample keeps up to a handful of written-out cases.
func (r *Rec) Sample(v interface{}) {
	r.mu.Lock()
	if len(r.samples) < r.maxSamp {
		r.samples = append(r.samples, v)
	}
	r.mu.Unlock()
}

// SampleN is like Sample but reports whether more samples are wanted (avoids building them).
func (r *Rec) WantSample() bool {
	r.mu.Lock()
	defer r.mu.Unlock()
	return len(r.samples) < r.maxSamp
}

// Exhaustive notes a sub-space that was enumerated completely.
func (r *Rec) Exhaustive(what string) {
	r.mu.Lock()
	r.exh = append(r.exh, what)
	r.mu.Unlock()
}

// Note adds a free-text note to the summary.
func (r *Rec) Note(s string) {
	r.mu.Lock()
	r.notes = append(r.notes, s)
	r.mu.Unlock()
}

// Violations returns the number of violations recorded so far.
func (r *Rec) Violations() int64 {
	r.mu.Lock()
	defer r.mu.Unlock()
	return r.nviol
}

// Close writes the summary event.
func (r *Rec) Close() {
	r.mu.Lock()
	defer r.mu.Unlock()
	if r.closed {
		return
	}
	r.closed = true
	s := Summary{Counts: r.counts, Distinct: map[string]int64{}, Samples: r.samples,
		Violations: r.nviol, Inconclusive: r.nincon, Exhaustive: r.exh, Notes: r.notes}
	for k, m := range r.distinct {
		s.Distinct[k] = int64(len(m))
	}
	r.emit(Event{K: "summary", Detail: s}, true)
	r.w.Flush()
	r.f.Close()
}

// Hex is a short helper for descriptors.
func Hex(b []byte) string { return hex.EncodeToString(b) }

// HexN abbreviates long byte strings in descriptors.
func HexN(b []byte, n int) string {
	if len(b) <= n {
		return hex.EncodeToString(b)
	}
	return fmt.Sprintf("%s…(%dB)", hex.EncodeToString(b[:n]), len(b))
}
