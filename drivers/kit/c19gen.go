package verifkit

// c19gen.go – generator of station configuration files (TOML *text*), phantom-subnet files and reload
// plans for the C19 monitors.  It is shared by the C19 drivers in pkg/station/lib and
// cmd/application (package main), which is why it lives in the kit.  Pure standard library.
//
// The generator only *labels* what it wrote (which key is in which state, whether the file can be a
// loadable configuration at all); every verdict is taken by the drivers from executions of the
// repository's real loader.

import (
	"fmt"
	"math/rand"
	"regexp"
	"runtime"
	"sort"
	"strings"
	"sync"
)

// ---- panic capture (shared by the three C19 drivers) ----------------------------------------------------

// C19Panic describes a recovered panic.
type C19Panic struct {
	Val   string
	Frame string // innermost repository frame that is not a driver / kit frame (function name, no line number)
	Kind  string // nilptr | divzero | index | regexp | chan-size | nilmap | other
}

// Sig is the canonical signature of the panic in the given step.
func (p *C19Panic) Sig(step string) string { return "panic:" + step + ":" + p.Frame + ":" + p.Kind }

func c19PanicKind(r interface{}) string {
	s := fmt.Sprint(r)
	switch {
	case strings.Contains(s, "nil pointer dereference"):
		return "nilptr"
	case strings.Contains(s, "integer divide by zero"):
		return "divzero"
	case strings.Contains(s, "index out of range"), strings.Contains(s, "slice bounds out of range"):
		return "index"
	case strings.HasPrefix(s, "regexp: Compile("):
		return "regexp"
	case strings.Contains(s, "makechan: size out of range"):
		return "chan-size"
	case strings.Contains(s, "nil map"):
		return "nilmap"
	}
	return "other"
}

const c19RepoPrefix = "github.com/refraction-networking/conjure/"

func c19PanicFrame() string {
	pcs := make([]uintptr, 64)
	n := runtime.Callers(2, pcs)
	frames := runtime.CallersFrames(pcs[:n])
	for {
		f, more := frames.Next()
		if strings.HasPrefix(f.Function, c19RepoPrefix) && !strings.Contains(f.Function, "verif") && !strings.Contains(f.Function, "Verif") {
			return strings.TrimPrefix(f.Function, c19RepoPrefix)
		}
		if !more {
			return "?"
		}
	}
}

// C19Try runs f and reports a panic instead of propagating it.
func C19Try(f func()) (p *C19Panic) {
	defer func() {
		if r := recover(); r != nil {
			p = &C19Panic{Val: fmt.Sprint(r), Frame: c19PanicFrame(), Kind: c19PanicKind(r)}
			if len(p.Val) > 300 {
				p.Val = p.Val[:300]
			}
		}
	}()
	f()
	return nil
}

// C19Config is one generated configuration file.
type C19Config struct {
	Text  string
	Class string // base | single | generated | shipped | shipped-perturbed | sparse | syntax-malformed | policy-type-error
	Desc  string // key:state vector (the case descriptor; also what "distinct" is counted on)
	// MustFail is non-empty when no correct loader can obtain a configuration (or its address-policy
	// part) from this file: "syntax" (not TOML) or "policy-type" (a policy list has the wrong TOML type).
	MustFail string
}

// C19State is one state of one key.  Lit == "" means: the key is absent from the file.
type C19State struct {
	Label string // unset | valid:… | zero | bad:…
	Lit   string // TOML literal
	Kind  string // unset | valid | zero | bad  (bad = the real loader or a later start-up step is expected to refuse it)
	//                 | entry (a list with one entry that cannot be parsed as written) | ptype (policy list of the wrong type)
}

// C19Key is one optional configuration key with every state the generator can put it in.
type C19Key struct {
	Name   string
	States []C19State
	Base   int // index of the state used by the base configuration
}

// c19SetBase selects the base state by label.
func c19SetBase(k C19Key, label string) C19Key {
	for i, s := range k.States {
		if s.Label == label {
			k.Base = i
			return k
		}
	}
	panic("c19gen: key " + k.Name + " has no state " + label)
}

// C19Q renders a TOML basic string.
func C19Q(s string) string {
	var b strings.Builder
	b.WriteByte('"')
	for _, r := range s {
		switch r {
		case '\\':
			b.WriteString(`\\`)
		case '"':
			b.WriteString(`\"`)
		case '\t':
			b.WriteString(`\t`)
		case '\n':
			b.WriteString(`\n`)
		case '\r':
			b.WriteString(`\r`)
		default:
			if r < 0x20 {
				fmt.Fprintf(&b, `\u%04X`, r)
			} else {
				b.WriteRune(r)
			}
		}
	}
	b.WriteByte('"')
	return b.String()
}

func c19List(items ...string) string {
	q := make([]string, len(items))
	for i, s := range items {
		q[i] = C19Q(s)
	}
	return "[" + strings.Join(q, ", ") + "]"
}

// ---- pools ------------------------------------------------------------------------------------------

// C19GoodCovertNets are well-formed covert block/allow-list entries.
var C19GoodCovertNets = []string{
	"127.0.0.1/32", "10.0.0.0/8", "172.16.0.0/12", "192.168.0.0/16", "192.0.0.1/16", "100.64.0.0/10",
	"169.254.0.0/16", "203.0.113.0/24", "fc00::/7", "fe80::0/16", "::1/128", "2001:db8::/32", "2001:DB8:ABCD::/48",
}

// C19GoodPhantomNets are well-formed phantom-blocklist entries (they overlap the phantom subnets used
// by the subnet files below, so that the probe set sees both verdicts).
var C19GoodPhantomNets = []string{
	"192.122.190.0/28", "192.122.190.128/25", "2001:48a8:687f:1::/65", "141.219.0.0/16", "10.0.0.0/16",
	"192.168.10.0/24", "35.8.0.0/17", "2001:1::/64",
}

// C19Overlap is a pair of well-formed entries whose ranges overlap: Narrow lies inside Wide.
type C19Overlap struct {
	Label        string
	Narrow, Wide string
}

// C19CovertOverlaps / C19PhantomOverlaps: same base address with different prefix lengths (incl. a base
// written with host bits, as the shipped file does), nested ranges with different bases, IPv6.  Every
// pair is generated in both orders, and each entry also doubled.
var C19CovertOverlaps = []C19Overlap{
	{"same-base-v4", "192.168.0.0/24", "192.168.0.0/16"},
	{"same-base-hostbits", "127.0.0.1/32", "127.0.0.1/8"},
	{"same-base-v6", "2001:db8::/48", "2001:db8::/32"},
	{"nested-v4", "10.20.0.0/16", "10.0.0.0/8"},
	{"nested-v6", "fd12:3456::/32", "fc00::/7"},
}
var C19PhantomOverlaps = []C19Overlap{
	{"same-base-v4", "192.122.190.0/28", "192.122.190.0/24"},
	{"same-base-v6", "2001:48a8:687f:1::/96", "2001:48a8:687f:1::/64"},
	{"nested-v4", "141.219.5.0/24", "141.219.0.0/16"},
	{"nested-v6", "2001:1::8000:0/100", "2001:1::/64"},
}

// C19BadEntry is a list entry that net.ParseCIDR-style strict parsing refuses.
type C19BadEntry struct {
	S     string
	Class string // ws-trail | ws-lead | bare-ip | garbage
}

// C19BadEntries: the first group still names an address range to anybody who reads it leniently
// (surrounding blanks, a bare address); the second group names nothing at all.
var C19BadEntries = []C19BadEntry{
	{"fc00::/7 ", "ws-trail"}, {"10.0.0.0/8 ", "ws-trail"}, {"172.16.0.0/12\t", "ws-trail"}, {"141.219.0.0/16 ", "ws-trail"},
	{" 192.168.0.0/16", "ws-lead"}, {" 2001:db8::/32", "ws-lead"},
	{"203.0.113.9", "bare-ip"}, {"2001:db8::5", "bare-ip"}, {"192.122.190.7", "bare-ip"},
	{"not-a-subnet", "garbage"}, {"10.0.0.0/33", "garbage"}, {"300.1.2.3/8", "garbage"}, {"10.0.0.0/8/8", "garbage"},
	{"fe80::/129", "garbage"}, {"/24", "garbage"}, {"10.0.0.0/", "garbage"}, {"::g/64", "garbage"},
}

// C19DomainPat is a covert_blocklist_domains pattern together with a host name it must refuse.
type C19DomainPat struct {
	Pattern string
	Witness string
}

var C19GoodDomains = []C19DomainPat{
	{"localhost", "localhost"},
	{`.*blocked\.com$`, "abc.blocked.com"},
	{`blocked1\.com`, "blocked1.com"},
	{`^internal\.`, "internal.corp.example"},
	{`(?i)\.LAN$`, "printer.lan"},
	{`\.test$`, "a.test"},
	{`^(.+\.)?example\.org$`, "www.example.org"},
	{`[0-9]+\.cdn\.example$`, "42.cdn.example"},
	// patterns that match the TEXT of an address literal: the pattern list is applied to the host the
	// client sent, whatever kind of host it is (appended last: the fixed states above keep their entries)
	{`^169\.254\.`, "169.254.169.254"},
	{`^::ffff:`, "::ffff:8.8.8.8"},
}

// C19BadDomains do not compile as Go regular expressions.
var C19BadDomains = []string{"(unclosed", "[a-", "*", `\`, "(?P<n", "a{2,1}", "(?z)x"}

// C19DomainWitness returns the host name that the pattern (if it is one of the pool) must refuse.
func C19DomainWitness(pattern string) (string, bool) {
	for _, d := range C19GoodDomains {
		if d.Pattern == pattern {
			return d.Witness, true
		}
	}
	return "", false
}

const c19Sockets = `
[[connect_sockets]]
address = "tcp://registration.refraction.network:5591"
type = "CURVE"
pubkey = "s5gkB.U$dl]gO=F{Qo3=4Api-T$5#tpwaT/bSOr@"
subscription = ""

[[connect_sockets]]
address = "ipc://@detector"
type = "NULL"
`

// C19RegKeys are the keys that belong to the registration part of the station configuration
// (RegConfig incl. the embedded liveness and GeoIP parts).
var C19RegKeys = []string{
	"cache_expiration_time", "cache_capacity", "cache_expiration_nonlive", "cache_capacity_nonlive",
	"geoip_cc_db_path", "geoip_asn_db_path", "ingest_worker_count", "enable_share_over_api", "preshare_endpoint",
	"enable_v4", "enable_v6", "covert_blocklist_subnets", "covert_blocklist_public_addrs", "covert_allowlist_subnets",
	"covert_blocklist_domains", "phantom_blocklist",
}

// C19PolicyKeys are the list-valued address-policy keys.
var C19PolicyKeys = []string{"covert_blocklist_subnets", "covert_allowlist_subnets", "covert_blocklist_domains", "phantom_blocklist"}

func c19ScalarKey(name string, base string, states ...C19State) C19Key {
	return c19SetBase(C19Key{Name: name, States: append([]C19State{{Label: "unset", Kind: "unset"}}, states...)}, base)
}
func c19V(label, lit string) C19State {
	return C19State{Label: "valid:" + label, Lit: lit, Kind: "valid"}
}
func c19Z(lit string) C19State { return C19State{Label: "zero", Lit: lit, Kind: "zero"} }
func c19Bad(label, lit string) C19State {
	return C19State{Label: "bad:" + label, Lit: lit, Kind: "bad"}
}
func c19Ent(label, lit string) C19State {
	return C19State{Label: "entry:" + label, Lit: lit, Kind: "entry"}
}
func c19PT(label, lit string) C19State {
	return C19State{Label: "ptype:" + label, Lit: lit, Kind: "ptype"}
}

func c19DurationKey(name string, base string) C19Key {
	return c19ScalarKey(name, base,
		c19V("2.0h", `"2.0h"`), c19V("5m", `"5m"`), c19V("90s", `"90s"`), c19V("1ns", `"1ns"`), c19V("0s", `"0s"`), c19V("-5m", `"-5m"`),
		c19Z(`""`), c19Bad("no-unit", `"5"`), c19Bad("word", `"abc"`), c19Bad("type-int", `7`))
}
func c19CapKey(name string, base string) C19Key {
	return c19ScalarKey(name, base,
		c19V("1", `1`), c19V("3", `3`), c19V("100000", `100000`), c19V("-1", `-1`), c19Z(`0`), c19Bad("type-string", `"10"`), c19Bad("type-float", `1.5`))
}
func c19BoolKey(name string, base string) C19Key {
	return c19ScalarKey(name, base, c19V("true", `true`), c19Z(`false`), c19Bad("type-string", `"yes"`))
}

func c19NetListKey(name string, good []string, overlaps []C19Overlap, base string) C19Key {
	k := C19Key{Name: name}
	k.States = append(k.States, C19State{Label: "unset", Kind: "unset"}, c19Z(`[]`))
	// a few fixed valid lists and (when rng != nil) one drawn list
	k.States = append(k.States, c19V("one", c19List(good[0])), c19V("three", c19List(good[1], good[2], good[len(good)-1])), c19V("all", c19List(good...)))
	// overlapping well-formed entries, both orders, an unrelated entry in between or not, duplicates
	for i, o := range overlaps {
		other := good[(3+i)%len(good)]
		k.States = append(k.States,
			c19V("overlap:"+o.Label+":narrow-wide", c19List(o.Narrow, o.Wide)),
			c19V("overlap:"+o.Label+":wide-narrow", c19List(o.Wide, o.Narrow)),
			c19V("overlap:"+o.Label+":narrow-x-wide", c19List(o.Narrow, other, o.Wide)),
			c19V("overlap:"+o.Label+":dup", c19List(o.Wide, o.Wide, o.Narrow, o.Narrow)))
	}
	for _, be := range C19BadEntries {
		// the offending entry sits between well-formed ones
		k.States = append(k.States, c19Ent(be.Class+":"+strings.TrimSpace(be.S), c19List(good[1], be.S, good[2])))
	}
	k.States = append(k.States, c19Ent("garbage-only", c19List("not-a-subnet")), c19Ent("ws-only", c19List(good[1]+" ")))
	k.States = append(k.States, c19PT("int", `5`), c19PT("int-array", `[1, 2]`))
	k = c19SetBase(k, base)
	return k
}

func c19DomainKey(base string) C19Key {
	k := C19Key{Name: "covert_blocklist_domains"}
	k.States = append(k.States, C19State{Label: "unset", Kind: "unset"}, c19Z(`[]`))
	var all []string
	for _, d := range C19GoodDomains {
		all = append(all, d.Pattern)
	}
	k.States = append(k.States, c19V("localhost", c19List("localhost")), c19V("three", c19List(all[1], all[2], all[4])), c19V("all", c19List(all...)),
		c19V("literal-v4", c19List("localhost", all[8])), c19V("literal-mapped", c19List(all[9], all[3])))
	for _, b := range C19BadDomains {
		k.States = append(k.States, C19State{Label: "regex:" + b, Lit: c19List(all[1], b), Kind: "regex"})
	}
	k.States = append(k.States, c19PT("int", `5`), c19PT("int-array", `[1, 2]`))
	return c19SetBase(k, base)
}

// C19Keys returns every optional key with its states.  garbageDB is the path of an existing file
// that is not a MaxMind database.  rng may be nil (then only the fixed states are produced).
func C19Keys(garbageDB string, rng *rand.Rand) []C19Key {
	c19KeysMu.Lock()
	fixed, ok := c19KeysCache[garbageDB]
	if !ok {
		fixed = c19KeysBuild(garbageDB)
		c19KeysCache[garbageDB] = fixed
	}
	c19KeysMu.Unlock()
	keys := append([]C19Key(nil), fixed...)
	if rng == nil {
		return keys
	}
	for i, k := range keys {
		var good []string
		var overlaps []C19Overlap
		switch k.Name {
		case "covert_blocklist_subnets", "covert_allowlist_subnets":
			good, overlaps = C19GoodCovertNets, C19CovertOverlaps
		case "phantom_blocklist":
			good, overlaps = C19GoodPhantomNets, C19PhantomOverlaps
		default:
			continue
		}
		// one drawn list: pool entries and both halves of overlap pairs in random order (so narrower
		// and wider ranges meet in either order, with or without other entries between them)
		n := 1 + rng.Intn(5)
		var items []string
		for j := 0; j < n; j++ {
			switch rng.Intn(3) {
			case 0:
				o := overlaps[rng.Intn(len(overlaps))]
				if rng.Intn(2) == 0 {
					items = append(items, o.Narrow, o.Wide)
				} else {
					items = append(items, o.Wide, o.Narrow)
				}
			default:
				items = append(items, good[rng.Intn(len(good))])
			}
		}
		rng.Shuffle(len(items), func(a, b int) { items[a], items[b] = items[b], items[a] })
		// appended last so that the fixed states keep their positions
		st := append([]C19State(nil), k.States...)
		keys[i].States = append(st, c19V("drawn", c19List(items...)))
	}
	return keys
}

var (
	c19KeysMu    sync.Mutex
	c19KeysCache = map[string][]C19Key{}
)

func c19KeysBuild(garbageDB string) []C19Key {
	keys := []C19Key{
		c19ScalarKey("log_level", "valid:error", c19V("error", `"error"`), c19V("info", `"info"`), c19V("debug", `"debug"`), c19V("trace", `"trace"`), c19V("warn", `"warn"`),
			c19V("INFO", `"INFO"`), c19Z(`""`), c19Bad("word", `"bogus"`), c19Bad("type-int", `5`)),
		c19ScalarKey("privkey_path", "zero", c19Z(`""`), c19V("missing", `"/nonexistent/privkey"`)),
		c19ScalarKey("zmq_privkey_path", "zero", c19Z(`""`), c19V("missing", `"/nonexistent/zmqkey"`)),
		c19ScalarKey("supplemental_prefix_path", "zero", c19Z(`""`), c19V("missing", `"/nonexistent/prefixes.toml"`)),
		c19BoolKey("disable_default_prefixes", "zero"),
		c19DurationKey("cache_expiration_time", "valid:2.0h"),
		c19CapKey("cache_capacity", "zero"),
		c19DurationKey("cache_expiration_nonlive", "valid:5m"),
		c19CapKey("cache_capacity_nonlive", "zero"),
		c19BoolKey("enable_v4", "valid:true"),
		c19BoolKey("enable_v6", "zero"),
		c19ScalarKey("ingest_worker_count", "valid:100", c19V("1", `1`), c19V("9", `9`), c19V("10", `10`), c19V("100", `100`), c19V("2000", `2000`), c19V("-3", `-3`), c19V("-100", `-100`), c19Z(`0`), c19Bad("type-string", `"many"`)),
		c19BoolKey("enable_share_over_api", "zero"),
		c19ScalarKey("preshare_endpoint", "zero", c19Z(`""`), c19V("url", `"http://127.0.0.1:1/register"`)),
		c19NetListKey("covert_blocklist_subnets", C19GoodCovertNets, C19CovertOverlaps, "valid:all"),
		c19BoolKey("covert_blocklist_public_addrs", "zero"),
		c19NetListKey("covert_allowlist_subnets", C19GoodCovertNets, C19CovertOverlaps, "zero"),
		c19DomainKey("valid:localhost"),
		c19NetListKey("phantom_blocklist", C19GoodPhantomNets, C19PhantomOverlaps, "valid:one"),
		c19ScalarKey("detector_filter_list", "valid:shipped", c19V("shipped", `["127.0.0.1", "::1"]`), c19Z(`[]`)),
		c19ScalarKey("geoip_cc_db_path", "zero", c19Z(`""`), c19Bad("missing", `"/nonexistent/GeoLite2-Country.mmdb"`), c19Bad("not-a-db", C19Q(garbageDB))),
		c19ScalarKey("geoip_asn_db_path", "zero", c19Z(`""`), c19Bad("missing", `"/nonexistent/GeoLite2-ASN.mmdb"`), c19Bad("not-a-db", C19Q(garbageDB))),
		c19ScalarKey("socket_name", "valid:zmq-proxy", c19V("zmq-proxy", `"zmq-proxy"`), c19Z(`""`)),
		c19ScalarKey("heartbeat_interval", "valid:30000", c19V("30000", `30000`), c19V("-1", `-1`), c19Z(`0`), c19Bad("type-string", `"x"`)),
		c19ScalarKey("heartbeat_timeout", "valid:1000", c19V("1000", `1000`), c19V("-1", `-1`), c19Z(`0`), c19Bad("type-string", `"x"`)),
	}
	// connect_sockets is rendered as tables after the plain keys; Lit holds the table text.
	keys = append(keys, C19Key{Name: "connect_sockets", Base: 1, States: []C19State{
		{Label: "unset", Kind: "unset"},
		{Label: "valid:shipped", Lit: c19Sockets, Kind: "valid"},
		{Label: "valid:null-only", Lit: "\n[[connect_sockets]]\naddress = \"ipc://@detector\"\ntype = \"NULL\"\n", Kind: "valid"},
		{Label: "zero", Lit: "\n[[connect_sockets]]\n", Kind: "zero"},
		{Label: "bad:type-int", Lit: "\n[[connect_sockets]]\naddress = 5\n", Kind: "bad"},
	}})
	return keys
}

func c19Render(keys []C19Key, choice []int) (text, desc string) {
	var b, d strings.Builder
	var tables string
	for i, k := range keys {
		st := k.States[choice[i]]
		fmt.Fprintf(&d, "%s=%s;", k.Name, st.Label)
		if st.Kind == "unset" {
			continue
		}
		if k.Name == "connect_sockets" {
			tables = st.Lit
			continue
		}
		fmt.Fprintf(&b, "%s = %s\n", k.Name, st.Lit)
	}
	b.WriteString(tables)
	return b.String(), d.String()
}

func c19MustFail(keys []C19Key, choice []int) string {
	for i, k := range keys {
		if k.States[choice[i]].Kind == "ptype" {
			return "policy-type"
		}
	}
	return ""
}

// C19Base is the base configuration: every key present with a well-formed value.
func C19Base(garbageDB string) C19Config {
	keys := C19Keys(garbageDB, nil)
	choice := make([]int, len(keys))
	for i, k := range keys {
		choice[i] = k.Base
	}
	text, desc := c19Render(keys, choice)
	return C19Config{Text: text, Class: "base", Desc: desc}
}

// C19Variant is the base configuration with the given keys put into the states named by label.
func C19Variant(garbageDB string, set map[string]string) C19Config {
	keys := C19Keys(garbageDB, nil)
	choice := make([]int, len(keys))
	var names []string
	for i, k := range keys {
		choice[i] = k.Base
		if label, ok := set[k.Name]; ok {
			k = c19SetBase(k, label)
			choice[i] = k.Base
			names = append(names, k.Name+"="+label)
		}
	}
	sort.Strings(names)
	text, _ := c19Render(keys, choice)
	return C19Config{Text: text, Class: "variant", Desc: "variant:" + strings.Join(names, ";"), MustFail: c19MustFail(keys, choice)}
}

// C19Singles enumerates every single-key variation of the base configuration: every key × every
// one of its states.
func C19Singles(garbageDB string) []C19Config {
	keys := C19Keys(garbageDB, nil)
	var out []C19Config
	for i, k := range keys {
		for s := range k.States {
			if s == k.Base {
				continue
			}
			choice := make([]int, len(keys))
			for j, kk := range keys {
				choice[j] = kk.Base
			}
			choice[i] = s
			text, _ := c19Render(keys, choice)
			out = append(out, C19Config{Text: text, Class: "single", Desc: "single:" + k.Name + "=" + k.States[s].Label, MustFail: c19MustFail(keys, choice)})
		}
	}
	return out
}

// c19Pick chooses a state index of k: mostly unset / valid / zero, sometimes a state that the
// start-up is expected to refuse, sometimes an unparsable list entry.
func c19Pick(k C19Key, rng *rand.Rand, pBad float64) int {
	byKind := map[string][]int{}
	for i, s := range k.States {
		byKind[s.Kind] = append(byKind[s.Kind], i)
	}
	r := rng.Float64()
	var kind string
	isPolicy := false
	for _, p := range C19PolicyKeys {
		if p == k.Name {
			isPolicy = true
		}
	}
	switch {
	case isPolicy && k.Name == "covert_allowlist_subnets":
		switch {
		case r < 0.45:
			kind = "unset"
		case r < 0.65:
			kind = "zero"
		case r < 0.87:
			kind = "valid"
		case r < 0.98:
			kind = "entry"
		default:
			kind = "ptype"
		}
	case isPolicy:
		switch {
		case r < 0.18:
			kind = "unset"
		case r < 0.30:
			kind = "zero"
		case r < 0.84:
			kind = "valid"
		case r < 0.95:
			kind = "entry" // lists of subnets
			if len(byKind["entry"]) == 0 {
				kind = "valid"
				if r < 0.90 {
					kind = "regex" // the domain list: a pattern that does not compile
				}
			}
		case r < 0.975:
			kind = "ptype"
		default:
			kind = "valid"
		}
	default:
		switch {
		case r < 0.25:
			kind = "unset"
		case r < 0.25+pBad:
			kind = "bad"
		case r < 0.40:
			kind = "zero"
		default:
			kind = "valid"
		}
	}
	c := byKind[kind]
	if len(c) == 0 {
		kind = "valid"
		c = byKind["valid"]
	}
	if len(c) == 0 {
		return 0
	}
	if kind == "valid" {
		// the subnet lists have many overlap states: keep the three groups balanced
		var fixed, overlap, drawn []int
		for _, i := range c {
			switch l := k.States[i].Label; {
			case strings.HasPrefix(l, "valid:overlap:"):
				overlap = append(overlap, i)
			case l == "valid:drawn":
				drawn = append(drawn, i)
			default:
				fixed = append(fixed, i)
			}
		}
		if len(overlap) > 0 {
			switch x := rng.Float64(); {
			case x < 0.40 && len(drawn) > 0:
				c = drawn
			case x < 0.70:
				c = overlap
			default:
				c = fixed
			}
		}
	}
	return c[rng.Intn(len(c))]
}

// c19Perturb replaces (or removes) the value of one key of the shipped file.
func c19Perturb(shipped string, keys []C19Key, rng *rand.Rand) (string, string, string) {
	for tries := 0; tries < 50; tries++ {
		k := keys[rng.Intn(len(keys))]
		if k.Name == "connect_sockets" {
			continue
		}
		si := rng.Intn(len(k.States))
		st := k.States[si]
		var re *regexp.Regexp
		if k.Name == "covert_blocklist_subnets" {
			re = regexp.MustCompile(`(?ms)^covert_blocklist_subnets = \[.*?^\]$`)
		} else {
			re = regexp.MustCompile(`(?m)^` + regexp.QuoteMeta(k.Name) + ` = .*$`)
		}
		if !re.MatchString(shipped) {
			continue
		}
		repl := ""
		if st.Kind != "unset" {
			repl = k.Name + " = " + st.Lit
		}
		done := false
		text := re.ReplaceAllStringFunc(shipped, func(m string) string {
			if done {
				return m
			}
			done = true
			return repl
		})
		mf := ""
		if st.Kind == "ptype" {
			mf = "policy-type"
		}
		return text, "shipped-perturbed:" + k.Name + "=" + st.Label, mf
	}
	return shipped, "shipped", ""
}

var c19Corruptions = []struct{ Name, Tail string }{
	{"unclosed-string", "\nbroken_key = \"abc\n"},
	{"unclosed-array", "\nbroken_list = [\"a\", \n"},
	{"bare-word", "\nthis is not toml\n"},
	{"bad-table", "\n[[[x]]]\n"},
	{"missing-value", "\nlonely_key =\n"},
	{"binary", "\n\x00\x01\x02\xff\xfe = \x7f\n"},
}

// C19Gen draws one configuration.  shipped is the text of cmd/application/app_config.toml.
// brokenShare is the probability of a file that is not loadable by construction.
func C19Gen(rng *rand.Rand, shipped, garbageDB string, brokenShare float64) C19Config {
	keys := C19Keys(garbageDB, rng)
	r := rng.Float64()
	gen := func(pBad float64) ([]int, string, string) {
		choice := make([]int, len(keys))
		for i, k := range keys {
			choice[i] = c19Pick(k, rng, pBad)
		}
		text, desc := c19Render(keys, choice)
		return choice, text, desc
	}
	switch {
	case r < brokenShare*0.6:
		_, text, desc := gen(0)
		c := c19Corruptions[rng.Intn(len(c19Corruptions))]
		// the corruption goes in front of the first table (or at the end of the plain keys)
		if i := strings.Index(text, "\n[["); i >= 0 && rng.Intn(2) == 0 {
			text = text[:i] + c.Tail + text[i:]
		} else if rng.Intn(3) == 0 {
			text = c.Tail + text
		} else {
			text += c.Tail
		}
		return C19Config{Text: text, Class: "syntax-malformed", Desc: "syntax:" + c.Name + ";" + desc, MustFail: "syntax"}
	case r < brokenShare:
		choice, _, _ := gen(0)
		// force one policy key into a wrong-type state
		for tries := 0; tries < 20; tries++ {
			i := rng.Intn(len(keys))
			var pt []int
			for s, st := range keys[i].States {
				if st.Kind == "ptype" {
					pt = append(pt, s)
				}
			}
			if len(pt) > 0 {
				choice[i] = pt[rng.Intn(len(pt))]
				break
			}
		}
		text, desc := c19Render(keys, choice)
		return C19Config{Text: text, Class: "policy-type-error", Desc: desc, MustFail: c19MustFail(keys, choice)}
	case r < brokenShare+0.05:
		return C19Config{Text: shipped, Class: "shipped", Desc: "shipped"}
	case r < brokenShare+0.15:
		text, desc, mf := c19Perturb(shipped, keys, rng)
		return C19Config{Text: text, Class: "shipped-perturbed", Desc: desc, MustFail: mf}
	case r < brokenShare+0.21:
		// sparse files: only a few keys (or none) present
		var names []string
		switch rng.Intn(7) {
		case 0:
			return C19Config{Text: "", Class: "sparse", Desc: "sparse:empty-file"}
		case 1:
			return C19Config{Text: "# nothing but a comment\n", Class: "sparse", Desc: "sparse:comment-only"}
		case 2:
			names = []string{"log_level"}
		case 3:
			names = []string{"socket_name", "heartbeat_interval", "heartbeat_timeout", "connect_sockets"}
		case 4:
			names = []string{"cache_expiration_time", "cache_capacity", "cache_expiration_nonlive", "cache_capacity_nonlive"}
		case 5:
			names = []string{"geoip_cc_db_path", "geoip_asn_db_path"}
		case 6:
			names = []string{C19RegKeys[rng.Intn(len(C19RegKeys))]}
		}
		choice := make([]int, len(keys))
		for i, k := range keys {
			choice[i] = 0 // unset
			for _, n := range names {
				if n == k.Name {
					choice[i] = k.Base
					if rng.Intn(2) == 0 {
						choice[i] = c19Pick(k, rng, 0)
						if k.States[choice[i]].Kind == "unset" {
							choice[i] = k.Base
						}
					}
				}
			}
		}
		text, desc := c19Render(keys, choice)
		return C19Config{Text: text, Class: "sparse", Desc: "sparse:" + desc, MustFail: c19MustFail(keys, choice)}
	default:
		choice, text, desc := gen(0.012)
		return C19Config{Text: text, Class: "generated", Desc: desc, MustFail: c19MustFail(keys, choice)}
	}
}

// ---- phantom subnet files ---------------------------------------------------------------------------

// C19SubnetFile is one candidate for PHANTOM_SUBNET_LOCATION.
type C19SubnetFile struct {
	Name string
	Text string
	// Loadable: the generator built it as a well-formed subnets file.  (Whether the real loader
	// reports an error is observed, not assumed.)
	Loadable bool
}

func c19Subnets(gens map[int][][2]interface{}) string {
	var b strings.Builder
	b.WriteString("[Networks]\n")
	var gs []int
	for g := range gens {
		gs = append(gs, g)
	}
	sort.Ints(gs)
	for _, g := range gs {
		fmt.Fprintf(&b, "  [Networks.%d]\n    Generation = %d\n", g, g)
		for _, ws := range gens[g] {
			fmt.Fprintf(&b, "    [[Networks.%d.WeightedSubnets]]\n      Weight = %d\n      Subnets = %s\n", g, ws[0].(int), c19List(ws[1].([]string)...))
		}
	}
	return b.String()
}

// C19SubnetFiles returns the pool of phantom-subnet files.  All loadable files use positive weights
// and ordinary subnets (the corner cases of phantom selection itself belong to C14).
func C19SubnetFiles() []C19SubnetFile {
	c19SubOnce.Do(func() { c19SubFiles = c19SubnetFilesBuild() })
	return c19SubFiles
}

var (
	c19SubOnce  sync.Once
	c19SubFiles []C19SubnetFile
)

func c19SubnetFilesBuild() []C19SubnetFile {
	a := []string{"192.122.190.0/24", "2001:48a8:687f:1::/64"}
	b := []string{"192.122.190.0/28", "2001:48a8:687f:1::/96"}
	c := []string{"141.219.0.0/16", "35.8.0.0/16"}
	d := []string{"192.168.10.0/24", "2001:1::/64"}
	e := []string{"10.0.0.0/16"}
	type ws = [2]interface{}
	good := []C19SubnetFile{
		{"sub-a", c19Subnets(map[int][][2]interface{}{1: {ws{9, a}}, 2: {ws{1, b}}, 957: {ws{9, a}, ws{1, c}}}), true},
		{"sub-b", c19Subnets(map[int][][2]interface{}{1: {ws{9, a}}, 2: {ws{1, b}}, 957: {ws{9, a}, ws{1, c}}, 1000: {ws{9, d}, ws{1, e}}}), true},
		{"sub-c", c19Subnets(map[int][][2]interface{}{1: {ws{1, d}}, 957: {ws{3, c}, ws{2, d}}}), true},
		{"sub-d", c19Subnets(map[int][][2]interface{}{2: {ws{5, c}, ws{5, a}}, 1000: {ws{1, a}}}), true},
		{"sub-e", c19Subnets(map[int][][2]interface{}{957: {ws{1, b}}}), true},
	}
	ga := good[0].Text
	badf := []C19SubnetFile{
		{"bad-unclosed", ga + "\nbroken = \"abc\n", false},
		{"bad-truncated", ga[:len(ga)/2], false},
		{"bad-networks-int", "Networks = 5\n", false},
		{"bad-gen-key", strings.Replace(ga, "Networks.957", "Networks.abc", -1), false},
		{"bad-subnets-type", strings.Replace(ga, `Subnets = ["192.122.190.0/28", "2001:48a8:687f:1::/96"]`, `Subnets = 7`, 1), false},
		{"bad-weighted-type", "[Networks]\n  [Networks.1]\n    Generation = 1\n    WeightedSubnets = \"x\"\n", false},
		{"bad-binary", "\x00\x01\xff\xfe\n", false},
	}
	return append(good, badf...)
}

// ---- reload plans -----------------------------------------------------------------------------------

// C19Reload is one SIGHUP.
type C19Reload struct {
	ConfAct string     // new | same | missing | dir
	Conf    *C19Config // for ConfAct == new
	SubAct  string     // same | switch | missing | dir
	SubIdx  int        // index into C19SubnetFiles() for SubAct == switch
}

func (r C19Reload) String() string {
	s := "conf:" + r.ConfAct
	if r.Conf != nil {
		s += "(" + r.Conf.Class
		if r.Conf.MustFail != "" {
			s += "," + r.Conf.MustFail
		}
		s += ")"
	}
	s += " subnets:" + r.SubAct
	if r.SubAct == "switch" {
		if files := C19SubnetFiles(); r.SubIdx < len(files) {
			s += fmt.Sprintf("(%s)", files[r.SubIdx].Name)
		} else {
			s += fmt.Sprintf("(extra#%d)", r.SubIdx)
		}
	}
	return s
}

// C19GenReload draws one reload step.
func C19GenReload(rng *rand.Rand, shipped, garbageDB string) C19Reload {
	var r C19Reload
	switch x := rng.Float64(); {
	case x < 0.68:
		r.ConfAct = "new"
		c := C19Gen(rng, shipped, garbageDB, 0.22)
		r.Conf = &c
	case x < 0.80:
		r.ConfAct = "same"
	case x < 0.90:
		r.ConfAct = "missing"
	default:
		r.ConfAct = "dir"
	}
	files := C19SubnetFiles()
	var good, bad []int
	for i, f := range files {
		if f.Loadable {
			good = append(good, i)
		} else {
			bad = append(bad, i)
		}
	}
	switch x := rng.Float64(); {
	case x < 0.28:
		r.SubAct = "same"
	case x < 0.70:
		r.SubAct = "switch"
		r.SubIdx = good[rng.Intn(len(good))]
	case x < 0.87:
		r.SubAct = "switch"
		r.SubIdx = bad[rng.Intn(len(bad))]
	case x < 0.94:
		r.SubAct = "missing"
	default:
		r.SubAct = "dir"
	}
	return r
}
