package verifkit

import (
	"regexp"
	"runtime"
	"strings"
	"time"
)

// Goroutine is one parsed entry of runtime.Stack(all).
type Goroutine struct {
	ID        string
	State     string   // e.g. "chan receive", "sync.RWMutex.RLock", "running"
	Frames    []string // function names, innermost first
	CreatedBy string
	Raw       string
}

var goHdr = regexp.MustCompile(`^goroutine (\d+) \[([^\],]+)(?:, [^\]]*)?\]:`)

// Stacks parses a dump of all goroutines.
func Stacks() []Goroutine {
	buf := make([]byte, 1<<20)
	for {
		n := runtime.Stack(buf, true)
		if n < len(buf) {
			buf = buf[:n]
			break
		}
		buf = make([]byte, 2*len(buf))
	}
	var out []Goroutine
	for _, blk := range strings.Split(string(buf), "\n\n") {
		lines := strings.Split(blk, "\n")
		if len(lines) == 0 {
			continue
		}
		m := goHdr.FindStringSubmatch(lines[0])
		if m == nil {
			continue
		}
		g := Goroutine{ID: m[1], State: m[2], Raw: blk}
		for _, l := range lines[1:] {
			if strings.HasPrefix(l, "\t") || l == "" {
				continue
			}
			fn := l
			if !strings.HasPrefix(fn, "created by ") {
				if i := strings.LastIndex(fn, "("); i > 0 {
					fn = fn[:i]
				}
			}
			fn = strings.TrimPrefix(fn, "created by ")
			g.Frames = append(g.Frames, fn)
		}
		out = append(out, g)
	}
	return out
}

// InFunc counts goroutines that have a frame containing any of the substrings (excluding the
// "created by" line is not possible textually, so pass full function names where that matters).
func InFunc(gs []Goroutine, subs ...string) []Goroutine {
	var out []Goroutine
	for _, g := range gs {
		hit := false
		for _, f := range g.Frames {
			for _, s := range subs {
				if strings.Contains(f, s) {
					hit = true
				}
			}
		}
		if hit {
			out = append(out, g)
		}
	}
	return out
}

// WaitNoGoroutineIn polls until no goroutine has a frame matching subs; returns the leftovers after
// the bound (nil = quiescent).
func WaitNoGoroutineIn(bound time.Duration, subs ...string) []Goroutine {
	deadline := time.Now().Add(bound)
	sleep := 200 * time.Microsecond
	for {
		left := InFunc(Stacks(), subs...)
		if len(left) == 0 {
			return nil
		}
		if time.Now().After(deadline) {
			return left
		}
		time.Sleep(sleep)
		if sleep < 20*time.Millisecond {
			sleep *= 2
		}
	}
}

// GoID returns the id of the calling goroutine (parsed from its stack header; for harness use only).
func GoID() string {
	var buf [64]byte
	n := runtime.Stack(buf[:], false)
	f := strings.Fields(string(buf[:n]))
	if len(f) >= 2 {
		return f[1]
	}
	return "?"
}

// ByID finds a goroutine in a dump.
func ByID(gs []Goroutine, id string) *Goroutine {
	for i := range gs {
		if gs[i].ID == id {
			return &gs[i]
		}
	}
	return nil
}

// Blocked reports whether the goroutine sits in a synchronisation wait (mutex, rwmutex, semaphore,
// channel, select, cond) – as opposed to running / runnable / syscall / IO wait / sleep.
func (g *Goroutine) Blocked() bool {
	s := g.State
	return strings.HasPrefix(s, "sync.") || s == "semacquire" || strings.HasPrefix(s, "chan ") || s == "select" || s == "select (no cases)"
}
