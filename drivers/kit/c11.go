package verifkit

// c11.go – shared machinery of the C11 monitors ("no externally supplied bytes can crash a station
// or registrar process").  The C11 drivers live in thirteen repository packages; what they share is
// here: per-case PRNG, panic capture with the innermost repository frame, a crash-surviving flight
// recorder, the case runner with its per-input watchdog and isolated hang reproduction, raw byte
// mutators and the structure-aware protobuf generators.
//
// Nothing in this file decides anything about the repository's code: verdicts come from executing
// the real entry points in the drivers.  Imports: standard library, protobuf runtime and the
// repository's generated protobuf package only (no repository package that imports anything else,
// so the kit stays importable from every package).

import (
	"encoding/binary"
	"encoding/hex"
	"fmt"
	"math/rand"
	"os"
	"path/filepath"
	"runtime"
	"sort"
	"strconv"
	"strings"
	"sync"
	"sync/atomic"
	"time"

	pb "github.com/refraction-networking/conjure/proto"
	"google.golang.org/protobuf/proto"
	"google.golang.org/protobuf/types/known/anypb"
)

// ---------------------------------------------------------------------------------------------
// per-case PRNG: case idx of entry point E at seed S is a pure function of (S, E, idx)

type c11Source struct{ s uint64 }

func (x *c11Source) Uint64() uint64 {
	x.s += 0x9e3779b97f4a7c15
	z := x.s
	z = (z ^ (z >> 30)) * 0xbf58476d1ce4e5b9
	z = (z ^ (z >> 27)) * 0x94d049bb133111eb
	return z ^ (z >> 31)
}
func (x *c11Source) Int63() int64    { return int64(x.Uint64() >> 1) }
func (x *c11Source) Seed(seed int64) { x.s = uint64(seed) }

func c11Base(entry string) uint64 {
	h := uint64(1469598103934665603)
	for _, c := range []byte(fmt.Sprintf("%d/%s", Seed(), entry)) {
		h ^= uint64(c)
		h *= 1099511628211
	}
	return h
}

func c11CaseSeed(base uint64, idx int) int64 {
	x := c11Source{s: base ^ (uint64(idx)+1)*0xd1342543de82ef95}
	return int64(x.Uint64())
}

// C11Rng returns the PRNG of one case.
func C11Rng(entry string, idx int) *rand.Rand {
	r := rand.New(&c11Source{})
	r.Seed(c11CaseSeed(c11Base(entry), idx))
	return r
}

// ---------------------------------------------------------------------------------------------
// panic capture

// C11Panic describes a recovered panic.
type C11Panic struct {
	Val   string   `json:"panic"`
	Frame string   `json:"frame"` // innermost repository frame that is not a driver / kit frame
	Stack []string `json:"stack"` // innermost frames, "func file:line"
}

const c11RepoPrefix = "github.com/refraction-networking/conjure/"

func c11IsRepoFrame(fn string) bool {
	return strings.HasPrefix(fn, c11RepoPrefix) && !strings.Contains(fn, "verif") && !strings.Contains(fn, "Verif")
}

func c11ShortFn(fn string) string { return strings.TrimPrefix(fn, c11RepoPrefix) }

// C11Catch runs fn and returns the panic it raised, if any.
func C11Catch(fn func()) (p *C11Panic) {
	defer func() {
		if r := recover(); r != nil {
			p = &C11Panic{Val: fmt.Sprint(r), Frame: "?"}
			if len(p.Val) > 300 {
				p.Val = p.Val[:300]
			}
			pcs := make([]uintptr, 96)
			n := runtime.Callers(2, pcs)
			frames := runtime.CallersFrames(pcs[:n])
			seenPanic := false
			for {
				f, more := frames.Next()
				if f.Function == "runtime.gopanic" || f.Function == "runtime.sigpanic" || f.Function == "runtime.panicmem" {
					seenPanic = true
					p.Stack = p.Stack[:0]
				} else if seenPanic || !strings.HasPrefix(f.Function, "runtime.") {
					if len(p.Stack) < 14 {
						p.Stack = append(p.Stack, fmt.Sprintf("%s %s:%d", c11ShortFn(f.Function), filepath.Base(f.File), f.Line))
					}
					if p.Frame == "?" && c11IsRepoFrame(f.Function) {
						p.Frame = c11ShortFn(f.Function)
					}
				}
				if !more {
					break
				}
			}
		}
	}()
	fn()
	return nil
}

// C11FrameFromTrace extracts the innermost repository frame from a textual goroutine trace (as
// printed by net/http for a recovered handler panic, or by runtime.Stack).
func C11FrameFromTrace(trace string) string {
	for _, l := range strings.Split(trace, "\n") {
		l = strings.TrimSpace(l)
		if !strings.HasPrefix(l, c11RepoPrefix) {
			continue
		}
		if i := strings.LastIndex(l, "("); i > 0 {
			l = l[:i]
		}
		if c11IsRepoFrame(l) {
			return c11ShortFn(l)
		}
	}
	return "?"
}

// ---------------------------------------------------------------------------------------------
// flight recorder: the inputs currently being executed, on disk BEFORE the call, one fixed-width
// slot per worker, in a file that is valid JSON at every moment ($VERIF_OUT/C11.<mon>.<entry>.lastcase;
// the orchestrator attaches *.lastcase files to a crash report).

const c11SlotW = 4352 // room for the header and the hex of 2 KiB

type c11Flight struct {
	f     *os.File
	slots int
}

func c11Sanitize(s string) string {
	b := []byte(s)
	for i, c := range b {
		if !(c >= 'a' && c <= 'z' || c >= 'A' && c <= 'Z' || c >= '0' && c <= '9' || c == '.' || c == '-' || c == '_') {
			b[i] = '_'
		}
	}
	return string(b)
}

func c11OpenFlight(prop, mon, entry string, slots int) *c11Flight {
	p := filepath.Join(OutDir(), prop+"."+mon+"."+c11Sanitize(entry)+".lastcase")
	f, err := os.OpenFile(p, os.O_CREATE|os.O_RDWR|os.O_TRUNC, 0o644)
	if err != nil {
		return &c11Flight{}
	}
	// layout: "[\n" then per slot: '"' + W bytes + '"' + (',' or ' ') + '\n', then "]\n"
	var sb strings.Builder
	sb.WriteString("[\n")
	blank := strings.Repeat(" ", c11SlotW)
	for i := 0; i < slots; i++ {
		sb.WriteByte('"')
		sb.WriteString(blank)
		sb.WriteByte('"')
		if i < slots-1 {
			sb.WriteByte(',')
		} else {
			sb.WriteByte(' ')
		}
		sb.WriteByte('\n')
	}
	sb.WriteString("]\n")
	f.WriteString(sb.String())
	return &c11Flight{f: f, slots: slots}
}

// put writes the descriptor of the case a worker is about to execute.
func (fl *c11Flight) put(slot int, buf []byte, entry string, idx int, kind string, in []byte) []byte {
	if fl.f == nil || slot >= fl.slots {
		return buf
	}
	buf = buf[:0]
	buf = append(buf, "RUNNING seed="...)
	buf = strconv.AppendInt(buf, Seed(), 10)
	buf = append(buf, " entry="...)
	buf = append(buf, c11Sanitize(entry)...)
	buf = append(buf, " case="...)
	buf = strconv.AppendInt(buf, int64(idx), 10)
	buf = append(buf, " len="...)
	buf = strconv.AppendInt(buf, int64(len(in)), 10)
	buf = append(buf, " kind="...)
	buf = append(buf, c11Sanitize(kind)...)
	if len(buf) > 230 {
		buf = buf[:230]
	}
	buf = append(buf, " hex="...)
	n := len(in)
	if n > 2048 {
		n = 2048
	}
	off := len(buf)
	buf = append(buf, make([]byte, 2*n)...)
	hex.Encode(buf[off:], in[:n])
	for len(buf) < c11SlotW {
		buf = append(buf, ' ')
	}
	fl.f.WriteAt(buf[:c11SlotW], int64(2+slot*(c11SlotW+4)+1))
	return buf
}

// done marks the slot's case as finished (the descriptor stays, for context).
func (fl *c11Flight) done(slot int) {
	if fl.f == nil || slot >= fl.slots {
		return
	}
	fl.f.WriteAt([]byte("done   "), int64(2+slot*(c11SlotW+4)+1))
}

func (fl *c11Flight) close() {
	if fl.f != nil {
		fl.f.Close()
	}
}

// ---------------------------------------------------------------------------------------------
// the case runner

// C11Case is one input handed to an entry point.
type C11Case struct {
	In   []byte // the bytes (always the complete witness: exec functions work from In alone)
	Kind string // generator class
}

// C11Entry describes the monitoring of one entry point.
type C11Entry struct {
	Name    string // entry point; part of every signature
	N       int    // number of generated cases
	Workers int    // concurrent executors (default 1)
	// Budget is the per-input watchdog (default 30 s).  An input that exceeds it is re-run alone with
	// a 60 s budget after the run; only if that reproduces is a hang reported.
	Budget time.Duration
	Gen    func(r *rand.Rand, idx int) C11Case
	// Exec runs the real entry point on c.In and returns an outcome class (for the evidence only).
	// Panics are caught by the runner.
	Exec func(c *C11Case) string
	SampleEvery int // offer every n-th case as a written-out sample (0 = none)
}

// C11ReplayDir is where the orchestrator puts inputs found by the coverage-guided fuzzer so that
// they are re-run through the normal driver path: $VERIF_C11_REPLAY/<sanitized entry>/*.bin
func C11ReplayDir(entry string) string {
	d := os.Getenv("VERIF_C11_REPLAY")
	if d == "" {
		return ""
	}
	return filepath.Join(d, c11Sanitize(entry))
}

// C11PanicSig is the canonical signature of a recovered panic.
func C11PanicSig(entry string, p *C11Panic) string { return "panic:" + entry + ":" + p.Frame }

// C11Witness renders an input as a witness (hex, at most 2 KiB).
func C11Witness(in []byte) map[string]interface{} {
	n := len(in)
	w := map[string]interface{}{"len": n}
	if n > 2048 {
		w["hex_first_2048"] = hex.EncodeToString(in[:2048])
	} else {
		w["hex"] = hex.EncodeToString(in)
	}
	return w
}

type c11Worker struct {
	slot    int
	started atomic.Int64 // unix nanos of the running case, 0 = idle
	idx     atomic.Int64
	cur     atomic.Pointer[C11Case]
	flagged atomic.Bool
	exited  atomic.Bool
}

type c11Suspect struct {
	idx int
	c   *C11Case
	w   *c11Worker
}

// C11Drive runs the cases of one entry point.  It returns the number of cases executed.
func C11Drive(rec *Rec, e C11Entry) int {
	if e.Workers < 1 {
		e.Workers = 1
	}
	if e.Budget == 0 {
		e.Budget = 30 * time.Second
	}
	base := c11Base(e.Name)

	report := func(idx int, c *C11Case, p *C11Panic, how string) {
		w := C11Witness(c.In)
		w["entry"], w["case"], w["kind"], w["seed"], w["via"] = e.Name, idx, c.Kind, Seed(), how
		w["panic"], w["stack"] = p.Val, p.Stack
		rec.Violation(C11PanicSig(e.Name, p), fmt.Sprintf("%s panicked on externally supplied bytes: %s", e.Name, p.Val), w)
	}

	// (a) inputs found by the coverage-guided fuzzer, re-run through this (the normal) driver path
	if d := C11ReplayDir(e.Name); d != "" {
		files, _ := filepath.Glob(filepath.Join(d, "*.bin"))
		sort.Strings(files)
		for i, f := range files {
			b, err := os.ReadFile(f)
			if err != nil {
				continue
			}
			c := &C11Case{In: b, Kind: "fuzz-crasher:" + filepath.Base(f)}
			rec.Case(map[string]interface{}{"entry": e.Name, "fuzz_crasher": filepath.Base(f), "input": C11Witness(b)})
			var out string
			done := make(chan *C11Panic, 1)
			go func() { done <- C11Catch(func() { out = e.Exec(c) }) }()
			select {
			case p := <-done:
				if p != nil {
					report(-1-i, c, p, "fuzz-crasher re-run through the driver")
				} else {
					rec.Count("fuzz_crashers_not_reproduced", 1)
					rec.Note(fmt.Sprintf("%s: fuzz crasher %s did not reproduce through the driver path (outcome %q)", e.Name, filepath.Base(f), out))
				}
			case <-time.After(60 * time.Second):
				w := C11Witness(b)
				w["entry"], w["blocked_in"] = e.Name, c11BlockedFrame("verifkit.C11Drive.func")
				rec.Violation("hang:"+e.Name+":"+fmt.Sprint(w["blocked_in"]), e.Name+" did not return within 60 s on a fuzzer-found input run alone", w)
			}
			rec.Count("fuzz_crashers_rerun", 1)
		}
		return len(files)
	}

	// (b) a single case (replay of a witness by index)
	only := -1
	if s := os.Getenv("VERIF_C11_CASE"); s != "" {
		parts := strings.SplitN(s, ":", 2)
		if len(parts) == 2 && parts[0] == c11Sanitize(e.Name) {
			only, _ = strconv.Atoi(parts[1])
		} else {
			return 0
		}
	}

	fl := c11OpenFlight(rec.Prop, rec.Mon, e.Name, e.Workers+8)
	defer fl.close()

	var next atomic.Int64
	var executed atomic.Int64
	var mu sync.Mutex
	var suspects []c11Suspect
	var workers []*c11Worker
	var wg sync.WaitGroup
	sampled := 0

	runWorker := func(w *c11Worker) {
		defer wg.Done()
		defer w.exited.Store(true)
		src := &c11Source{}
		r := rand.New(src)
		var fbuf []byte
		for {
			i := int(next.Add(1) - 1)
			if only >= 0 {
				if i > 0 {
					return
				}
				i = only
			} else if i >= e.N {
				return
			}
			r.Seed(c11CaseSeed(base, i))
			c := e.Gen(r, i)
			cp := &c
			fbuf = fl.put(w.slot, fbuf, e.Name, i, c.Kind, c.In)
			w.idx.Store(int64(i))
			w.cur.Store(cp)
			w.started.Store(time.Now().UnixNano())
			var out string
			p := C11Catch(func() { out = e.Exec(cp) })
			w.started.Store(0)
			fl.done(w.slot)
			if w.flagged.Load() {
				// the watchdog gave up on this worker; the case did finish after all
				rec.Count("slow_cases_finished_late", 1)
				if p != nil {
					report(i, cp, p, "generated")
				}
				return
			}
			if p != nil {
				out = "PANIC"
				report(i, cp, p, "generated")
			}
			executed.Add(1)
			rec.Count("evaluations", 1)
			rec.Count("cases["+e.Name+"]", 1)
			rec.Count("outcome["+e.Name+"]: "+out, 1)
			if len(c.In) > 0 {
				rec.Distinct("nontrivial", e.Name, c.Kind, out)
			}
			if e.SampleEvery > 0 && i%e.SampleEvery == 1 {
				mu.Lock()
				take := sampled < 2
				if take {
					sampled++
				}
				mu.Unlock()
				if take {
					rec.Sample(map[string]interface{}{"entry": e.Name, "case": i, "kind": c.Kind, "outcome": out, "input": HexN(c.In, 64)})
				}
			}
		}
	}
	spawn := func() {
		mu.Lock()
		w := &c11Worker{slot: len(workers)}
		workers = append(workers, w)
		mu.Unlock()
		wg.Add(1)
		go runWorker(w)
	}
	for i := 0; i < e.Workers; i++ {
		spawn()
	}

	// watchdog
	stop := make(chan struct{})
	var wdDone sync.WaitGroup
	wdDone.Add(1)
	go func() {
		defer wdDone.Done()
		tk := time.NewTicker(500 * time.Millisecond)
		defer tk.Stop()
		for {
			select {
			case <-stop:
				return
			case <-tk.C:
			}
			now := time.Now().UnixNano()
			mu.Lock()
			ws := append([]*c11Worker(nil), workers...)
			mu.Unlock()
			for _, w := range ws {
				st := w.started.Load()
				if st == 0 || w.flagged.Load() || time.Duration(now-st) < e.Budget {
					continue
				}
				w.flagged.Store(true)
				mu.Lock()
				suspects = append(suspects, c11Suspect{idx: int(w.idx.Load()), c: w.cur.Load(), w: w})
				nw := len(workers)
				mu.Unlock()
				rec.Count("watchdog_fired", 1)
				if nw < e.Workers+8 {
					spawn() // the stuck goroutine cannot be stopped; continue with a replacement
				}
			}
		}
	}()

	// wait for the workers that are not stuck
	waitCh := make(chan struct{})
	go func() { wg.Wait(); close(waitCh) }()
	for done := false; !done; {
		select {
		case <-waitCh:
			done = true
		case <-time.After(time.Second):
			// all remaining workers flagged and nothing left to hand out?
			mu.Lock()
			alive, nw := 0, len(workers)
			for _, w := range workers {
				if !w.flagged.Load() && !w.exited.Load() {
					alive++
				}
			}
			mu.Unlock()
			if alive == 0 && (int(next.Load()) >= e.N || only >= 0) {
				done = true
			} else if alive == 0 && nw >= e.Workers+8 {
				// every worker and every replacement is stuck in the code under test: give up on the rest
				done = true
				rec.Note(fmt.Sprintf("%s: run abandoned after %d executed cases, %d goroutines stuck in the entry point", e.Name, executed.Load(), nw))
			}
		}
	}
	close(stop)
	wdDone.Wait()

	// isolated reproduction of the inputs on which the watchdog fired
	reproduced := false
	for k, s := range suspects {
		if s.c == nil {
			continue
		}
		if reproduced {
			// a hang of this entry point has just been reproduced and reported: another 60 s would add nothing
			rec.Inconclusive("further input on which the watchdog fired (not re-run alone: a hang of this entry point was already reproduced)",
				map[string]interface{}{"entry": e.Name, "case": s.idx, "input": C11Witness(s.c.In)})
			continue
		}
		if k >= 2 {
			// each isolated reproduction may cost 60 s: the first two decide, the rest are listed
			rec.Inconclusive("further input on which the watchdog fired (not re-run alone: two reproductions were already attempted)",
				map[string]interface{}{"entry": e.Name, "case": s.idx, "input": C11Witness(s.c.In)})
			continue
		}
		c := s.c
		rec.Case(map[string]interface{}{"entry": e.Name, "case": s.idx, "isolated_rerun_after_watchdog": true, "input": C11Witness(c.In)})
		done := make(chan *C11Panic, 1)
		go func() { done <- c11Isolated(func() { e.Exec(c) }) }()
		select {
		case p := <-done:
			if p != nil {
				report(s.idx, c, p, "generated (isolated re-run)")
			}
			rec.Inconclusive("the per-input watchdog fired but the input completes when run alone (load?)", map[string]interface{}{"entry": e.Name, "case": s.idx, "budget_s": e.Budget.Seconds()})
		case <-time.After(60 * time.Second):
			blocked := c11BlockedFrame("verifkit.c11Isolated")
			w := C11Witness(c.In)
			w["entry"], w["case"], w["kind"], w["seed"], w["blocked_in"] = e.Name, s.idx, c.Kind, Seed(), blocked
			rec.Violation("hang:"+e.Name+":"+blocked, fmt.Sprintf("%s did not return within 60 s on a single input run alone (blocked in %s)", e.Name, blocked), w)
			reproduced = true
		}
	}
	return int(executed.Load())
}

//go:noinline
func c11Isolated(fn func()) *C11Panic { return C11Catch(fn) }

// c11BlockedFrame finds the goroutine running under marker and returns its innermost repository frame.
func c11BlockedFrame(marker string) string {
	for _, g := range Stacks() {
		hit := false
		for _, f := range g.Frames {
			if strings.Contains(f, marker) {
				hit = true
			}
		}
		if !hit {
			continue
		}
		for _, f := range g.Frames {
			if c11IsRepoFrame(f) {
				return c11ShortFn(f)
			}
		}
		if len(g.Frames) > 0 {
			return g.Frames[0]
		}
	}
	return "?"
}

// C11Seeds returns the inputs of the first n generated cases (the fuzzer's seed corpus is the
// generator's own output).
func C11Seeds(entry string, n int, gen func(r *rand.Rand, idx int) C11Case) [][]byte {
	base := c11Base(entry)
	r := rand.New(&c11Source{})
	var out [][]byte
	seen := map[string]bool{}
	for i := 0; i < n*4 && len(out) < n; i++ {
		r.Seed(c11CaseSeed(base, i))
		c := gen(r, i)
		if len(c.In) > 4096 || seen[string(c.In)] {
			continue
		}
		seen[string(c.In)] = true
		out = append(out, c.In)
	}
	return out
}

// C11FuzzOne executes one fuzzer-provided input under panic capture.  With $VERIF_C11_FUZZ_OUT set,
// a panicking input is saved there (at most 3 per signature) and the panic is swallowed so that the
// fuzzer keeps exploring; the orchestrator re-runs saved inputs through the normal driver path.
// Returns the panic (nil if none) so that the fuzz target can fail when run by hand.
func C11FuzzOne(entry string, in []byte, exec func()) *C11Panic {
	p := C11Catch(exec)
	if p == nil {
		return nil
	}
	if d := os.Getenv("VERIF_C11_FUZZ_OUT"); d != "" {
		dir := filepath.Join(d, c11Sanitize(entry))
		os.MkdirAll(dir, 0o755)
		for k := 0; k < 3; k++ {
			name := filepath.Join(dir, fmt.Sprintf("%s-%d.bin", c11Sanitize(p.Frame), k))
			f, err := os.OpenFile(name, os.O_CREATE|os.O_EXCL|os.O_WRONLY, 0o644)
			if err != nil {
				continue
			}
			f.Write(in)
			f.Close()
			break
		}
	}
	return p
}

// ---------------------------------------------------------------------------------------------
// raw byte mutators

var c11Interesting = []byte{0x00, 0x01, 0x7f, 0x80, 0xff, 0x20, 0x0a, 0x3f, 0x40, 0xc0, 0xfe}

// C11Random returns up to max pure random bytes (short lengths are favoured).
func C11Random(r *rand.Rand, max int) []byte {
	n := 0
	switch r.Intn(4) {
	case 0:
		n = r.Intn(8)
	case 1:
		n = r.Intn(80)
	default:
		n = r.Intn(max + 1)
	}
	b := make([]byte, n)
	r.Read(b)
	return b
}

// c11LenOffsets walks b as protobuf wire format (two levels deep) and returns the offsets of the
// length varints of length-delimited fields.
func c11LenOffsets(b []byte, base, depth int, out []int) []int {
	i := 0
	for i < len(b) {
		tag, n := binary.Uvarint(b[i:])
		if n <= 0 {
			return out
		}
		i += n
		switch tag & 7 {
		case 0:
			_, n := binary.Uvarint(b[i:])
			if n <= 0 {
				return out
			}
			i += n
		case 1:
			i += 8
		case 5:
			i += 4
		case 2:
			l, n := binary.Uvarint(b[i:])
			if n <= 0 {
				return out
			}
			out = append(out, base+i)
			i += n
			if l > uint64(len(b)-i) {
				return out
			}
			if depth > 0 && l > 1 {
				out = c11LenOffsets(b[i:i+int(l)], base+i, depth-1, out)
			}
			i += int(l)
		default:
			return out
		}
	}
	return out
}

// C11Mutate applies one to three raw mutations to a valid encoding.  other is a second valid
// encoding used for splices (may be nil).
func C11Mutate(r *rand.Rand, valid, other []byte) ([]byte, string) {
	b := append([]byte(nil), valid...)
	var kinds []string
	for k, n := 0, 1+r.Intn(3); k < n; k++ {
		if len(b) == 0 {
			b = C11Random(r, 16)
			kinds = append(kinds, "fill")
			continue
		}
		switch r.Intn(10) {
		case 0, 1: // bit flip
			i := r.Intn(len(b))
			b[i] ^= 1 << uint(r.Intn(8))
			kinds = append(kinds, "bitflip")
		case 2: // interesting byte
			b[r.Intn(len(b))] = c11Interesting[r.Intn(len(c11Interesting))]
			kinds = append(kinds, "byteset")
		case 3: // truncation
			b = b[:r.Intn(len(b))]
			kinds = append(kinds, "truncate")
		case 4: // random tail
			t := make([]byte, 1+r.Intn(24))
			r.Read(t)
			b = append(b, t...)
			kinds = append(kinds, "tail")
		case 5: // splice with another valid encoding
			if len(other) > 0 {
				b = append(append([]byte(nil), b[:r.Intn(len(b)+1)]...), other[r.Intn(len(other)):]...)
				kinds = append(kinds, "splice")
			} else {
				i := r.Intn(len(b))
				b = append(append([]byte(nil), b[:i]...), b[r.Intn(len(b)):]...)
				kinds = append(kinds, "selfsplice")
			}
		case 6: // duplicate / delete a chunk
			i := r.Intn(len(b))
			j := i + r.Intn(len(b)-i+1)
			if r.Intn(2) == 0 && j-i < 512 {
				b = append(append(append([]byte(nil), b[:j]...), b[i:j]...), b[j:]...)
				kinds = append(kinds, "dupchunk")
			} else {
				b = append(append([]byte(nil), b[:i]...), b[j:]...)
				kinds = append(kinds, "delchunk")
			}
		case 7, 8: // protobuf length-field tampering
			offs := c11LenOffsets(b, 0, 2, nil)
			if len(offs) == 0 {
				b[r.Intn(len(b))] = byte(r.Intn(256))
				kinds = append(kinds, "byteset")
				continue
			}
			o := offs[r.Intn(len(offs))]
			_, n := binary.Uvarint(b[o:])
			var nv []byte
			switch r.Intn(6) {
			case 0:
				nv = []byte{0}
			case 1:
				nv = []byte{b[o] + 1}
			case 2:
				nv = []byte{b[o] - 1}
			case 3:
				nv = []byte{0x7f}
			case 4:
				nv = []byte{0xff, 0xff, 0xff, 0xff, 0x0f}
			default:
				nv = []byte{0xff, 0xff, 0xff, 0xff, 0xff, 0xff, 0xff, 0xff, 0xff, 0x01}
			}
			if n > 0 && o+n <= len(b) {
				b = append(append(append([]byte(nil), b[:o]...), nv...), b[o+n:]...)
			}
			kinds = append(kinds, "lentamper")
		default: // big-endian 16-bit integer tampering (counts / lengths of non-protobuf framings)
			if len(b) < 2 {
				b = append(b, 0xff)
				kinds = append(kinds, "tail")
				continue
			}
			i := r.Intn(len(b) - 1)
			v := binary.BigEndian.Uint16(b[i:])
			switch r.Intn(5) {
			case 0:
				v = 0
			case 1:
				v = 0xffff
			case 2:
				v++
			case 3:
				v--
			default:
				v = uint16(len(b))
			}
			binary.BigEndian.PutUint16(b[i:], v)
			kinds = append(kinds, "u16tamper")
		}
	}
	sort.Strings(kinds)
	return b, "mut:" + strings.Join(kinds, "+")
}

// ---------------------------------------------------------------------------------------------
// structure-aware protobuf generators

// C11Secret returns a shared secret of one of the lengths the property names (and a few more).
func C11Secret(r *rand.Rand) ([]byte, string) {
	lens := []int{-1, 0, 1, 7, 8, 15, 16, 31, 32, 32, 32, 32, 32, 32, 33, 64}
	n := lens[r.Intn(len(lens))]
	if n < 0 {
		return nil, "s-"
	}
	b := make([]byte, n)
	r.Read(b)
	return b, "s" + strconv.Itoa(n)
}

// C11IP returns address bytes: absent, empty, right- and wrong-length.
func C11IP(r *rand.Rand) ([]byte, string) {
	switch r.Intn(16) {
	case 0:
		return nil, "-"
	case 1:
		return []byte{}, "0"
	case 2:
		return []byte{byte(r.Intn(256))}, "1"
	case 3:
		b := make([]byte, 3)
		r.Read(b)
		return b, "3"
	case 4, 5, 6:
		return []byte{byte(1 + r.Intn(222)), byte(r.Intn(256)), byte(r.Intn(256)), byte(1 + r.Intn(254))}, "4"
	case 7:
		return [][]byte{{0, 0, 0, 0}, {127, 0, 0, 1}, {255, 255, 255, 255}, {192, 122, 190, 2}, {10, 0, 0, 1}}[r.Intn(5)], "4s"
	case 8:
		b := make([]byte, 5)
		r.Read(b)
		return b, "5"
	case 9:
		b := make([]byte, 15)
		r.Read(b)
		return b, "15"
	case 10, 11:
		b := make([]byte, 16)
		r.Read(b)
		b[0], b[1] = 0x20, 0x01
		return b, "16"
	case 12:
		b := make([]byte, 16)
		b[10], b[11] = 0xff, 0xff
		b[12], b[13], b[14], b[15] = byte(1+r.Intn(222)), byte(r.Intn(256)), byte(r.Intn(256)), byte(1+r.Intn(254))
		return b, "16m"
	case 13:
		return make([]byte, 16), "16z"
	case 14:
		b := make([]byte, 17)
		r.Read(b)
		return b, "17"
	}
	b := make([]byte, 32+r.Intn(40))
	r.Read(b)
	return b, "32+"
}

func c11Bool(r *rand.Rand) *bool {
	switch r.Intn(3) {
	case 0:
		return nil
	case 1:
		return proto.Bool(false)
	}
	return proto.Bool(true)
}

var c11TypeURLs = map[string]string{
	"generic": "type.googleapis.com/proto.GenericTransportParams",
	"prefix":  "type.googleapis.com/proto.PrefixTransportParams",
	"dtls":    "type.googleapis.com/proto.DTLSTransportParams",
}

// C11ParamsMsg builds a transport-parameter message of the given kind with field variations.
func C11ParamsMsg(r *rand.Rand, kind string) proto.Message {
	switch kind {
	case "generic":
		return &pb.GenericTransportParams{RandomizeDstPort: c11Bool(r)}
	case "prefix":
		p := &pb.PrefixTransportParams{RandomizeDstPort: c11Bool(r)}
		switch r.Intn(8) {
		case 0:
		case 1:
			p.PrefixId = proto.Int32([]int32{-1, -2, 10, 11, 99, 1 << 30, -1 << 31, 1<<31 - 1}[r.Intn(8)])
		default:
			p.PrefixId = proto.Int32(int32(r.Intn(10)))
		}
		switch r.Intn(5) {
		case 0:
			p.Prefix = []byte{}
		case 1:
			p.Prefix = []byte("GET / HTTP/1.1\r\n")
		case 2:
			p.Prefix = make([]byte, r.Intn(600))
			r.Read(p.Prefix)
		}
		switch r.Intn(4) {
		case 0:
			p.CustomFlushPolicy = proto.Int32(int32(r.Intn(4)))
		case 1:
			p.CustomFlushPolicy = proto.Int32([]int32{-1, 3, 100, -1 << 31, 1<<31 - 1}[r.Intn(5)])
		}
		return p
	case "dtls":
		p := &pb.DTLSTransportParams{RandomizeDstPort: c11Bool(r), Unordered: c11Bool(r)}
		addr := func() *pb.Addr {
			switch r.Intn(6) {
			case 0:
				return nil
			case 1:
				return &pb.Addr{}
			}
			a := &pb.Addr{}
			a.IP, _ = C11IP(r)
			switch r.Intn(4) {
			case 0:
			case 1:
				a.Port = proto.Uint32([]uint32{0, 65535, 65536, 1 << 31, 1<<32 - 1}[r.Intn(5)])
			default:
				a.Port = proto.Uint32(uint32(1 + r.Intn(65535)))
			}
			return a
		}
		p.SrcAddr4, p.SrcAddr6 = addr(), addr()
		return p
	}
	return &pb.GenericTransportParams{}
}

// C11Any builds a transport_params Any.  want is the kind that would be correct for the transport
// ("generic" | "prefix" | "dtls"); the result may deliberately be of another kind, have a
// mismatched / empty / legacy / garbage type URL, or a damaged value.
func C11Any(r *rand.Rand, want string) (*anypb.Any, string) {
	if r.Intn(8) == 0 {
		return nil, "any-"
	}
	kinds := []string{"generic", "prefix", "dtls"}
	content := want
	if r.Intn(6) == 0 {
		content = kinds[r.Intn(3)]
	}
	m := C11ParamsMsg(r, content)
	v, _ := proto.Marshal(m)
	url := c11TypeURLs[content]
	d := "any:" + content
	switch r.Intn(12) {
	case 0:
		url = ""
		d += ":nourl"
	case 1:
		url = strings.Replace(url, "proto.", "tapdance.", 1)
		d += ":legacyurl"
	case 2: // type URL says one thing, content is another
		url = c11TypeURLs[kinds[r.Intn(3)]]
		d += ":url=" + url[strings.LastIndex(url, ".")+1:]
	case 3:
		url = []string{"type.googleapis.com/", "/", "proto.GenericTransportParams", "type.googleapis.com/google.protobuf.Any",
			"type.googleapis.com/proto.C2SWrapper", "\x00", strings.Repeat("A", 300), "type.googleapis.com/tapdance.tapdance.GenericTransportParams"}[r.Intn(8)]
		d += ":badurl"
	}
	switch r.Intn(12) {
	case 0:
		v = nil
		d += ":noval"
	case 1:
		if len(v) > 0 {
			v = v[:r.Intn(len(v))]
		}
		d += ":truncval"
	case 2:
		v = make([]byte, 1+r.Intn(24))
		r.Read(v)
		d += ":garbageval"
	case 3:
		v, _ = C11Mutate(r, v, nil)
		d += ":mutval"
	case 4: // unknown fields appended
		v = append(v, 0xfa, 0x01, 0x03, 'a', 'b', 'c', 0xf0, 0x01, 0x2a)
		d += ":unkfields"
	}
	return &anypb.Any{TypeUrl: url, Value: v}, d
}

var c11Transports = []pb.TransportType{pb.TransportType_Min, pb.TransportType_Obfs4, pb.TransportType_DTLS, pb.TransportType_Prefix}

func c11WantParams(t pb.TransportType) string {
	switch t {
	case pb.TransportType_Prefix:
		return "prefix"
	case pb.TransportType_DTLS:
		return "dtls"
	}
	return "generic"
}

// C11Coverts are covert-address strings: literal, malformed, empty-host, names.
var C11Coverts = []string{"192.0.2.99:443", "192.0.2.99:443", "192.0.2.99:443", "[2001:db8::1]:80", "", ":80", "[]:80", "no port here", "192.0.2.1",
	"192.0.2.1:0", "192.0.2.1:65536", "192.0.2.1:-1", "10.1.2.3:443", "127.0.0.1:9", "localhost:9", "www.blocked.example:443", "host.invalid:443",
	"[::ffff:8.8.8.8%eth0]:80", "[fe80::1%lo]:80", "\x00:1", "a:b:c", strings.Repeat("a", 300) + ":1", "[::1]:443", "0.0.0.0:1", "256.1.1.1:80", "1.2.3.4:http"}

// C11ClientToStation builds a registration payload with every field independently absent / set /
// out of range.
func C11ClientToStation(r *rand.Rand) (*pb.ClientToStation, string) {
	c := &pb.ClientToStation{}
	d := ""
	// transport
	var tt pb.TransportType
	switch x := r.Intn(20); {
	case x < 15:
		tt = c11Transports[r.Intn(len(c11Transports))]
		c.Transport = tt.Enum()
	case x < 16:
		tt = pb.TransportType_Null // absent
	case x < 18:
		tt = []pb.TransportType{pb.TransportType_Null, pb.TransportType_uTLS, pb.TransportType_Webrtc, pb.TransportType_Quic}[r.Intn(4)]
		c.Transport = tt.Enum()
	default:
		tt = pb.TransportType([]int32{-1, 10, 98, 100, 255, 1<<31 - 1, -1 << 31}[r.Intn(7)])
		c.Transport = &tt
	}
	d += "t" + strconv.Itoa(int(tt))
	// library version
	switch x := r.Intn(20); {
	case x < 1:
	case x < 10:
		c.ClientLibVersion = proto.Uint32(4)
	case x < 13:
		c.ClientLibVersion = proto.Uint32(3)
	case x < 17:
		c.ClientLibVersion = proto.Uint32(uint32(r.Intn(3)))
	default:
		c.ClientLibVersion = proto.Uint32([]uint32{5, 6, 100, 1 << 31, 1<<32 - 1}[r.Intn(5)])
	}
	d += "/v" + strconv.Itoa(int(c.GetClientLibVersion()%1000))
	// generation
	switch x := r.Intn(20); {
	case x < 1:
	case x < 15:
		c.DecoyListGeneration = proto.Uint32([]uint32{957, 957, 1, 2}[r.Intn(4)])
	case x < 17:
		c.DecoyListGeneration = proto.Uint32(uint32(r.Intn(1200)))
	default:
		c.DecoyListGeneration = proto.Uint32([]uint32{0, 1<<32 - 1, 1 << 31, 424242}[r.Intn(4)])
	}
	// families
	switch r.Intn(8) {
	case 0:
	case 1:
		c.V4Support = proto.Bool(true)
	case 2:
		c.V6Support = proto.Bool(true)
	case 3:
		c.V4Support, c.V6Support = proto.Bool(false), proto.Bool(false)
	default:
		c.V4Support, c.V6Support = proto.Bool(true), proto.Bool(r.Intn(2) == 0)
	}
	// parameters
	var ad string
	c.TransportParams, ad = C11Any(r, c11WantParams(tt))
	d += "/" + ad
	// covert, mask
	if r.Intn(10) != 0 {
		c.CovertAddress = proto.String(C11Coverts[r.Intn(len(C11Coverts))])
	}
	if r.Intn(4) == 0 {
		c.MaskedDecoyServerName = proto.String([]string{"mask.example.com", "", "\xff\xfe", strings.Repeat("m", 400)}[r.Intn(4)])
	}
	c.DisableRegistrarOverrides = c11Bool(r)
	// flags
	switch r.Intn(5) {
	case 0:
		c.Flags = &pb.RegistrationFlags{}
		d += "/f0"
	case 1:
		c.Flags = &pb.RegistrationFlags{Prescanned: c11Bool(r), Use_TIL: c11Bool(r), UploadOnly: c11Bool(r), ProxyHeader: c11Bool(r)}
		d += "/f"
	}
	// rarely used fields
	if r.Intn(10) == 0 {
		c.ProtocolVersion = proto.Uint32(uint32(r.Uint32()))
		st := pb.C2S_Transition([]int32{0, 1, 11, 255, 77, -5}[r.Intn(6)])
		c.StateTransition = &st
		c.UploadSync = proto.Uint64(r.Uint64())
	}
	if r.Intn(12) == 0 {
		c.FailedDecoys = []string{"a.example", "", "\xc3\x28"}
		c.Stats = &pb.SessionStats{FailedDecoysAmount: proto.Uint32(r.Uint32()), RttToStation: proto.Uint32(0)}
	}
	if r.Intn(12) == 0 {
		c.Padding = make([]byte, r.Intn(300))
	}
	if r.Intn(15) == 0 {
		// complete (all required fields set) or incomplete WebRTC signal
		s := &pb.WebRTCSignal{Seed: proto.String("seed"), Sdp: &pb.WebRTCSDP{Type: proto.Uint32(1)}}
		if r.Intn(2) == 0 {
			s.Sdp.Candidates = []*pb.WebRTCICECandidate{{IpUpper: proto.Uint64(1), IpLower: proto.Uint64(2), ComposedInfo: proto.Uint32(3)}}
		}
		if r.Intn(3) == 0 {
			s.Sdp = nil // a required field missing: Marshal refuses, Unmarshal reports it
		}
		c.WebrtcSignal = s
		d += "/webrtc"
	}
	return c, d
}

// C11RegResponse builds a registration_response as a registrar (or a forging client) would attach.
func C11RegResponse(r *rand.Rand, want string) (*pb.RegistrationResponse, string) {
	rr := &pb.RegistrationResponse{}
	d := "r"
	switch r.Intn(6) {
	case 0:
	case 1:
		rr.Ipv4Addr = proto.Uint32([]uint32{0, 1<<32 - 1, 0x7f000001, 0xC07ABE02}[r.Intn(4)])
		d += "4s"
	default:
		rr.Ipv4Addr = proto.Uint32(0xC07ABE00 + uint32(8+r.Intn(240))) // inside 192.122.190.0/24, outside the blocklisted /29
		d += "4"
	}
	switch r.Intn(5) {
	case 0:
	default:
		var k string
		rr.Ipv6Addr, k = C11IP(r)
		d += "6:" + k
	}
	switch r.Intn(5) {
	case 0:
	case 1:
		rr.DstPort = proto.Uint32([]uint32{0, 65535, 65536, 1 << 31, 1<<32 - 1}[r.Intn(5)])
	default:
		rr.DstPort = proto.Uint32(uint32(1 + r.Intn(65535)))
	}
	if r.Intn(2) == 0 {
		var k string
		rr.TransportParams, k = C11Any(r, want)
		d += "/" + k
	}
	if r.Intn(8) == 0 {
		rr.Error = proto.String("err")
		rr.ServerRandom = make([]byte, r.Intn(40))
	}
	if r.Intn(10) == 0 {
		rr.ClientConf = &pb.ClientConf{Generation: proto.Uint32(r.Uint32())}
	}
	rr.PhantomsSupportPortRand = c11Bool(r)
	return rr, d
}

var c11Sources = []pb.RegistrationSource{pb.RegistrationSource_Unspecified, pb.RegistrationSource_Detector, pb.RegistrationSource_API,
	pb.RegistrationSource_DetectorPrescan, pb.RegistrationSource_BidirectionalAPI, pb.RegistrationSource_DNS, pb.RegistrationSource_BidirectionalDNS}

// c11ValidWrapper builds a registration that a station with the test subnet file admits (apart
// from liveness / blocklist decisions).
func c11ValidWrapper(r *rand.Rand) *pb.C2SWrapper {
	tt := c11Transports[r.Intn(len(c11Transports))]
	c := &pb.ClientToStation{Transport: tt.Enum(), ClientLibVersion: proto.Uint32(4), DecoyListGeneration: proto.Uint32([]uint32{957, 957, 1, 2}[r.Intn(4)]),
		V4Support: proto.Bool(true), V6Support: proto.Bool(r.Intn(2) == 0), CovertAddress: proto.String("192.0.2.99:443")}
	switch tt {
	case pb.TransportType_Prefix:
		a, _ := anypb.New(&pb.PrefixTransportParams{PrefixId: proto.Int32(int32(r.Intn(10))), RandomizeDstPort: proto.Bool(r.Intn(2) == 0)})
		c.TransportParams = a
	case pb.TransportType_DTLS:
		a, _ := anypb.New(&pb.DTLSTransportParams{
			SrcAddr4:         &pb.Addr{IP: []byte{byte(1 + r.Intn(222)), byte(r.Intn(256)), byte(r.Intn(256)), byte(1 + r.Intn(254))}, Port: proto.Uint32(uint32(1024 + r.Intn(60000)))},
			SrcAddr6:         &pb.Addr{IP: append([]byte{0x20, 0x01, 0x0d, 0xb8}, make([]byte, 12)...), Port: proto.Uint32(uint32(1024 + r.Intn(60000)))},
			RandomizeDstPort: proto.Bool(r.Intn(2) == 0)})
		c.TransportParams = a
	default:
		if r.Intn(3) != 0 {
			a, _ := anypb.New(&pb.GenericTransportParams{RandomizeDstPort: proto.Bool(r.Intn(2) == 0)})
			c.TransportParams = a
		}
	}
	if c.TransportParams != nil && r.Intn(3) == 0 {
		c.TransportParams.TypeUrl = "" // the compact form the DNS registrar uses
	}
	w := &pb.C2SWrapper{SharedSecret: make([]byte, 32), RegistrationPayload: c}
	r.Read(w.SharedSecret)
	s := c11Sources[1+r.Intn(len(c11Sources)-1)]
	w.RegistrationSource = &s
	if r.Intn(3) == 0 {
		w.RegistrationAddress = make([]byte, 16)
		r.Read(w.RegistrationAddress)
		w.RegistrationAddress[0], w.RegistrationAddress[1] = 0x20, 0x01
		c.V6Support = proto.Bool(true)
	} else {
		w.RegistrationAddress = []byte{byte(1 + r.Intn(222)), byte(r.Intn(256)), byte(r.Intn(256)), byte(1 + r.Intn(254))}
	}
	return w
}

// c11Perturb applies one targeted perturbation to an otherwise valid registration and names it.
func c11Perturb(r *rand.Rand, w *pb.C2SWrapper) string {
	c := w.RegistrationPayload
	want := c11WantParams(c.GetTransport())
	var k string
	switch r.Intn(20) {
	case 0:
		w.SharedSecret, k = C11Secret(r)
		return k
	case 1:
		if r.Intn(2) == 0 {
			w.RegistrationPayload = nil
			return "p-"
		}
		w.RegistrationPayload = &pb.ClientToStation{}
		return "p0"
	case 2:
		tt := pb.TransportType([]int32{0, 5, 9, 99, -1, 10, 98, 100, 255, 1<<31 - 1, -1 << 31}[r.Intn(11)])
		c.Transport = &tt
		if r.Intn(4) == 0 {
			c.Transport = nil
		}
		return "tX"
	case 3: // parameters of another transport / another transport with these parameters
		tt := c11Transports[r.Intn(len(c11Transports))]
		c.Transport = tt.Enum()
		return "t-swap"
	case 4:
		c.ClientLibVersion = proto.Uint32([]uint32{0, 1, 2, 3, 5, 100, 1 << 31, 1<<32 - 1}[r.Intn(8)])
		if r.Intn(6) == 0 {
			c.ClientLibVersion = nil
		}
		return "vX"
	case 5:
		c.DecoyListGeneration = proto.Uint32([]uint32{0, 3, 956, 958, 424242, 1 << 31, 1<<32 - 1}[r.Intn(7)])
		if r.Intn(6) == 0 {
			c.DecoyListGeneration = nil
		}
		return "gX"
	case 6, 7, 8:
		c.TransportParams, k = C11Any(r, want)
		return k
	case 9:
		c.CovertAddress = proto.String(C11Coverts[r.Intn(len(C11Coverts))])
		if r.Intn(6) == 0 {
			c.CovertAddress = nil
		}
		return "covert"
	case 10:
		c.Flags = &pb.RegistrationFlags{Prescanned: c11Bool(r), Use_TIL: c11Bool(r), UploadOnly: c11Bool(r), ProxyHeader: c11Bool(r)}
		return "flags"
	case 11:
		s := pb.RegistrationSource([]int32{0, -1, 7, 99, 1<<31 - 1}[r.Intn(5)])
		w.RegistrationSource = &s
		if r.Intn(3) == 0 {
			w.RegistrationSource = nil
		}
		return "srcX"
	case 12, 13:
		w.RegistrationAddress, k = C11IP(r)
		return "a" + k
	case 14:
		w.DecoyAddress, k = C11IP(r)
		return "d" + k
	case 15, 16, 17:
		w.RegistrationResponse, k = C11RegResponse(r, want)
		return k
	case 18:
		switch r.Intn(4) {
		case 0:
			c.V4Support, c.V6Support = nil, nil
		case 1:
			c.V4Support, c.V6Support = proto.Bool(false), proto.Bool(true)
		case 2:
			c.V4Support, c.V6Support = proto.Bool(true), proto.Bool(true)
		default:
			c.V4Support, c.V6Support = proto.Bool(false), proto.Bool(false)
		}
		return "fam"
	}
	c.DisableRegistrarOverrides = c11Bool(r)
	c.MaskedDecoyServerName = proto.String("mask.example.com")
	return "misc"
}

// C11Wrapper builds a C2SWrapper.  Half of the time it is a valid registration with zero to three
// targeted perturbations (so that the deep paths are reached with exactly one thing wrong); the
// other half has every sub-message independently absent / empty / malformed.  small asks for an
// encoding that fits a DNS request (≲ 90 bytes).
func C11Wrapper(r *rand.Rand, small bool) (*pb.C2SWrapper, string) {
	if r.Intn(2) == 0 {
		w := c11ValidWrapper(r)
		var ks []string
		for i, n := 0, r.Intn(4); i < n && w.RegistrationPayload != nil; i++ {
			ks = append(ks, c11Perturb(r, w))
		}
		if small {
			c11Shrink(w)
		}
		if len(ks) == 0 {
			return w, "valid:t" + strconv.Itoa(int(w.GetRegistrationPayload().GetTransport()))
		}
		return w, "near-valid:" + strings.Join(ks, ",")
	}
	return c11WildWrapper(r, small)
}

// c11Shrink trims a wrapper towards what one DNS request can carry.
func c11Shrink(w *pb.C2SWrapper) {
	w.DecoyAddress, w.RegRespBytes, w.RegRespSignature = nil, nil, nil
	if rr := w.RegistrationResponse; rr != nil {
		rr.TransportParams, rr.ClientConf, rr.ServerRandom = nil, nil, nil
	}
	p := w.RegistrationPayload
	if p == nil {
		return
	}
	p.Padding, p.FailedDecoys, p.Stats, p.WebrtcSignal, p.MaskedDecoyServerName = nil, nil, nil, nil, nil
	if p.CovertAddress != nil && len(*p.CovertAddress) > 16 {
		p.CovertAddress = proto.String("192.0.2.9:443")
	}
	if a := p.TransportParams; a != nil {
		a.TypeUrl = ""
		if len(a.Value) > 24 {
			a.Value = a.Value[:24]
		}
	}
}

func c11WildWrapper(r *rand.Rand, small bool) (*pb.C2SWrapper, string) {
	w := &pb.C2SWrapper{}
	var d string
	w.SharedSecret, d = C11Secret(r)
	want := "generic"
	switch r.Intn(12) {
	case 0:
		d += " p-"
	case 1:
		w.RegistrationPayload = &pb.ClientToStation{}
		d += " p0"
	default:
		var k string
		w.RegistrationPayload, k = C11ClientToStation(r)
		want = c11WantParams(w.RegistrationPayload.GetTransport())
		d += " p:" + k
	}
	switch x := r.Intn(10); {
	case x < 3:
	case x < 9:
		s := c11Sources[r.Intn(len(c11Sources))]
		w.RegistrationSource = &s
		d += " src" + strconv.Itoa(int(s))
	default:
		s := pb.RegistrationSource([]int32{-1, 7, 99, 1<<31 - 1}[r.Intn(4)])
		w.RegistrationSource = &s
		d += " srcX"
	}
	var k string
	w.RegistrationAddress, k = C11IP(r)
	d += " a" + k
	if r.Intn(3) == 0 {
		w.DecoyAddress, k = C11IP(r)
		d += " d" + k
	}
	if r.Intn(3) == 0 {
		w.RegistrationResponse, k = C11RegResponse(r, want)
		d += " " + k
	} else if r.Intn(6) == 0 {
		w.RegistrationResponse = &pb.RegistrationResponse{}
		d += " r0"
	}
	if r.Intn(8) == 0 {
		w.RegRespBytes = make([]byte, r.Intn(60))
		r.Read(w.RegRespBytes)
		w.RegRespSignature = make([]byte, []int{0, 1, 63, 64, 65}[r.Intn(5)])
		d += " sig"
	}
	if small {
		c11Shrink(w)
	}
	return w, "wild:" + d
}

// C11MarshalLoose marshals m even when required fields are missing.
func C11MarshalLoose(m proto.Message) []byte {
	b, _ := proto.MarshalOptions{AllowPartial: true}.Marshal(m)
	return b
}

// C11WrapperInput produces the bytes of one registration-message input: structure-aware (≈ 60 %),
// raw mutation of a valid encoding (≈ 30 %), pure random (≈ 10 %).
func C11WrapperInput(r *rand.Rand, small bool) C11Case {
	switch x := r.Intn(20); {
	case x < 12:
		w, d := C11Wrapper(r, small)
		return C11Case{In: C11MarshalLoose(w), Kind: "pb:" + d}
	case x < 18:
		w, _ := C11Wrapper(r, small)
		o, _ := C11Wrapper(r, small)
		b, k := C11Mutate(r, C11MarshalLoose(w), C11MarshalLoose(o))
		return C11Case{In: b, Kind: k}
	}
	max := 400
	if small {
		max = 90
	}
	return C11Case{In: C11Random(r, max), Kind: "random"}
}

// ---------------------------------------------------------------------------------------------
// framing of a (library version, Any) pair as one byte string, so that a ParseParams witness is
// self-contained and the fuzzer can vary all of it:
//   empty input = nil Any, library version 4
//   In[0] = library version selector (0-7 literally, above that 100 / 2^31 / 2^32-1)
//   In[1] = length of the type URL, In[2:2+n] = type URL, rest = value; In of length 1 = nil Any

// C11FrameAny frames libVer and a.
func C11FrameAny(libVer uint32, a *anypb.Any) []byte {
	lv := byte(8)
	switch {
	case libVer < 8:
		lv = byte(libVer)
	case libVer == 1<<31:
		lv = 9
	case libVer > 1<<31:
		lv = 10
	}
	if a == nil {
		return []byte{lv}
	}
	u := a.TypeUrl
	if len(u) > 255 {
		u = u[:255]
	}
	out := append([]byte{lv, byte(len(u))}, u...)
	return append(out, a.Value...)
}

// C11UnframeAny is the inverse (total: every byte string decodes).
func C11UnframeAny(in []byte) (uint, *anypb.Any) {
	if len(in) == 0 {
		return 4, nil
	}
	lv := uint(in[0])
	if lv >= 8 {
		lv = []uint{100, 1 << 31, 1<<32 - 1}[(lv-8)%3]
	}
	if len(in) == 1 {
		return lv, nil
	}
	n := int(in[1])
	rest := in[2:]
	if n > len(rest) {
		n = len(rest)
	}
	return lv, &anypb.Any{TypeUrl: string(rest[:n]), Value: append([]byte(nil), rest[n:]...)}
}

// C11ParamsInput generates one framed (library version, Any) input for a transport whose correct
// parameter kind is want.
func C11ParamsInput(r *rand.Rand, want string) C11Case {
	lv := []uint32{4, 4, 4, 3, 3, 2, 1, 0, 5, 7, 100, 1 << 31, 1<<32 - 1}[r.Intn(13)]
	switch x := r.Intn(20); {
	case x < 13:
		a, d := C11Any(r, want)
		return C11Case{In: C11FrameAny(lv, a), Kind: d + "/v" + strconv.Itoa(int(lv%1000))}
	case x < 18:
		a, _ := C11Any(r, want)
		o, _ := C11Any(r, want)
		b, k := C11Mutate(r, C11FrameAny(lv, a), C11FrameAny(lv, o))
		return C11Case{In: b, Kind: k}
	}
	return C11Case{In: C11Random(r, 120), Kind: "random"}
}

// C11ValidWrapper is an admissible registration of a random transport with that transport's
// parameters (what a station / registrar sees as its ordinary traffic).
func C11ValidWrapper(r *rand.Rand) *pb.C2SWrapper { return c11ValidWrapper(r) }

// ---------------------------------------------------------------------------------------------
// DNS datagrams whose names are built from compression pointers into EVERY offset of the message.
//
// A compression pointer is 14 bits of attacker-chosen offset: it may target the 12 header bytes
// (ID, flags, the four counts – all attacker-chosen too, so they may themselves read as pointers or
// labels), RDATA of an earlier record, an earlier name, itself, or something past the end.  The
// generator composes: a header in which some fields are pointers (to themselves, to each other in
// cycles of length 1-3, to any header offset) or label octets; a question name of 0-2 labels that
// ends in a pointer to a header offset / to any offset / past the end; optionally a record whose RDATA
// holds pointer loops and a later record whose name points into that RDATA.
func C11DNSPointerDatagram(r *rand.Rand) ([]byte, string) {
	b := make([]byte, 12)
	put := func(at, off int) { b[at], b[at+1] = 0xc0|byte(off>>8)&0x3f, byte(off) }
	structural := [6]bool{}
	shape := ""
	// ---- header
	b[0], b[1] = byte(r.Intn(256)), byte(r.Intn(256))
	b[2], b[3] = []byte{0x01, 0x00, 0x81, 0x84}[r.Intn(4)], []byte{0x00, 0x80, 0x20}[r.Intn(3)]
	var cyc []int // header offsets that are part of a deliberately built structure
	switch x := r.Intn(10); {
	case x < 4: // a pointer cycle of length 1-3 through distinct header fields
		l := 1 + r.Intn(3)
		f := r.Perm(6)[:l]
		for i := range f {
			put(2*f[i], 2*f[(i+1)%l])
			structural[f[i]] = true
			cyc = append(cyc, 2*f[i])
		}
		shape = "hdr-cycle" + strconv.Itoa(l)
	case x < 6: // a label run inside the header that ends in a pointer back to where it started
		start := r.Intn(8) // label octet at start, n bytes of label, then the pointer
		n := r.Intn(3)
		if start+1+n+2 > 12 {
			n = 0
		}
		b[start] = byte(n)
		if n == 0 {
			b[start] = 1
			n = 1
		}
		if start+1+n+2 <= 12 {
			put(start+1+n, start)
		}
		for o := start; o < start+1+n+2 && o < 12; o++ {
			structural[o/2] = true
		}
		cyc = append(cyc, start)
		shape = "hdr-label-loop"
	case x < 9: // every field independently
		for i := 0; i < 6; i++ {
			switch y := r.Intn(10); {
			case y < 3:
				put(2*i, r.Intn(12))
			case y < 4:
				put(2*i, 2*i)
			case y < 5:
				put(2*i, 2*i+1) // into its own second octet
			case y < 6:
				b[2*i], b[2*i+1] = byte(r.Intn(4)), byte(r.Intn(256))
			default:
				continue
			}
			structural[i] = true
			cyc = append(cyc, 2*i)
		}
		shape = "hdr-free"
	default:
		shape = "hdr-plain"
	}
	nq := 1 + r.Intn(8)/7
	if !structural[2] {
		b[4], b[5] = 0, byte(nq)
	}
	target := func() (int, string) {
		switch x := r.Intn(8); {
		case x < 3 && len(cyc) > 0:
			return cyc[r.Intn(len(cyc))], "->hdr-struct"
		case x < 5:
			return r.Intn(12), "->hdr"
		case x < 7:
			return r.Intn(len(b) + 2), "->any"
		}
		return len(b) + r.Intn(40), "->beyond"
	}
	name := func() string {
		for i, n := 0, r.Intn(3); i < n; i++ {
			l := 1 + r.Intn(3)
			b = append(b, byte(l))
			for k := 0; k < l; k++ {
				b = append(b, "abcxyz01"[r.Intn(8)])
			}
		}
		if r.Intn(10) == 0 {
			b = append(b, 0)
			return "->end"
		}
		t, d := target()
		b = append(b, 0xc0|byte(t>>8)&0x3f, byte(t))
		return d
	}
	// ---- question(s)
	qd := ""
	for i := 0; i < nq; i++ {
		qd = name()
		b = append(b, 0, 16, 0, 1)
	}
	shape += ":q" + qd
	// ---- records: RDATA holding pointer structures, later names pointing into it
	if r.Intn(3) == 0 {
		nrr := 1 + r.Intn(2)
		sect := 3 + r.Intn(3) // ANCOUNT / NSCOUNT / ARCOUNT
		if !structural[sect] {
			b[2*sect], b[2*sect+1] = 0, byte(nrr)
		}
		var rd []int
		d := ""
		for i := 0; i < nrr; i++ {
			if len(rd) > 0 && r.Intn(4) != 0 {
				t := rd[r.Intn(len(rd))]
				b = append(b, 0xc0|byte(t>>8)&0x3f, byte(t))
				d = "->rdata"
			} else {
				d = name()
			}
			b = append(b, 0, 16, 0, 1, 0, 0, 0, 60)
			at := len(b) + 2
			var data []byte
			switch r.Intn(5) {
			case 0: // self loop
				data = []byte{0xc0 | byte(at>>8), byte(at)}
				rd = append(rd, at)
			case 1: // two-cycle
				data = []byte{0xc0 | byte((at+2)>>8), byte(at + 2), 0xc0 | byte(at>>8), byte(at)}
				rd = append(rd, at, at+2)
			case 2: // label, then back to the label
				data = []byte{1, 'a', 0xc0 | byte(at>>8), byte(at)}
				rd = append(rd, at, at+2)
			case 3: // into the header
				t := r.Intn(12)
				data = []byte{0xc0, byte(t)}
				rd = append(rd, at)
			default:
				data = make([]byte, r.Intn(6))
				r.Read(data)
				for k := range data {
					rd = append(rd, at+k)
				}
			}
			b = append(b, byte(len(data)>>8), byte(len(data)))
			b = append(b, data...)
		}
		shape += ":rr" + d
	}
	return b, "pointers-anywhere:" + shape
}

// ---------------------------------------------------------------------------------------------
// "still alive after junk": diagnosis of a long-lived server loop that stopped answering

func c11ParkedState(state string) bool {
	return strings.HasPrefix(state, "chan ") || state == "select" || strings.HasPrefix(state, "select (") ||
		strings.HasPrefix(state, "sync.") || strings.HasPrefix(state, "semacquire")
}

// C11LoopBlocked looks, on three scans one second apart, for the goroutine that runs a server's
// receive / accept / distribution loop (a frame containing loopFrame, none containing notFrame) and
// reports whether it sat parked in a channel operation, select or lock – i.e. NOT in its socket read
// (state "IO wait") and not running – on all three.  found is false if no such goroutine exists.
func C11LoopBlocked(loopFrame, notFrame string) (blocked, found bool, state, stack string) {
	blocked = true
	lastID := ""
	for scan := 0; scan < 3; scan++ {
		if scan > 0 {
			time.Sleep(time.Second)
		}
		var g *Goroutine
		for _, x := range Stacks() {
			hit, excl := false, false
			for _, f := range x.Frames {
				if strings.Contains(f, loopFrame) {
					hit = true
				}
				if notFrame != "" && strings.Contains(f, notFrame) {
					excl = true
				}
			}
			if hit && !excl {
				x := x
				g = &x
				break
			}
		}
		if g == nil {
			return false, found, state, stack
		}
		found = true
		state, stack = g.State, g.Raw
		if !c11ParkedState(g.State) || (lastID != "" && lastID != g.ID) {
			blocked = false
		}
		lastID = g.ID
	}
	return blocked, found, state, stack
}

// C11Lingering counts, on three scans one second apart, the goroutines with a frame containing marker
// and how many of them are parked (channel / select / lock); it returns the minimum over the scans
// (what lingers stably) and a sample stack.
func C11Lingering(marker string) (stable, parked int, sample string) {
	stable, parked = -1, -1
	for scan := 0; scan < 3; scan++ {
		if scan > 0 {
			time.Sleep(time.Second)
		}
		gs := InFunc(Stacks(), marker)
		p := 0
		for _, g := range gs {
			if c11ParkedState(g.State) {
				p++
				sample = g.Raw
			}
		}
		if stable < 0 || len(gs) < stable {
			stable = len(gs)
		}
		if parked < 0 || p < parked {
			parked = p
		}
	}
	return stable, parked, sample
}
