//go:build verif

package regprocessor

// C12, concurrent phase – the multiset of messages ACCEPTED by the socket equals the multiset of
// successful calls.  16 goroutines push registrations with distinct shared secrets through
// RegisterBidirectional / RegisterUnidirectional of ONE RegProcessor (real constructor, overrides
// armed) whose socket is a recorder.  Afterwards: every successful call's secret appears in exactly
// one accepted message (for a bidirectional call with the phantom / port / params it returned), no
// message appears twice, none is foreign or torn.  No verdict depends on time.

import (
	"encoding/hex"
	"fmt"
	"io"
	"math/rand"
	"os"
	"path/filepath"
	"runtime"
	"sync"
	"testing"
	"time"

	zmq "github.com/pebbe/zmq4"
	logrus "github.com/sirupsen/logrus"
	"google.golang.org/protobuf/proto"
	"google.golang.org/protobuf/types/known/anypb"

	kit "github.com/refraction-networking/conjure/internal/verifkit"
	"github.com/refraction-networking/conjure/pkg/metrics"
	pb "github.com/refraction-networking/conjure/proto"
)

// c12ConcSender records what the socket accepted; it yields inside the call the way a real socket's
// system call would, so that callers queue up behind the registrar's socket lock.
type c12ConcSender struct {
	mu   sync.Mutex
	msgs [][]byte
}

func (s *c12ConcSender) SendBytes(b []byte, _ zmq.Flag) (int, error) {
	runtime.Gosched()
	cp := append([]byte(nil), b...)
	s.mu.Lock()
	s.msgs = append(s.msgs, cp)
	s.mu.Unlock()
	return len(b), nil
}
func (s *c12ConcSender) Close() error { return nil }

type c12ConcCall struct {
	secret string
	uni    bool
	resp   *pb.RegistrationResponse
	worker int
	seq    int
}

func TestVerifC12Concurrent(t *testing.T) {
	rec := kit.NewRec("C12", "concurrent-forwarding")
	defer rec.Close()
	r := kit.Rand("c12-conc")
	dir := t.TempDir()
	lg := logrus.New()
	lg.SetOutput(io.Discard)
	met := metrics.NewMetrics(logrus.NewEntry(lg), 24*time.Hour)

	const workers = 16
	perWorker := kit.Tier(400, 4000)
	rounds := kit.Tier(3, 6)

	for round := 0; round < rounds; round++ {
		sc := c12GenSubCfg(r, 900+round, dir)
		// every group gets both families so that (nearly) every call succeeds
		for gi := range sc.Gens {
			for k := range sc.Gens[gi].Groups {
				sc.Gens[gi].Groups[k].Subnets = append(sc.Gens[gi].Groups[k].Subnets, "192.122.190.0/24", "2001:48a8:687f:1::/64")
			}
		}
		sc.Toml = c12ConcToml(sc)
		sc.Path = filepath.Join(dir, fmt.Sprintf("conc_%d.toml", round))
		if err := os.WriteFile(sc.Path, []byte(sc.Toml), 0o644); err != nil {
			t.Fatal(err)
		}
		os.Setenv("PHANTOM_SUBNET_LOCATION", sc.Path)
		rc := c12GenRegCfg(r, 9000+round, sc)
		rp, _ := rc.build(t, r, met)
		snd := &c12ConcSender{}
		rp.sock = snd

		var mu sync.Mutex
		var calls []c12ConcCall
		var refused int
		var wg sync.WaitGroup
		seeds := make([]int64, workers)
		for i := range seeds {
			seeds[i] = r.Int63()
		}
		rec.Case(map[string]interface{}{"round": round, "registrar_toml": rc.Toml, "auth": rc.Auth, "override": rc.Override, "workers": workers, "per_worker": perWorker})
		for wi := 0; wi < workers; wi++ {
			wg.Add(1)
			go func(wi int) {
				defer wg.Done()
				rq := rand.New(rand.NewSource(seeds[wi]))
				var mine []c12ConcCall
				nref := 0
				for i := 0; i < perWorker; i++ {
					tt := []pb.TransportType{pb.TransportType_Min, pb.TransportType_Obfs4, pb.TransportType_Prefix}[rq.Intn(3)]
					c2s := &pb.ClientToStation{Transport: &tt, ClientLibVersion: proto.Uint32(uint32(3 + rq.Intn(2))),
						DecoyListGeneration: proto.Uint32(uint32(sc.Gens[rq.Intn(len(sc.Gens))].ID)),
						V4Support:           proto.Bool(rq.Intn(4) != 0), V6Support: proto.Bool(rq.Intn(2) == 0),
						// messages of very different lengths, so that a mixed-up buffer cannot pass for the right one
						CovertAddress: proto.String(fmt.Sprintf("%0*d.example.com:443", 1+rq.Intn(60), rq.Intn(10)))}
					if tt == pb.TransportType_Prefix {
						c2s.TransportParams, _ = anypb.New(&pb.PrefixTransportParams{PrefixId: proto.Int32(int32(rq.Intn(10))), RandomizeDstPort: proto.Bool(rq.Intn(2) == 0)})
					} else if rq.Intn(2) == 0 {
						c2s.TransportParams, _ = anypb.New(&pb.GenericTransportParams{RandomizeDstPort: proto.Bool(rq.Intn(2) == 0)})
					}
					if rq.Intn(6) == 0 {
						c2s.DisableRegistrarOverrides = proto.Bool(true)
					}
					w := &pb.C2SWrapper{RegistrationPayload: c2s, SharedSecret: make([]byte, 32)}
					rq.Read(w.SharedSecret)
					w.SharedSecret[0], w.SharedSecret[1] = byte(wi), byte(round) // distinct across workers by construction
					call := c12ConcCall{secret: hex.EncodeToString(w.SharedSecret), uni: rq.Intn(4) == 0, worker: wi, seq: i}
					addr := c12RandAddr(rq)
					var err error
					if call.uni {
						err = rp.RegisterUnidirectional(w, pb.RegistrationSource_API, addr)
					} else {
						call.resp, err = rp.RegisterBidirectional(w, pb.RegistrationSource_BidirectionalAPI, addr)
					}
					if err != nil {
						nref++
						continue
					}
					mine = append(mine, call)
				}
				mu.Lock()
				calls = append(calls, mine...)
				refused += nref
				mu.Unlock()
			}(wi)
		}
		wg.Wait()
		rc.release(rp)

		// ---- verdict -------------------------------------------------------------------------------
		bySecret := map[string][]*pb.C2SWrapper{}
		torn := 0
		for _, b := range snd.msgs {
			fw := &pb.C2SWrapper{}
			if err := proto.Unmarshal(b, fw); err != nil || len(fw.GetSharedSecret()) != 32 || fw.RegistrationPayload == nil {
				torn++
				if torn <= 3 {
					rec.Violation("concurrent:accepted-message-torn", "a message accepted by the socket is not a well-formed C2SWrapper", kit.HexN(b, 48))
				}
				continue
			}
			k := hex.EncodeToString(fw.GetSharedSecret())
			bySecret[k] = append(bySecret[k], fw)
		}
		ok := map[string]bool{}
		var missing, twice, differ int
		for _, c := range calls {
			ok[c.secret] = true
			rec.Count("evaluations", 1)
			ms := bySecret[c.secret]
			switch {
			case len(ms) == 0:
				missing++
				if missing <= 3 {
					rec.Violation("concurrent:successful-call-without-its-message", "a call returned success to its client but no accepted message carries its registration",
						map[string]interface{}{"worker": c.worker, "seq": c.seq, "unidirectional": c.uni, "secret": c.secret, "returned": c12RespStr(c.resp)})
				}
			case len(ms) > 1:
				twice++
				if twice <= 3 {
					rec.Violation("concurrent:message-accepted-twice", fmt.Sprintf("the registration of one call was accepted %d times", len(ms)),
						map[string]interface{}{"worker": c.worker, "seq": c.seq, "secret": c.secret})
				}
			}
			if !c.uni {
				for _, fw := range ms {
					if d := c12RespDiff(c.resp, fw.GetRegistrationResponse()); d != "" || fw.RegistrationResponse == nil {
						differ++
						if differ <= 3 {
							rec.Violation("concurrent:returned-vs-forwarded:"+d, "the response returned to a client differs from the one in the accepted message with its secret",
								map[string]string{"returned": c12RespStr(c.resp), "forwarded": c12RespStr(fw.GetRegistrationResponse()), "secret": c.secret})
						}
					}
				}
			}
		}
		foreign := 0
		for k := range bySecret {
			if !ok[k] {
				foreign++
				if foreign <= 3 {
					rec.Violation("concurrent:foreign-message", "an accepted message belongs to no successful call", k)
				}
			}
		}
		if len(snd.msgs) != len(calls) && missing == 0 && twice == 0 && foreign == 0 && torn == 0 {
			rec.Violation("concurrent:message-count", "accepted messages and successful calls differ in number", map[string]int{"messages": len(snd.msgs), "calls": len(calls)})
		}
		rec.Count("accepted_messages", len(snd.msgs))
		rec.Count("refused", refused)
		rec.Distinct("nontrivial", round, rc.Auth, rc.Override, rc.Toml)
		rec.Distinct("nontrivial", "calls", len(calls) > 0, round)
		rec.Sample(map[string]interface{}{"round": round, "workers": workers, "successful_calls": len(calls), "accepted_messages": len(snd.msgs), "refused": refused,
			"missing": missing, "twice": twice, "foreign": foreign, "torn": torn, "auth": rc.Auth})
	}
}

func c12ConcToml(sc *c12SubCfg) string {
	s := "[Networks]\n"
	for _, g := range sc.Gens {
		s += fmt.Sprintf("  [Networks.%d]\n    Generation = %d\n", g.ID, g.ID)
		for _, grp := range g.Groups {
			s += fmt.Sprintf("    [[Networks.%d.WeightedSubnets]]\n      Weight = %d\n      RandomizeDstPort = %t\n      Subnets = [", g.ID, grp.Weight, grp.RandDst)
			for i, n := range grp.Subnets {
				if i > 0 {
					s += ", "
				}
				s += fmt.Sprintf("%q", n)
			}
			s += "]\n"
		}
	}
	return s
}
