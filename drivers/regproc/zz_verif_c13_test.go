//go:build verif

package regprocessor

// C13 – registration requests (v4 only, v6 only, dual stack) running concurrently with phantom-subnet
// reloads all complete, each using either the old or the new subnet set in full, and the reloads
// complete as well.
// Monitor 1 (controlled schedules): the verifhook.Yield point between the IPv4 and the IPv6 selection
// of processBdReq parks every request; the driver then enumerates every order of {release request i,
// start reload j}; after each step it waits until the goroutine it started is done or blocked in a
// synchronisation wait (stack scan), so a schedule is a sequence of logical steps, not of sleeps.
// Monitor 2 (stress, -race): free-running requesters and reloaders, progress watchdog + stack scan.

import (
	"fmt"
	"io"
	"net"
	"net/netip"
	"os"
	"path/filepath"
	"sync"
	"sync/atomic"
	"testing"
	"time"

	zmq "github.com/pebbe/zmq4"
	"github.com/refraction-networking/conjure/internal/verifhook"
	kit "github.com/refraction-networking/conjure/internal/verifkit"
	"github.com/refraction-networking/conjure/pkg/metrics"
	"github.com/refraction-networking/conjure/pkg/phantoms"
	"github.com/refraction-networking/conjure/pkg/station/lib"
	"github.com/refraction-networking/conjure/pkg/transports/wrapping/min"
	pb "github.com/refraction-networking/conjure/proto"
	"github.com/sirupsen/logrus"
	"google.golang.org/protobuf/proto"
)

const c13FileTmpl = `[Networks]
    [Networks.1]
        Generation = 1
        [[Networks.1.WeightedSubnets]]
            Weight = 1
            RandomizeDstPort = false
            Subnets = ["%s", "%s"]
    [Networks.2]
        Generation = 2
        [[Networks.2.WeightedSubnets]]
            Weight = 1
            RandomizeDstPort = false
            Subnets = ["%s"]
`

var (
	c13A4 = netip.MustParsePrefix("10.10.0.0/16")
	c13A6 = netip.MustParsePrefix("2001:db8:a::/48")
	c13B4 = netip.MustParsePrefix("10.20.0.0/16")
	c13B6 = netip.MustParsePrefix("2001:db8:b::/48")
)

type c13Sink struct{ n atomic.Int64 }

func (s *c13Sink) SendBytes(b []byte, f zmq.Flag) (int, error) { s.n.Add(1); return len(b), nil }
func (s *c13Sink) Close() error                                { return nil }

type c13Env struct {
	fileA, fileB string
	fileMissing  string // does not exist
	fileTrunc    string // a valid file cut in the middle of a table (what a reload sees while the file is being rewritten)
	met          *metrics.Metrics
}

func c13Setup(t *testing.T) *c13Env {
	dir := kit.OutDir()
	e := &c13Env{fileA: filepath.Join(dir, "c13_subnets_A.toml"), fileB: filepath.Join(dir, "c13_subnets_B.toml")}
	if err := os.WriteFile(e.fileA, []byte(fmt.Sprintf(c13FileTmpl, c13A4, c13A6, c13A4)), 0o644); err != nil {
		t.Fatal(err)
	}
	if err := os.WriteFile(e.fileB, []byte(fmt.Sprintf(c13FileTmpl, c13B4, c13B6, c13B4)), 0o644); err != nil {
		t.Fatal(err)
	}
	e.fileMissing = filepath.Join(dir, "c13_subnets_missing.toml")
	e.fileTrunc = filepath.Join(dir, "c13_subnets_truncated.toml")
	full := fmt.Sprintf(c13FileTmpl, c13B4, c13B6, c13B4)
	if err := os.WriteFile(e.fileTrunc, []byte(full[:len(full)*2/3]+"\n            Subnets = [\"10."), 0o644); err != nil {
		t.Fatal(err)
	}
	lg := logrus.New()
	lg.SetOutput(io.Discard)
	e.met = metrics.NewMetrics(logrus.NewEntry(lg), 24*time.Hour)
	return e
}

func (e *c13Env) newProcessor(t testing.TB) *RegProcessor {
	sel, err := phantoms.SubnetsFromTomlFile(e.fileA)
	if err != nil {
		t.Fatal(err)
	}
	return &RegProcessor{ipSelector: sel, sock: &c13Sink{}, metrics: e.met,
		transports: map[pb.TransportType]lib.Transport{pb.TransportType_Min: min.Transport{}}}
}

// kinds: v4, v6, dual (generation 1, both families configured) and "v6fail": a dual-stack request for
// generation 2, which has IPv4 subnets only, so the IPv6 selection fails after the IPv4 one succeeded.
// Such a request is legitimately answered with an error; what matters is that it leaves nothing locked.
func c13Request(kind string, secret []byte) *pb.C2SWrapper {
	gen := uint32(1)
	if kind == "v6fail" {
		gen = 2
	}
	if kind == "unkgen" {
		gen = 77 // a generation the loaded subnet file does not list (a ClientConf that reached clients before the registrar was told)
	}
	return &pb.C2SWrapper{
		SharedSecret: secret,
		RegistrationPayload: &pb.ClientToStation{
			ClientLibVersion: proto.Uint32(4), Transport: pb.TransportType_Min.Enum(), CovertAddress: proto.String("192.0.2.1:443"),
			DecoyListGeneration: proto.Uint32(gen), V4Support: proto.Bool(kind != "v6"), V6Support: proto.Bool(kind != "v4"),
		},
	}
}

// which set does a response belong to: "A", "B", "mixed", "outside"
func c13Classify(kind string, resp *pb.RegistrationResponse) string {
	in := func(p4, p6 netip.Prefix) bool {
		if kind != "v6" {
			a := netip.AddrFrom4([4]byte{byte(resp.GetIpv4Addr() >> 24), byte(resp.GetIpv4Addr() >> 16), byte(resp.GetIpv4Addr() >> 8), byte(resp.GetIpv4Addr())})
			if resp.Ipv4Addr == nil || !p4.Contains(a) {
				return false
			}
		}
		if kind != "v4" {
			a, ok := netip.AddrFromSlice(net.IP(resp.GetIpv6Addr()))
			if !ok || !p6.Contains(a) {
				return false
			}
		}
		return true
	}
	switch {
	case in(c13A4, c13A6):
		return "A"
	case in(c13B4, c13B6):
		return "B"
	}
	if kind == "dual" {
		return "mixed-or-outside"
	}
	return "outside"
}

type c13Task struct {
	name   string
	gid    atomic.Value // goroutine id (string)
	done   chan struct{}
	parked chan struct{} // closed when the request reached the yield point
	gate   chan struct{} // closed to let it continue
	resp   *pb.RegistrationResponse
	err    error
	kind   string
	panic  string // recovered panic of the request, if any
}

// waitSettled waits until the task is done or its goroutine is blocked in a synchronisation wait.
func (tk *c13Task) waitSettled(bound time.Duration) (state string) {
	deadline := time.Now().Add(bound)
	sleep := 20 * time.Microsecond
	for {
		select {
		case <-tk.done:
			return "done"
		default:
		}
		if id, _ := tk.gid.Load().(string); id != "" {
			if g := kit.ByID(kit.Stacks(), id); g != nil && g.Blocked() {
				// confirm it is not just passing through
				time.Sleep(200 * time.Microsecond)
				select {
				case <-tk.done:
					return "done"
				default:
				}
				if g2 := kit.ByID(kit.Stacks(), id); g2 != nil && g2.Blocked() && g2.State == g.State {
					return "blocked:" + g.State
				}
			}
		}
		if time.Now().After(deadline) {
			return "unsettled"
		}
		time.Sleep(sleep)
		if sleep < 2*time.Millisecond {
			sleep *= 2
		}
	}
}

func c13Perms(n int) [][]int {
	if n == 0 {
		return [][]int{{}}
	}
	var out [][]int
	var rec func(cur []int, used []bool)
	rec = func(cur []int, used []bool) {
		if len(cur) == n {
			out = append(out, append([]int(nil), cur...))
			return
		}
		for i := 0; i < n; i++ {
			if !used[i] {
				used[i] = true
				rec(append(cur, i), used)
				used[i] = false
			}
		}
	}
	rec(nil, make([]bool, n))
	return out
}

func TestVerifC13Schedules(t *testing.T) {
	rec := kit.NewRec("C13", "schedules")
	defer rec.Close()
	env := c13Setup(t)
	rng := kit.Rand("c13")
	kinds := []string{"v4", "v6", "dual", "v6fail", "unkgen"}

	// the yield callback parks the calling request (identified by goroutine id)
	var mu sync.Mutex
	tasks := map[string]*c13Task{}
	verifhook.Set(func(point string) {
		if point != "bdreq:between-selections" {
			return
		}
		mu.Lock()
		tk := tasks[kit.GoID()]
		mu.Unlock()
		if tk == nil {
			return
		}
		close(tk.parked)
		<-tk.gate
	})
	defer verifhook.Set(nil)

	type scenario struct {
		reqKinds []string
		reloads  int
		order    []int  // permutation of events: 0..k-1 = release request i, k.. = start reload j
		bad      []bool // reload j reads a missing / truncated file (it must fail and change nothing)
	}
	var scenarios []scenario
	maxK := kit.Tier(2, 3)
	for k := 1; k <= maxK; k++ {
		// all kind combinations
		combos := [][]string{{}}
		for i := 0; i < k; i++ {
			var next [][]string
			for _, c := range combos {
				for _, kd := range kinds {
					next = append(next, append(append([]string{}, c...), kd))
				}
			}
			combos = next
		}
		for m := 1; m <= 2; m++ {
			for _, c := range combos {
				for _, p := range c13Perms(k + m) {
					for mask := 0; mask < 1<<m; mask++ {
						bad := make([]bool, m)
						for j := range bad {
							bad[j] = mask&(1<<j) != 0
						}
						scenarios = append(scenarios, scenario{c, m, p, bad})
					}
				}
			}
		}
	}
	rec.Exhaustive(fmt.Sprintf("every order of {release request i, start reload j} for k=1..%d requests of every kind combination × m=1..2 reloads, each reload of a valid file or of a missing/truncated one (%d schedules); after each schedule one fresh request of every kind", maxK, len(scenarios)))
	deadlocks, failedReloads := 0, 0
	for si, sc := range scenarios {
		label := fmt.Sprintf("requests=%v reloads=%d order=%v bad=%v", sc.reqKinds, sc.reloads, sc.order, sc.bad)
		rec.CaseCheap(label)
		if failedReloads >= 3 {
			// each failed reload seen so far cost real time (a reload that polls and gives up); three witnesses are enough
			rec.Note(fmt.Sprintf("stopped after %d failed reloads (of %d schedules enumerated so far)", failedReloads, si))
			break
		}
		if deadlocks >= 40 {
			// every deadlock leaks blocked goroutines and costs real time; 40 witnesses are enough
			rec.Note(fmt.Sprintf("stopped after %d deadlocked schedules (of %d enumerated so far)", deadlocks, si))
			break
		}
		p := env.newProcessor(t)
		k := len(sc.reqKinds)
		reqs := make([]*c13Task, k)
		for i, kd := range sc.reqKinds {
			tk := &c13Task{name: fmt.Sprintf("req%d(%s)", i, kd), done: make(chan struct{}), parked: make(chan struct{}), gate: make(chan struct{}), kind: kd}
			reqs[i] = tk
			secret := make([]byte, 32)
			rng.Read(secret)
			go func() {
				id := kit.GoID()
				tk.gid.Store(id)
				mu.Lock()
				tasks[id] = tk
				mu.Unlock()
				defer func() {
					if r := recover(); r != nil {
						tk.panic = fmt.Sprint(r)
					}
					mu.Lock()
					delete(tasks, id)
					mu.Unlock()
					close(tk.done)
				}()
				tk.resp, tk.err = p.RegisterBidirectional(c13Request(tk.kind, secret), pb.RegistrationSource_BidirectionalAPI, []byte{203, 0, 113, 5})
			}()
		}
		// all requests reach the yield point (or finish, e.g. with an error) first
		for _, tk := range reqs {
			select {
			case <-tk.parked:
			case <-tk.done:
			case <-time.After(30 * time.Second):
				rec.Inconclusive("request never reached the yield point", label)
			}
		}
		var reloads []*c13Task
		var trace []string
		goodStarted := 0
		var goodSets []string // sets published by the valid reloads of this schedule, in start order
		for _, ev := range sc.order {
			if ev < k {
				tk := reqs[ev]
				close(tk.gate)
				trace = append(trace, tk.name+"→"+tk.waitSettled(30*time.Second))
			} else {
				j := ev - k
				var file string
				switch {
				case sc.bad[j] && j%2 == 0:
					file = env.fileMissing
				case sc.bad[j]:
					file = env.fileTrunc
				case goodStarted%2 == 0:
					file, goodStarted = env.fileB, goodStarted+1
					goodSets = append(goodSets, "B")
				default:
					file, goodStarted = env.fileA, goodStarted+1
					goodSets = append(goodSets, "A")
				}
				tk := &c13Task{name: fmt.Sprintf("reload%d", j), done: make(chan struct{}), kind: map[bool]string{true: "bad", false: "good"}[sc.bad[j]]}
				reloads = append(reloads, tk)
				go func() {
					tk.gid.Store(kit.GoID())
					defer close(tk.done)
					os.Setenv("PHANTOM_SUBNET_LOCATION", file)
					tk.err = p.ReloadSubnets()
				}()
				trace = append(trace, tk.name+"→"+tk.waitSettled(30*time.Second))
			}
		}
		// every request and reload must complete; a stable blocked state of everything that is left is a deadlock
		all := append(append([]*c13Task{}, reqs...), reloads...)
		var stuck []string
		for round := 0; round < 3; round++ {
			stuck = stuck[:0]
			for _, tk := range all {
				if st := tk.waitSettled(20 * time.Second); st != "done" {
					stuck = append(stuck, tk.name+":"+st)
				}
			}
			if len(stuck) == 0 {
				break
			}
			time.Sleep(150 * time.Millisecond)
		}
		if len(stuck) > 0 {
			allBlocked := true
			for _, s := range stuck {
				if len(s) < 8 || !containsStr(s, ":blocked:") {
					allBlocked = false
				}
			}
			if allBlocked {
				deadlocks++
				var dump []string
				for _, tk := range all {
					if id, _ := tk.gid.Load().(string); id != "" {
						if g := kit.ByID(kit.Stacks(), id); g != nil {
							dump = append(dump, g.Raw)
						}
					}
				}
				if len(dump) > 4 {
					dump = dump[:4]
				}
				rec.Violation("deadlock:request-and-reload-blocked-forever", "a request and a reload block each other: neither completes",
					map[string]interface{}{"schedule": label, "trace": trace, "stuck": stuck, "stacks": dump})
			} else {
				rec.Inconclusive("tasks neither done nor in a stable blocked state within the bound", map[string]interface{}{"schedule": label, "stuck": stuck})
			}
		} else {
			for _, tk := range reqs {
				if tk.kind == "unkgen" && tk.panic == "" {
					continue // whether and how an unknown generation is answered is not this property's subject: it must complete
				}
				if tk.kind == "v6fail" && tk.panic == "" {
					if tk.err == nil {
						rec.Violation("unanswerable-request-succeeded", "a request for a generation without IPv6 subnets got an IPv6 phantom", map[string]interface{}{"schedule": label})
					}
					continue
				}
				if tk.panic != "" {
					rec.Violation("request-panicked:"+tk.kind, "a request panicked while subnets were being reloaded", map[string]interface{}{"schedule": label, "trace": trace, "request": tk.name, "panic": tk.panic})
					continue
				}
				if tk.err != nil {
					rec.Violation("request-failed", "a well-formed request failed while subnets were being reloaded", map[string]interface{}{"schedule": label, "request": tk.name, "err": tk.err.Error()})
					continue
				}
				if c := c13Classify(tk.kind, tk.resp); c != "A" && c != "B" {
					rec.Violation("mixed-subnet-sets:"+tk.kind, "a response does not lie wholly in the old or wholly in the new subnet set",
						map[string]interface{}{"schedule": label, "trace": trace, "request": tk.name, "class": c, "v4": fmt.Sprintf("%08x", tk.resp.GetIpv4Addr()), "v6": net.IP(tk.resp.GetIpv6Addr()).String()})
				}
			}
			for _, tk := range reloads {
				if tk.kind == "bad" {
					if tk.err == nil {
						rec.Count("bad_reloads_that_reported_success", 1) // not judged by itself; what it left behind is judged below
					} else {
						rec.Count("bad_reloads_refused", 1)
					}
					continue
				}
				if tk.err != nil {
					failedReloads++
					rec.Violation("reload-failed", "a reload of a valid subnet file failed", map[string]interface{}{"schedule": label, "err": tk.err.Error()})
				}
			}
			// afterwards: one fresh request of every kind must be answered from a set that a *valid* reload of this
			// schedule published (or from the initial set when there was none) - whatever the failed reloads did
			allowed := map[string]bool{}
			switch len(goodSets) {
			case 0:
				allowed["A"] = true
			case 1:
				allowed[goodSets[0]] = true
			default: // two valid reloads may take the write lock in either order
				for _, gs := range goodSets {
					allowed[gs] = true
				}
			}
			for _, kd := range []string{"v4", "v6", "dual"} {
				secret := make([]byte, 32)
				rng.Read(secret)
				var resp *pb.RegistrationResponse
				var err error
				pan := ""
				func() {
					defer func() {
						if r := recover(); r != nil {
							pan = fmt.Sprint(r)
						}
					}()
					resp, err = p.RegisterBidirectional(c13Request(kd, secret), pb.RegistrationSource_BidirectionalAPI, []byte{203, 0, 113, 5})
				}()
				rec.Count("requests_after_the_schedule", 1)
				switch {
				case pan != "":
					rec.Violation("request-panicked-after-reloads:"+kd, "a request issued after the reloads of a schedule panicked", map[string]interface{}{"schedule": label, "trace": trace, "panic": pan})
				case err != nil:
					rec.Violation("request-failed-after-reloads:"+kd, "a well-formed request issued after the reloads of a schedule failed", map[string]interface{}{"schedule": label, "trace": trace, "err": err.Error()})
				default:
					if c := c13Classify(kd, resp); !allowed[c] {
						rec.Violation("stale-or-foreign-set-after-reloads:"+kd, "a request issued after all reloads completed is not answered from the set the valid reload(s) published",
							map[string]interface{}{"schedule": label, "trace": trace, "class": c, "published_by_valid_reloads": goodSets})
					}
				}
			}
		}
		rec.Count("evaluations", 1)
		rec.Distinct("nontrivial", label)
		rec.Distinct("schedules", fmt.Sprint(sc.reqKinds, sc.reloads, sc.order))
		if rec.WantSample() && k >= 2 && sc.reloads == 2 {
			rec.Sample(map[string]interface{}{"schedule": label, "trace": trace})
		}
	}
}

func containsStr(s, sub string) bool {
	for i := 0; i+len(sub) <= len(s); i++ {
		if s[i:i+len(sub)] == sub {
			return true
		}
	}
	return false
}

// ---- stress without hooks (built with -race) --------------------------------------------------------

func TestVerifC13Stress(t *testing.T) {
	rec := kit.NewRec("C13", "stress")
	defer rec.Close()
	env := c13Setup(t)
	p := env.newProcessor(t)
	iters := kit.Tier(3000, 40000)
	const requesters, reloaders = 8, 2
	var progress atomic.Int64
	var wg sync.WaitGroup
	var doneFlag atomic.Bool
	kinds := []string{"v4", "v6", "dual", "v6fail", "unkgen"}
	var gids sync.Map
	for g := 0; g < requesters; g++ {
		wg.Add(1)
		go func(g int) {
			defer wg.Done()
			gids.Store(kit.GoID(), fmt.Sprintf("requester%d", g))
			rng := kit.Rand(fmt.Sprint("c13-stress-", g))
			for i := 0; i < iters; i++ {
				kind := kinds[(i+g)%len(kinds)]
				secret := make([]byte, 32)
				rng.Read(secret)
				var resp *pb.RegistrationResponse
				var err error
				pan := ""
				func() {
					defer func() {
						if r := recover(); r != nil {
							pan = fmt.Sprint(r)
						}
					}()
					resp, err = p.RegisterBidirectional(c13Request(kind, secret), pb.RegistrationSource_BidirectionalAPI, []byte{203, 0, 113, 5})
				}()
				if pan != "" {
					rec.Violation("request-panicked:"+kind, "a request panicked while subnets were being reloaded", map[string]interface{}{"panic": pan, "kind": kind})
				} else if kind == "unkgen" {
					rec.Distinct("nontrivial", kind, "completed")
				} else if kind == "v6fail" {
					if err == nil {
						rec.Violation("unanswerable-request-succeeded", "a request for a generation without IPv6 subnets got an IPv6 phantom", nil)
					}
					rec.Distinct("nontrivial", kind, "refused")
				} else if err != nil {
					rec.Violation("request-failed", "a well-formed request failed while subnets were being reloaded", map[string]interface{}{"err": err.Error(), "kind": kind})
				} else if c := c13Classify(kind, resp); c != "A" && c != "B" {
					rec.Violation("mixed-subnet-sets:"+kind, "a response does not lie wholly in the old or wholly in the new subnet set",
						map[string]interface{}{"class": c, "v4": fmt.Sprintf("%08x", resp.GetIpv4Addr()), "v6": net.IP(resp.GetIpv6Addr()).String()})
				} else {
					rec.Distinct("nontrivial", kind, c)
				}
				progress.Add(1)
				rec.Count("evaluations", 1)
			}
		}(g)
	}
	var reloadsDone, badReloads atomic.Int64
	var relMu sync.RWMutex // harness only: keeps the process-wide location variable consistent during serialised blocks
	for g := 0; g < reloaders; g++ {
		wg.Add(1)
		go func(g int) {
			defer wg.Done()
			gids.Store(kit.GoID(), fmt.Sprintf("reloader%d", g))
			for i := 0; !doneFlag.Load() && i < iters; i++ {
				f := env.fileA
				if (i+g)%2 == 0 {
					f = env.fileB
				}
				// every other block of 50 reloads is serialised (as the registrar's single SIGHUP goroutine does) and mixes in
				// reloads of a missing / truncated file, which must fail and change nothing; the location is a process-wide
				// environment variable, so unserialised reloaders may only use valid files
				serial := (i/50)%2 == 1
				bad := false
				if serial {
					relMu.Lock()
					switch {
					case g == 0 && i%4 == 1:
						f, bad = env.fileMissing, true
					case g == 0 && i%4 == 3:
						f, bad = env.fileTrunc, true
					}
				} else {
					relMu.RLock()
				}
				os.Setenv("PHANTOM_SUBNET_LOCATION", f)
				err := p.ReloadSubnets()
				if serial {
					relMu.Unlock()
				} else {
					relMu.RUnlock()
				}
				if bad {
					badReloads.Add(1)
				} else if err != nil {
					rec.Violation("reload-failed", "a reload of a valid subnet file failed", map[string]interface{}{"err": err.Error()})
				}
				reloadsDone.Add(1)
				progress.Add(1)
			}
		}(g)
	}
	fin := make(chan struct{})
	go func() { wg.Wait(); close(fin) }()
	last, lastChange := int64(-1), time.Now()
	for {
		select {
		case <-fin:
			rec.Count("reloads", int(reloadsDone.Load()))
			rec.Count("reloads_of_missing_or_truncated_files", int(badReloads.Load()))
			return
		case <-time.After(250 * time.Millisecond):
		}
		if progress.Load() >= int64(requesters*iters) {
			doneFlag.Store(true)
		}
		if cur := progress.Load(); cur != last {
			last, lastChange = cur, time.Now()
			continue
		}
		if time.Since(lastChange) < 10*time.Second {
			continue
		}
		// no progress for 10 s: is everything parked on the selector lock?
		stable := true
		var stuck []string
		var stacks []string
		for round := 0; round < 3 && stable; round++ {
			gs := kit.Stacks()
			stuck = stuck[:0]
			gids.Range(func(k, v interface{}) bool {
				if g := kit.ByID(gs, k.(string)); g != nil {
					stuck = append(stuck, v.(string)+":"+g.State)
					if !g.Blocked() {
						stable = false
					}
					if round == 0 && len(stacks) < 4 {
						stacks = append(stacks, g.Raw)
					}
				}
				return true
			})
			if progress.Load() != last {
				stable = false
			}
			time.Sleep(time.Second)
		}
		if stable && len(stuck) > 0 {
			rec.Count("reloads", int(reloadsDone.Load()))
			rec.Violation("deadlock:request-and-reload-blocked-forever", "requests and reloads block each other: no progress and every worker is parked on the selector lock",
				map[string]interface{}{"completed_operations": last, "workers": stuck, "stacks": stacks})
			rec.Close()
			os.Exit(0) // the blocked goroutines cannot be recovered; the verdict is recorded
		}
		if time.Since(lastChange) > 5*time.Minute {
			rec.Inconclusive("no progress for 5 minutes but no stable blocked state either", stuck)
			rec.Close()
			os.Exit(0)
		}
	}
}
