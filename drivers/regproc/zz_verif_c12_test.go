//go:build verif

package regprocessor

// C12 – what the registrar tells the client is what it tells the stations, unforgeably.
//
// Monitor: generated requests × registrar configurations × phantom-subnet configurations are sent
// through the REAL RegisterBidirectional / RegisterUnidirectional of a RegProcessor built by the REAL
// constructors (its ZMQ socket swapped for a recorder).  The bytes handed to the sender are fed into
// a REAL lib.RegistrationManager (same subnet file) through the export shim for parseRegMessage.
// Oracles (all online, see NOTES_c12.md):
//   (1) returned response == response embedded in the forwarded bytes (v4, v6, port, params)
//   (2) the station's registrations carry that phantom (per family), port and params
//   (3) forged registration_response / RegRespBytes / RegRespSignature never survive; when
//       authenticated the signature verifies over bytes that decode to the true response
//   (4) parameter overrides only when the client did not disable them
//   (5) a substituted phantom lies in an override subnet of that transport; every non-zero-weight
//       override subnet is used over >= 400 substitutions; an excluded phantom is never replaced

import (
	"bytes"
	"crypto/ed25519"
	"encoding/binary"
	"encoding/hex"
	"encoding/json"
	"errors"
	"fmt"
	"io"
	"math/rand"
	"net"
	"os"
	"path/filepath"
	"strings"
	"syscall"
	"testing"
	"time"

	"github.com/BurntSushi/toml"
	zmq "github.com/pebbe/zmq4"
	logrus "github.com/sirupsen/logrus"
	"google.golang.org/protobuf/proto"
	"google.golang.org/protobuf/types/known/anypb"

	kit "github.com/refraction-networking/conjure/internal/verifkit"
	"github.com/refraction-networking/conjure/pkg/core"
	"github.com/refraction-networking/conjure/pkg/core/interfaces"
	"github.com/refraction-networking/conjure/pkg/metrics"
	"github.com/refraction-networking/conjure/pkg/phantoms"
	"github.com/refraction-networking/conjure/pkg/regserver/overrides"
	"github.com/refraction-networking/conjure/pkg/station/lib"
	stationlog "github.com/refraction-networking/conjure/pkg/station/log"
	"github.com/refraction-networking/conjure/pkg/transports/wrapping/min"
	"github.com/refraction-networking/conjure/pkg/transports/wrapping/obfs4"
	"github.com/refraction-networking/conjure/pkg/transports/wrapping/prefix"
	pb "github.com/refraction-networking/conjure/proto"
)

// ---- recording sender ---------------------------------------------------------------------------

// c12Plan is a fault plan for the registrar's socket during ONE request.
type c12Plan struct {
	Pattern string // "" (no fault) | always | once | k<N> | short
	Errno   string
	err     error
	failN   int  // attempts that fail before one is accepted; -1 = every attempt fails
	short   bool // the accepted attempt reports fewer bytes than it was given (err == nil)
}

func (p c12Plan) String() string {
	if p.Pattern == "" {
		return "-"
	}
	return p.Errno + "/" + p.Pattern
}

var c12Errnos = []struct {
	name string
	err  error
}{
	{"ETERM", zmq.ETERM}, {"EINVAL", zmq.Errno(syscall.EINVAL)}, {"EAGAIN", zmq.Errno(syscall.EAGAIN)}, {"EINTR", zmq.Errno(syscall.EINTR)},
	{"EHOSTUNREACH", zmq.Errno(syscall.EHOSTUNREACH)}, {"EFSM", zmq.EFSM}, {"generic", errors.New("send refused")},
}

func c12RandPlan(r *rand.Rand) c12Plan {
	e := c12Errnos[r.Intn(len(c12Errnos))]
	p := c12Plan{Errno: e.name, err: e.err}
	switch x := r.Intn(20); {
	case x < 8:
		p.Pattern, p.failN = "always", -1
	case x < 12:
		p.Pattern, p.failN = "once", 1
	case x < 17:
		p.failN = []int{2, 3, 4, 7}[r.Intn(4)]
		p.Pattern = fmt.Sprintf("k%d", p.failN)
	default:
		p.Pattern, p.Errno, p.err, p.short = "short", "none", nil, true
	}
	return p
}

// c12Sender stands in for the ZMQ PUB socket.  msgs holds only what the socket ACCEPTED (err == nil).
type c12Sender struct {
	msgs     [][]byte
	plan     c12Plan
	attempts int
	failed   int
}

func (s *c12Sender) reset(p c12Plan) { s.msgs, s.plan, s.attempts, s.failed = s.msgs[:0], p, 0, 0 }

func (s *c12Sender) SendBytes(b []byte, _ zmq.Flag) (int, error) {
	s.attempts++
	if s.plan.Pattern != "" && !s.plan.short && (s.plan.failN < 0 || s.attempts <= s.plan.failN) {
		s.failed++
		return -1, s.plan.err
	}
	s.msgs = append(s.msgs, append([]byte(nil), b...))
	if s.plan.short {
		return len(b) / 2, nil
	}
	return len(b), nil
}
func (s *c12Sender) Close() error { return nil }

// ---- phantom subnet configurations --------------------------------------------------------------

type c12Group struct {
	Weight  int
	RandDst bool
	Subnets []string
}
type c12Gen struct {
	ID     uint
	Groups []c12Group
}
type c12SubCfg struct {
	Idx   int
	Gens  []c12Gen
	V4    []*net.IPNet // every v4 phantom subnet (used to aim exclusions)
	V6    []*net.IPNet
	Toml  string
	Path  string
	refer *phantoms.PhantomIPSelector // the monitor's own instance: "what would have been selected"
	rm    *lib.RegistrationManager    // the station
}

// v4 subnets never start with a zero octet and v6 subnets never with a zero byte: the selector's
// handling of leading zero bytes is C14's business, not this property's.
func c12RandV4Net(r *rand.Rand) string {
	fixed := []string{"192.122.190.0/24", "141.219.0.0/16", "35.8.0.0/16", "128.138.97.0/28"}
	if r.Intn(3) == 0 {
		return fixed[r.Intn(len(fixed))]
	}
	bits := []int{16, 20, 24, 26, 28, 30}[r.Intn(6)]
	ip := net.IPv4(byte(11+r.Intn(200)), byte(r.Intn(256)), byte(r.Intn(256)), byte(r.Intn(256))).To4()
	if ip[0] == 127 {
		ip[0] = 128
	}
	n := &net.IPNet{IP: ip.Mask(net.CIDRMask(bits, 32)), Mask: net.CIDRMask(bits, 32)}
	return n.String()
}

func c12RandV6Net(r *rand.Rand) string {
	fixed := []string{"2001:48a8:687f:1::/64", "2001:48a8:687f:1::/96", "2620:18c:4000::/48"}
	if r.Intn(3) == 0 {
		return fixed[r.Intn(len(fixed))]
	}
	bits := []int{32, 48, 64, 96, 112, 120}[r.Intn(6)]
	ip := make(net.IP, 16)
	r.Read(ip)
	ip[0] = []byte{0x20, 0x26, 0x2a, 0xfd}[r.Intn(4)]
	ip[1] |= 1
	n := &net.IPNet{IP: ip.Mask(net.CIDRMask(bits, 128)), Mask: net.CIDRMask(bits, 128)}
	return n.String()
}

func c12GenSubCfg(r *rand.Rand, idx int, dir string) *c12SubCfg {
	sc := &c12SubCfg{Idx: idx}
	ids := []uint{1, 2, 957, uint(3 + r.Intn(40))}
	r.Shuffle(len(ids), func(i, j int) { ids[i], ids[j] = ids[j], ids[i] })
	ngen := 1 + r.Intn(3)
	for g := 0; g < ngen; g++ {
		gen := c12Gen{ID: ids[g]}
		ngrp := 1 + r.Intn(3)
		for k := 0; k < ngrp; k++ {
			grp := c12Group{Weight: 1 + r.Intn(9), RandDst: r.Intn(2) == 0}
			n4 := 1 + r.Intn(2)
			if r.Intn(12) == 0 {
				n4 = 0 // a group without v4: requests landing there are refused by the registrar
			}
			n6 := 1 + r.Intn(2)
			if r.Intn(8) == 0 {
				n6 = 0 // a group without v6: v6 requests landing there are refused by the registrar
			}
			if n4 == 0 && n6 == 0 {
				n6 = 1
			}
			for i := 0; i < n4; i++ {
				grp.Subnets = append(grp.Subnets, c12RandV4Net(r))
			}
			for i := 0; i < n6; i++ {
				grp.Subnets = append(grp.Subnets, c12RandV6Net(r))
			}
			gen.Groups = append(gen.Groups, grp)
		}
		sc.Gens = append(sc.Gens, gen)
	}
	var b strings.Builder
	b.WriteString("[Networks]\n")
	for _, g := range sc.Gens {
		fmt.Fprintf(&b, "  [Networks.%d]\n    Generation = %d\n", g.ID, g.ID)
		for _, grp := range g.Groups {
			fmt.Fprintf(&b, "    [[Networks.%d.WeightedSubnets]]\n      Weight = %d\n      RandomizeDstPort = %t\n      Subnets = [", g.ID, grp.Weight, grp.RandDst)
			for i, s := range grp.Subnets {
				if i > 0 {
					b.WriteString(", ")
				}
				fmt.Fprintf(&b, "%q", s)
				if _, n, err := net.ParseCIDR(s); err == nil && n.IP.To4() != nil {
					sc.V4 = append(sc.V4, n)
				} else if err == nil {
					sc.V6 = append(sc.V6, n)
				}
			}
			b.WriteString("]\n")
		}
	}
	sc.Toml = b.String()
	sc.Path = filepath.Join(dir, fmt.Sprintf("phantom_subnets_%d.toml", idx))
	return sc
}

// ---- registrar configurations -------------------------------------------------------------------

type c12RegToml struct {
	EnforceSubnetOverrides    bool     `toml:"enforce_subnet_overrides"`
	PrcntMinRegsToOverride    float64  `toml:"prcnt_min_regs_to_override"`
	PrcntPrefixRegsToOverride float64  `toml:"prcnt_prefix_regs_to_override"`
	OverrideSubnets           []Subnet `toml:"override_subnet"`
	ExclusionsFromOverride    []Subnet `toml:"excluded_subnet_from_overrides"`
}

type c12RegCfg struct {
	Idx      int
	Auth     bool
	Override string // constructor-default | none | rand | fixed:<id> | file
	ExclMode string // legacy | structured
	OvrFile  string
	Toml     string
	conf     c12RegToml
	pub      ed25519.PublicKey
	priv     ed25519.PrivateKey

	minNets, prefixNets []Subnet // as the registrar split them (recomputed by the monitor from conf)
}

// c12PrefixID: mostly ids the prefix package knows (-1 = random), 1 in 6 an id prefix.TryFromID rejects (typo / newer build),
// so that overridePrefix fails AFTER the subnet and address were chosen.  (10 is not used: TryFromID lets it through and returns a
// nil prefix, a crash that belongs to C19 / C11.)
func c12PrefixID(r *rand.Rand) int {
	if r.Intn(6) == 0 {
		return []int{11, 12, 42, 99, 1000, -2, -7}[r.Intn(7)]
	}
	return r.Intn(11) - 1
}

// c12Usable reports whether a substitution drawing this override subnet can succeed at all.
func c12Usable(s Subnet) bool {
	if s.CIDR.IPNet == nil || s.CIDR.IPNet.IP.To4() == nil {
		return false
	}
	if s.Transport == "Prefix_Transport" && (s.PrefixId < -1 || s.PrefixId > 9) {
		return false
	}
	return true
}

func c12Weight(r *rand.Rand) float64 {
	// every non-zero weight is >= 10 % of the total for up to 4 subnets: 1 / (1 + 3*2.5) = 0.1176
	return []float64{1, 1.25, 1.5, 2, 2.5, 1.07}[r.Intn(6)]
}

func c12GenRegCfg(r *rand.Rand, idx int, sc *c12SubCfg) *c12RegCfg {
	rc := &c12RegCfg{Idx: idx, Auth: idx%2 == 1}
	switch r.Intn(6) {
	case 0:
		rc.Override = "none"
	case 1:
		rc.Override = "rand"
	case 2:
		rc.Override = fmt.Sprintf("fixed:%d", r.Intn(10))
	case 3:
		rc.Override = "file"
		var b strings.Builder
		b.WriteString("# max bar id port prefix\n")
		for i, n := 0, 1+r.Intn(3); i < n; i++ {
			id := r.Intn(10)
			fmt.Fprintf(&b, "1000 %d %d %d %s\n", []int{1000, 500, 100, 1}[r.Intn(4)], id, []int{443, 80, 53, 22, 8443}[r.Intn(5)], []string{"GET", "POST", "HTTP", "SSH-2.0", "\\x16\\x03"}[r.Intn(5)])
		}
		rc.OvrFile = b.String()
	default:
		rc.Override = "constructor-default"
	}

	var b strings.Builder
	enforce := r.Intn(10) < 7
	pcts := []float64{100, 100, 100, 50, 33.3, 0, 150}
	fmt.Fprintf(&b, "enforce_subnet_overrides = %t\nprcnt_min_regs_to_override = %v\nprcnt_prefix_regs_to_override = %v\n",
		enforce, pcts[r.Intn(len(pcts))], pcts[r.Intn(len(pcts))])
	used := map[string]bool{}
	ovNet := func() string {
		for {
			bits := []int{24, 24, 26, 28, 30, 32}[r.Intn(6)]
			ip := net.IPv4(10, byte(r.Intn(256)), byte(r.Intn(256)), byte(r.Intn(256))).To4()
			// disjoint /24s so that "which subnet was used" is unambiguous
			key := fmt.Sprintf("%d.%d", ip[1], ip[2])
			if used[key] {
				continue
			}
			used[key] = true
			n := &net.IPNet{IP: ip.Mask(net.CIDRMask(bits, 32)), Mask: net.CIDRMask(bits, 32)}
			return n.String()
		}
	}
	counts := []int{0, 1, 2, 3, 3, 4}
	nMin, nPre := counts[r.Intn(len(counts))], counts[r.Intn(len(counts))]
	var ents []string
	for i := 0; i < nMin; i++ {
		w := c12Weight(r)
		if nMin >= 3 && i == 1 && r.Intn(6) == 0 {
			w = 0 // a zero-weight subnet in the middle (must simply never be required)
		}
		ents = append(ents, fmt.Sprintf("[[override_subnet]]\ncidr = %q\nweight = %v\nport = %d\ntransport = \"Min_Transport\"\n", ovNet(), w, []int{443, 80, 8080}[r.Intn(3)]))
	}
	for i := 0; i < nPre; i++ {
		w := c12Weight(r)
		if nPre >= 3 && i == 1 && r.Intn(6) == 0 {
			w = 0
		}
		ents = append(ents, fmt.Sprintf("[[override_subnet]]\ncidr = %q\nweight = %v\nport = %d\ntransport = \"Prefix_Transport\"\nprefix_id = %d\n", ovNet(), w, []int{443, 80, 53, 22, 8080, 1}[r.Intn(6)], c12PrefixID(r)))
	}
	if r.Intn(8) == 0 {
		ents = append(ents, fmt.Sprintf("[[override_subnet]]\ncidr = %q\nweight = 5\nport = 443\ntransport = \"Obfs4_Transport\"\n", ovNet()))
	}
	if r.Intn(8) == 0 {
		// an override subnet the v4-only substitution cannot draw from: the override step fails midway and must leave everything as it was
		tr := []string{"Min_Transport", "Prefix_Transport"}[r.Intn(2)]
		ents = append(ents, fmt.Sprintf("[[override_subnet]]\ncidr = \"fd00:10:%x::/64\"\nweight = 1.5\nport = 443\ntransport = %q\nprefix_id = 1\n", r.Intn(0xffff), tr))
	}
	// interleave the transports the way an operator's file might
	r.Shuffle(len(ents), func(i, j int) { ents[i], ents[j] = ents[j], ents[i] })
	for _, e := range ents {
		b.WriteString(e)
	}
	structured := c12StructuredExclusions(r, sc)
	rc.ExclMode = "legacy"
	if structured != nil {
		rc.ExclMode = "structured"
	}
	for _, cidr := range structured {
		fmt.Fprintf(&b, "[[excluded_subnet_from_overrides]]\ncidr = %q\nweight = 28.7\nport = 80\ntransport = %q\n", cidr, []string{"Min_Transport", "Prefix_Transport"}[r.Intn(2)])
	}
	for i, n := 0, r.Intn(3); structured == nil && i < n; i++ {
		var cidr string
		switch {
		case len(sc.V4) > 0 && r.Intn(4) != 0:
			base := sc.V4[r.Intn(len(sc.V4))]
			ones, _ := base.Mask.Size()
			if ones < 32 && r.Intn(3) != 0 {
				ones++ // one half of a phantom subnet
			}
			ip := append(net.IP(nil), base.IP.To4()...)
			if r.Intn(2) == 0 && ones > 0 {
				ip[(ones-1)/8] |= 1 << (7 - uint((ones-1)%8)) // the upper half
			}
			cidr = (&net.IPNet{IP: ip.Mask(net.CIDRMask(ones, 32)), Mask: net.CIDRMask(ones, 32)}).String()
		case r.Intn(2) == 0:
			cidr = "2001:48a8:687f:1::/64"
		default:
			cidr = c12RandV4Net(r)
		}
		fmt.Fprintf(&b, "[[excluded_subnet_from_overrides]]\ncidr = %q\nweight = 28.7\nport = 80\ntransport = %q\n", cidr, []string{"Min_Transport", "Prefix_Transport"}[r.Intn(2)])
	}
	rc.Toml = b.String()
	return rc
}

// c12Sub returns the idx-th sub-block of base that is extra bits longer (v4 or v6).
func c12Sub(base *net.IPNet, extra int, idx uint) *net.IPNet {
	ones, bits := base.Mask.Size()
	ip := append(net.IP(nil), base.IP...)
	if bits == 32 {
		ip = append(net.IP(nil), base.IP.To4()...)
	}
	for k := 0; k < extra; k++ {
		bit := ones + k
		if idx>>(uint(extra-1-k))&1 == 1 {
			ip[bit/8] |= 1 << (7 - uint(bit%8))
		}
	}
	return &net.IPNet{IP: ip, Mask: net.CIDRMask(ones+extra, bits)}
}

// c12Super returns the enclosing block that is less bits shorter.
func c12Super(base *net.IPNet, less int) *net.IPNet {
	ones, bits := base.Mask.Size()
	if less > ones-1 {
		less = ones - 1
	}
	m := net.CIDRMask(ones-less, bits)
	ip := base.IP
	if bits == 32 {
		ip = base.IP.To4()
	}
	return &net.IPNet{IP: ip.Mask(m), Mask: m}
}

// c12Cluster builds a group of exclusions around one phantom subnet so that the phantoms drawn from it
// fall below / inside / above the inner ranges: nested (2-3 levels, inner starting later or at the same
// address), adjacent siblings, several disjoint inner blocks, a wide block whose narrow companion lies
// entirely below the phantom subnet.
func c12Cluster(r *rand.Rand, base *net.IPNet) []*net.IPNet {
	ones, bits := base.Mask.Size()
	room := bits - ones
	if room > 6 {
		room = 6
	}
	mid := func(extra int) uint { // an index with room on both sides when there is any
		n := uint(1) << uint(extra)
		if n <= 2 {
			return uint(r.Intn(int(n)))
		}
		return 1 + uint(r.Intn(int(n)-2))
	}
	var out []*net.IPNet
	outer := base
	if r.Intn(3) == 0 {
		outer = c12Super(base, 1+r.Intn(4))
	}
	shape := r.Intn(7)
	if room < 2 && shape != 5 {
		shape = 6
	}
	switch shape {
	case 0: // outer + one inner starting later
		k := 2 + r.Intn(room-1)
		out = append(out, outer, c12Sub(base, k, mid(k)))
	case 1: // three levels, each inner one starting later than its parent
		k := 2 + r.Intn(room-1)
		in := c12Sub(base, k, mid(k))
		out = append(out, outer, in)
		if o2, _ := in.Mask.Size(); bits-o2 >= 1 {
			k2 := 1 + r.Intn(minInt(3, bits-o2))
			out = append(out, c12Sub(in, k2, uint(r.Intn(1<<uint(k2)))))
		}
	case 2: // same start address (inner = first sub-block), optionally a third one later
		k := 1 + r.Intn(room)
		out = append(out, outer, c12Sub(base, k, 0))
		if r.Intn(2) == 0 && room >= 2 {
			out = append(out, c12Sub(base, 2, 2))
		}
	case 3: // adjacent siblings, with or without an enclosing block
		k := 2 + r.Intn(room-1)
		i := mid(k)
		if i+1 >= 1<<uint(k) {
			i--
		}
		out = append(out, c12Sub(base, k, i), c12Sub(base, k, i+1))
		if r.Intn(2) == 0 {
			out = append(out, outer)
		}
	case 4: // several disjoint inner blocks inside the outer one: phantoms between them
		k := 2 + r.Intn(room-1)
		n := uint(1) << uint(k)
		out = append(out, outer, c12Sub(base, k, 0+uint(r.Intn(2))), c12Sub(base, k, n-1-uint(r.Intn(2))))
		if k >= 3 {
			out = append(out, c12Sub(base, k, n/2))
		}
	case 5: // wide block + a narrow block of it that ends before the phantom subnet begins
		less := 2 + r.Intn(7)
		wide := c12Super(base, less)
		wo, _ := wide.Mask.Size()
		d := ones - wo
		if d > 16 {
			d = 16
		}
		// index of base inside wide at granularity d bits
		narrow := c12Sub(wide, d, 0)
		if d >= 1 {
			// pick any sub-block of wide; the ones below base are the interesting ones, the others are harmless
			narrow = c12Sub(wide, d, uint(r.Intn(1<<uint(d))))
		}
		out = append(out, wide, narrow)
		if r.Intn(2) == 0 {
			out = append(out, c12Sub(wide, d, 0))
		}
	default: // a single exclusion (half or whole)
		if room >= 1 && r.Intn(2) == 0 {
			out = append(out, c12Sub(base, 1, uint(r.Intn(2))))
		} else {
			out = append(out, outer)
		}
	}
	return out
}

func minInt(a, b int) int {
	if a < b {
		return a
	}
	return b
}

// c12StructuredExclusions returns nil when the legacy generator should be used.
func c12StructuredExclusions(r *rand.Rand, sc *c12SubCfg) []string {
	if len(sc.V4) == 0 || r.Intn(10) < 3 {
		return nil
	}
	var nets []*net.IPNet
	for i, n := 0, 1+r.Intn(3); i < n; i++ {
		nets = append(nets, c12Cluster(r, sc.V4[r.Intn(len(sc.V4))])...)
	}
	if len(sc.V6) > 0 && r.Intn(3) == 0 {
		nets = append(nets, c12Cluster(r, sc.V6[r.Intn(len(sc.V6))])...)
	}
	if r.Intn(6) == 0 && len(nets) > 0 {
		nets = append(nets, nets[r.Intn(len(nets))]) // the same subnet twice
	}
	r.Shuffle(len(nets), func(i, j int) { nets[i], nets[j] = nets[j], nets[i] }) // every order
	var out []string
	for _, n := range nets {
		s := n.String()
		if r.Intn(8) == 0 {
			// non-canonical spelling (host bits set): ParseCIDR masks it
			ones, bits := n.Mask.Size()
			if bits-ones >= 1 {
				ip := append(net.IP(nil), n.IP...)
				ip[len(ip)-1] |= 1
				s = fmt.Sprintf("%s/%d", ip.String(), ones)
			}
		}
		out = append(out, s)
	}
	return out
}

// c12ExclPos classifies where an excluded phantom sits relative to the OTHER exclusions nested in the ones containing it.
func c12ExclPos(ip net.IP, excl []Subnet) string {
	var in, notIn []*net.IPNet
	for _, s := range excl {
		if s.CIDR.IPNet == nil {
			continue
		}
		if s.CIDR.IPNet.Contains(ip) {
			in = append(in, s.CIDR.IPNet)
		} else {
			notIn = append(notIn, s.CIDR.IPNet)
		}
	}
	if len(in) == 0 {
		return "not-excluded"
	}
	pos := fmt.Sprintf("depth%d", len(in))
	above, below := false, false
	for _, n := range notIn {
		for _, o := range in {
			if o.Contains(n.IP) { // n nested in a containing exclusion
				if bytes.Compare(n.IP.To16(), ip.To16()) < 0 {
					above = true
				} else {
					below = true
				}
			}
		}
	}
	if above {
		pos += "+above-inner"
	}
	if below {
		pos += "+below-inner"
	}
	return pos
}

// build constructs the RegProcessor through the repository's constructors and swaps the socket.
func (rc *c12RegCfg) build(t *testing.T, r *rand.Rand, m *metrics.Metrics) (*RegProcessor, *c12Sender) {
	if _, err := toml.Decode(rc.Toml, &rc.conf); err != nil {
		t.Fatalf("registrar config %d does not decode: %v\n%s", rc.Idx, err, rc.Toml)
	}
	var rp *RegProcessor
	var err error
	c := rc.conf
	if rc.Auth {
		seed := make([]byte, ed25519.SeedSize)
		r.Read(seed)
		rc.priv = ed25519.NewKeyFromSeed(seed)
		rc.pub = rc.priv.Public().(ed25519.PublicKey)
		rp, err = NewRegProcessor("127.0.0.1", 0, rc.priv, false, nil, m, c.EnforceSubnetOverrides, c.OverrideSubnets, c.ExclusionsFromOverride, c.PrcntMinRegsToOverride, c.PrcntPrefixRegsToOverride)
	} else {
		rp, err = NewRegProcessorNoAuth("127.0.0.1", 0, m, c.EnforceSubnetOverrides, c.OverrideSubnets, c.ExclusionsFromOverride, c.PrcntMinRegsToOverride, c.PrcntPrefixRegsToOverride)
	}
	if err != nil {
		t.Fatalf("cannot build the registrar (infrastructure): %v", err)
	}
	_ = rp.sock.Close()
	snd := &c12Sender{}
	rp.sock = snd
	switch {
	case rc.Override == "none":
		rp.regOverrides = nil
	case rc.Override == "rand":
		rp.regOverrides = interfaces.Overrides([]interfaces.RegOverride{overrides.NewRandPrefixOverride()})
	case strings.HasPrefix(rc.Override, "fixed:"):
		var id int
		fmt.Sscanf(rc.Override, "fixed:%d", &id)
		p, err := prefix.TryFromID(prefix.PrefixID(id))
		if err != nil || p == nil {
			t.Fatalf("no prefix %d", id)
		}
		rp.regOverrides = interfaces.Overrides([]interfaces.RegOverride{overrides.NewFixedPrefixOverride(p)})
	case rc.Override == "file":
		po, err := overrides.ParsePrefixes(strings.NewReader(rc.OvrFile))
		if err != nil {
			t.Fatalf("prefix override file: %v", err)
		}
		rp.regOverrides = interfaces.Overrides([]interfaces.RegOverride{po})
	}
	for tt, tr := range map[pb.TransportType]lib.Transport{
		pb.TransportType_Min:    min.Transport{},
		pb.TransportType_Obfs4:  obfs4.Transport{},
		pb.TransportType_Prefix: prefix.DefaultSet(),
	} {
		if err := rp.AddTransport(tt, tr); err != nil {
			t.Fatal(err)
		}
	}
	// the monitor's own view of the configuration (from the decoded file, not from rp's fields)
	rc.minNets, rc.prefixNets = nil, nil
	for _, s := range c.OverrideSubnets {
		switch s.Transport {
		case "Min_Transport":
			rc.minNets = append(rc.minNets, s)
		case "Prefix_Transport":
			rc.prefixNets = append(rc.prefixNets, s)
		}
	}
	return rp, snd
}

func (rc *c12RegCfg) release(rp *RegProcessor) {
	if rc.Auth {
		zmq.AuthStop()
	}
}

// ---- requests -----------------------------------------------------------------------------------

type c12Req struct {
	W      *pb.C2SWrapper // pristine copy (the registrar mutates the one it is given)
	Method pb.RegistrationSource
	Addr   []byte
	Uni    bool
	Kind   string // general | focus-min | focus-prefix
	PKind  string // description of the transport parameters
	Forged string // which forged fields are present: r=response b=bytes s=signature
	Fault  c12Plan
}

var c12TypeURL = map[string]string{
	"generic": "type.googleapis.com/proto.GenericTransportParams",
	"prefix":  "type.googleapis.com/proto.PrefixTransportParams",
}

func c12Any(r *rand.Rand, kind string, m proto.Message) *anypb.Any {
	v, _ := proto.Marshal(m)
	url := c12TypeURL[kind]
	switch r.Intn(6) {
	case 0:
		url = "" // accepted by the repository's UnmarshalAnypbTo
	case 1:
		url = strings.Replace(url, "proto.", "tapdance.", 1) // legacy clients
	}
	return &anypb.Any{TypeUrl: url, Value: v}
}

func c12GenericParams(r *rand.Rand) (*anypb.Any, string) {
	switch r.Intn(4) {
	case 0:
		return c12Any(r, "generic", &pb.GenericTransportParams{RandomizeDstPort: proto.Bool(true)}), "generic:rand"
	case 1:
		return c12Any(r, "generic", &pb.GenericTransportParams{RandomizeDstPort: proto.Bool(false)}), "generic:fixed"
	case 2:
		return c12Any(r, "generic", &pb.GenericTransportParams{}), "generic:unset"
	}
	return nil, "nil"
}

func c12PrefixParams(r *rand.Rand, id int32) (*anypb.Any, string) {
	p := &pb.PrefixTransportParams{PrefixId: proto.Int32(id)}
	k := "prefix"
	switch r.Intn(3) {
	case 0:
		p.RandomizeDstPort = proto.Bool(true)
		k += ":rand"
	case 1:
		p.RandomizeDstPort = proto.Bool(false)
		k += ":fixed"
	default:
		k += ":unset"
	}
	if r.Intn(4) == 0 {
		p.Prefix = []byte("client-chosen")
		p.CustomFlushPolicy = proto.Int32(int32(r.Intn(3)))
		k += "+bytes"
	}
	return c12Any(r, "prefix", p), k
}

func c12RandAddr(r *rand.Rand) []byte {
	switch x := r.Intn(10); {
	case x < 6:
		return net.IPv4(byte(1+r.Intn(222)), byte(r.Intn(256)), byte(r.Intn(256)), byte(1+r.Intn(254))) // 16-byte form
	case x < 7:
		return net.IPv4(byte(1+r.Intn(222)), byte(r.Intn(256)), byte(r.Intn(256)), byte(1+r.Intn(254))).To4()
	case x < 9:
		ip := make(net.IP, 16)
		r.Read(ip)
		ip[0] = 0x20
		ip[1] = 0x01
		return ip
	}
	return nil
}

func c12ForgedResp(r *rand.Rand) *pb.RegistrationResponse {
	f := &pb.RegistrationResponse{}
	if r.Intn(4) != 0 {
		f.Ipv4Addr = proto.Uint32(0x0b000000 + uint32(r.Intn(0x50000000)))
	}
	if r.Intn(3) != 0 {
		ip := make([]byte, 16)
		r.Read(ip)
		ip[0] = 0xfd
		f.Ipv6Addr = ip
	}
	if r.Intn(4) != 0 {
		f.DstPort = proto.Uint32(uint32(1 + r.Intn(65535)))
	}
	if r.Intn(2) == 0 {
		a, _ := anypb.New(&pb.PrefixTransportParams{PrefixId: proto.Int32(int32(r.Intn(10))), Prefix: []byte("forged"), CustomFlushPolicy: proto.Int32(1)})
		f.TransportParams = a
	}
	if r.Intn(8) == 0 {
		f.Error = proto.String("forged")
	}
	return f
}

var c12AttackerKey = ed25519.NewKeyFromSeed(bytes.Repeat([]byte{0x42}, ed25519.SeedSize))

// c12Forge attaches forged registrar-only fields to the wrapper.
func c12Forge(r *rand.Rand, w *pb.C2SWrapper) string {
	k := ""
	var fr *pb.RegistrationResponse
	if r.Intn(2) == 0 {
		fr = c12ForgedResp(r)
		w.RegistrationResponse = fr
		k += "r"
	}
	if r.Intn(2) == 0 {
		if fr == nil || r.Intn(3) == 0 {
			fr = c12ForgedResp(r)
		}
		if r.Intn(5) == 0 {
			w.RegRespBytes = make([]byte, 1+r.Intn(40))
			r.Read(w.RegRespBytes)
		} else {
			w.RegRespBytes, _ = proto.Marshal(fr)
			if len(w.RegRespBytes) == 0 {
				w.RegRespBytes = []byte{0x18, 0x50} // dst_port = 80
			}
		}
		k += "b"
	}
	if r.Intn(2) == 0 {
		if len(w.RegRespBytes) > 0 && r.Intn(2) == 0 {
			w.RegRespSignature = ed25519.Sign(c12AttackerKey, w.RegRespBytes) // valid, but under the wrong key
		} else {
			w.RegRespSignature = make([]byte, ed25519.SignatureSize)
			r.Read(w.RegRespSignature)
		}
		k += "s"
	}
	if k == "" {
		k = "-"
	}
	return k
}

func c12GenReq(r *rand.Rand, sc *c12SubCfg, kind string) *c12Req {
	q := &c12Req{Kind: kind}
	c2s := &pb.ClientToStation{}
	w := &pb.C2SWrapper{RegistrationPayload: c2s}

	// transport, library version, parameters
	var tt pb.TransportType
	lv := uint32(4)
	switch kind {
	case "focus-min":
		tt = pb.TransportType_Min
		c2s.TransportParams, q.PKind = c12GenericParams(r)
		c2s.V4Support = proto.Bool(true)
		c2s.V6Support = proto.Bool(r.Intn(2) == 0)
	case "focus-prefix":
		tt = pb.TransportType_Prefix
		lv = uint32(3 + r.Intn(2))
		c2s.TransportParams, q.PKind = c12PrefixParams(r, int32(r.Intn(10)))
		c2s.V4Support = proto.Bool(true)
		c2s.V6Support = proto.Bool(r.Intn(2) == 0)
		if r.Intn(2) == 0 {
			c2s.DisableRegistrarOverrides = proto.Bool(false)
		}
	default:
		switch x := r.Intn(20); {
		case x < 6:
			tt = pb.TransportType_Min
		case x < 10:
			tt = pb.TransportType_Obfs4
		case x < 18:
			tt = pb.TransportType_Prefix
		case x < 19:
			tt = pb.TransportType_DTLS // not enabled on this registrar: refused
		default:
			tt = pb.TransportType_Null
		}
		switch x := r.Intn(20); {
		case x < 11:
			lv = 4
		case x < 15:
			lv = 3
		case x < 19:
			lv = uint32(r.Intn(3)) // legacy selection algorithms
		default:
			lv = uint32(5 + r.Intn(100))
		}
		if tt == pb.TransportType_Prefix {
			switch x := r.Intn(20); {
			case x < 15:
				c2s.TransportParams, q.PKind = c12PrefixParams(r, int32(r.Intn(10)))
			case x < 16:
				c2s.TransportParams, q.PKind = c12PrefixParams(r, int32([]int{-1, 10, 11, 99, -7}[r.Intn(5)]))
				q.PKind += ":unknown-id"
			case x < 18:
				q.PKind = "nil"
			case x < 19:
				c2s.TransportParams, q.PKind = c12GenericParams(r)
				q.PKind = "wrong-type:" + q.PKind
			default:
				g := make([]byte, 1+r.Intn(12))
				r.Read(g)
				c2s.TransportParams, q.PKind = &anypb.Any{Value: g}, "garbage"
			}
		} else {
			switch x := r.Intn(20); {
			case x < 17:
				c2s.TransportParams, q.PKind = c12GenericParams(r)
			case x < 19:
				c2s.TransportParams, q.PKind = c12PrefixParams(r, int32(r.Intn(10)))
				q.PKind = "wrong-type:" + q.PKind
			default:
				g := make([]byte, 1+r.Intn(12))
				r.Read(g)
				c2s.TransportParams, q.PKind = &anypb.Any{Value: g}, "garbage"
			}
		}
		switch r.Intn(8) {
		case 0:
			c2s.V4Support = proto.Bool(true)
		case 1:
			c2s.V6Support = proto.Bool(true)
		case 2: // neither
		case 3:
			c2s.V4Support, c2s.V6Support = proto.Bool(false), proto.Bool(true)
		default:
			c2s.V4Support, c2s.V6Support = proto.Bool(true), proto.Bool(r.Intn(3) != 0)
		}
		switch r.Intn(5) {
		case 0, 1:
			c2s.DisableRegistrarOverrides = proto.Bool(true)
		case 2:
			c2s.DisableRegistrarOverrides = proto.Bool(false)
		}
	}
	c2s.Transport = &tt
	c2s.ClientLibVersion = proto.Uint32(lv)
	gen := uint32(sc.Gens[r.Intn(len(sc.Gens))].ID)
	if kind == "general" && r.Intn(25) == 0 {
		gen = 4000 + uint32(r.Intn(10)) // unknown generation: refused
	}
	c2s.DecoyListGeneration = proto.Uint32(gen)
	c2s.CovertAddress = proto.String(fmt.Sprintf("192.0.2.%d:%d", 1+r.Intn(250), 1+r.Intn(65000)))
	if r.Intn(2) == 0 {
		c2s.Flags = &pb.RegistrationFlags{ProxyHeader: proto.Bool(r.Intn(2) == 0), Use_TIL: proto.Bool(true), UploadOnly: proto.Bool(false), Prescanned: proto.Bool(r.Intn(4) == 0)}
	}
	if r.Intn(4) == 0 {
		c2s.MaskedDecoyServerName = proto.String("mask.example.com")
	}

	// wrapper
	n := 32
	if kind == "general" {
		switch x := r.Intn(100); {
		case x < 3:
			n = 16
		case x < 4:
			n = 4 // refused (too short)
		case x < 5:
			n = 0
		case x < 7:
			n = 48
		}
	}
	if n > 0 {
		w.SharedSecret = make([]byte, n)
		r.Read(w.SharedSecret)
	}
	srcs := []pb.RegistrationSource{pb.RegistrationSource_Unspecified, pb.RegistrationSource_API, pb.RegistrationSource_BidirectionalAPI,
		pb.RegistrationSource_DNS, pb.RegistrationSource_BidirectionalDNS, pb.RegistrationSource_Detector, pb.RegistrationSource_DetectorPrescan}
	if r.Intn(2) == 0 {
		s := srcs[r.Intn(len(srcs))]
		w.RegistrationSource = &s
	}
	if r.Intn(10) < 3 {
		w.RegistrationAddress = c12RandAddr(r)
	}
	if r.Intn(6) == 0 {
		w.DecoyAddress = c12RandAddr(r)
	}
	q.Forged = c12Forge(r, w)
	q.Method = srcs[1+r.Intn(4)]
	q.Addr = c12RandAddr(r)
	if kind != "general" && r.Intn(4) != 0 {
		// make most distribution trials come from a v4 client so that the station builds the v4 registration
		q.Addr = net.IPv4(byte(1+r.Intn(222)), byte(r.Intn(256)), byte(r.Intn(256)), byte(1+r.Intn(254)))
	}
	q.Uni = kind == "general" && r.Intn(12) == 0
	if kind == "general" && r.Intn(6) == 0 {
		q.Fault = c12RandPlan(r)
	}
	q.W = w
	return q
}

// c12Desc is the (lazily rendered) witness of a case.
type c12Desc struct {
	sc *c12SubCfg
	rc *c12RegCfg
	q  *c12Req
}

func (d *c12Desc) MarshalJSON() ([]byte, error) {
	wb, _ := proto.Marshal(d.q.W)
	c2s := d.q.W.GetRegistrationPayload()
	m := map[string]interface{}{
		"subnet_config":    d.sc.Idx,
		"registrar_config": d.rc.Idx,
		"authenticated":    d.rc.Auth,
		"param_override":   d.rc.Override,
		"registrar_toml":   d.rc.Toml,
		"phantom_toml":     d.sc.Toml,
		"request_kind":     d.q.Kind,
		"unidirectional":   d.q.Uni,
		"reg_method":       d.q.Method.String(),
		"client_addr":      net.IP(d.q.Addr).String(),
		"wrapper_hex":      hex.EncodeToString(wb),
		"transport":        c2s.GetTransport().String(),
		"lib_version":      c2s.GetClientLibVersion(),
		"generation":       c2s.GetDecoyListGeneration(),
		"v4":               c2s.GetV4Support(),
		"v6":               c2s.GetV6Support(),
		"disable_overrides": func() string {
			if c2s.DisableRegistrarOverrides == nil {
				return "unset"
			}
			return fmt.Sprint(c2s.GetDisableRegistrarOverrides())
		}(),
		"params":     d.q.PKind,
		"forged":     d.q.Forged,
		"send_fault": d.q.Fault.String(),
	}
	if d.rc.OvrFile != "" {
		m["prefix_override_file"] = d.rc.OvrFile
	}
	return json.Marshal(m)
}

// ---- helpers for the oracles --------------------------------------------------------------------

func c12V4(u uint32) net.IP {
	b := make(net.IP, 4)
	binary.BigEndian.PutUint32(b, u)
	return b
}

func c12InAny(ip net.IP, nets []Subnet) int {
	for i, s := range nets {
		if s.CIDR.IPNet != nil && s.CIDR.IPNet.Contains(ip) {
			return i
		}
	}
	return -1
}

// c12RespDiff names the first of the four fields of the property in which two responses differ.
func c12RespDiff(a, b *pb.RegistrationResponse) string {
	switch {
	case a.GetIpv4Addr() != b.GetIpv4Addr():
		return "ipv4"
	case !bytes.Equal(a.GetIpv6Addr(), b.GetIpv6Addr()):
		return "ipv6"
	case (a.GetDstPort() != b.GetDstPort()) || ((a != nil && a.DstPort != nil) != (b != nil && b.DstPort != nil)):
		return "dst_port"
	case !proto.Equal(a.GetTransportParams(), b.GetTransportParams()):
		return "transport_params"
	}
	return ""
}

func c12RespStr(a *pb.RegistrationResponse) string {
	if a == nil {
		return "<nil>"
	}
	s := ""
	if a.Ipv4Addr != nil {
		s += "v4=" + c12V4(a.GetIpv4Addr()).String() + " "
	}
	if a.Ipv6Addr != nil {
		s += "v6=" + net.IP(a.GetIpv6Addr()).String() + " "
	}
	if a.DstPort != nil {
		s += fmt.Sprintf("port=%d ", a.GetDstPort())
	}
	if a.TransportParams != nil {
		s += fmt.Sprintf("params=%s:%s", a.TransportParams.TypeUrl, hex.EncodeToString(a.TransportParams.Value))
	}
	return strings.TrimSpace(s)
}

func c12StationErrClass(err error) string {
	s := err.Error()
	for _, k := range []string{"failed phantom select", "error handling transport params", "error selecting phantom dst port",
		"error determining phantom connection proto", "IPv6 client chose IPv4 phantom", "failed to generate keys", "geoip", "unknown transport"} {
		if strings.Contains(s, k) {
			return strings.ReplaceAll(k, " ", "-")
		}
	}
	return "other"
}

func c12Short(s string) string {
	if i := strings.Index(s, ": "); i > 0 && i < 60 {
		// keep the class of the error, not its operands
		if j := strings.Index(s[i+2:], ": "); j > 0 {
			s = s[:i+2+j]
		}
	}
	if len(s) > 80 {
		s = s[:80]
	}
	return s
}

func c12ParamsEqual(a, b any) bool {
	am, aok := a.(proto.Message)
	bm, bok := b.(proto.Message)
	if !aok || !bok {
		// nil interface or typed nil on both sides counts as "no parameters"
		return (a == nil || (aok && !am.ProtoReflect().IsValid())) && (b == nil || (bok && !bm.ProtoReflect().IsValid()))
	}
	return proto.Equal(am, bm)
}

func c12ParamsStr(a any) string {
	if m, ok := a.(proto.Message); ok && m.ProtoReflect().IsValid() {
		b, _ := proto.Marshal(m)
		return fmt.Sprintf("%T:%s", a, hex.EncodeToString(b))
	}
	return fmt.Sprintf("%v", a)
}

// tally of the weighted choice for one transport of one registrar configuration
type c12Tally struct {
	subst int
	used  []int
}

// ---- the monitor --------------------------------------------------------------------------------

type c12Mon struct {
	t   *testing.T
	rec *kit.Rec
	sc  *c12SubCfg
	rc  *c12RegCfg
	rp  *RegProcessor
	snd *c12Sender
	trs map[pb.TransportType]lib.Transport
	tal map[pb.TransportType]*c12Tally
}

// run sends one request through the registrar and evaluates every oracle.  It reports whether the
// request was accepted and whether the v4 phantom was substituted.
func (m *c12Mon) run(q *c12Req) (accepted, substituted bool) {
	rec := m.rec
	desc := &c12Desc{m.sc, m.rc, q}
	rec.CaseCheap(desc)
	rec.Count("requests", 1)
	defer func() {
		if p := recover(); p != nil {
			rec.Case(desc) // leave the witness on disk, then let the process die (the orchestrator reports the crash)
			panic(p)
		}
	}()

	orig := q.W
	c2s := orig.GetRegistrationPayload()
	in := proto.Clone(orig).(*pb.C2SWrapper)
	m.snd.reset(q.Fault)
	faulted := q.Fault.Pattern != ""
	entry := "bidirectional"
	if q.Uni {
		entry = "unidirectional"
	}
	// "told the client => told the stations": a call that reports success while the socket accepted no message
	toldButNothingAccepted := func(told string) {
		sig := "accepted-but-nothing-forwarded:" + entry
		if faulted {
			class := "final-error"
			if q.Fault.Errno == "EAGAIN" || q.Fault.Errno == "EINTR" {
				class = "transient-error"
			}
			sig = fmt.Sprintf("told-client-but-no-message-accepted:%s:%s", entry, class)
		}
		rec.Violation(sig, "the registrar reported success to its caller although the socket accepted no message for the stations",
			map[string]interface{}{"told": told, "send_attempts": m.snd.attempts, "failed_attempts": m.snd.failed, "fault": q.Fault.String()})
	}
	afterFault := func(err error) {
		if !faulted {
			return
		}
		rec.Count("evaluations", 1)
		rec.Count("send_fault_cases", 1)
		rec.Distinct("nontrivial", "send-fault", entry, q.Fault.Errno, q.Fault.Pattern, err == nil, len(m.snd.msgs))
		rec.Distinct("send_fault_plans", entry, q.Fault.Errno, q.Fault.Pattern)
		if err != nil && len(m.snd.msgs) > 0 {
			rec.Count("error_returned_although_a_message_was_accepted", 1) // stations know more than the client: not this property
		}
	}

	if q.Uni {
		err := m.rp.RegisterUnidirectional(in, q.Method, q.Addr)
		if m.snd.attempts > 0 {
			afterFault(err)
		}
		if err != nil {
			rec.Count("refused", 1)
			return false, false
		}
		if !faulted {
			rec.Count("evaluations", 1)
		}
		rec.Count("unidirectional", 1)
		if len(m.snd.msgs) == 0 {
			toldButNothingAccepted("success (nil error)")
		}
		for _, b := range m.snd.msgs {
			fw := &pb.C2SWrapper{}
			if err := proto.Unmarshal(b, fw); err != nil {
				rec.Violation("forwarded-bytes-unparsable", "the bytes handed to the ZMQ sender are not a C2SWrapper", err.Error())
				continue
			}
			if fw.RegistrationResponse != nil {
				sig := "uni:response-forwarded"
				if orig.RegistrationResponse != nil && proto.Equal(fw.RegistrationResponse, orig.RegistrationResponse) {
					sig = "forged-response-survives:unidirectional"
				}
				rec.Violation(sig, "a unidirectional registration was forwarded with a registration_response", c12RespStr(fw.RegistrationResponse))
			}
			if len(fw.RegRespBytes) > 0 {
				rec.Violation("forged-regrespbytes-survives:unidirectional", "RegRespBytes present in a forwarded unidirectional registration", hex.EncodeToString(fw.RegRespBytes))
			}
			if len(fw.RegRespSignature) > 0 {
				rec.Violation("forged-signature-survives:unidirectional", "RegRespSignature present in a forwarded unidirectional registration", hex.EncodeToString(fw.RegRespSignature))
			}
		}
		rec.Distinct("nontrivial", "uni", c2s.GetTransport(), q.Forged, m.rc.Auth)
		return true, false
	}

	resp, err := m.rp.RegisterBidirectional(in, q.Method, q.Addr)
	if m.snd.attempts > 0 {
		afterFault(err) // the request reached the socket: the send-fault oracle decides either way
	}
	if err != nil || resp == nil {
		rec.Count("refused", 1)
		if faulted && m.snd.attempts > 0 {
			rec.Count("refused after send fault ["+q.Fault.Pattern+"]", 1)
		} else {
			rec.Count("refused["+q.Kind+"]: "+c12Short(fmt.Sprint(err)), 1)
		}
		return false, false
	}
	if !faulted || m.snd.attempts == 0 {
		rec.Count("evaluations", 1)
	}
	tt := c2s.GetTransport()
	lv := uint(c2s.GetClientLibVersion())
	disabled := c2s.GetDisableRegistrarOverrides()

	if len(m.snd.msgs) == 0 {
		toldButNothingAccepted(c12RespStr(resp))
		return true, false
	}
	if faulted {
		rec.Count("told_after_send_fault["+q.Fault.Pattern+"]", 1)
	}
	if len(m.snd.msgs) > 1 {
		rec.Count("multiple_forwards", 1)
	}

	// what the configured selector derives for this client (reference for "substituted")
	var origV4, origV6 net.IP
	keys, kerr := core.GenSharedKeys(lv, orig.GetSharedSecret(), tt)
	if kerr == nil {
		if c2s.GetV4Support() {
			if p, err := m.sc.refer.Select(keys.ConjureSeed, uint(c2s.GetDecoyListGeneration()), lv, false); err == nil && p != nil && p.IP() != nil {
				origV4 = p.IP().To4()
			}
		}
		if c2s.GetV6Support() {
			if p, err := m.sc.refer.Select(keys.ConjureSeed, uint(c2s.GetDecoyListGeneration()), lv, true); err == nil && p != nil && p.IP() != nil {
				origV6 = *p.IP()
			}
		}
	}

	var stationRegs = -1
	for _, fwBytes := range m.snd.msgs {
		fw := &pb.C2SWrapper{}
		if err := proto.Unmarshal(fwBytes, fw); err != nil {
			rec.Violation("forwarded-bytes-unparsable", "the bytes handed to the ZMQ sender are not a C2SWrapper", err.Error())
			continue
		}

		// (1) returned == forwarded, and (3) the forged response did not survive
		fr := fw.GetRegistrationResponse()
		if fr == nil {
			rec.Violation("returned-vs-forwarded:response-missing", "the forwarded message carries no registration_response although one was returned to the client", c12RespStr(resp))
		} else if d := c12RespDiff(resp, fr); d != "" {
			sig := "returned-vs-forwarded:" + d
			if orig.RegistrationResponse != nil && c12RespDiff(fr, orig.RegistrationResponse) == "" {
				sig = "forged-response-survives"
			}
			rec.Violation(sig, "the response returned to the client differs from the one forwarded to the stations in "+d,
				map[string]string{"returned": c12RespStr(resp), "forwarded": c12RespStr(fr), "client_supplied": c12RespStr(orig.RegistrationResponse)})
		}

		// (3) RegRespBytes / RegRespSignature
		forgedB, forgedS := orig.GetRegRespBytes(), orig.GetRegRespSignature()
		decodesToTrue := func(b []byte) bool {
			x := &pb.RegistrationResponse{}
			return proto.Unmarshal(b, x) == nil && c12RespDiff(resp, x) == ""
		}
		if m.rc.Auth {
			switch {
			case len(fw.RegRespBytes) == 0 || len(fw.RegRespSignature) == 0:
				rec.Violation("auth:signed-response-missing", "authenticated registrar forwarded a response without RegRespBytes / RegRespSignature", nil)
			case !ed25519.Verify(m.rc.pub, fw.RegRespBytes, fw.RegRespSignature):
				sig := "auth:signature-invalid"
				if len(forgedS) > 0 && bytes.Equal(forgedS, fw.RegRespSignature) {
					sig = "forged-signature-survives"
				}
				rec.Violation(sig, "RegRespSignature does not verify over RegRespBytes under the registrar key", map[string]string{"bytes": hex.EncodeToString(fw.RegRespBytes), "sig": hex.EncodeToString(fw.RegRespSignature)})
			case !decodesToTrue(fw.RegRespBytes):
				sig := "auth:signed-bytes-differ-from-response"
				if len(forgedB) > 0 && bytes.Equal(forgedB, fw.RegRespBytes) {
					sig = "forged-regrespbytes-survives"
				}
				rec.Violation(sig, "the signed RegRespBytes do not decode to the response returned to the client", map[string]string{"bytes": hex.EncodeToString(fw.RegRespBytes), "returned": c12RespStr(resp)})
			}
		} else {
			if len(fw.RegRespBytes) > 0 && !decodesToTrue(fw.RegRespBytes) {
				sig := "unauth:regrespbytes-not-the-response"
				if len(forgedB) > 0 && bytes.Equal(forgedB, fw.RegRespBytes) {
					sig = "forged-regrespbytes-survives"
				}
				rec.Violation(sig, "RegRespBytes forwarded by an unauthenticated registrar are not its own response", hex.EncodeToString(fw.RegRespBytes))
			}
			if len(fw.RegRespSignature) > 0 {
				sig := "unauth:signature-present"
				if len(forgedS) > 0 && bytes.Equal(forgedS, fw.RegRespSignature) {
					sig = "forged-signature-survives"
				}
				rec.Violation(sig, "an unauthenticated registrar (no key) forwarded a RegRespSignature", hex.EncodeToString(fw.RegRespSignature))
			}
		}

		// (4) overrides of transport parameters only when not disabled (registrar side)
		if disabled {
			if resp.GetTransportParams() != nil {
				rec.Violation("overrides-though-disabled:returned", "transport parameters returned to a client that set disable_registrar_overrides", c12RespStr(resp))
			}
			if fr.GetTransportParams() != nil {
				rec.Violation("overrides-though-disabled:forwarded", "transport parameters forwarded for a client that set disable_registrar_overrides", c12RespStr(fr))
			}
		}

		// (2) the station
		regs, serr := m.sc.rm.VerifParseRegMessage(fwBytes)
		if serr != nil {
			// the signature names the input class: transport, legacy library version, whether the client sent
			// parameters of its own, whether the registrar attached overriding parameters
			sig := fmt.Sprintf("station-rejects-forwarded:%s:%s:legacy-lib=%t:client-params=%t:params-overridden=%t", c12StationErrClass(serr), strings.ToLower(tt.String()),
				lv < 3, c2s.GetTransportParams() != nil, resp.GetTransportParams() != nil)
			rec.Violation(sig, "the registrar accepted the registration and answered the client, but a station ingesting the forwarded bytes rejects it",
				map[string]string{"station_error": serr.Error(), "returned": c12RespStr(resp)})
			continue
		}
		stationRegs = len(regs)
		src := net.IP(fw.GetRegistrationAddress())
		var have4, have6 bool
		var expParams any
		var expErr error
		if resp.GetTransportParams() != nil && !disabled {
			pm, err := resp.GetTransportParams().UnmarshalNew()
			expParams, expErr = pm, err
		} else if tr := m.trs[tt]; tr != nil {
			expParams, expErr = tr.ParseParams(lv, proto.Clone(c2s.GetTransportParams()).(*anypb.Any))
		} else {
			expErr = fmt.Errorf("no reference parser for transport %v", tt)
		}
		for _, reg := range regs {
			if reg == nil {
				continue
			}
			fam := "v6"
			if reg.PhantomIp.To4() != nil {
				fam = "v4"
			}
			if fam == "v4" {
				have4 = true
				if resp.GetIpv4Addr() == 0 || !reg.PhantomIp.Equal(c12V4(resp.GetIpv4Addr())) {
					rec.Violation("station-phantom-differs:v4", "the station's v4 registration sits on another phantom than the one returned to the client",
						map[string]string{"station": reg.PhantomIp.String(), "returned": c12RespStr(resp)})
				}
			} else {
				have6 = true
				if !reg.PhantomIp.Equal(net.IP(resp.GetIpv6Addr())) {
					rec.Violation("station-phantom-differs:v6", "the station's v6 registration sits on another phantom than the one returned to the client",
						map[string]string{"station": reg.PhantomIp.String(), "returned": c12RespStr(resp)})
				}
			}
			if resp.DstPort != nil && uint32(reg.PhantomPort) != resp.GetDstPort() {
				rec.Violation("station-port-differs:"+fam, "the station's registration uses another destination port than the one returned to the client",
					map[string]interface{}{"station": reg.PhantomPort, "returned": resp.GetDstPort()})
			}
			if expErr == nil && !c12ParamsEqual(reg.TransportParams(), expParams) {
				sig := "station-params-differ"
				if disabled {
					sig = "overrides-though-disabled:station"
				}
				rec.Violation(sig, "the station's transport parameters are not the ones the client was told (or, without an override, the client's own)",
					map[string]string{"station": c12ParamsStr(reg.TransportParams()), "expected": c12ParamsStr(expParams), "returned": c12RespStr(resp)})
			}
		}
		if c2s.GetV4Support() && resp.GetIpv4Addr() != 0 && src.To4() != nil && !have4 {
			rec.Violation("station-registration-missing:v4", "v4 client with v4 support was given a v4 phantom but the station built no v4 registration", fmt.Sprintf("%d registrations", len(regs)))
		}
		if c2s.GetV6Support() && len(resp.GetIpv6Addr()) > 0 && !have6 {
			rec.Violation("station-registration-missing:v6", "client with v6 support was given a v6 phantom but the station built no v6 registration", fmt.Sprintf("%d registrations", len(regs)))
		}
	}

	// (5) substitution
	var ovNets []Subnet
	switch tt {
	case pb.TransportType_Min:
		ovNets = m.rc.minNets
	case pb.TransportType_Prefix:
		ovNets = m.rc.prefixNets
	}
	tname := strings.ToLower(tt.String())
	excluded := false
	exclPos := "-"
	if r4 := resp.GetIpv4Addr(); r4 != 0 {
		rip := c12V4(r4)
		if origV4 != nil && c12InAny(origV4, m.rc.conf.ExclusionsFromOverride) >= 0 {
			excluded = true
			rec.Count("excluded_phantoms", 1)
			exclPos = c12ExclPos(origV4, m.rc.conf.ExclusionsFromOverride)
			rec.Count("excluded["+exclPos+"]", 1)
			if !rip.Equal(origV4) {
				rec.Violation("excluded-phantom-replaced:"+tname, "the client's own v4 phantom lies in an excluded subnet but was replaced",
					map[string]string{"own": origV4.String(), "returned": rip.String(), "position": exclPos})
			}
		}
		if (origV4 == nil && (kerr == nil)) || (origV4 != nil && !rip.Equal(origV4)) {
			substituted = true
			rec.Count("substitutions", 1)
			if !c2s.GetV4Support() {
				rec.Count("v4_phantom_given_to_client_without_v4_support", 1)
			}
			if !m.rc.conf.EnforceSubnetOverrides {
				rec.Count("substitutions_while_enforcement_off", 1)
			}
			i := c12InAny(rip, ovNets)
			if i < 0 {
				rec.Violation("substituted-phantom-outside-override-subnets:"+tname+":v4", "the returned v4 phantom is neither the client's own nor inside an override subnet configured for this transport",
					map[string]string{"own": fmt.Sprint(origV4), "returned": rip.String()})
			} else {
				ta := m.tal[tt]
				if ta == nil {
					ta = &c12Tally{used: make([]int, len(ovNets))}
					m.tal[tt] = ta
				}
				ta.subst++
				for j, s := range ovNets { // disjoint by construction; counted for every containing subnet anyway
					if s.CIDR.IPNet.Contains(rip) {
						ta.used[j]++
					}
				}
			}
		}
	}
	if r6 := resp.GetIpv6Addr(); len(r6) > 0 && origV6 != nil && !net.IP(r6).Equal(origV6) {
		// no override subnet can hold a v6 address for the registrar's v4-only substitution
		if c12InAny(net.IP(r6), ovNets) < 0 {
			rec.Violation("substituted-phantom-outside-override-subnets:"+tname+":v6", "the returned v6 phantom is neither the client's own nor inside an override subnet configured for this transport",
				map[string]string{"own": origV6.String(), "returned": net.IP(r6).String()})
		}
		if c12InAny(origV6, m.rc.conf.ExclusionsFromOverride) >= 0 {
			rec.Violation("excluded-phantom-replaced:"+tname+":v6", "the client's own v6 phantom lies in an excluded subnet but was replaced", nil)
		}
	}

	srcKind := "none"
	if len(q.Addr) > 0 {
		srcKind = "v6"
		if net.IP(q.Addr).To4() != nil {
			srcKind = "v4"
		}
	}
	rec.Distinct("nontrivial", tt, lv, c2s.GetV4Support(), c2s.GetV6Support(), c2s.DisableRegistrarOverrides != nil, disabled, q.PKind, q.Forged,
		m.rc.Auth, m.rc.Override, m.rc.conf.EnforceSubnetOverrides, substituted, excluded, exclPos, q.Fault.Pattern, resp.GetTransportParams() != nil, srcKind, stationRegs)
	rec.Distinct("classes", tt, disabled, m.rc.Auth, m.rc.Override, substituted, excluded, resp.GetTransportParams() != nil, stationRegs)
	if resp.GetTransportParams() != nil {
		rec.Count("param_overrides_seen", 1)
	}
	if disabled {
		rec.Count("overrides_disabled_by_client", 1)
	}
	if q.Forged != "-" {
		rec.Count("forged_requests", 1)
	}
	if rec.WantSample() && (substituted || resp.GetTransportParams() != nil) {
		rec.Sample(map[string]interface{}{"transport": tt.String(), "lib": lv, "auth": m.rc.Auth, "override": m.rc.Override, "forged": q.Forged, "disabled": disabled,
			"own_v4": fmt.Sprint(origV4), "returned": c12RespStr(resp), "station_registrations": stationRegs, "substituted": substituted})
	}
	return true, substituted
}

// verdict on the weighted choice of one registrar configuration
func (m *c12Mon) distribution() {
	for tt, nets := range map[pb.TransportType][]Subnet{pb.TransportType_Min: m.rc.minNets, pb.TransportType_Prefix: m.rc.prefixNets} {
		ta := m.tal[tt]
		if ta == nil || len(nets) < 2 {
			continue
		}
		tname := strings.ToLower(tt.String())
		if ta.subst < 400 {
			m.rec.Count("distribution_configs_below_400_substitutions", 1)
			continue
		}
		m.rec.Count("distribution_configs_evaluated", 1)
		var total float64
		for _, s := range nets {
			total += s.Weight
		}
		var unused, nz []int
		for i, s := range nets {
			if s.Weight > 0 && s.Weight/total >= 0.1 && c12Usable(s) {
				nz = append(nz, i)
				if ta.used[i] == 0 {
					unused = append(unused, i)
				}
			}
		}
		if len(unused) == 0 {
			continue
		}
		var rows []string
		for i, s := range nets {
			rows = append(rows, fmt.Sprintf("#%d %s weight=%v used=%d", i, s.CIDR.String(), s.Weight, ta.used[i]))
		}
		detail := map[string]interface{}{"transport": tt.String(), "substitutions": ta.subst, "subnets_in_config_order": rows, "registrar_toml": m.rc.Toml}
		last := len(nets) - 1
		onlyLast := ta.used[last] == ta.subst
		for i := range nets {
			if i != last && ta.used[i] != 0 {
				onlyLast = false
			}
		}
		sig := fmt.Sprintf("override-subnet-never-used:%s:%v-of-%d", tname, unused, len(nets))
		msg := fmt.Sprintf("%d substitutions never used override subnet(s) %v although each has >= 10 %% of the weight", ta.subst, unused)
		if onlyLast {
			sig = "weighted-override-choice:" + tname + ":only-the-last-subnet-is-ever-used"
			msg = fmt.Sprintf("all %d substituted phantoms came from the LAST configured %s override subnet; %d other subnet(s) with >= 10 %% of the weight were never used", ta.subst, tname, len(unused))
		}
		m.rec.CaseCheap(map[string]interface{}{"registrar_config": m.rc.Idx, "subnet_config": m.sc.Idx})
		m.rec.Violation(sig, msg, detail)
	}
}

func TestVerifC12(t *testing.T) {
	rec := kit.NewRec("C12", "registrar-station")
	defer rec.Close()
	r := kit.Rand("c12")
	dir := t.TempDir()

	lg := logrus.New()
	lg.SetOutput(io.Discard)
	met := metrics.NewMetrics(logrus.NewEntry(lg), 24*time.Hour)
	stationlog.SetLevel(stationlog.InfoLevel) // least verbose level of the station's logger

	nSub := kit.Tier(4, 16)
	nReg := kit.Tier(8, 60)
	nGeneral := kit.Tier(150, 330)
	nExcl := kit.Tier(120, 200)
	const wantSubst = 420
	const focusCap = 2600

	trs := map[pb.TransportType]lib.Transport{
		pb.TransportType_Min:    min.Transport{},
		pb.TransportType_Obfs4:  obfs4.Transport{},
		pb.TransportType_Prefix: prefix.DefaultSet(),
	}

	for si := 0; si < nSub; si++ {
		sc := c12GenSubCfg(r, si, dir)
		if err := os.WriteFile(sc.Path, []byte(sc.Toml), 0o644); err != nil {
			t.Fatal(err)
		}
		os.Setenv("PHANTOM_SUBNET_LOCATION", sc.Path)
		var err error
		if sc.refer, err = phantoms.SubnetsFromTomlFile(sc.Path); err != nil {
			t.Fatalf("generated subnet file does not load (infrastructure): %v\n%s", err, sc.Toml)
		}
		sc.rm = lib.NewRegistrationManager(&lib.RegConfig{EnableIPv4: true, EnableIPv6: true})
		if sc.rm == nil {
			t.Fatal("cannot build the station's RegistrationManager")
		}
		sc.rm.Logger = stationlog.New(io.Discard, "[REG] ", 0)
		var key [32]byte
		r.Read(key[:])
		pt, err := prefix.Default([][32]byte{key})
		if err != nil {
			t.Fatal(err)
		}
		for tt, tr := range map[pb.TransportType]lib.Transport{pb.TransportType_Min: min.Transport{}, pb.TransportType_Obfs4: obfs4.Transport{}, pb.TransportType_Prefix: pt} {
			if err := sc.rm.AddTransport(tt, tr); err != nil {
				t.Fatal(err)
			}
		}
		rec.Distinct("subnet_configs", sc.Toml)

		for ri := 0; ri < nReg; ri++ {
			rc := c12GenRegCfg(r, si*1000+ri, sc)
			rp, snd := rc.build(t, r, met)
			rec.Distinct("registrar_configs", rc.Toml, rc.Auth, rc.Override, rc.OvrFile)
			rec.Count("exclusion_lists["+rc.ExclMode+"]", 1)
			m := &c12Mon{t: t, rec: rec, sc: sc, rc: rc, rp: rp, snd: snd, trs: trs, tal: map[pb.TransportType]*c12Tally{}}
			// requests come from a PRNG of their own, so that the sequence of configurations does not depend on how many
			// distribution trials the (crypto/rand-driven) code under test happened to need
			rq := rand.New(rand.NewSource(r.Int63()))

			for i := 0; i < nGeneral; i++ {
				m.run(c12GenReq(rq, sc, "general"))
			}
			// distribution trials: only where a weighted choice exists and can be observed
			if rc.conf.EnforceSubnetOverrides {
				for _, f := range []struct {
					kind string
					tt   pb.TransportType
					nets []Subnet
					pct  float64
				}{{"focus-min", pb.TransportType_Min, rc.minNets, rc.conf.PrcntMinRegsToOverride}, {"focus-prefix", pb.TransportType_Prefix, rc.prefixNets, rc.conf.PrcntPrefixRegsToOverride}} {
					if len(f.nets) < 2 || f.pct == 0 {
						continue
					}
					for n := 0; n < focusCap; n++ {
						if ta := m.tal[f.tt]; ta != nil && ta.subst >= wantSubst {
							break
						}
						if n == 400 {
							if ta := m.tal[f.tt]; ta == nil || ta.subst < 60 {
								break // (nearly) everything is excluded or refused here: no distribution verdict
							}
						}
						m.run(c12GenReq(rq, sc, f.kind))
						rec.Count("distribution_trials", 1)
					}
				}
			}
			// exclusion trials: requests of a transport whose override is armed, so that own phantoms below / inside /
			// above nested exclusions would be replaced if the exclusion decision went wrong
			if rc.conf.EnforceSubnetOverrides && len(rc.conf.ExclusionsFromOverride) > 0 {
				for _, f := range []struct {
					kind string
					nets []Subnet
					pct  float64
				}{{"focus-min", rc.minNets, rc.conf.PrcntMinRegsToOverride}, {"focus-prefix", rc.prefixNets, rc.conf.PrcntPrefixRegsToOverride}} {
					if len(f.nets) == 0 || f.pct == 0 {
						continue
					}
					for n := 0; n < nExcl; n++ {
						m.run(c12GenReq(rq, sc, f.kind))
						rec.Count("exclusion_trials", 1)
					}
				}
			}
			m.distribution()
			rc.release(rp)
		}
	}
	rec.Note("substitution is recognised by comparing the returned phantom with what the configured selector derives for the client (monitor's own selector instance on the same file)")
}
