//go:build verif

package regprocessor

// C11 – entry point (5): the registrar's RegisterBidirectional (processBdReq + processC2SWrapper),
// RegisterUnidirectional and processC2SWrapper on arbitrary decoded wrappers, on a RegProcessor
// built by the real authenticated constructor (so the constructor's parameter override is active)
// with weighted Min / Prefix override subnets, an exclusion and the four transports the registration
// server registers.  Its ZMQ socket is swapped for a recorder; whatever the registrar hands to it
// is fed to a real station's parseRegMessage (the registrar's output is what stations ingest).
//
// Oracle: no panic (recovered per case, reported with the input) + the per-input watchdog.

import (
	"crypto/ed25519"
	"hash/fnv"
	"io"
	"math/rand"
	"os"
	"sync"
	"testing"
	"time"

	zmq "github.com/pebbe/zmq4"
	logrus "github.com/sirupsen/logrus"
	"google.golang.org/protobuf/proto"

	"github.com/refraction-networking/conjure/internal/conjurepath"
	kit "github.com/refraction-networking/conjure/internal/verifkit"
	"github.com/refraction-networking/conjure/pkg/metrics"
	"github.com/refraction-networking/conjure/pkg/station/lib"
	stationlog "github.com/refraction-networking/conjure/pkg/station/log"
	"github.com/refraction-networking/conjure/pkg/transports/connecting/dtls"
	"github.com/refraction-networking/conjure/pkg/transports/wrapping/min"
	"github.com/refraction-networking/conjure/pkg/transports/wrapping/obfs4"
	"github.com/refraction-networking/conjure/pkg/transports/wrapping/prefix"
	pb "github.com/refraction-networking/conjure/proto"
)

const verifC11RegprocEntry = "regprocessor.RegisterBidirectional/Unidirectional"

type verifC11Sender struct {
	mu   sync.Mutex
	msgs [][]byte
	n    int
}

func (s *verifC11Sender) SendBytes(b []byte, _ zmq.Flag) (int, error) {
	s.mu.Lock()
	s.msgs = append(s.msgs, append([]byte(nil), b...))
	s.n++
	s.mu.Unlock()
	return len(b), nil
}
func (s *verifC11Sender) Close() error { return nil }
func (s *verifC11Sender) take() [][]byte {
	s.mu.Lock()
	m := s.msgs
	s.msgs = nil
	s.mu.Unlock()
	return m
}

func verifC11Net(cidr string) Ipnet {
	var n Ipnet
	if err := n.UnmarshalText([]byte(cidr)); err != nil {
		panic(err)
	}
	return n
}

type verifC11Regproc struct {
	rp  *RegProcessor
	snd *verifC11Sender
	rm  *lib.RegistrationManager
	rec *kit.Rec
}

func verifC11RegprocSetup(t testing.TB) *verifC11Regproc {
	os.Setenv("PHANTOM_SUBNET_LOCATION", conjurepath.Root+"/pkg/station/lib/test/phantom_subnets.toml")
	if devnull, err := os.OpenFile(os.DevNull, os.O_WRONLY, 0); err == nil {
		os.Stdout = devnull
	}
	lg := logrus.New()
	lg.SetOutput(io.Discard)
	met := metrics.NewMetrics(logrus.NewEntry(lg), 24*time.Hour)
	seed := make([]byte, ed25519.SeedSize)
	kit.Rand("c11-registrar-key").Read(seed)
	priv := ed25519.NewKeyFromSeed(seed)
	overrides := []Subnet{
		{CIDR: verifC11Net("10.10.0.0/24"), Weight: 2, Port: 443, Transport: "Min_Transport"},
		{CIDR: verifC11Net("10.10.1.0/28"), Weight: 1, Port: 80, Transport: "Min_Transport"},
		{CIDR: verifC11Net("10.20.0.0/24"), Weight: 1.5, Port: 80, Transport: "Prefix_Transport", PrefixId: prefix.GetLong},
		{CIDR: verifC11Net("10.20.1.0/30"), Weight: 1, Port: 22, Transport: "Prefix_Transport", PrefixId: prefix.OpenSSH2},
		{CIDR: verifC11Net("10.20.2.0/24"), Weight: 1, Port: 443, Transport: "Prefix_Transport", PrefixId: prefix.Min},
	}
	excl := []Subnet{{CIDR: verifC11Net("192.122.190.128/25"), Transport: "Min_Transport"}}
	rp, err := NewRegProcessor("127.0.0.1", 0, priv, false, nil, met, true, overrides, excl, 50, 50)
	if err != nil {
		t.Fatalf("cannot build the registrar (infrastructure): %v", err)
	}
	_ = rp.sock.Close()
	h := &verifC11Regproc{rp: rp, snd: &verifC11Sender{}}
	rp.sock = h.snd
	for tt, tr := range map[pb.TransportType]lib.Transport{ // cmd/registration-server/main.go defaultTransports
		pb.TransportType_Min: min.Transport{}, pb.TransportType_Obfs4: obfs4.Transport{}, pb.TransportType_Prefix: prefix.DefaultSet(), pb.TransportType_DTLS: dtls.Transport{},
	} {
		if err := rp.AddTransport(tt, tr); err != nil {
			t.Fatal(err)
		}
	}
	// the station that ingests what the registrar forwards
	stationlog.SetLevel(stationlog.TraceLevel)
	h.rm = lib.NewRegistrationManager(&lib.RegConfig{EnableIPv4: true, EnableIPv6: true})
	if h.rm == nil {
		t.Fatal("cannot build the station's RegistrationManager")
	}
	h.rm.Logger = stationlog.New(io.Discard, "[REG] ", 0)
	var key [32]byte
	pt, err := prefix.Default([][32]byte{key})
	if err != nil {
		t.Fatal(err)
	}
	for tt, tr := range map[pb.TransportType]lib.Transport{pb.TransportType_Min: min.Transport{}, pb.TransportType_Obfs4: obfs4.Transport{}, pb.TransportType_Prefix: pt, pb.TransportType_DTLS: dtls.Transport{}} {
		if err := h.rm.AddTransport(tt, tr); err != nil {
			t.Fatal(err)
		}
	}
	return h
}

var verifC11BdMethods = []pb.RegistrationSource{pb.RegistrationSource_BidirectionalAPI, pb.RegistrationSource_BidirectionalDNS}
var verifC11UniMethods = []pb.RegistrationSource{pb.RegistrationSource_API, pb.RegistrationSource_DNS}

func (h *verifC11Regproc) verifExec(c *kit.C11Case) string {
	w := &pb.C2SWrapper{}
	if err := proto.Unmarshal(c.In, w); err != nil {
		return "unmarshal-error" // both servers answer this themselves and never call the processor
	}
	hs := fnv.New32a()
	hs.Write(c.In)
	sel := hs.Sum32()
	// client address as the API server passes it (16 bytes) / as the DNS server passes it (nil)
	var addr []byte
	if sel&1 == 0 {
		addr = []byte{0, 0, 0, 0, 0, 0, 0, 0, 0, 0, 0xff, 0xff, 203, 0, 113, byte(sel >> 8)}
	}
	out := ""
	resp, err := h.rp.RegisterBidirectional(proto.Clone(w).(*pb.C2SWrapper), verifC11BdMethods[sel>>1&1], addr)
	if err != nil || resp == nil {
		out = "bd-refused"
	} else {
		out = "bd-accepted"
		_ = kit.C11MarshalLoose(resp)
	}
	if err := h.rp.RegisterUnidirectional(proto.Clone(w).(*pb.C2SWrapper), verifC11UniMethods[sel>>2&1], addr); err != nil {
		out += "+uni-refused"
	} else {
		out += "+uni-accepted"
	}
	// the two halves on their own
	_, _ = h.rp.processBdReq(proto.Clone(w).(*pb.C2SWrapper))
	_, _ = h.rp.processC2SWrapper(proto.Clone(w).(*pb.C2SWrapper), addr, pb.RegistrationSource(sel>>3%7))
	// what the registrar forwarded is what a station ingests (the workers share the registrar, as the
	// server's request goroutines do, so a forwarded message may stem from a neighbour's case: a panic
	// here is reported with the forwarded message itself as the witness)
	nreg := 0
	for _, b := range h.snd.take() {
		b := b
		if p := kit.C11Catch(func() {
			regs, err := h.rm.VerifParseRegMessage(b)
			if err == nil {
				nreg += len(regs)
				for _, r := range regs {
					_ = r.String()
				}
			}
		}); p != nil && h.rec != nil {
			w := kit.C11Witness(b)
			w["what"], w["panic"], w["stack"] = "a message the registrar handed to ZMQ, fed to the station's parseRegMessage", p.Val, p.Stack
			h.rec.Violation("panic:registrar-output->station.parseRegMessage:"+p.Frame, "the station panicked on a message forwarded by the registrar: "+p.Val, w)
		}
	}
	if nreg > 0 {
		out += "+station-built"
	}
	return out
}

func verifC11RegprocGen(r *rand.Rand, idx int) kit.C11Case { return kit.C11WrapperInput(r, false) }

func TestVerifC11Regproc(t *testing.T) {
	rec := kit.NewRec("C11", "registrar-processor")
	defer rec.Close()
	h := verifC11RegprocSetup(t)
	h.rec = rec
	kit.C11Drive(rec, kit.C11Entry{Name: verifC11RegprocEntry, N: kit.Tier(40000, 1000000), Workers: 4,
		Gen: verifC11RegprocGen, Exec: h.verifExec, SampleEvery: 5000})
	rec.Count("messages_handed_to_zmq", h.snd.n)
}

func FuzzVerifC11Regproc(f *testing.F) {
	h := verifC11RegprocSetup(f)
	for _, s := range kit.C11Seeds(verifC11RegprocEntry, 300, verifC11RegprocGen) {
		f.Add(s)
	}
	f.Fuzz(func(t *testing.T, b []byte) {
		c := &kit.C11Case{In: b, Kind: "fuzz"}
		if p := kit.C11FuzzOne(verifC11RegprocEntry, b, func() { h.verifExec(c) }); p != nil && os.Getenv("VERIF_C11_FUZZ_OUT") == "" {
			t.Fatalf("panic in %s: %s\n%v", p.Frame, p.Val, p.Stack)
		}
	})
}
