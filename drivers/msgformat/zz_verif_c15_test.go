//go:build verif

package msgformat

// C15 – length framing of the DNS registrar: Remove*Format(Add*Format(x)) == x for every x that Add*Format
// accepts (returned a nil error); a value whose length does not fit the prefix must be rejected with an
// error instead of being framed with a wrapped length.  The real functions are executed; the oracle is
// byte equality.  The decoder is also run the way the requester really calls it (the frame followed by
// the rest of a zeroed 4096-byte receive buffer) and on arbitrary bytes (must not panic).

import (
	"bytes"
	"fmt"
	"runtime/debug"
	"testing"

	kit "github.com/refraction-networking/conjure/internal/verifkit"
)

// c15Try runs f and reports a panic instead of dying with it.
func c15Try(f func()) (panicked bool, val interface{}, stack string) {
	defer func() {
		if r := recover(); r != nil {
			panicked, val, stack = true, r, string(debug.Stack())
		}
	}()
	f()
	return
}

type c15Format struct {
	name   string
	limit  int // largest length the prefix can represent
	add    func([]byte) ([]byte, error)
	remove func([]byte) ([]byte, error)
}

func c15Fill(kind int, n int, seed int) []byte {
	p := make([]byte, n)
	switch kind {
	case 0: // position-dependent, so that a shifted or truncated result cannot compare equal
		for i := range p {
			p[i] = byte((i*131 + seed*17 + (i>>8)*29 + 1) & 0xff)
		}
	case 1: // all zero: a result padded or cut inside zero bytes is only caught through its length
	case 2:
		for i := range p {
			p[i] = 0xff
		}
	}
	return p
}

func c15FrameCase(rec *kit.Rec, f c15Format, n, kind int, tail string) {
	desc := fmt.Sprintf("%s len=%d fill=%d tail=%s", f.name, n, kind, tail)
	rec.CaseCheap(desc)
	p := c15Fill(kind, n, n)
	orig := append([]byte(nil), p...)
	class := "representable-length"
	if n > f.limit {
		class = "length-beyond-prefix"
	}
	rec.Count("evaluations", 1)

	var enc []byte
	var err error
	if pk, v, st := c15Try(func() { enc, err = f.add(p) }); pk {
		rec.Violation("msgformat:"+f.name+":encoder-panic", "the framing encoder panicked",
			map[string]interface{}{"case": desc, "panic": fmt.Sprint(v), "stack": st})
		return
	}
	if err != nil {
		// a refusal is always acceptable to the statement; it is counted so that a tree refusing everything
		// cannot pass for one that holds the property (see the floor on accepted_roundtrips)
		rec.Count("rejected_"+class, 1)
		rec.Distinct("nontrivial", desc)
		return
	}
	frame := enc
	switch tail {
	case "zeros4096": // requester.RequestAndRecv hands the whole zeroed receive buffer to RemoveResponseFormat
		if len(enc) < 4096 {
			frame = make([]byte, 4096)
			copy(frame, enc)
		}
	case "junk":
		frame = append(append([]byte(nil), enc...), 0xA5, 0x5A, 0x01, 0xff, 0x00, 0x7f)
	}
	frameSnap := append([]byte(nil), frame...)
	var dec []byte
	var derr error
	if pk, v, st := c15Try(func() { dec, derr = f.remove(frame) }); pk {
		rec.Violation("msgformat:"+f.name+":decoder-panic-on-own-encoding", "the framing decoder panicked on a frame its encoder produced",
			map[string]interface{}{"case": desc, "panic": fmt.Sprint(v), "stack": st})
		return
	}
	if !bytes.Equal(frame, frameSnap) {
		rec.Violation("msgformat:"+f.name+":decoder-modifies-its-input", "the framing decoder changed the caller's buffer", map[string]interface{}{"case": desc})
		copy(frame, frameSnap)
	}
	if dec2, derr2 := f.remove(frame); (derr2 == nil) != (derr == nil) || !bytes.Equal(dec2, dec) {
		rec.Violation("msgformat:"+f.name+":second-decode-differs", "decoding the same frame twice gives two different results", map[string]interface{}{"case": desc})
	}
	if derr != nil || !bytes.Equal(dec, orig) {
		sig := "msgformat:" + f.name + ":roundtrip-mismatch"
		msg := "Remove(Add(x)) != x although Add returned no error"
		if n > f.limit {
			sig = "msgformat:" + f.name + ":length-beyond-prefix-accepted-and-altered"
			msg = "a payload whose length does not fit the length prefix was framed without an error and does not decode to itself (the prefix wrapped)"
		}
		d := map[string]interface{}{"case": desc, "len_in": n, "prefix_bytes": kit.HexN(enc, 4), "encoded_len": len(enc)}
		if derr != nil {
			d["decode_error"] = derr.Error()
		} else {
			d["len_out"] = len(dec)
			d["out_head"] = kit.HexN(dec, 8)
			d["in_head"] = kit.HexN(orig, 8)
		}
		rec.Violation(sig, msg, d)
		return
	}
	if !bytes.Equal(p, orig) {
		rec.Note("encoder modified its argument in place: " + desc) // not part of the statement
	}
	rec.Count("accepted_roundtrips", 1)
	rec.Count("accepted_roundtrips_"+class, 1)
	if n > 0 {
		rec.Distinct("nontrivial", desc)
	}
	rec.Distinct("lengths_"+f.name, n)
	if rec.WantSample() && (n == f.limit || n == 1 || n == f.limit-1) && tail == "none" && kind == 0 {
		rec.Sample(map[string]interface{}{"case": desc, "encoded_head": kit.HexN(enc, 6), "decoded_equal": true})
	}
}

func c15Lengths(max int, dense [][2]int, stride int, thorough bool) []int {
	seen := map[int]bool{}
	var out []int
	add := func(n int) {
		if n >= 0 && n <= max && !seen[n] {
			seen[n] = true
			out = append(out, n)
		}
	}
	if thorough {
		for n := 0; n <= max; n++ {
			add(n)
		}
		return out
	}
	for _, d := range dense {
		for n := d[0]; n <= d[1]; n++ {
			add(n)
		}
	}
	for n := 0; n <= max; n += stride {
		add(n)
	}
	return out
}

func TestVerifC15Msgformat(t *testing.T) {
	rec := kit.NewRec("C15", "msgformat")
	defer rec.Close()
	rng := kit.Rand("c15msgformat")

	req := c15Format{"request", 255, AddRequestFormat, RemoveRequestFormat}
	resp := c15Format{"response", 65535, AddResponseFormat, RemoveResponseFormat}

	// request framing: every length 0..600, three fills, three ways of handing the frame to the decoder
	for n := 0; n <= 600; n++ {
		for kind := 0; kind < 3; kind++ {
			for _, tail := range []string{"none", "zeros4096", "junk"} {
				c15FrameCase(rec, req, n, kind, tail)
			}
		}
	}
	rec.Exhaustive("Add/RemoveRequestFormat: every length 0..600 × 3 fills × 3 decoder framings")

	// response framing: 0..70000.  Thorough: every length.  Quick: every length 0..1300 (all sizes a UDP answer can
	// carry), 65000..66100 (both sides of the 16-bit limit), 69900..70000, a stride of 11 elsewhere, plus seeded lengths.
	lens := c15Lengths(70000, [][2]int{{0, 1300}, {65000, 66100}, {69900, 70000}}, 11, kit.Thorough())
	if !kit.Thorough() {
		for i := 0; i < 400; i++ {
			lens = append(lens, rng.Intn(70001))
		}
	}
	for _, n := range lens {
		c15FrameCase(rec, resp, n, 0, "none")
		near := (n >= 65280 && n <= 65800) || n <= 600
		if near || kit.Thorough() || n%5 == 0 {
			c15FrameCase(rec, resp, n, 1, "none")
		}
		if n <= 4094 {
			c15FrameCase(rec, resp, n, 0, "zeros4096")
		}
		if near {
			c15FrameCase(rec, resp, n, 2, "junk")
		}
	}
	if kit.Thorough() {
		rec.Exhaustive("Add/RemoveResponseFormat: every length 0..70000")
	} else {
		rec.Exhaustive("Add/RemoveResponseFormat: every length 0..1300, 65000..66100, 69900..70000 (stride 11 + seeded lengths elsewhere)")
	}

	// decoders on arbitrary bytes: must not panic; whatever they return without error must be a sub-slice
	// consistent with the prefix (len(out) == declared length) – a plain sanity check of the decoder alone
	nArb := kit.Tier(20000, 400000)
	for i := 0; i < nArb; i++ {
		n := rng.Intn(40)
		if i%7 == 0 {
			n = rng.Intn(70000)
		}
		b := make([]byte, n)
		rng.Read(b)
		if i%3 == 0 && n >= 2 { // make the declared length plausible so that the success path is reached too
			b[0] = byte((n - 2) >> 8)
			b[1] = byte(n - 2)
		}
		for _, f := range []c15Format{req, resp} {
			rec.CaseCheap(fmt.Sprintf("arbitrary %s len=%d head=%s", f.name, n, kit.HexN(b, 4)))
			var out []byte
			var err error
			if pk, v, st := c15Try(func() { out, err = f.remove(b) }); pk {
				rec.Violation("msgformat:"+f.name+":decoder-panic-on-arbitrary-bytes", "the framing decoder panicked on arbitrary bytes",
					map[string]interface{}{"input": kit.HexN(b, 16), "len": n, "panic": fmt.Sprint(v), "stack": st})
				continue
			}
			rec.Count("arbitrary_decodes", 1)
			if err == nil {
				rec.Count("arbitrary_decodes_ok", 1)
				_ = out
			}
		}
	}
}
