//go:build verif

package msgformat

// C11 – entry point (7), framing: RemoveRequestFormat / RemoveResponseFormat on arbitrary bytes
// (genuine framings with the length field tampered, truncated, extended; random bytes).
// Oracle: no panic (recovered per case, reported with the input) + the per-input watchdog.

import (
	"math/rand"
	"os"
	"testing"

	kit "github.com/refraction-networking/conjure/internal/verifkit"
)

const verifC11Entry = "msgformat.RemoveRequestFormat/RemoveResponseFormat"

func verifC11Exec(c *kit.C11Case) string {
	out := ""
	if p, err := RemoveRequestFormat(append([]byte(nil), c.In...)); err == nil {
		out = "request-ok"
		_ = len(p)
	} else {
		out = "request-refused"
	}
	if p, err := RemoveResponseFormat(append([]byte(nil), c.In...)); err == nil {
		out += "/response-ok"
		_ = len(p)
	} else {
		out += "/response-refused"
	}
	return out
}

func verifC11Gen(r *rand.Rand, idx int) kit.C11Case {
	switch x := r.Intn(10); {
	case x < 2:
		return kit.C11Case{In: kit.C11Random(r, 600), Kind: "random"}
	case x < 3:
		return kit.C11Case{In: make([]byte, r.Intn(4)), Kind: "tiny"}
	}
	p := make([]byte, []int{0, 1, 2, 127, 128, 254, 255, 256, 257, 300, 1000}[r.Intn(11)])
	r.Read(p)
	var framed []byte
	var err error
	kind := "request"
	if r.Intn(2) == 0 {
		framed, err = AddRequestFormat(p)
	} else {
		framed, err = AddResponseFormat(p)
		kind = "response"
	}
	if err != nil || framed == nil {
		return kit.C11Case{In: p, Kind: "unframeable-" + kind}
	}
	if r.Intn(4) == 0 {
		return kit.C11Case{In: framed, Kind: "genuine-" + kind}
	}
	b, k := kit.C11Mutate(r, framed, nil)
	return kit.C11Case{In: b, Kind: k + ":" + kind}
}

func TestVerifC11Msgformat(t *testing.T) {
	rec := kit.NewRec("C11", "dns-framing")
	defer rec.Close()
	kit.C11Drive(rec, kit.C11Entry{Name: verifC11Entry, N: kit.Tier(40000, 2000000), Workers: 4, Gen: verifC11Gen, Exec: verifC11Exec, SampleEvery: 5000})
}

func FuzzVerifC11Msgformat(f *testing.F) {
	for _, s := range kit.C11Seeds(verifC11Entry, 300, verifC11Gen) {
		f.Add(s)
	}
	f.Fuzz(func(t *testing.T, b []byte) {
		c := &kit.C11Case{In: b, Kind: "fuzz"}
		if p := kit.C11FuzzOne(verifC11Entry, b, func() { verifC11Exec(c) }); p != nil && os.Getenv("VERIF_C11_FUZZ_OUT") == "" {
			t.Fatalf("panic in %s: %s\n%v", p.Frame, p.Val, p.Stack)
		}
	})
}
