//go:build verif

package dtls

// C16 – the established connection stays a lossless ordered byte stream AFTER the deadline of the context
// it was established with has passed.
//
// The station's DTLS transport and the client transport establish sessions with context.WithTimeout; the
// set-up code puts that deadline on the raw transport conn and must take it off again once the session is up.
// Monitor: real sessions (ClientWithContext/ServerWithContext over net.Pipe and over real UDP sockets, in the
// straight and in the deployed "crossed" DTLS/SCTP role assignment, and DialWithContext/AcceptWithContext on the
// real Listener) are established with a 1.5 s context, exchange tagged data at once, stay idle until the deadline
// has passed (+ margin), and exchange tagged data again in both directions.
// Violation: the second exchange ends in an error (or garbled bytes) on a session whose first exchange worked.
// The only wall-clock dependence is "after the deadline", which load can only make later.  A set-up that fails
// (twice) and a second exchange that merely hits the harness watchdog without any error are inconclusive.

import (
	"bytes"
	"context"
	"fmt"
	"net"
	"strings"
	"sync"
	"testing"
	"time"

	kit "github.com/refraction-networking/conjure/internal/verifkit"
)

const verifC16EstDeadline = 1500 * time.Millisecond

// verifC16UDPPeer makes the listening end of a UDP socket pair usable as a net.Conn (Write needs the peer's
// address on an unconnected socket).  Deadlines are those of the real *net.UDPConn.
type verifC16UDPPeer struct {
	*net.UDPConn
	mu    sync.Mutex
	raddr *net.UDPAddr
}

func (p *verifC16UDPPeer) Read(b []byte) (int, error) {
	n, a, err := p.UDPConn.ReadFromUDP(b)
	if a != nil {
		p.mu.Lock()
		p.raddr = a
		p.mu.Unlock()
	}
	return n, err
}

func (p *verifC16UDPPeer) Write(b []byte) (int, error) {
	p.mu.Lock()
	a := p.raddr
	p.mu.Unlock()
	return p.UDPConn.WriteToUDP(b, a)
}

func (p *verifC16UDPPeer) RemoteAddr() net.Addr {
	p.mu.Lock()
	defer p.mu.Unlock()
	return p.raddr
}

type verifC16DLCase struct {
	Transport string // pipe | udp | listener
	Roles     string // straight (DTLS client opens SCTP) | crossed (DTLS client accepts SCTP, as deployed) ; listener: straight
	Deadline  string // both | client | server : which end's establishment context carries the deadline
	Margin    time.Duration
}

func (c verifC16DLCase) variant() string {
	return fmt.Sprintf("%s-%s:deadline-on-%s", c.Transport, c.Roles, c.Deadline)
}

func (c verifC16DLCase) String() string {
	return fmt.Sprintf("established with context.WithTimeout(%v) %s, traffic again %v after the deadline", verifC16EstDeadline, c.variant(), c.Margin)
}

type verifC16DLConn struct {
	c, s     net.Conn // c = DTLS client end, s = DTLS server end
	deadline time.Time
	cleanup  func()
}

func verifC16DLConnect(cs verifC16DLCase, secret []byte) (*verifC16DLConn, error) {
	t0 := time.Now()
	mk := func(with bool) (context.Context, context.CancelFunc) {
		if with {
			return context.WithTimeout(context.Background(), verifC16EstDeadline)
		}
		return context.WithCancel(context.Background())
	}
	cctx, ccancel := mk(cs.Deadline == "both" || cs.Deadline == "client")
	sctx, scancel := mk(cs.Deadline == "both" || cs.Deadline == "server")
	// the contexts are NOT cancelled after set-up (a cancelled context has no effect on an established
	// session either, but the seeded point is the deadline): they are released when the case is over
	out := &verifC16DLConn{deadline: t0.Add(verifC16EstDeadline)}
	cSCTP, sSCTP := ClientOpen, ServerAccept
	if cs.Roles == "crossed" {
		cSCTP, sSCTP = ServerAccept, ClientOpen
	}
	var wg sync.WaitGroup
	var cconn, sconn net.Conn
	var cerr, serr error
	var closers []func()
	switch cs.Transport {
	case "pipe":
		sp, cp := net.Pipe()
		closers = append(closers, func() { sp.Close(); cp.Close() })
		wg.Add(2)
		go func() { defer wg.Done(); sconn, serr = ServerWithContext(sctx, sp, &Config{PSK: secret, SCTP: sSCTP}) }()
		go func() { defer wg.Done(); cconn, cerr = ClientWithContext(cctx, cp, &Config{PSK: secret, SCTP: cSCTP}) }()
	case "udp":
		lu, err := net.ListenUDP("udp", &net.UDPAddr{IP: net.IPv4(127, 0, 0, 1)})
		if err != nil {
			return nil, err
		}
		cu, err := net.DialUDP("udp", nil, lu.LocalAddr().(*net.UDPAddr))
		if err != nil {
			lu.Close()
			return nil, err
		}
		peer := &verifC16UDPPeer{UDPConn: lu, raddr: cu.LocalAddr().(*net.UDPAddr)}
		closers = append(closers, func() { lu.Close(); cu.Close() })
		wg.Add(2)
		go func() { defer wg.Done(); sconn, serr = ServerWithContext(sctx, peer, &Config{PSK: secret, SCTP: sSCTP}) }()
		go func() { defer wg.Done(); cconn, cerr = ClientWithContext(cctx, cu, &Config{PSK: secret, SCTP: cSCTP}) }()
	case "listener":
		l, err := Listen("udp", &net.UDPAddr{IP: net.IPv4(127, 0, 0, 1), Port: 0}, &Config{LogAuthFail: verifC16NoLog, LogOther: verifC16NoLog})
		if err != nil {
			return nil, err
		}
		closers = append(closers, func() { verifC16Retire(l) })
		wg.Add(2)
		go func() {
			defer wg.Done()
			sconn, serr = l.AcceptWithContext(sctx, &Config{PSK: secret, SCTP: ServerAccept})
		}()
		go func() {
			defer wg.Done()
			id, _ := clientHelloRandomFromSeed(secret)
			verifC16WaitRegistered(l, id, time.Second)
			cconn, cerr = DialWithContext(cctx, l.Addr().(*net.UDPAddr), &Config{PSK: secret, SCTP: ClientOpen})
			if cerr != nil {
				scancel()
			}
		}()
	}
	fin := make(chan struct{})
	go func() { wg.Wait(); close(fin) }()
	select {
	case <-fin:
	case <-time.After(20 * time.Second):
		// an end without a deadline waits for a peer that gave up: release it
		ccancel()
		scancel()
		for _, f := range closers {
			f()
		}
		<-fin
	}
	out.cleanup = func() {
		ccancel()
		scancel()
		for _, f := range closers {
			f()
		}
	}
	if cerr != nil || serr != nil || cconn == nil || sconn == nil {
		if cconn != nil {
			cconn.Close()
		}
		if sconn != nil {
			sconn.Close()
		}
		out.cleanup()
		return nil, fmt.Errorf("client: %v / server: %v", cerr, serr)
	}
	out.c, out.s = cconn, sconn
	return out, nil
}

type verifC16DLRound struct {
	mu        sync.Mutex
	firstSide string // which end failed first ("" = none)
	firstErr  error
	garbled   string
}

func (r *verifC16DLRound) ok() bool { return r.firstErr == nil && r.garbled == "" }

func (r *verifC16DLRound) onlyWatchdog() bool {
	return r.garbled == "" && r.firstErr != nil && strings.Contains(r.firstErr.Error(), "watchdog")
}

// verifC16DLExchange runs k tagged request/reply rounds; "opener" is the end that opened the SCTP stream (the
// accepting end only learns of the stream through the opener's first message, so the opener speaks first).
// The first failure is what is judged; it also closes both conns so that the other end does not sit out its watchdog.
func verifC16DLExchange(opener, acceptor net.Conn, secret []byte, firstInst, k int) *verifC16DLRound {
	r := &verifC16DLRound{}
	fail := func(side string, err error, garbled string) {
		r.mu.Lock()
		first := r.firstErr == nil && r.garbled == ""
		if first {
			r.firstSide, r.firstErr, r.garbled = side, err, garbled
		}
		r.mu.Unlock()
		if first {
			opener.Close()
			acceptor.Close()
		}
	}
	var wg sync.WaitGroup
	run := func(conn net.Conn, side, peerSide, name string) {
		defer wg.Done()
		for i := 0; i < k; i++ {
			peer, err := verifC16Exchange(conn, secret, side, firstInst+i)
			if err != nil {
				fail(name, err, "")
				return
			}
			if !bytes.Equal(peer, verifC16Tag(secret, peerSide, firstInst+i)) {
				fail(name, nil, fmt.Sprintf("%s read %q in round %d", name, peer, firstInst+i))
				return
			}
		}
	}
	wg.Add(2)
	go run(opener, "c", "s", "sctp-opener")
	go run(acceptor, "s", "c", "sctp-acceptor")
	wg.Wait()
	return r
}

type verifC16DLResult struct {
	cs      verifC16DLCase
	outcome string // ok | violation | inconclusive
	detail  map[string]interface{}
}

func verifC16RunDL(cs verifC16DLCase, secret []byte) verifC16DLResult {
	res := verifC16DLResult{cs: cs, detail: map[string]interface{}{"case": cs.String()}}
	p, err := verifC16DLConnect(cs, secret)
	if err != nil {
		p, err = verifC16DLConnect(cs, secret) // one retry, as for every real handshake
	}
	if err != nil {
		res.outcome = "inconclusive"
		res.detail["setup"] = err.Error()
		return res
	}
	defer p.cleanup()
	opener, acceptor := p.c, p.s
	if cs.Roles == "crossed" {
		opener, acceptor = p.s, p.c
	}
	r1 := verifC16DLExchange(opener, acceptor, secret, 0, 2)
	res.detail["first_exchange_ms_before_deadline"] = time.Until(p.deadline).Milliseconds()
	if !r1.ok() {
		// not the subject of this monitor (the handshake monitor judges fresh sessions)
		res.outcome = "inconclusive"
		res.detail["first_exchange"] = fmt.Sprintf("%s: %v %s", r1.firstSide, r1.firstErr, r1.garbled)
		p.c.Close()
		p.s.Close()
		return res
	}
	if d := time.Until(p.deadline.Add(cs.Margin)); d > 0 {
		time.Sleep(d)
	}
	res.detail["second_exchange_ms_after_deadline"] = time.Since(p.deadline).Milliseconds()
	r2 := verifC16DLExchange(opener, acceptor, secret, 100, 3)
	p.c.Close()
	p.s.Close()
	res.detail["second_exchange_first_failure_at"] = r2.firstSide
	res.detail["second_exchange_first_error"] = verifC16ErrString(r2.firstErr)
	res.detail["second_exchange_garbled"] = r2.garbled
	switch {
	case r2.ok():
		res.outcome = "ok"
	case r2.onlyWatchdog():
		res.outcome = "inconclusive"
	default:
		res.outcome = "violation"
	}
	return res
}

func TestVerifC16Deadline(t *testing.T) {
	rec := kit.NewRec("C16", "deadline")
	defer rec.Close()
	rng := kit.Rand("c16deadline")
	var cases []verifC16DLCase
	rounds := kit.Tier(1, 4)
	for r := 0; r < rounds; r++ {
		margin := time.Duration(600+rng.Intn(900)) * time.Millisecond
		for _, tr := range []string{"pipe", "udp"} {
			for _, roles := range []string{"straight", "crossed"} {
				for _, dl := range []string{"both", "client", "server"} {
					cases = append(cases, verifC16DLCase{Transport: tr, Roles: roles, Deadline: dl, Margin: margin})
				}
			}
		}
		for _, dl := range []string{"both", "client", "server"} {
			cases = append(cases, verifC16DLCase{Transport: "listener", Roles: "straight", Deadline: dl, Margin: margin})
		}
	}
	results := make([]verifC16DLResult, len(cases))
	secrets := make([][]byte, len(cases))
	for i := range cases {
		secrets[i] = verifC16RandSecret(rng)
	}
	rec.Case(map[string]interface{}{"deadline_cases_in_parallel": len(cases)})
	var wg sync.WaitGroup
	sem := make(chan struct{}, 15)
	for i := range cases {
		wg.Add(1)
		go func(i int) {
			defer wg.Done()
			sem <- struct{}{}
			defer func() { <-sem }()
			results[i] = verifC16RunDL(cases[i], secrets[i])
		}(i)
	}
	wg.Wait()
	for _, r := range results {
		rec.CaseCheap(r.cs.String())
		switch r.outcome {
		case "violation":
			rec.Violation("real:stream-lost-after-establishment-deadline:"+r.cs.variant(),
				"a session that was up and carrying data broke once the deadline of the context it had been established with passed (the deadline was left on the transport conn)", r.detail)
		case "inconclusive":
			rec.Inconclusive("deadline case could not be judged (set-up or first exchange failed, or only the harness watchdog fired)", r.detail)
		default:
			rec.Count("sessions_intact_after_deadline", 1)
			rec.Distinct("nontrivial", r.cs.variant(), r.cs.Margin)
		}
		rec.Count("evaluations", 1)
		if rec.WantSample() && r.outcome == "ok" {
			rec.Sample(r.detail)
		}
	}
}
