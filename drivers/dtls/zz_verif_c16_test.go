//go:build verif

package dtls

// C16 (a) – both ends derive identical credentials from a shared secret, and a handshake completes only
// when both used the same secret.
//
// Monitor 1 (creds): certsFromSeed / clientHelloRandomFromSeed are called repeatedly (sequentially and
// from concurrent goroutines, as the station does) and the results are compared field by field (public
// key, private scalar, serial, CN, SAN – never the DER bytes: ECDSA signing is randomised).  Related but
// different secrets must not yield the same credentials.
// Monitor 2 (handshake): real handshakes of the real Client/Server (net.Pipe) and Dial/Listener
// (loopback UDP) with equal and with different secrets.

import (
	"bytes"
	"context"
	"crypto/ecdsa"
	"crypto/tls"
	"crypto/x509"
	"encoding/hex"
	"errors"
	"fmt"
	"io"
	"math/rand"
	"net"
	"sync"
	"testing"
	"time"

	"github.com/pion/dtls/v2/pkg/protocol/handshake"
	kit "github.com/refraction-networking/conjure/internal/verifkit"
)

type verifC16ID = [handshake.RandomBytesLength]byte

type verifC16Cred struct {
	X, Y, D string
	Serial  string
	CN      string
	SAN     string
	KeyOK   bool
}

func verifC16CredOf(c *tls.Certificate) (verifC16Cred, error) {
	var out verifC16Cred
	if c == nil || len(c.Certificate) != 1 {
		return out, errors.New("no certificate")
	}
	x, err := x509.ParseCertificate(c.Certificate[0])
	if err != nil {
		return out, err
	}
	pub, ok := x.PublicKey.(*ecdsa.PublicKey)
	if !ok {
		return out, fmt.Errorf("public key is %T", x.PublicKey)
	}
	priv, ok := c.PrivateKey.(*ecdsa.PrivateKey)
	if !ok {
		return out, fmt.Errorf("private key is %T", c.PrivateKey)
	}
	out.X, out.Y, out.D = pub.X.Text(16), pub.Y.Text(16), priv.D.Text(16)
	out.Serial = x.SerialNumber.Text(16)
	out.CN = x.Subject.CommonName
	if len(x.DNSNames) > 0 {
		out.SAN = x.DNSNames[0]
	}
	out.KeyOK = priv.PublicKey.X.Cmp(pub.X) == 0 && priv.PublicKey.Y.Cmp(pub.Y) == 0
	return out, nil
}

type verifC16Creds struct {
	Client, Server verifC16Cred
	Random         string
}

func verifC16Derive(secret []byte) (verifC16Creds, error) {
	var out verifC16Creds
	cc, sc, err := certsFromSeed(secret)
	if err != nil {
		return out, err
	}
	if out.Client, err = verifC16CredOf(cc); err != nil {
		return out, err
	}
	if out.Server, err = verifC16CredOf(sc); err != nil {
		return out, err
	}
	r, err := clientHelloRandomFromSeed(secret)
	if err != nil {
		return out, err
	}
	out.Random = hex.EncodeToString(r[:])
	return out, nil
}

func verifC16CredDiff(a, b verifC16Creds) string {
	switch {
	case a.Client.X != b.Client.X || a.Client.Y != b.Client.Y || a.Client.D != b.Client.D:
		return "client-key"
	case a.Server.X != b.Server.X || a.Server.Y != b.Server.Y || a.Server.D != b.Server.D:
		return "server-key"
	case a.Client.Serial != b.Client.Serial || a.Server.Serial != b.Server.Serial:
		return "serial"
	case a.Client.CN != b.Client.CN || a.Server.CN != b.Server.CN || a.Client.SAN != b.Client.SAN || a.Server.SAN != b.Server.SAN:
		return "common-name"
	case a.Random != b.Random:
		return "hello-random"
	}
	return ""
}

// related secrets: different from s, but close to it
func verifC16Relatives(s []byte) map[string][]byte {
	out := map[string][]byte{}
	if len(s) > 0 {
		a := append([]byte{}, s...)
		a[len(a)-1] ^= 0x01
		out["last-bit-flipped"] = a
		b := append([]byte{}, s...)
		b[0] ^= 0x80
		out["first-bit-flipped"] = b
		out["last-byte-dropped"] = append([]byte{}, s[:len(s)-1]...)
	}
	out["zero-byte-appended"] = append(append([]byte{}, s...), 0)
	return out
}

func TestVerifC16Creds(t *testing.T) {
	rec := kit.NewRec("C16", "creds")
	defer rec.Close()
	rng := kit.Rand("c16creds")
	secrets := [][]byte{{}, {0}, {1}, bytes.Repeat([]byte{0}, 32), bytes.Repeat([]byte{0xFF}, 32), []byte("hihihihihihihihihihihihihihihihi"), bytes.Repeat([]byte{7}, 33), bytes.Repeat([]byte{9}, 1000)}
	n := kit.Tier(150, 4000)
	for i := 0; i < n; i++ {
		l := []int{1, 16, 31, 32, 32, 32, 33, 48, 64, 100}[rng.Intn(10)]
		s := make([]byte, l)
		rng.Read(s)
		secrets = append(secrets, s)
	}
	for _, s := range secrets {
		desc := fmt.Sprintf("secret len=%d %s", len(s), kit.HexN(s, 8))
		rec.CaseCheap(desc)
		ref, err := verifC16Derive(s)
		if err != nil {
			rec.Inconclusive("derivation failed", desc+": "+err.Error())
			continue
		}
		if !ref.Client.KeyOK || !ref.Server.KeyOK {
			rec.Violation("creds:certificate-key-mismatch", "the derived certificate does not carry the public key of the derived private key", map[string]interface{}{"secret": desc})
		}
		// again, sequentially ("the other side") and from concurrent goroutines
		others := make([]verifC16Creds, 5)
		errs := make([]error, 5)
		others[0], errs[0] = verifC16Derive(append([]byte{}, s...))
		var wg sync.WaitGroup
		for k := 1; k < 5; k++ {
			wg.Add(1)
			go func(k int) {
				defer wg.Done()
				others[k], errs[k] = verifC16Derive(append([]byte{}, s...))
			}(k)
		}
		wg.Wait()
		for k := range others {
			if errs[k] != nil {
				rec.Inconclusive("derivation failed", desc+": "+errs[k].Error())
				continue
			}
			if f := verifC16CredDiff(ref, others[k]); f != "" {
				rec.Violation("creds:not-deterministic:"+f, "two derivations from the same secret disagree", map[string]interface{}{"secret": desc, "field": f, "first": ref, "other": others[k], "concurrent": k > 0})
			}
		}
		for rel, s2 := range verifC16Relatives(s) {
			o, err := verifC16Derive(s2)
			if err != nil {
				continue
			}
			same := []string{}
			if o.Client.X == ref.Client.X && o.Client.D == ref.Client.D {
				same = append(same, "client-key")
			}
			if o.Server.X == ref.Server.X && o.Server.D == ref.Server.D {
				same = append(same, "server-key")
			}
			if o.Random == ref.Random {
				same = append(same, "hello-random")
			}
			if len(same) > 0 {
				rec.Violation("creds:different-secrets-same-credentials:"+rel, "two different secrets yield the same credentials, so their sessions cannot be told apart",
					map[string]interface{}{"secret": desc, "relation": rel, "equal_fields": same})
			}
			rec.Count("relative_pairs", 1)
		}
		rec.Count("evaluations", 1)
		rec.Count("derivations", 6)
		rec.Distinct("nontrivial", desc)
		if rec.WantSample() {
			rec.Sample(map[string]interface{}{"secret": desc, "client_cn": ref.Client.CN, "client_serial": ref.Client.Serial, "hello_random": ref.Random, "derivations_compared": 6})
		}
	}
}

// ---- real handshakes -----------------------------------------------------------------------------------

const verifC16TagLen = 96

func verifC16Tag(secret []byte, side string, inst int) []byte {
	h := hex.EncodeToString(secret)
	if len(h) > 64 {
		h = h[:64]
	}
	s := fmt.Sprintf("C16TAG|%s|%s|%d|", h, side, inst)
	b := bytes.Repeat([]byte{'.'}, verifC16TagLen)
	copy(b, s)
	return b
}

// verifC16TagSecret extracts the secret part of a received tag ("" if it is not a tag).
func verifC16TagSecret(b []byte) string {
	parts := bytes.Split(b, []byte("|"))
	if len(parts) < 4 || string(parts[0]) != "C16TAG" {
		return ""
	}
	return string(parts[1])
}

// verifC16Exchange sends our tag and reads the peer's (the client speaks first).  A watchdog closes the
// conn so that nothing can block for good.
func verifC16Exchange(conn net.Conn, secret []byte, side string, inst int) (peer []byte, err error) {
	type res struct {
		b   []byte
		err error
	}
	done := make(chan res, 1)
	go func() {
		mine := verifC16Tag(secret, side, inst)
		buf := make([]byte, verifC16TagLen)
		if side == "c" {
			if _, err := conn.Write(mine); err != nil {
				done <- res{nil, fmt.Errorf("write: %w", err)}
				return
			}
			if _, err := io.ReadFull(conn, buf); err != nil {
				done <- res{nil, fmt.Errorf("read: %w", err)}
				return
			}
		} else {
			if _, err := io.ReadFull(conn, buf); err != nil {
				done <- res{nil, fmt.Errorf("read: %w", err)}
				return
			}
			if _, err := conn.Write(mine); err != nil {
				done <- res{buf, fmt.Errorf("write: %w", err)}
				return
			}
		}
		done <- res{buf, nil}
	}()
	select {
	case r := <-done:
		return r.b, r.err
	case <-time.After(25 * time.Second):
		conn.Close()
		r := <-done
		if r.err == nil {
			return r.b, nil
		}
		return r.b, fmt.Errorf("watchdog: %w", r.err)
	}
}

type verifC16HSResult struct {
	clientOK, serverOK bool
	clientErr, srvErr  string
	tagsOK             bool
	tagNote            string
}

// one handshake of the real Client/Server over net.Pipe
func verifC16PipeHandshake(cs, ss []byte, timeout time.Duration) verifC16HSResult {
	var r verifC16HSResult
	sp, cp := net.Pipe()
	ctx, cancel := context.WithTimeout(context.Background(), timeout)
	defer cancel()
	var wg sync.WaitGroup
	var sconn, cconn net.Conn
	var serr, cerr error
	wg.Add(2)
	go func() {
		defer wg.Done()
		sconn, serr = ServerWithContext(ctx, sp, &Config{PSK: ss, SCTP: ServerAccept})
	}()
	go func() {
		defer wg.Done()
		cconn, cerr = ClientWithContext(ctx, cp, &Config{PSK: cs, SCTP: ClientOpen})
	}()
	fin := make(chan struct{})
	go func() { wg.Wait(); close(fin) }()
	select {
	case <-fin:
	case <-time.After(timeout + 30*time.Second):
		sp.Close()
		cp.Close()
		<-fin
	}
	r.serverOK, r.clientOK = serr == nil && sconn != nil, cerr == nil && cconn != nil
	r.srvErr, r.clientErr = verifC16ErrString(serr), verifC16ErrString(cerr)
	if r.serverOK && r.clientOK {
		var wg2 sync.WaitGroup
		var fromC, fromS []byte
		var e1, e2 error
		wg2.Add(2)
		go func() { defer wg2.Done(); fromC, e1 = verifC16Exchange(sconn, ss, "s", 0) }()
		go func() { defer wg2.Done(); fromS, e2 = verifC16Exchange(cconn, cs, "c", 0) }()
		wg2.Wait()
		switch {
		case e1 != nil || e2 != nil:
			r.tagNote = fmt.Sprintf("exchange failed: %v / %v", e1, e2)
		case bytes.Equal(fromC, verifC16Tag(cs, "c", 0)) && bytes.Equal(fromS, verifC16Tag(ss, "s", 0)):
			r.tagsOK = true
		default:
			r.tagNote = "tags garbled"
		}
	}
	if sconn != nil {
		sconn.Close()
	}
	if cconn != nil {
		cconn.Close()
	}
	sp.Close()
	cp.Close()
	return r
}

func verifC16NoLog(*net.IP) {}

// one handshake of the real Dial against the real Listener over loopback UDP
func verifC16UDPHandshake(cs, ss []byte, timeout time.Duration) (verifC16HSResult, error) {
	var r verifC16HSResult
	l, err := Listen("udp", &net.UDPAddr{IP: net.IPv4(127, 0, 0, 1), Port: 0}, &Config{LogAuthFail: verifC16NoLog, LogOther: verifC16NoLog})
	if err != nil {
		return r, err
	}
	defer verifC16Retire(l)
	addr := l.Addr().(*net.UDPAddr)
	ctx, cancel := context.WithTimeout(context.Background(), timeout)
	defer cancel()
	var wg sync.WaitGroup
	var sconn, cconn net.Conn
	var serr, cerr error
	wg.Add(2)
	go func() {
		defer wg.Done()
		sconn, serr = l.AcceptWithContext(ctx, &Config{PSK: ss, SCTP: ServerAccept})
	}()
	go func() {
		defer wg.Done()
		id, _ := clientHelloRandomFromSeed(ss)
		verifC16WaitRegistered(l, id, 10*time.Second)
		cconn, cerr = DialWithContext(ctx, addr, &Config{PSK: cs, SCTP: ClientOpen})
		if cerr != nil {
			cancel() // the acceptor has nobody to wait for
		}
	}()
	wg.Wait()
	r.serverOK, r.clientOK = serr == nil && sconn != nil, cerr == nil && cconn != nil
	r.srvErr, r.clientErr = verifC16ErrString(serr), verifC16ErrString(cerr)
	if r.serverOK && r.clientOK {
		var wg2 sync.WaitGroup
		var fromC, fromS []byte
		var e1, e2 error
		wg2.Add(2)
		go func() { defer wg2.Done(); fromC, e1 = verifC16Exchange(sconn, ss, "s", 0) }()
		go func() { defer wg2.Done(); fromS, e2 = verifC16Exchange(cconn, cs, "c", 0) }()
		wg2.Wait()
		if e1 == nil && e2 == nil && bytes.Equal(fromC, verifC16Tag(cs, "c", 0)) && bytes.Equal(fromS, verifC16Tag(ss, "s", 0)) {
			r.tagsOK = true
		} else {
			r.tagNote = fmt.Sprintf("exchange: %v / %v", e1, e2)
		}
	}
	if sconn != nil {
		sconn.Close()
	}
	if cconn != nil {
		cconn.Close()
	}
	if n1, n2 := verifC16MapSizes(l); n1 != 0 || n2 != 0 {
		r.tagNote += fmt.Sprintf(" registrations-left=%d/%d", n1, n2)
	}
	return r, nil
}

// verifC16Retire is called instead of Listener.Close: the UDP listener of the vendored transport fork
// (mingyech/transport/v2 udp/conn.go) calls connWG.Add(1) in Accept after Close may already have brought the
// counter to zero ("sync: WaitGroup is reused before previous Wait has returned" – seen once while closing a
// listener right after a refused handshake).  Closing a listener is outside C16, so the drivers never close
// one while the process lives; a retired listener merely stays idle until the test binary exits.
var verifC16Retired struct {
	mu sync.Mutex
	ls []*Listener
}

func verifC16Retire(l *Listener) {
	verifC16Retired.mu.Lock()
	verifC16Retired.ls = append(verifC16Retired.ls, l)
	verifC16Retired.mu.Unlock()
}

func verifC16WaitRegistered(l *Listener, id verifC16ID, bound time.Duration) bool {
	deadline := time.Now().Add(bound)
	for {
		inMap, inCert := verifC16Registered(l, id)
		if inMap && inCert {
			return true
		}
		if time.Now().After(deadline) {
			return false
		}
		time.Sleep(200 * time.Microsecond)
	}
}

// verifC16WaitRegisteredOr is verifC16WaitRegistered that gives up when stop is closed.
func verifC16WaitRegisteredOr(l *Listener, id verifC16ID, bound time.Duration, stop <-chan struct{}) bool {
	deadline := time.Now().Add(bound)
	for {
		inMap, inCert := verifC16Registered(l, id)
		if inMap && inCert {
			return true
		}
		select {
		case <-stop:
			return false
		default:
		}
		if time.Now().After(deadline) {
			return false
		}
		time.Sleep(200 * time.Microsecond)
	}
}

func verifC16Registered(l *Listener, id verifC16ID) (inMap, inCert bool) {
	l.connMapMutex.Lock()
	_, inMap = l.connMap[id]
	l.connMapMutex.Unlock()
	l.connToCertMutex.Lock()
	_, inCert = l.connToCert[id]
	l.connToCertMutex.Unlock()
	return
}

func verifC16MapSizes(l *Listener) (int, int) {
	l.connMapMutex.Lock()
	n1 := len(l.connMap)
	l.connMapMutex.Unlock()
	l.connToCertMutex.Lock()
	n2 := len(l.connToCert)
	l.connToCertMutex.Unlock()
	return n1, n2
}

func verifC16RandSecret(rng *rand.Rand) []byte {
	s := make([]byte, 32)
	rng.Read(s)
	return s
}

func TestVerifC16Handshake(t *testing.T) {
	rec := kit.NewRec("C16", "handshake")
	defer rec.Close()
	rng := kit.Rand("c16handshake")

	type hsCase struct {
		transport string // pipe | udp
		relation  string // same | unrelated | <relative>
		cs, ss    []byte
	}
	var cases []hsCase
	nSame := kit.Tier(6, 60)
	for i := 0; i < nSame; i++ {
		s := verifC16RandSecret(rng)
		if i == 0 {
			s = []byte{} // the empty secret is a secret too
		}
		tr := "pipe"
		if i%3 == 2 {
			tr = "udp"
		}
		cases = append(cases, hsCase{tr, "same", s, append([]byte{}, s...)})
	}
	nDiff := kit.Tier(2, 12)
	for i := 0; i < nDiff; i++ {
		s := verifC16RandSecret(rng)
		for rel, s2 := range verifC16Relatives(s) {
			tr := "pipe"
			if rel == "last-bit-flipped" && i%2 == 0 {
				tr = "udp"
			}
			if rng.Intn(2) == 0 {
				cases = append(cases, hsCase{tr, rel, s, s2})
			} else {
				cases = append(cases, hsCase{tr, rel, s2, s})
			}
		}
		cases = append(cases, hsCase{"pipe", "unrelated", s, verifC16RandSecret(rng)})
	}

	run := func(c hsCase, timeout time.Duration) (verifC16HSResult, error) {
		if c.transport == "udp" {
			return verifC16UDPHandshake(c.cs, c.ss, timeout)
		}
		return verifC16PipeHandshake(c.cs, c.ss, timeout), nil
	}
	for _, c := range cases {
		desc := fmt.Sprintf("handshake %s secrets=%s client=%s server=%s", c.transport, c.relation, kit.HexN(c.cs, 6), kit.HexN(c.ss, 6))
		rec.Case(desc)
		if c.relation == "same" {
			r, err := run(c, 20*time.Second)
			if err == nil && !(r.clientOK && r.serverOK && r.tagsOK) {
				rec.Count("handshake_retries", 1)
				r, err = run(c, 40*time.Second) // one retry: a loaded machine may lose the race against the timers
			}
			if err != nil {
				rec.Inconclusive("handshake infrastructure failed", desc+": "+err.Error())
				continue
			}
			if !(r.clientOK && r.serverOK && r.tagsOK) {
				rec.Inconclusive("handshake with matching secrets did not complete (twice)", map[string]interface{}{"case": desc, "result": fmt.Sprintf("%+v", r)})
				continue
			}
			rec.Count("handshakes_completed", 1)
			rec.Distinct("nontrivial", desc)
		} else {
			r, err := run(c, 4*time.Second)
			if err != nil {
				rec.Inconclusive("handshake infrastructure failed", desc+": "+err.Error())
				continue
			}
			if r.clientOK || r.serverOK {
				rec.Violation("handshake:completed-with-different-secrets:"+c.relation, "a session was established although the two ends used different secrets",
					map[string]interface{}{"case": desc, "client_returned_conn": r.clientOK, "server_returned_conn": r.serverOK, "tags_exchanged": r.tagsOK})
			}
			rec.Count("handshakes_refused", 1)
			rec.Distinct("nontrivial", desc)
		}
		rec.Count("evaluations", 1)
		if rec.WantSample() {
			rec.Sample(map[string]interface{}{"case": desc})
		}
	}
}
