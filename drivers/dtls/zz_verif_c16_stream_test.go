//go:build verif

package dtls

// C16 (c) – the established connection is a lossless ordered byte stream whatever sizes reader and
// writer use; heartbeats never surface; an error surfaces only after the data that preceded it.
//
// Monitor: a scripted message stream feeds the REAL stacks
//     server: heartbeatServer(stream) -> newSCTPConn      (what acceptSCTP builds)
//     client: heartbeatClient(stream) -> newSCTPConn      (what openSCTP builds)
// and a reader with a scripted sequence of buffer sizes reads until the first error.  Oracle: the bytes
// returned are a prefix of the concatenation of the scripted non-heartbeat messages; they are ALL of
// it when the stream ended with an error (the error may not overtake data) or when the stream stalls.

import (
	"bytes"
	"errors"
	"fmt"
	"io"
	"runtime"
	"strings"
	"sync/atomic"
	"testing"
	"time"

	kit "github.com/refraction-networking/conjure/internal/verifkit"
)

type verifC16Msg struct {
	Kind    string // "d" data | "h" heartbeat
	Size    int
	Special string // "", "hb+x", "x+hb", "hb-1", "hbflip": contents derived from the heartbeat payload
}

func (m verifC16Msg) String() string {
	if m.Kind == "h" {
		return "h"
	}
	if m.Special != "" {
		return fmt.Sprintf("d%d(%s)", m.Size, m.Special)
	}
	return fmt.Sprintf("d%d", m.Size)
}

type verifC16StreamCase struct {
	Variant string // server | client
	Max     int    // max message size handed to heartbeatServer and newSCTPConn (the real code uses one value for both)
	Msgs    []verifC16Msg
	End     string // eof | err | data+err | stall
	EndSize int    // size of the data that comes with the error
	Reads   []int  // read buffer sizes, cycled
	Mode    string // eager | lazy | paced
}

func (c verifC16StreamCase) String() string {
	var ms []string
	for _, m := range c.Msgs {
		ms = append(ms, m.String())
	}
	msgs := strings.Join(ms, " ")
	if len(ms) > 24 {
		msgs = strings.Join(ms[:24], " ") + fmt.Sprintf(" …(%d msgs)", len(ms))
	}
	end := c.End
	if c.End == "data+err" {
		end = fmt.Sprintf("data+err(%d)", c.EndSize)
	}
	return fmt.Sprintf("%s max=%d msgs=[%s] end=%s reads=%v mode=%s", c.Variant, c.Max, msgs, end, c.Reads, c.Mode)
}

var errVerifC16Injected = errors.New("verif: injected stream failure")

var verifC16ShortHB = []byte{0xA5, 0x5A}

func verifC16HBFor(max int) []byte {
	switch {
	case max >= 64:
		return defaultConfig.Heartbeat
	case max >= 2:
		return verifC16ShortHB
	}
	return nil // no heartbeat fits
}

type verifC16Built struct {
	items []verifC16Item
	hb    []byte
}

// build turns the case into the stream script.  What the reader must receive is NOT predicted here: it is
// taken from what the scripted stream actually handed to the stack (verifC16Stream.Expected), so the
// oracle does not depend on guessing which buffer the stack offers for which message.
func (c verifC16StreamCase) build() verifC16Built {
	b := verifC16Built{hb: verifC16HBFor(c.Max)}
	off := 0
	for _, m := range c.Msgs {
		if m.Kind == "h" {
			b.items = append(b.items, verifC16Item{Kind: "hb", Data: b.hb})
			continue
		}
		data := make([]byte, m.Size)
		verifC16Pos(data, off)
		switch m.Special {
		case "hb+x":
			copy(data, b.hb)
		case "x+hb":
			if len(data) >= len(b.hb) {
				copy(data[len(data)-len(b.hb):], b.hb)
			}
		case "hb-1":
			copy(data, b.hb[:len(b.hb)-1])
		case "hbflip":
			copy(data, b.hb)
			data[len(data)-1] ^= 0x01
		}
		if bytes.Equal(data, b.hb) {
			data[0] ^= 0xFF
		}
		b.items = append(b.items, verifC16Item{Kind: "data", Data: data})
		off += m.Size
	}
	switch c.End {
	case "eof":
		b.items = append(b.items, verifC16Item{Kind: "err", Err: io.EOF})
	case "err":
		b.items = append(b.items, verifC16Item{Kind: "err", Err: errVerifC16Injected})
	case "data+err":
		data := make([]byte, c.EndSize)
		verifC16Pos(data, off)
		if bytes.Equal(data, b.hb) {
			data[0] ^= 0xFF
		}
		b.items = append(b.items, verifC16Item{Kind: "data+err", Data: data, Err: errVerifC16Injected})
	}
	return b
}

type verifC16ReadResult struct {
	got   []byte
	err   error
	reads int
	zero  int  // reads that returned (0, nil)
	quit  bool // the reader stopped because everything the stream will ever deliver has arrived
}

// verifC16Reader reads with the scripted buffer sizes until the first error; complete(n) tells it that the
// n bytes it has are all there will ever be (a stream that stalls instead of ending).
func verifC16Reader(r io.Reader, sizes []int, pauses []time.Duration, progress *atomic.Int64, complete func(n int) bool) verifC16ReadResult {
	var res verifC16ReadResult
	for i := 0; ; i++ {
		if complete(len(res.got)) {
			res.quit = true
			return res
		}
		if len(pauses) > 0 {
			if p := pauses[i%len(pauses)]; p > 0 {
				time.Sleep(p)
			} else {
				runtime.Gosched()
			}
		}
		buf := make([]byte, sizes[i%len(sizes)])
		n, err := r.Read(buf)
		res.reads++
		res.got = append(res.got, buf[:n]...)
		progress.Store(int64(len(res.got)))
		if err != nil {
			res.err = err
			return res
		}
		if n == 0 {
			res.zero++
			if res.zero > 100000 {
				res.err = errors.New("verif: reader gave up after 100000 empty reads")
				return res
			}
		}
	}
}

const verifC16StreamWatchdog = 25 * time.Second

// verifC16RunStream executes one case once and judges it.  It returns a short outcome word.
func verifC16RunStream(rec *kit.Rec, cs verifC16StreamCase, pauses []time.Duration) string {
	b := cs.build()
	st := newVerifC16Stream(b.items...)
	st.MaxDeclared = cs.Max
	nop := &verifC16NopConn{}
	t0 := time.Now()

	var conn *SCTPConn
	var hbs *hbConn
	switch cs.Variant {
	case "server":
		var cfg *heartbeatConfig // nil = the defaults acceptSCTP uses (30 s)
		if b.hb != nil && !bytes.Equal(b.hb, defaultConfig.Heartbeat) {
			cfg = &heartbeatConfig{Heartbeat: b.hb}
		}
		h, err := heartbeatServer(st, cfg, cs.Max)
		if err != nil {
			rec.Inconclusive("heartbeatServer failed", err.Error())
			return "setup"
		}
		hbs = h
		conn = newSCTPConn(h, nop, uint64(cs.Max))
	case "client":
		st.DiscardHB = defaultConfig.Heartbeat
		m, err := heartbeatClient(st, &heartbeatConfig{Interval: 10 * time.Second}) // as openSCTP
		if err != nil {
			rec.Inconclusive("heartbeatClient failed", err.Error())
			return "setup"
		}
		conn = newSCTPConn(m, nop, uint64(cs.Max))
	}
	defer conn.Close()

	if cs.Mode == "lazy" && hbs != nil {
		// a reader that is slower than the stream: start reading only when the receive loop has taken
		// everything the script holds (or filled its queue) and – if the stream ended – has closed.
		st.WaitState(3*time.Second, func(s verifC16StreamState) bool {
			return len(hbs.recvCh) == cap(hbs.recvCh) || verifC16ChanClosed(hbs.closed) || (s.Consumed == s.Total && cs.End == "stall")
		})
		if cs.End != "stall" {
			for i := 0; i < 2000 && !verifC16ChanClosed(hbs.closed) && len(hbs.recvCh) < cap(hbs.recvCh); i++ {
				time.Sleep(time.Millisecond)
			}
		} else {
			for i := 0; i < 20; i++ {
				runtime.Gosched()
			}
		}
	}

	var progress atomic.Int64
	var readerDone atomic.Bool
	// everything has arrived: the stream returned no error, the stack has taken the whole script, and the
	// reader holds as many bytes as the stack was given
	allArrived := func(n int) bool {
		s := st.State()
		return s.FirstErr == nil && s.Consumed == s.Total && n >= s.ExpLen
	}
	done := make(chan verifC16ReadResult, 1)
	go func() {
		r := verifC16Reader(conn, cs.Reads, pauses, &progress, allArrived)
		readerDone.Store(true)
		done <- r
	}()
	// bytes are missing for good: the stream returned no error, the stack's receive side sits in stream.Read
	// with the script exhausted, nothing is queued between it and the reader, and the reader has fewer bytes
	// than the stack was given.  (Held over three samples 50 ms apart before it counts.)
	missingForGood := func() bool {
		s := st.State()
		return s.FirstErr == nil && s.Consumed == s.Total && s.Parked && int(progress.Load()) < s.ExpLen && (hbs == nil || len(hbs.recvCh) == 0)
	}
	var stuck atomic.Bool
	// a reader blocked in Read after the last byte (e.g. trailing heartbeats consumed later) is released by closing
	go func() {
		for !readerDone.Load() {
			st.WaitState(verifC16StreamWatchdog+10*time.Second, func(verifC16StreamState) bool {
				return readerDone.Load() || allArrived(int(progress.Load())) || missingForGood()
			})
			if readerDone.Load() {
				return
			}
			if allArrived(int(progress.Load())) {
				conn.Close()
				return
			}
			if missingForGood() {
				p0 := progress.Load()
				still := true
				for i := 0; i < 3 && still; i++ {
					time.Sleep(50 * time.Millisecond)
					still = missingForGood() && progress.Load() == p0 && !readerDone.Load()
				}
				if still && hbs != nil {
					// the reader itself must be parked in hbConn.Read (not merely slow between two reads)
					parked := false
					for _, g := range kit.InFunc(kit.Stacks(), "pkg/dtls.(*hbConn).Read") {
						if g.Blocked() {
							parked = true
						}
					}
					still = parked && missingForGood() && progress.Load() == p0
				}
				if still {
					stuck.Store(true)
					conn.Close()
					return
				}
				continue
			}
			return
		}
	}()
	var res verifC16ReadResult
	timedOut := false
	select {
	case res = <-done:
	case <-time.After(verifC16StreamWatchdog):
		timedOut = true
	}
	elapsed := time.Since(t0)
	queued := 0
	if hbs != nil {
		queued = len(hbs.recvCh)
	}
	state := st.State()
	expected, hbAt := st.Expected()
	detail := func(extra map[string]interface{}) map[string]interface{} {
		d := map[string]interface{}{"case": cs.String(), "bytes_handed_to_stack": len(expected), "stream_error": verifC16ErrString(state.FirstErr),
			"script_items": state.Total, "items_taken_by_stack": state.Consumed, "elapsed_ms": elapsed.Milliseconds()}
		if hbs != nil {
			d["messages_still_queued_in_recvCh"] = queued
			d["hbConn_closed"] = verifC16ChanClosed(hbs.closed)
		}
		for k, v := range extra {
			d[k] = v
		}
		return d
	}
	if stuck.Load() {
		rec.Violation("stream:"+cs.Variant+":bytes-missing-without-error", "the stack consumed every scripted message and is idle, but the reader never received all their bytes (and no error)",
			detail(map[string]interface{}{"got_bytes": len(res.got), "reads": res.reads}))
		return "violation"
	}
	if timedOut {
		// the reader is blocked.  Judge only a stable state: the stack took the whole script and nothing moves.
		conn.Close()
		res = <-done
		readerDone.Store(true)
		if state.Consumed == state.Total && len(res.got) < len(expected) && state.FirstErr == nil && bytes.HasPrefix(expected, res.got) {
			rec.Violation("stream:"+cs.Variant+":bytes-missing-without-error", "the stack consumed every scripted message but the reader never received all their bytes (and no error)",
				detail(map[string]interface{}{"got_bytes": len(res.got), "reads": res.reads}))
			return "violation"
		}
		rec.Inconclusive("stream case hit the watchdog", detail(map[string]interface{}{"got_bytes": len(res.got)}))
		return "inconclusive"
	}
	if elapsed > 15*time.Second && cs.Variant == "server" {
		// the 30 s heartbeat interval could have cut the stream short on a badly overloaded machine
		rec.Inconclusive("stream case took too long to be judged", detail(nil))
		return "inconclusive"
	}
	if state.RefusedIn > 0 {
		rec.Violation("stream:"+cs.Variant+":message-within-max-size-refused", "the stack offered the stream a buffer smaller than the maximum message size: a legal message was discarded",
			detail(map[string]interface{}{"refused": state.RefusedIn}))
		return "violation"
	}

	got := res.got
	switch {
	case !bytes.HasPrefix(expected, got):
		d := verifC16FirstDiff(expected, got)
		sig := "stream:" + cs.Variant + ":bytes-differ"
		msg := "the bytes returned by Read are not a prefix of the concatenation of the peer's messages (loss inside the stream, duplication, reordering or foreign bytes)"
		if b.hb != nil && hbAt[d] && bytes.HasPrefix(got[d:], b.hb[:verifC16Min(len(b.hb), len(got)-d)]) {
			sig = "stream:" + cs.Variant + ":heartbeat-surfaced-as-data"
			msg = "a keep-alive heartbeat payload was returned to the reader as data"
		}
		rec.Violation(sig, msg, detail(map[string]interface{}{"got_bytes": len(got), "first_diff": d,
			"got_at_diff": kit.HexN(got[d:], 16), "want_at_diff": kit.HexN(expected[d:], 16), "err": verifC16ErrString(res.err)}))
		return "violation"
	case len(got) < len(expected):
		// the reader stops early only on an error: an error overtook data
		missing := len(expected) - len(got)
		ex := map[string]interface{}{"got_bytes": len(got), "missing_bytes": missing, "err": verifC16ErrString(res.err), "reads": res.reads}
		switch {
		case cs.Variant == "server" && queued > 0:
			rec.Violation("stream:server:close-overtook-queued-messages",
				"Read reported the end of the stream although messages received BEFORE the error were still queued (hbConn.Read: select between closed and recvCh)", detail(ex))
		case cs.Variant == "server" && state.TailLen > 0 && missing == state.TailLen:
			rec.Violation("stream:server:data-with-error-dropped",
				"the bytes the stream returned together with its error never reached the reader (hbConn.recvLoop discards n>0 when err!=nil)", detail(ex))
		case cs.Variant == "client" && state.TailLen > 0 && missing <= state.TailLen:
			rec.Violation("stream:client:data-with-error-lost", "SCTPConn.Read reported the stream error before all bytes that came with it", detail(ex))
		default:
			rec.Violation("stream:"+cs.Variant+":data-lost-before-error", "an error was reported before all data that preceded it in the stream", detail(ex))
		}
		return "violation"
	}
	if res.zero > 0 {
		rec.Count("empty_reads", res.zero)
	}
	rec.Count("bytes_compared", len(got))
	if state.RefusedLg > 0 {
		rec.Count("oversize_messages_refused", state.RefusedLg)
	}
	return "ok"
}

func verifC16Min(a, b int) int {
	if a < b {
		return a
	}
	return b
}

// nontrivial: at least two data messages reach the reader and at least one of: a heartbeat in the
// script, a terminal error, a read smaller than a message (so the partial-read path runs).
func (c verifC16StreamCase) nontrivial() bool {
	nd, small, hb := 0, false, false
	minRead := 1 << 30
	for _, r := range c.Reads {
		if r < minRead {
			minRead = r
		}
	}
	for _, m := range c.Msgs {
		if m.Kind == "h" {
			hb = true
			continue
		}
		if m.Size <= c.Max {
			nd++
			if m.Size > minRead {
				small = true
			}
		}
	}
	return nd >= 2 && (hb || small || c.End != "stall")
}

func verifC16Judge(rec *kit.Rec, cs verifC16StreamCase, reps int, pauses []time.Duration) {
	rec.CaseCheap(cs.String())
	for r := 0; r < reps; r++ {
		out := verifC16RunStream(rec, cs, pauses)
		rec.Count("runs", 1)
		rec.Count("runs_"+out, 1)
	}
	rec.Count("evaluations", 1)
	if cs.nontrivial() {
		rec.Distinct("nontrivial", cs.String())
	}
	rec.Distinct("shapes", cs.Variant, cs.End, cs.Mode, len(cs.Msgs) > 0)
	if rec.WantSample() && cs.nontrivial() && len(cs.Msgs) >= 3 && len(cs.Msgs) < 10 {
		rec.Sample(map[string]interface{}{"case": cs.String(), "repetitions": reps})
	}
}

// reps for a case: "messages then error" on the server stack is a race between the receive loop's
// close and the reader, so it is repeated; everything else is deterministic per schedule.
func verifC16Reps(cs verifC16StreamCase) int {
	if cs.Variant == "server" && cs.End != "stall" && cs.Mode == "lazy" {
		return 20
	}
	return 1
}

// ---- exhaustive small space ---------------------------------------------------------------------------

func TestVerifC16StreamSmall(t *testing.T) {
	rec := kit.NewRec("C16", "stream-small")
	defer rec.Close()
	const max = 3
	maxLen := kit.Tier(2, 4)
	alphabet := []verifC16Msg{{Kind: "d", Size: 1}, {Kind: "d", Size: 2}, {Kind: "d", Size: 3}, {Kind: "d", Size: 4}, {Kind: "h"}}
	readPats := [][]int{{1}, {2}, {3}, {4}, {1, 3}, {2, 1}, {7}}
	ends := []struct {
		e string
		n int
	}{{"eof", 0}, {"err", 0}, {"data+err", 1}, {"data+err", 3}, {"stall", 0}}
	var seqs [][]verifC16Msg
	var gen func(prefix []verifC16Msg, l int)
	gen = func(prefix []verifC16Msg, l int) {
		seqs = append(seqs, append([]verifC16Msg{}, prefix...))
		if l == maxLen {
			return
		}
		for _, a := range alphabet {
			gen(append(prefix, a), l+1)
		}
	}
	gen(nil, 0)
	n := 0
	for _, variant := range []string{"server", "client"} {
		for _, seq := range seqs {
			if variant == "client" {
				skip := false
				for _, m := range seq {
					if m.Kind == "h" {
						skip = true // the client side does not filter heartbeats (the station never sends any)
					}
				}
				if skip {
					continue
				}
			}
			for _, e := range ends {
				for _, rp := range readPats {
					modes := []string{"eager"}
					if variant == "server" {
						modes = []string{"lazy", "eager"}
					}
					for _, mode := range modes {
						cs := verifC16StreamCase{Variant: variant, Max: max, Msgs: seq, End: e.e, EndSize: e.n, Reads: rp, Mode: mode}
						verifC16Judge(rec, cs, verifC16Reps(cs), nil)
						n++
					}
				}
			}
		}
	}
	rec.Exhaustive(fmt.Sprintf("max message size 3: every message sequence of length 0..%d over {1,2,3,4(oversize) byte data, heartbeat} x 5 stream endings x 7 read-size patterns x both stacks (%d cases)", maxLen, n))
}

// ---- seeded exploration --------------------------------------------------------------------------------

func verifC16RandCase(rng interface {
	Intn(int) int
	Float64() float64
}) verifC16StreamCase {
	cs := verifC16StreamCase{}
	cs.Variant = []string{"server", "server", "client"}[rng.Intn(3)]
	cs.Max = []int{1, 2, 8, 64, 100, 1024, 65536}[rng.Intn(7)]
	hb := verifC16HBFor(cs.Max)
	k := rng.Intn(13)
	if rng.Intn(12) == 0 {
		k = 60 + rng.Intn(60) // more than the receive queue holds
	}
	if cs.Max == 65536 && k > 8 {
		k = 8
	}
	pickSize := func() int {
		switch rng.Intn(8) {
		case 0:
			return 1
		case 1:
			return cs.Max
		case 2:
			if cs.Max > 1 {
				return cs.Max - 1
			}
			return 1
		case 3:
			if cs.Max > 2 {
				return 2
			}
			return 1
		default:
			return 1 + rng.Intn(cs.Max)
		}
	}
	for i := 0; i < k; i++ {
		switch {
		case cs.Variant == "server" && hb != nil && rng.Intn(4) == 0:
			cs.Msgs = append(cs.Msgs, verifC16Msg{Kind: "h"})
			if rng.Intn(3) == 0 {
				cs.Msgs = append(cs.Msgs, verifC16Msg{Kind: "h"})
			}
		case hb != nil && rng.Intn(6) == 0:
			// contents related to the heartbeat payload, which are data all the same
			sp := []string{"hb+x", "x+hb", "hb-1", "hbflip"}[rng.Intn(4)]
			size := len(hb)
			switch sp {
			case "hb+x":
				size = len(hb) + 1 + rng.Intn(3)
			case "x+hb":
				size = len(hb) + 1 + rng.Intn(3)
			case "hb-1":
				size = len(hb) - 1
			}
			if size > cs.Max || size < 1 {
				cs.Msgs = append(cs.Msgs, verifC16Msg{Kind: "d", Size: pickSize()})
			} else {
				cs.Msgs = append(cs.Msgs, verifC16Msg{Kind: "d", Size: size, Special: sp})
			}
		case rng.Intn(40) == 0:
			cs.Msgs = append(cs.Msgs, verifC16Msg{Kind: "d", Size: cs.Max + 1 + rng.Intn(3)}) // beyond the maximum
		default:
			cs.Msgs = append(cs.Msgs, verifC16Msg{Kind: "d", Size: pickSize()})
		}
	}
	switch rng.Intn(6) {
	case 0, 1:
		cs.End = "eof"
	case 2:
		cs.End = "err"
	case 3:
		cs.End = "data+err"
		cs.EndSize = pickSize()
	default:
		cs.End = "stall"
	}
	nr := 1 + rng.Intn(4)
	for i := 0; i < nr; i++ {
		switch rng.Intn(7) {
		case 0:
			cs.Reads = append(cs.Reads, 1)
		case 1:
			cs.Reads = append(cs.Reads, cs.Max)
		case 2:
			cs.Reads = append(cs.Reads, cs.Max+1)
		case 3:
			cs.Reads = append(cs.Reads, 2*cs.Max+rng.Intn(5))
		case 4:
			if cs.Max > 1 {
				cs.Reads = append(cs.Reads, cs.Max-1)
			} else {
				cs.Reads = append(cs.Reads, 1)
			}
		default:
			cs.Reads = append(cs.Reads, 1+rng.Intn(2*cs.Max))
		}
	}
	cs.Mode = "eager"
	if cs.Variant == "server" {
		cs.Mode = []string{"lazy", "lazy", "eager", "paced"}[rng.Intn(4)]
	}
	{
		// keep the number of reads of a case bounded: no 1-byte reads over hundreds of kilobytes
		total := cs.EndSize
		for _, m := range cs.Msgs {
			total += m.Size
		}
		limit := 20000
		if cs.Mode == "paced" {
			limit = 1500
		}
		for i, r := range cs.Reads {
			if total/r > limit {
				cs.Reads[i] = total/limit + 1
			}
		}
	}
	return cs
}

func TestVerifC16StreamRandom(t *testing.T) {
	rec := kit.NewRec("C16", "stream-random")
	defer rec.Close()
	rng := kit.Rand("c16stream")
	n := kit.Tier(1200, 30000)
	for i := 0; i < n; i++ {
		cs := verifC16RandCase(rng)
		var pauses []time.Duration
		if cs.Mode == "paced" {
			for j := 0; j < 5; j++ {
				pauses = append(pauses, time.Duration(rng.Intn(3))*50*time.Microsecond)
			}
		}
		verifC16Judge(rec, cs, verifC16Reps(cs), pauses)
	}
}
