package dtls

// C16 – "each accepted connection is delivered to the caller waiting for that secret" must not depend on the
// listener's history.  Added after seeded change C16-N (a bound on concurrent handshakes whose slot is leaked by every
// refused handshake: after 16 refusals the accept loop never hands out another connection).
//
// Scenario "refused pile": on ONE real Listener over loopback UDP a genuine session is established (control), then k
// dialers with secrets nobody waits for are refused (in bursts, so that they overlap), then genuine sessions with
// fresh secrets are attempted again.  Verdict discipline: a genuine session that does not complete is retried with a
// longer timeout; it only counts against the listener if, at the same moment and under the same load, a FRESH
// listener (which has never refused anybody) completes a genuine session – otherwise the case is inconclusive.

import (
	"context"
	"fmt"
	"net"
	"sync"
	"testing"
	"time"

	kit "github.com/refraction-networking/conjure/internal/verifkit"
)

// one genuine Dial/AcceptWithContext pair on an existing listener, tags exchanged both ways
func verifC16SessionOn(l *Listener, secret []byte, timeout time.Duration) (ok bool, note string) {
	addr := l.Addr().(*net.UDPAddr)
	ctx, cancel := context.WithTimeout(context.Background(), timeout)
	defer cancel()
	var wg sync.WaitGroup
	var sconn, cconn net.Conn
	var serr, cerr error
	wg.Add(2)
	go func() {
		defer wg.Done()
		sconn, serr = l.AcceptWithContext(ctx, &Config{PSK: secret, SCTP: ServerAccept})
	}()
	go func() {
		defer wg.Done()
		id, _ := clientHelloRandomFromSeed(secret)
		verifC16WaitRegistered(l, id, 10*time.Second)
		cconn, cerr = DialWithContext(ctx, addr, &Config{PSK: secret, SCTP: ClientOpen})
		if cerr != nil {
			cancel()
		}
	}()
	wg.Wait()
	defer func() {
		if sconn != nil {
			sconn.Close()
		}
		if cconn != nil {
			cconn.Close()
		}
	}()
	if serr != nil || cerr != nil || sconn == nil || cconn == nil {
		return false, fmt.Sprintf("accept: %s / dial: %s", verifC16ErrString(serr), verifC16ErrString(cerr))
	}
	var wg2 sync.WaitGroup
	var fromC, fromS []byte
	var e1, e2 error
	wg2.Add(2)
	go func() { defer wg2.Done(); fromC, e1 = verifC16Exchange(sconn, secret, "s", 0) }()
	go func() { defer wg2.Done(); fromS, e2 = verifC16Exchange(cconn, secret, "c", 0) }()
	wg2.Wait()
	if e1 != nil || e2 != nil || string(fromC) != string(verifC16Tag(secret, "c", 0)) || string(fromS) != string(verifC16Tag(secret, "s", 0)) {
		return false, fmt.Sprintf("exchange: %v / %v", e1, e2)
	}
	return true, ""
}

func TestVerifC16ListenerRefusedPile(t *testing.T) {
	rec := kit.NewRec("C16", "refusedpile")
	defer rec.Close()
	rng := kit.Rand("c16refusedpile")

	newListener := func() (*Listener, error) {
		return Listen("udp", &net.UDPAddr{IP: net.IPv4(127, 0, 0, 1), Port: 0}, &Config{LogAuthFail: verifC16NoLog, LogOther: verifC16NoLog})
	}
	piles := []int{20, 40}
	if kit.Thorough() {
		piles = []int{17, 24, 40, 70, 130}
	}
	for pi, k := range piles {
		desc := fmt.Sprintf("refused-pile k=%d", k)
		rec.Case(desc)
		l, err := newListener()
		if err != nil {
			rec.Inconclusive("listen failed", err.Error())
			continue
		}
		// control: the listener works before anybody was refused
		ok, note := verifC16SessionOn(l, verifC16RandSecret(rng), 20*time.Second)
		if !ok {
			ok, note = verifC16SessionOn(l, verifC16RandSecret(rng), 40*time.Second)
		}
		if !ok {
			rec.Inconclusive("genuine session on a fresh listener did not complete (twice)", desc+": "+note)
			verifC16Retire(l)
			continue
		}
		// the pile: dialers whose secret nobody is waiting for, in overlapping bursts of 8
		refused, completed := 0, 0
		addr := l.Addr().(*net.UDPAddr)
		for done := 0; done < k; {
			burst := 8
			if k-done < burst {
				burst = k - done
			}
			var wg sync.WaitGroup
			var mu sync.Mutex
			for i := 0; i < burst; i++ {
				s := append([]byte("UNREGISTERED/"), verifC16RandSecret(rng)...)
				wg.Add(1)
				go func() {
					defer wg.Done()
					ctx, cancel := context.WithTimeout(context.Background(), 3*time.Second)
					defer cancel()
					c, err := DialWithContext(ctx, addr, &Config{PSK: s, SCTP: ClientOpen})
					mu.Lock()
					if err != nil || c == nil {
						refused++
					} else {
						completed++
						c.Close()
					}
					mu.Unlock()
				}()
			}
			wg.Wait()
			done += burst
		}
		rec.Count("refusedpile_unregistered_dials", k)
		if completed > 0 {
			rec.Violation("listener:unregistered-secret-completed", "a dialer whose secret no acceptor was waiting for completed a session",
				map[string]interface{}{"case": desc, "completed": completed})
		}
		// genuine sessions afterwards
		after := 3
		failedNotes := []string{}
		okAfter := 0
		for i := 0; i < after; i++ {
			s := verifC16RandSecret(rng)
			ok, note := verifC16SessionOn(l, s, 15*time.Second)
			if !ok {
				rec.Count("refusedpile_retries", 1)
				ok, note = verifC16SessionOn(l, verifC16RandSecret(rng), 30*time.Second)
			}
			if ok {
				okAfter++
			} else {
				failedNotes = append(failedNotes, note)
			}
		}
		if len(failedNotes) > 0 {
			// is it the machine or the listener?  a fresh listener, now, under the same load
			l2, err := newListener()
			freshOK, freshNote := false, ""
			if err == nil {
				freshOK, freshNote = verifC16SessionOn(l2, verifC16RandSecret(rng), 30*time.Second)
				verifC16Retire(l2)
			}
			// and once more on the old one, so that the two observations are adjacent in time
			againOK, againNote := verifC16SessionOn(l, verifC16RandSecret(rng), 30*time.Second)
			if freshOK && !againOK {
				rec.Violation("listener:genuine-session-undeliverable-after-refusals",
					"after a number of refused handshakes the listener no longer delivers genuine sessions to their acceptors (a fresh listener does, at the same moment)",
					map[string]interface{}{"case": desc, "refused_before": refused, "genuine_after_ok": okAfter, "genuine_after_failed": len(failedNotes), "errors": failedNotes, "again": againNote})
			} else {
				rec.Inconclusive("genuine sessions after the refused pile failed, but so did (or recovered like) the control", map[string]interface{}{"case": desc, "errors": failedNotes, "fresh_ok": freshOK, "fresh_note": freshNote, "again_ok": againOK})
			}
		}
		if n1, n2 := verifC16MapSizes(l); n1 != 0 || n2 != 0 {
			rec.Violation("listener:registrations-left-after-refused-pile", "acceptor registrations are left behind after all calls returned",
				map[string]interface{}{"case": desc, "connMap": n1, "connToCert": n2})
		}
		verifC16Retire(l)
		rec.Count("evaluations", 1+after)
		rec.Count("refusedpile_genuine_after_ok", okAfter)
		rec.Distinct("nontrivial", desc)
		if pi == 0 {
			rec.Sample(map[string]interface{}{"case": desc, "refused": refused, "genuine_sessions_after": okAfter})
		}
	}
}
