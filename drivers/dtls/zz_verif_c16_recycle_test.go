package dtls

// C16 (b3) – an AcceptWithContext for a secret NOBODY dials must never return a connection, whatever happened on the
// listener before.  Added after seeded change C16-O (the accept channel of a finished / cancelled accept is recycled;
// the handshake goroutine fetches the channel and sends on it without the lock, so a cancellation that lands between
// "handshake complete" and "connection handed over" leaves the connection of secret A in a channel that the next
// acceptor, for another secret B, inherits).
//
// Workload: on real Listeners over loopback UDP, per iteration a few concurrent sessions: AcceptWithContext(A) with a
// cancellable context, Dial(A) through a UDP relay that recognises the final flights of the DTLS handshake (the
// ChangeCipherSpec record is cleartext); the relay cancels Accept(A) at a swept offset around the moment the acceptor
// side of the handshake completes (directly after the server's final flight, or at the client's final flight plus the
// measured server processing time).  The dialers stay alive.  As soon as every Accept(A) has returned, an
// AcceptWithContext is issued for as many FRESH random secrets, with nobody dialing them.  Spinning goroutines keep the
// Ps busy so that the wake-up latency of the cancelled acceptor is that of a loaded station.
//
// Oracle (sound by construction, no timing in the verdict): Accept(fresh secret, no dialer) returning a connection is a
// violation; on a correct tree it can only return the context error.  An Accept(A) that won the race is just closed.

import (
	"context"
	"fmt"
	mrand "math/rand"
	"net"
	"runtime"
	"sort"
	"sync"
	"sync/atomic"
	"testing"
	"time"

	kit "github.com/refraction-networking/conjure/internal/verifkit"
)

// relay with a hook on the ChangeCipherSpec-carrying datagram of either direction
type verifC16CCSRelay struct {
	front, back *net.UDPConn
	mu          sync.Mutex
	client      *net.UDPAddr
	onC2S       func() // client's final flight is about to be forwarded
	onS2C       func() // server's final flight has been read from the listener
	c2sSeen     atomic.Bool
	s2cSeen     atomic.Bool
}

// verifC16HasCCS: does the datagram contain a DTLS record of content type 20 (change_cipher_spec)?
func verifC16HasCCS(d []byte) bool {
	for len(d) >= 13 {
		l := int(d[11])<<8 | int(d[12])
		if d[0] == 20 {
			return true
		}
		if 13+l > len(d) {
			return false
		}
		d = d[13+l:]
	}
	return false
}

func newVerifC16CCSRelay(target *net.UDPAddr, onC2S, onS2C func()) (*verifC16CCSRelay, error) {
	front, err := net.ListenUDP("udp", &net.UDPAddr{IP: net.IPv4(127, 0, 0, 1)})
	if err != nil {
		return nil, err
	}
	back, err := net.DialUDP("udp", nil, target)
	if err != nil {
		front.Close()
		return nil, err
	}
	r := &verifC16CCSRelay{front: front, back: back, onC2S: onC2S, onS2C: onS2C}
	go func() {
		buf := make([]byte, 65536)
		for {
			n, addr, err := front.ReadFromUDP(buf)
			if err != nil {
				return
			}
			r.mu.Lock()
			r.client = addr
			r.mu.Unlock()
			ccs := verifC16HasCCS(buf[:n])
			_, _ = back.Write(buf[:n])
			if ccs && r.c2sSeen.CompareAndSwap(false, true) && r.onC2S != nil {
				r.onC2S()
			}
		}
	}()
	go func() {
		buf := make([]byte, 65536)
		for {
			n, err := back.Read(buf)
			if err != nil {
				return
			}
			if verifC16HasCCS(buf[:n]) && r.s2cSeen.CompareAndSwap(false, true) && r.onS2C != nil {
				r.onS2C()
			}
			r.mu.Lock()
			addr := r.client
			r.mu.Unlock()
			if addr != nil {
				_, _ = front.WriteToUDP(buf[:n], addr)
			}
		}
	}()
	return r, nil
}

func (r *verifC16CCSRelay) close() { r.front.Close(); r.back.Close() }

type verifC16RecycleStats struct {
	mu                                                sync.Mutex
	trials, cancelledInTime, accWon, accOther, dialOK int
	fresh, freshConn, freshCtxErr, freshOtherErr      int
	proc                                              []time.Duration // c2s final flight -> s2c final flight, as seen by the relay
	witness                                           []map[string]interface{}
	otherErrs                                         map[string]int
}

func (s *verifC16RecycleStats) medianProc() time.Duration {
	s.mu.Lock()
	defer s.mu.Unlock()
	if len(s.proc) == 0 {
		return 0
	}
	p := append([]time.Duration(nil), s.proc...)
	if len(p) > 64 {
		p = p[len(p)-64:]
	}
	sort.Slice(p, func(i, j int) bool { return p[i] < p[j] })
	return p[len(p)/2]
}

// spin for d on this goroutine (precise, and keeps a P busy like a loaded station would)
func verifC16SpinUntil(t time.Time) {
	for time.Now().Before(t) {
	}
}

func verifC16RecycleLoop(li int, seed int64, until time.Time, stats *verifC16RecycleStats) (setupErr string) {
	rng := mrand.New(mrand.NewSource(seed))
	l, err := Listen("udp", &net.UDPAddr{IP: net.IPv4(127, 0, 0, 1), Port: 0}, &Config{LogAuthFail: verifC16NoLog, LogOther: verifC16NoLog})
	if err != nil {
		return "listen: " + err.Error()
	}
	defer verifC16Retire(l)
	addr := l.Addr().(*net.UDPAddr)
	for it := 0; time.Now().Before(until); it++ {
		n := 1 + rng.Intn(3)
		type sess struct {
			secret []byte
			mode   string
			d      time.Duration
			relay  *verifC16CCSRelay
			cancel context.CancelFunc
			accErr error
			accCon net.Conn
			dialer chan net.Conn
		}
		ss := make([]*sess, n)
		var accWG sync.WaitGroup
		dialCtx, dialCancel := context.WithTimeout(context.Background(), 4*time.Second)
		med := stats.medianProc()
		for i := range ss {
			s := &sess{secret: append([]byte(fmt.Sprintf("RECYCLE/%d/%d/%d/", li, it, i)), verifC16RandSecret(rng)...), dialer: make(chan net.Conn, 1)}
			ss[i] = s
			ctx, cancel := context.WithTimeout(context.Background(), 3*time.Second)
			s.cancel = cancel
			var tC2S atomic.Int64
			switch k := rng.Intn(10); {
			case med == 0 || k < 4:
				s.mode = "after-server-final-flight"
				s.d = time.Duration(rng.Intn(120)) * time.Microsecond
				if rng.Intn(3) == 0 {
					s.d = 0
				}
			case k < 9:
				s.mode = "client-final-flight+median"
				s.d = med + time.Duration(rng.Intn(500)-350)*time.Microsecond
				if s.d < 0 {
					s.d = 0
				}
			default:
				s.mode = "client-final-flight+sweep"
				s.d = time.Duration(rng.Int63n(int64(2*med + time.Millisecond)))
			}
			fire := func(d time.Duration) {
				if d == 0 {
					cancel()
					return
				}
				t := time.Now().Add(d)
				go func() { verifC16SpinUntil(t); cancel() }()
			}
			mode, d := s.mode, s.d
			onC2S := func() {
				tC2S.Store(time.Now().UnixNano())
				if mode != "after-server-final-flight" {
					fire(d)
				}
			}
			onS2C := func() {
				if mode == "after-server-final-flight" {
					fire(d)
				}
				if t0 := tC2S.Load(); t0 != 0 {
					p := time.Duration(time.Now().UnixNano() - t0)
					stats.mu.Lock()
					stats.proc = append(stats.proc, p)
					stats.mu.Unlock()
				}
			}
			s.relay, err = newVerifC16CCSRelay(addr, onC2S, onS2C)
			if err != nil {
				cancel()
				dialCancel()
				return "relay: " + err.Error()
			}
			accWG.Add(1)
			go func() {
				defer accWG.Done()
				s.accCon, s.accErr = l.AcceptWithContext(ctx, &Config{PSK: s.secret, SCTP: ServerAccept})
			}()
			go func() {
				id, _ := clientHelloRandomFromSeed(s.secret)
				verifC16WaitRegistered(l, id, 3*time.Second)
				c, _ := DialWithContext(dialCtx, s.relay.front.LocalAddr().(*net.UDPAddr), &Config{PSK: s.secret, SCTP: ClientOpen})
				s.dialer <- c
			}()
		}
		accWG.Wait()
		cancelled := 0
		for _, s := range ss {
			stats.mu.Lock()
			stats.trials++
			switch {
			case s.accCon != nil && s.accErr == nil:
				stats.accWon++
			case s.accErr == context.Canceled:
				stats.cancelledInTime++
				cancelled++
			default:
				stats.accOther++
			}
			stats.mu.Unlock()
		}
		// now: as many acceptors for fresh secrets that nobody will ever dial
		var fwg sync.WaitGroup
		for i := 0; i < n; i++ {
			fresh := append([]byte(fmt.Sprintf("FRESH-NOBODY-DIALS/%d/%d/%d/", li, it, i)), verifC16RandSecret(rng)...)
			fwg.Add(1)
			go func(i int, fresh []byte) {
				defer fwg.Done()
				ctx, cancel := context.WithTimeout(context.Background(), 250*time.Millisecond)
				defer cancel()
				t0 := time.Now()
				c, err := l.AcceptWithContext(ctx, &Config{PSK: fresh, SCTP: ServerAccept})
				took := time.Since(t0)
				stats.mu.Lock()
				defer stats.mu.Unlock()
				stats.fresh++
				switch {
				case c != nil && err == nil:
					stats.freshConn++
					modes := []string{}
					for _, s := range ss {
						modes = append(modes, fmt.Sprintf("%s d=%dus -> %s", s.mode, s.d.Microseconds(), verifC16ErrString(s.accErr)))
					}
					if len(stats.witness) < 5 {
						stats.witness = append(stats.witness, map[string]interface{}{"listener": li, "iteration": it, "fresh_secret_prefix": string(fresh[:24]),
							"returned_after_us": took.Microseconds(), "remote": c.RemoteAddr().String(), "preceding_sessions": modes, "median_server_processing_us": med.Microseconds()})
					}
					c.Close()
				case err == context.DeadlineExceeded:
					stats.freshCtxErr++
				default:
					stats.freshOtherErr++
					if stats.otherErrs == nil {
						stats.otherErrs = map[string]int{}
					}
					stats.otherErrs[verifC16ErrString(err)]++
				}
			}(i, fresh)
		}
		fwg.Wait()
		dialCancel()
		for _, s := range ss {
			s.cancel()
			if s.accCon != nil {
				s.accCon.Close()
			}
			select {
			case c := <-s.dialer:
				if c != nil {
					stats.mu.Lock()
					stats.dialOK++
					stats.mu.Unlock()
					c.Close()
				}
			case <-time.After(5 * time.Second):
			}
			s.relay.close()
		}
	}
	return ""
}

func TestVerifC16ListenerRecycled(t *testing.T) {
	rec := kit.NewRec("C16", "recycled")
	defer rec.Close()
	rng := kit.Rand("c16recycled")
	budget := time.Duration(kit.Tier(9, 60)) * time.Second
	loops := 12
	until := time.Now().Add(budget)
	stats := &verifC16RecycleStats{}

	// background load: keep some Ps busy so that a woken goroutine has to wait for a P
	stopSpin := make(chan struct{})
	var spinWG sync.WaitGroup
	spinners := runtime.GOMAXPROCS(0) / 2
	if spinners < 2 {
		spinners = 2
	}
	for i := 0; i < spinners; i++ {
		spinWG.Add(1)
		go func() {
			defer spinWG.Done()
			x := 0
			for {
				for j := 0; j < 1<<14; j++ {
					x += j
				}
				select {
				case <-stopSpin:
					_ = x
					return
				default:
				}
			}
		}()
	}
	var wg sync.WaitGroup
	errs := make([]string, loops)
	for li := 0; li < loops; li++ {
		wg.Add(1)
		seed := rng.Int63()
		go func(li int) {
			defer wg.Done()
			errs[li] = verifC16RecycleLoop(li, seed, until, stats)
		}(li)
	}
	wg.Wait()
	close(stopSpin)
	spinWG.Wait()

	for _, e := range errs {
		if e != "" {
			rec.Inconclusive("recycled-channel loop setup failed", e)
		}
	}
	stats.mu.Lock()
	defer stats.mu.Unlock()
	desc := fmt.Sprintf("accept for fresh undialed secrets after cancellations around handshake completion (%d listeners)", loops)
	rec.Case(desc)
	rec.Count("evaluations", stats.fresh)
	rec.Count("recycled_trials", stats.trials)
	rec.Count("recycled_accept_cancelled", stats.cancelledInTime)
	rec.Count("recycled_accept_won", stats.accWon)
	rec.Count("recycled_fresh_timed_out", stats.freshCtxErr)
	rec.Count("recycled_fresh_other_error", stats.freshOtherErr)
	summary := map[string]interface{}{"case": desc, "trials": stats.trials, "accept_cancelled": stats.cancelledInTime, "accept_won_race": stats.accWon, "accept_other": stats.accOther,
		"dialers_completed": stats.dialOK, "fresh_accepts": stats.fresh, "fresh_returned_conn": stats.freshConn, "fresh_timed_out": stats.freshCtxErr, "fresh_other_error": stats.freshOtherErr,
		"fresh_other_errors": stats.otherErrs, "handshake_processing_samples": len(stats.proc)}
	if stats.freshConn > 0 {
		summary["witnesses"] = stats.witness
		rec.Violation("listener:connection-delivered-to-wrong-acceptor:recycled",
			"AcceptWithContext for a fresh random secret that nobody dialed returned a connection (it belongs to an earlier, cancelled accept on the same listener)", summary)
	}
	// both outcomes of the race must have been exercised for the run to say anything
	if stats.cancelledInTime > 0 && stats.accWon > 0 {
		rec.Distinct("nontrivial", desc)
	} else {
		rec.Note(fmt.Sprintf("recycled: race outcomes one-sided (cancelled=%d won=%d)", stats.cancelledInTime, stats.accWon))
	}
	rec.Sample(summary)
}
