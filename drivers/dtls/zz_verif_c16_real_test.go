//go:build verif

package dtls

// C16 – thorough tier: real pion SCTP-over-DTLS sessions (Dial against the Listener over loopback UDP, or
// Client/Server over net.Pipe) with seeded write and read sizes in both directions at once, and the
// "write, wait for the acknowledgement, close" schedule against a slow reader.

import (
	"bytes"
	"context"
	"fmt"
	"math/rand"
	"net"
	"sync"
	"testing"
	"time"

	kit "github.com/refraction-networking/conjure/internal/verifkit"
)

type verifC16RealPair struct {
	c, s    net.Conn
	cleanup func()
}

func verifC16RealConnect(transport string, secret []byte) (*verifC16RealPair, error) {
	ctx, cancel := context.WithTimeout(context.Background(), 20*time.Second)
	defer cancel()
	var wg sync.WaitGroup
	var sconn, cconn net.Conn
	var serr, cerr error
	p := &verifC16RealPair{}
	if transport == "udp" {
		l, err := Listen("udp", &net.UDPAddr{IP: net.IPv4(127, 0, 0, 1), Port: 0}, &Config{LogAuthFail: verifC16NoLog, LogOther: verifC16NoLog})
		if err != nil {
			return nil, err
		}
		p.cleanup = func() { verifC16Retire(l) }
		wg.Add(2)
		go func() {
			defer wg.Done()
			sconn, serr = l.AcceptWithContext(ctx, &Config{PSK: secret, SCTP: ServerAccept})
		}()
		go func() {
			defer wg.Done()
			id, _ := clientHelloRandomFromSeed(secret)
			verifC16WaitRegistered(l, id, 10*time.Second)
			cconn, cerr = DialWithContext(ctx, l.Addr().(*net.UDPAddr), &Config{PSK: secret, SCTP: ClientOpen})
			if cerr != nil {
				cancel()
			}
		}()
	} else {
		sp, cp := net.Pipe()
		p.cleanup = func() { sp.Close(); cp.Close() }
		wg.Add(2)
		go func() {
			defer wg.Done()
			sconn, serr = ServerWithContext(ctx, sp, &Config{PSK: secret, SCTP: ServerAccept})
		}()
		go func() {
			defer wg.Done()
			cconn, cerr = ClientWithContext(ctx, cp, &Config{PSK: secret, SCTP: ClientOpen})
			if cerr != nil {
				cancel()
			}
		}()
	}
	wg.Wait()
	if serr != nil || cerr != nil || sconn == nil || cconn == nil {
		if sconn != nil {
			sconn.Close()
		}
		if cconn != nil {
			cconn.Close()
		}
		p.cleanup()
		return nil, fmt.Errorf("server: %v / client: %v", serr, cerr)
	}
	p.c, p.s = cconn, sconn
	return p, nil
}

type verifC16Xfer struct {
	mu       sync.Mutex
	sent     []byte // what Write accepted, in order
	refused  int    // oversize writes refused with n == 0
	got      []byte
	readErr  error
	writeErr string
	partial  string
}

// verifC16Transfer writes `total` bytes on w with the given sizes and reads them on r with the given read
// sizes.  It returns when everything written has been read, on the first read error, or on its watchdog;
// the reader goroutine stays parked in Read until the conns are closed by the caller.
func verifC16Transfer(w, r net.Conn, dir byte, total int, wsizes, rsizes []int, done *sync.WaitGroup, out *verifC16Xfer) {
	defer done.Done()
	wrote := make(chan int, 1)
	go func() {
		off := 0
		for i := 0; off < total; i++ {
			n := wsizes[i%len(wsizes)]
			if n <= 65536 && off+n > total {
				n = total - off
			}
			buf := make([]byte, n)
			verifC16Pos(buf, off)
			for j := range buf {
				buf[j] ^= dir
			}
			k, err := w.Write(buf)
			out.mu.Lock()
			switch {
			case err != nil && k == 0 && n > 65536:
				out.refused++ // beyond the maximum message size: refused as a whole, nothing of it may arrive
			case err != nil:
				out.writeErr = fmt.Sprintf("Write(%d) at offset %d = %d, %v", n, off, k, err)
				if k > 0 {
					out.sent = append(out.sent, buf[:k]...)
				}
				out.mu.Unlock()
				wrote <- off + k
				return
			case k != n:
				out.partial = fmt.Sprintf("Write(%d) = %d, nil", n, k)
				out.sent = append(out.sent, buf[:k]...)
				off += k
			default:
				out.sent = append(out.sent, buf...)
				off += n
			}
			out.mu.Unlock()
		}
		wrote <- off
	}()
	progress := make(chan struct{}, 1)
	go func() {
		for i := 0; ; i++ {
			buf := make([]byte, rsizes[i%len(rsizes)])
			n, err := r.Read(buf)
			out.mu.Lock()
			out.got = append(out.got, buf[:n]...)
			if err != nil && out.readErr == nil {
				out.readErr = err
			}
			out.mu.Unlock()
			select {
			case progress <- struct{}{}:
			default:
			}
			if err != nil {
				return
			}
		}
	}()
	want := -1
	deadline := time.After(120 * time.Second)
	for {
		out.mu.Lock()
		g, e := len(out.got), out.readErr
		out.mu.Unlock()
		if e != nil || (want >= 0 && g >= want) {
			return
		}
		select {
		case want = <-wrote:
		case <-progress:
		case <-deadline:
			out.mu.Lock()
			if out.readErr == nil {
				out.readErr = fmt.Errorf("verif: transfer watchdog")
			}
			out.mu.Unlock()
			return
		}
	}
}

func verifC16Sizes(rng *rand.Rand, n, max int, withOversize bool) []int {
	var out []int
	for i := 0; i < n; i++ {
		switch rng.Intn(10) {
		case 0:
			out = append(out, 1)
		case 1:
			out = append(out, max)
		case 2:
			out = append(out, max-1)
		case 3:
			if withOversize {
				out = append(out, 65537+rng.Intn(65536))
			} else {
				out = append(out, 1200)
			}
		case 4:
			out = append(out, 1+rng.Intn(64))
		default:
			out = append(out, 1+rng.Intn(max))
		}
	}
	return out
}

func TestVerifC16RealTransfer(t *testing.T) {
	rec := kit.NewRec("C16", "real-transfer")
	defer rec.Close()
	rng := kit.Rand("c16real")
	n := kit.Tier(2, 100)
	for i := 0; i < n; i++ {
		transport := []string{"udp", "pipe"}[i%2]
		total := []int{1, 70000, 300000, 1 << 20}[rng.Intn(4)]
		ws1, rs1 := verifC16Sizes(rng, 6, 65536, true), verifC16Sizes(rng, 5, 140000, false)
		ws2, rs2 := verifC16Sizes(rng, 6, 65536, true), verifC16Sizes(rng, 5, 140000, false)
		if total > 100000 {
			// no 1-byte reads or writes over a megabyte
			for _, x := range [][]int{ws1, rs1, ws2, rs2} {
				for j := range x {
					if x[j] < 200 {
						x[j] = 200 + x[j]
					}
				}
			}
		}
		desc := fmt.Sprintf("real %s total=%dB each way c2s writes=%v reads=%v s2c writes=%v reads=%v", transport, total, ws1, rs1, ws2, rs2)
		rec.Case(desc)
		p, err := verifC16RealConnect(transport, verifC16RandSecret(rng))
		if err != nil {
			p, err = verifC16RealConnect(transport, verifC16RandSecret(rng))
		}
		if err != nil {
			rec.Inconclusive("real session could not be established (twice)", desc+": "+err.Error())
			continue
		}
		var c2s, s2c verifC16Xfer
		var wg sync.WaitGroup
		wg.Add(2)
		go verifC16Transfer(p.c, p.s, 0x00, total, ws1, rs1, &wg, &c2s)
		go verifC16Transfer(p.s, p.c, 0x5A, total, ws2, rs2, &wg, &s2c)
		wg.Wait()
		// snapshot before the conns are closed (closing wakes the parked readers with an error)
		c2s.mu.Lock()
		s2c.mu.Lock()
		snap := []struct {
			dir string
			x   *verifC16Xfer
		}{{"c2s", &verifC16Xfer{sent: c2s.sent, got: c2s.got, refused: c2s.refused, readErr: c2s.readErr, writeErr: c2s.writeErr, partial: c2s.partial}},
			{"s2c", &verifC16Xfer{sent: s2c.sent, got: s2c.got, refused: s2c.refused, readErr: s2c.readErr, writeErr: s2c.writeErr, partial: s2c.partial}}}
		s2c.mu.Unlock()
		c2s.mu.Unlock()
		p.c.Close()
		p.s.Close()
		p.cleanup()
		for _, x := range snap {
			d := map[string]interface{}{"case": desc, "direction": x.dir, "sent": len(x.x.sent), "got": len(x.x.got), "read_err": verifC16ErrString(x.x.readErr), "write_err": x.x.writeErr, "oversize_refused": x.x.refused}
			switch {
			case x.x.partial != "":
				rec.Violation("real:short-write-without-error", "Write accepted fewer bytes than offered and returned no error", d)
			case !bytes.HasPrefix(x.x.sent, x.x.got):
				d["first_diff"] = verifC16FirstDiff(x.x.sent, x.x.got)
				rec.Violation("real:"+x.dir+":bytes-differ", "a real session delivered bytes that are not a prefix of what the peer wrote (loss, duplication, reordering, heartbeat surfaced, or a refused write that arrived)", d)
			case len(x.x.got) < len(x.x.sent) || x.x.writeErr != "":
				rec.Inconclusive("real transfer ended early (error or watchdog on a live session; not judged)", d)
			default:
				rec.Count("bytes_transferred", len(x.x.got))
				rec.Count("oversize_writes_refused", x.x.refused)
			}
		}
		rec.Count("evaluations", 1)
		rec.Distinct("nontrivial", desc)
		if rec.WantSample() {
			rec.Sample(map[string]interface{}{"case": desc, "c2s_bytes": len(snap[0].x.got), "s2c_bytes": len(snap[1].x.got)})
		}
	}
}

// The peer writes its last messages, waits until SCTP has acknowledged them (nothing buffered any more)
// and closes; the reader on the accepting side is slow.  Everything acknowledged was received before the
// close, so it must be readable before the error.
func TestVerifC16RealCloseAfterData(t *testing.T) {
	rec := kit.NewRec("C16", "real-close")
	defer rec.Close()
	rng := kit.Rand("c16realclose")
	n := kit.Tier(3, 60)
	for i := 0; i < n; i++ {
		transport := []string{"udp", "pipe"}[i%2]
		k := 1 + rng.Intn(8)
		var sizes []int
		tot := 0
		for j := 0; j < k; j++ {
			sz := []int{1, 100, 1200, 20000, 65536}[rng.Intn(5)]
			sizes = append(sizes, sz)
			tot += sz
		}
		desc := fmt.Sprintf("real-close %s client writes %v, waits for BufferedAmount()==0, closes; acceptor reads 300 ms later", transport, sizes)
		rec.Case(desc)
		p, err := verifC16RealConnect(transport, verifC16RandSecret(rng))
		if err != nil {
			p, err = verifC16RealConnect(transport, verifC16RandSecret(rng))
		}
		if err != nil {
			rec.Inconclusive("real session could not be established (twice)", desc+": "+err.Error())
			continue
		}
		var sent []byte
		werr := ""
		for _, sz := range sizes {
			buf := make([]byte, sz)
			verifC16Pos(buf, len(sent))
			if _, err := p.c.Write(buf); err != nil {
				werr = err.Error()
				break
			}
			sent = append(sent, buf...)
		}
		cs := p.c.(*SCTPConn)
		acked := false
		for j := 0; j < 20000; j++ {
			if cs.stream.BufferedAmount() == 0 {
				acked = true
				break
			}
			time.Sleep(time.Millisecond)
		}
		ss := p.s.(*SCTPConn)
		hbs, _ := ss.stream.(*hbConn)
		// let the accepting side's receive loop take the acknowledged messages out of the association
		for j := 0; j < 5000 && hbs != nil && len(hbs.recvCh) < verifC16Min(k, cap(hbs.recvCh)); j++ {
			time.Sleep(time.Millisecond)
		}
		queuedBefore := 0
		if hbs != nil {
			queuedBefore = len(hbs.recvCh)
		}
		p.c.Close()
		time.Sleep(300 * time.Millisecond)
		var got []byte
		var rerr error
		done := make(chan struct{})
		go func() {
			defer close(done)
			buf := make([]byte, 70000)
			for {
				n, err := p.s.Read(buf)
				got = append(got, buf[:n]...)
				if err != nil {
					rerr = err
					return
				}
				if len(got) >= len(sent) {
					return
				}
			}
		}()
		select {
		case <-done:
		case <-time.After(30 * time.Second):
			p.s.Close()
			<-done
		}
		queuedAfter := 0
		if hbs != nil {
			queuedAfter = len(hbs.recvCh)
		}
		p.s.Close()
		p.cleanup()
		d := map[string]interface{}{"case": desc, "sent": len(sent), "got": len(got), "read_err": verifC16ErrString(rerr), "acknowledged_before_close": acked,
			"messages_queued_before_close": queuedBefore, "messages_still_queued_after_error": queuedAfter, "write_err": werr}
		switch {
		case !bytes.HasPrefix(sent, got):
			rec.Violation("real:c2s:bytes-differ", "a real session delivered bytes that are not a prefix of what the peer wrote", d)
		case len(got) < len(sent) && rerr != nil && queuedAfter > 0:
			rec.Violation("stream:server:close-overtook-queued-messages",
				"Read reported the end of the stream although messages received BEFORE the error were still queued (hbConn.Read: select between closed and recvCh)", d)
		case len(got) < len(sent):
			rec.Inconclusive("real close-after-data: bytes missing but nothing left queued (cannot tell whether they had arrived)", d)
		default:
			rec.Count("bytes_transferred", len(got))
		}
		rec.Count("evaluations", 1)
		if k >= 2 {
			rec.Distinct("nontrivial", desc)
		}
		if rec.WantSample() {
			rec.Sample(d)
		}
	}
}
