package dtls

// C16 (e2) – heartbeat loss after a HEALTHY phase with several heartbeats per interval.
//
// Statement: "a peer that stops sending heartbeats causes the connection to close within the heartbeat timeout" –
// whatever the peer did before.  The real client sends a heartbeat every Interval/2 or faster (5 s against the
// acceptor's 30 s in the deployment), so the acceptor sees MORE THAN ONE heartbeat per interval for as long as the
// session is healthy.  Monitor (e) only ever delivered <= 4 heartbeats before the loss; an implementation in which
// heartbeats received earlier count as credit for later intervals stays inside (e)'s slack.  Added after seeded change
// C16-P (the watchdog decrements the counter instead of clearing it).
//
// Scenario: scripted msgStream, interval 100 ms; healthy phase of M intervals with K heartbeats each (evenly spaced,
// data interleaved); then the heartbeats stop while (data-only) ordinary data keeps flowing every 30 ms, (silence-nodeadline)
// nothing flows and the stream below ignores read deadlines, (silence-deadline) nothing flows at all.  Bound and retry
// discipline are those of monitor (e): 2 intervals + 5 s, a miss is re-run once with 10 s slack before it counts.  K*M is
// chosen so that "one interval of life per heartbeat ever received" exceeds the doubled-slack bound by a wide margin.
// Machine load can only delay the close by scheduling latency (covered by the slack, 50x / 100x nominal); a close that
// happens while heartbeats are still flowing (feeder starved) counts as closed and is not a nontrivial case.

import (
	"fmt"
	"strings"
	"sync"
	"testing"
	"time"

	kit "github.com/refraction-networking/conjure/internal/verifkit"
)

type verifC16HBCreditCase struct {
	Loss string // data-only | silence-nodeadline | silence-deadline
	K    int    // heartbeats per interval in the healthy phase
	M    int    // intervals of healthy phase
}

func (c verifC16HBCreditCase) String() string {
	return fmt.Sprintf("heartbeat-loss %s after healthy phase of %d intervals x %d heartbeats/interval interval=100ms", c.Loss, c.M, c.K)
}

type verifC16HBCreditResult struct {
	closed      bool
	after       time.Duration // since the last heartbeat was handed to the stack
	beats       int
	earlyClose  bool // closed while heartbeats were still flowing
	dataAfter   int  // data messages consumed by the stack after the loss
	note        string
	healthyTook time.Duration
}

func verifC16RunHBCredit(cs verifC16HBCreditCase, slack time.Duration) verifC16HBCreditResult {
	var r verifC16HBCreditResult
	st := newVerifC16Stream()
	// data-only: "data keeps flowing" means the next message always arrives before the read deadline; with a deadline-
	// honouring script a starved feeder (machine load) would close the conn by the read timeout and hide the watchdog
	st.HonorDeadline = cs.Loss == "silence-deadline"
	hb := defaultConfig.Heartbeat
	h, err := heartbeatServer(st, &heartbeatConfig{Interval: verifC16HBInterval}, 1024)
	if err != nil {
		r.closed, r.note = true, "setup: "+err.Error()
		return r
	}
	conn := newSCTPConn(h, &verifC16NopConn{}, 1024)
	defer conn.Close()
	readerErr := make(chan error, 1)
	go func() {
		buf := make([]byte, 2048)
		for {
			if _, err := conn.Read(buf); err != nil {
				readerErr <- err
				return
			}
		}
	}()
	off := 0
	data := func(n int) verifC16Item {
		d := make([]byte, n)
		verifC16Pos(d, off)
		off += n
		return verifC16Item{Kind: "data", Data: d}
	}
	start := time.Now()
	step := verifC16HBInterval / time.Duration(cs.K)
	total := cs.K * cs.M
	for i := 0; i < total; i++ {
		st.Feed(verifC16Item{Kind: "hb", Data: hb})
		if i%cs.K == 0 {
			st.Feed(data(1 + i%97))
		}
		// absolute schedule, so that oversleeping does not stretch the phase
		if d := time.Until(start.Add(time.Duration(i+1) * step)); d > 0 {
			time.Sleep(d)
		}
		if verifC16ChanClosed(h.closed) {
			r.earlyClose = true
			break
		}
	}
	r.healthyTook = time.Since(start)
	// every heartbeat fed must have been handed to the stack before the loss clock starts
	st.WaitState(2*time.Second, func(s verifC16StreamState) bool { return s.Consumed >= s.Total || s.Closed })
	lossAt := start
	if s := st.State(); !s.LastHB.IsZero() {
		lossAt = s.LastHB
	}
	consumedAtLoss := st.State().Consumed
	stopFeed := make(chan struct{})
	feedDone := make(chan struct{})
	go func() {
		defer close(feedDone)
		if cs.Loss != "data-only" {
			return
		}
		for i := 0; ; i++ {
			select {
			case <-stopFeed:
				return
			case <-time.After(30 * time.Millisecond):
			}
			st.Feed(data(1 + i%50))
		}
	}()
	bound := 2*verifC16HBInterval + slack
	if d := time.Until(lossAt.Add(bound)); d > 0 {
		tm := time.NewTimer(d)
		select {
		case <-h.closed:
		case <-tm.C:
		}
		tm.Stop()
	}
	r.after = time.Since(lossAt)
	r.closed = verifC16ChanClosed(h.closed)
	close(stopFeed)
	<-feedDone
	s := st.State()
	r.beats = s.HBSeen
	r.dataAfter = s.Consumed - consumedAtLoss
	if r.closed {
		select {
		case <-readerErr:
		case <-time.After(20 * time.Second):
			r.note = "reader-still-blocked"
		}
		if st.State().Closes == 0 {
			r.note += " stream-not-closed"
		}
		r.note = strings.TrimSpace(r.note)
	}
	return r
}

func TestVerifC16HeartbeatCredit(t *testing.T) {
	rec := kit.NewRec("C16", "heartbeatcredit")
	defer rec.Close()
	// K*M - M = intervals of accumulated "credit" if heartbeats were never forgotten; the doubled-slack bound is 102 intervals
	shapes := [][2]int{{30, 10}, {10, 30}, {3, 60}}
	if kit.Thorough() {
		shapes = append(shapes, [2]int{30, 40}, [2]int{10, 60}, [2]int{3, 150}, [2]int{2, 200})
	}
	var cases []verifC16HBCreditCase
	for _, sh := range shapes {
		for _, loss := range []string{"data-only", "silence-nodeadline", "silence-deadline"} {
			cases = append(cases, verifC16HBCreditCase{Loss: loss, K: sh[0], M: sh[1]})
		}
	}
	type result struct {
		cs    verifC16HBCreditCase
		r     verifC16HBCreditResult
		rerun bool
	}
	results := make([]result, len(cases))
	var wg sync.WaitGroup
	for i, cs := range cases {
		wg.Add(1)
		go func(i int, cs verifC16HBCreditCase) {
			defer wg.Done()
			r := verifC16RunHBCredit(cs, 5*time.Second)
			res := result{cs: cs, r: r}
			if !r.closed {
				// one re-run with doubled slack before a miss counts (discipline of monitor (e))
				res = result{cs: cs, r: verifC16RunHBCredit(cs, 10*time.Second), rerun: true}
			}
			results[i] = res
		}(i, cs)
	}
	wg.Wait()
	for _, x := range results {
		r := x.r
		rec.CaseCheap(x.cs.String())
		d := map[string]interface{}{"case": x.cs.String(), "closed": r.closed, "ms_after_last_heartbeat": r.after.Milliseconds(), "heartbeats_consumed": r.beats,
			"data_messages_consumed_after_loss": r.dataAfter, "healthy_phase_ms": r.healthyTook.Milliseconds(), "closed_during_healthy_phase": r.earlyClose, "rerun_with_doubled_slack": x.rerun}
		switch {
		case strings.HasPrefix(r.note, "setup"):
			rec.Inconclusive("heartbeat credit scenario setup failed", r.note)
		case !r.closed:
			rec.Violation("heartbeat:not-closed-after-loss:after-healthy-phase:"+x.cs.Loss,
				"after a healthy phase with several heartbeats per interval the peer stopped sending heartbeats, but the connection was not closed within 2 intervals + slack (twice, the second time with 10 s slack)", d)
		case strings.Contains(r.note, "reader-still-blocked"):
			rec.Violation("heartbeat:close-did-not-reach-reader", "the heartbeat watchdog closed the conn but a blocked Read never returned", d)
		case strings.Contains(r.note, "stream-not-closed"):
			rec.Violation("heartbeat:stream-left-open", "the heartbeat watchdog fired but the underlying stream was never closed", d)
		}
		rec.Count("evaluations", 1)
		if x.rerun {
			rec.Count("reruns", 1)
		}
		if r.earlyClose {
			rec.Count("heartbeatcredit_closed_during_healthy_phase", 1)
		} else if r.beats >= x.cs.K*x.cs.M {
			rec.Distinct("nontrivial", x.cs.String())
		}
		if rec.WantSample() && !r.earlyClose {
			rec.Sample(d)
		}
	}
}
