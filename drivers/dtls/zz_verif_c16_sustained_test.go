//go:build verif

package dtls

// C16 "sustained" – the established connection stays a lossless ordered byte stream while one end (or both)
// writes without a pause for several heartbeat timeouts, and the accepting end's watchdog stays armed.
//
// Sessions: (mock) an in-memory msgStream pair below the real heartbeatClient/heartbeatServer + SCTPConn, and
// (real) pion SCTP associations over net.Pipe and over UDP sockets with the stack assembled exactly as
// openSCTP/acceptSCTP do, only with the two heartbeat intervals scaled down (openSCTP/acceptSCTP hard-code 10 s /
// 30 s; heartbeatClient/heartbeatServer take them as configuration): opener Interval I = 400 ms (a heartbeat every
// 200 ms), accepting end's timeout T = 1200 ms.  Patterns: the SCTP opener writes continuously (gap 12 ms < I/8, varied
// sizes) for > 3 T while the acceptor reads; the acceptor writes while the opener reads; both write at once; bursts
// separated by pauses just below / above I/4 and I.  A tap at the opener's msgStream boundary logs every message that
// goes on the wire (time, heartbeat or data).
//
// Oracle: what a reader received is a prefix of what the peer wrote (a surfaced heartbeat would break it) and all
// of it at the end.  Verdict for a broken transfer: a reader got an error/EOF (or a writer a write error) before the
// transfer plan was complete AND the opener put at most one heartbeat on the wire during the accepting end's timeout
// before that moment although six were due – seen twice (the case is re-run once).  A break with heartbeats on the wire,
// a break that does not repeat, or a transfer that merely stalls is inconclusive: a slow machine is not a verdict.
// Control after every complete transfer: both ends go silent and the tap swallows the opener's heartbeats; the accepting
// end must close within 2 T + 15 s – the watchdog was armed all along.

import (
	"bytes"
	"errors"
	"fmt"
	"io"
	"net"
	"sync"
	"sync/atomic"
	"testing"
	"time"

	"github.com/pion/logging"
	"github.com/pion/sctp"
	kit "github.com/refraction-networking/conjure/internal/verifkit"
)

const (
	verifC16SusI = 400 * time.Millisecond  // opener's heartbeat Interval (a heartbeat every I/2)
	verifC16SusT = 1200 * time.Millisecond // accepting end's heartbeat timeout
	verifC16SusG = 12 * time.Millisecond   // gap between messages of a continuous writer (< I/8)
)

// ---- in-memory msgStream pair -------------------------------------------------------------------------------

type verifC16MockEnd struct {
	mu         sync.Mutex
	wake       chan struct{}
	inbox      [][]byte
	closed     bool
	peerClosed bool
	rdl        time.Time
	peer       *verifC16MockEnd
	buffered   uint64
	lowTh      uint64
	onLow      func()
}

func newVerifC16MockPair() (*verifC16MockEnd, *verifC16MockEnd) {
	a := &verifC16MockEnd{wake: make(chan struct{})}
	b := &verifC16MockEnd{wake: make(chan struct{})}
	a.peer, b.peer = b, a
	return a, b
}

func (e *verifC16MockEnd) bcastLocked() { close(e.wake); e.wake = make(chan struct{}) }

func (e *verifC16MockEnd) Read(b []byte) (int, error) {
	e.mu.Lock()
	for {
		if e.closed {
			e.mu.Unlock()
			return 0, errVerifC16StreamClosed
		}
		if len(e.inbox) > 0 {
			m := e.inbox[0]
			e.inbox = e.inbox[1:]
			e.mu.Unlock()
			e.peer.released(uint64(len(m)))
			if len(m) > len(b) {
				return 0, io.ErrShortBuffer
			}
			return copy(b, m), nil
		}
		if e.peerClosed {
			e.mu.Unlock()
			return 0, io.EOF
		}
		ch := e.wake
		var tc <-chan time.Time
		var tm *time.Timer
		if !e.rdl.IsZero() {
			d := time.Until(e.rdl)
			if d <= 0 {
				e.mu.Unlock()
				return 0, verifC16Timeout{}
			}
			tm = time.NewTimer(d)
			tc = tm.C
		}
		e.mu.Unlock()
		select {
		case <-ch:
		case <-tc:
		}
		if tm != nil {
			tm.Stop()
		}
		e.mu.Lock()
	}
}

func (e *verifC16MockEnd) Write(p []byte) (int, error) {
	e.mu.Lock()
	if e.closed {
		e.mu.Unlock()
		return 0, errVerifC16StreamClosed
	}
	if e.peerClosed {
		e.mu.Unlock()
		return 0, io.ErrClosedPipe
	}
	e.buffered += uint64(len(p))
	e.mu.Unlock()
	e.peer.mu.Lock()
	e.peer.inbox = append(e.peer.inbox, append([]byte(nil), p...))
	e.peer.bcastLocked()
	e.peer.mu.Unlock()
	return len(p), nil
}

func (e *verifC16MockEnd) released(n uint64) {
	e.mu.Lock()
	from := e.buffered
	if n > e.buffered {
		n = e.buffered
	}
	e.buffered -= n
	fire := e.onLow != nil && from > e.lowTh && e.buffered <= e.lowTh
	f := e.onLow
	e.mu.Unlock()
	if fire {
		f()
	}
}

func (e *verifC16MockEnd) Close() error {
	e.mu.Lock()
	already := e.closed
	e.closed = true
	e.bcastLocked()
	e.mu.Unlock()
	if !already {
		e.peer.mu.Lock()
		e.peer.peerClosed = true
		e.peer.bcastLocked()
		e.peer.mu.Unlock()
	}
	return nil
}

func (e *verifC16MockEnd) BufferedAmount() uint64 {
	e.mu.Lock()
	defer e.mu.Unlock()
	return e.buffered
}

func (e *verifC16MockEnd) SetReadDeadline(t time.Time) error {
	e.mu.Lock()
	e.rdl = t
	e.bcastLocked()
	e.mu.Unlock()
	return nil
}

func (e *verifC16MockEnd) SetBufferedAmountLowThreshold(th uint64) {
	e.mu.Lock()
	e.lowTh = th
	e.mu.Unlock()
}

func (e *verifC16MockEnd) OnBufferedAmountLow(f func()) {
	e.mu.Lock()
	e.onLow = f
	e.mu.Unlock()
}

// ---- wire tap at the opener's msgStream boundary ----------------------------------------------------------------

type verifC16WireEv struct {
	at time.Time
	hb bool
	n  int
}

type verifC16WireTap struct {
	msgStream
	hb       []byte
	mu       sync.Mutex
	log      []verifC16WireEv
	suppress atomic.Bool // swallow heartbeats: "the peer stopped sending them"
}

func (t *verifC16WireTap) Write(p []byte) (int, error) {
	isHB := bytes.Equal(p, t.hb)
	if isHB && t.suppress.Load() {
		return len(p), nil
	}
	n, err := t.msgStream.Write(p)
	if err == nil {
		t.mu.Lock()
		t.log = append(t.log, verifC16WireEv{time.Now(), isHB, len(p)})
		t.mu.Unlock()
	}
	return n, err
}

// window counts heartbeats and data messages put on the wire in (from, to].
func (t *verifC16WireTap) window(from, to time.Time) (hb, data int) {
	t.mu.Lock()
	defer t.mu.Unlock()
	for _, e := range t.log {
		if e.at.After(from) && !e.at.After(to) {
			if e.hb {
				hb++
			} else {
				data++
			}
		}
	}
	return
}

func (t *verifC16WireTap) maxDataGap(from, to time.Time) time.Duration {
	t.mu.Lock()
	defer t.mu.Unlock()
	var max time.Duration
	last := from
	for _, e := range t.log {
		if e.hb || e.at.Before(from) || e.at.After(to) {
			continue
		}
		if d := e.at.Sub(last); d > max {
			max = d
		}
		last = e.at
	}
	return max
}

// ---- session assembly ------------------------------------------------------------------------------------------------

type verifC16SusSession struct {
	opener, acceptor *SCTPConn
	tap              *verifC16WireTap
	hbs              *hbConn
	cleanup          func()
}

func verifC16SusMock() (*verifC16SusSession, error) {
	a, b := newVerifC16MockPair()
	tap := &verifC16WireTap{msgStream: a, hb: defaultConfig.Heartbeat}
	hc, err := heartbeatClient(tap, &heartbeatConfig{Interval: verifC16SusI})
	if err != nil {
		return nil, err
	}
	hs, err := heartbeatServer(b, &heartbeatConfig{Interval: verifC16SusT}, 65536)
	if err != nil {
		return nil, err
	}
	s := &verifC16SusSession{tap: tap, hbs: hs}
	s.opener = newSCTPConn(hc, &verifC16NopConn{}, 65536)
	s.acceptor = newSCTPConn(hs, &verifC16NopConn{}, 65536)
	s.cleanup = func() { s.opener.Close(); s.acceptor.Close() }
	return s, nil
}

// verifC16SusReal assembles, over a real pion SCTP association, what openSCTP / acceptSCTP assemble – with the
// heartbeat intervals passed as configuration instead of the hard-coded 10 s / default 30 s, and the tap in between.
func verifC16SusReal(transport string) (*verifC16SusSession, error) {
	var cNet, sNet net.Conn
	var closers []func()
	if transport == "pipe" {
		p1, p2 := net.Pipe()
		sNet, cNet = p1, p2
		closers = append(closers, func() { p1.Close(); p2.Close() })
	} else {
		lu, err := net.ListenUDP("udp", &net.UDPAddr{IP: net.IPv4(127, 0, 0, 1)})
		if err != nil {
			return nil, err
		}
		cu, err := net.DialUDP("udp", nil, lu.LocalAddr().(*net.UDPAddr))
		if err != nil {
			lu.Close()
			return nil, err
		}
		sNet, cNet = &verifC16UDPPeer{UDPConn: lu, raddr: cu.LocalAddr().(*net.UDPAddr)}, cu
		closers = append(closers, func() { lu.Close(); cu.Close() })
	}
	s := &verifC16SusSession{}
	type res struct {
		conn *SCTPConn
		hbs  *hbConn
		err  error
	}
	accCh := make(chan res, 1)
	go func() {
		a, err := sctp.Server(sctp.Config{NetConn: sNet, LoggerFactory: logging.NewDefaultLoggerFactory()})
		if err != nil {
			accCh <- res{err: err}
			return
		}
		st, err := a.AcceptStream()
		if err != nil {
			accCh <- res{err: err}
			return
		}
		st.SetReliabilityParams(false, sctp.ReliabilityTypeReliable, 0)
		hs, err := heartbeatServer(st, &heartbeatConfig{Interval: verifC16SusT}, int(a.MaxMessageSize()))
		if err != nil {
			accCh <- res{err: err}
			return
		}
		accCh <- res{conn: newSCTPConn(hs, sNet, uint64(a.MaxMessageSize())), hbs: hs}
	}()
	fail := func(err error) (*verifC16SusSession, error) {
		for _, c := range closers {
			c()
		}
		return nil, err
	}
	type cres struct {
		a   *sctp.Association
		err error
	}
	cCh := make(chan cres, 1)
	go func() {
		a, err := sctp.Client(sctp.Config{NetConn: cNet, LoggerFactory: logging.NewDefaultLoggerFactory()})
		cCh <- cres{a, err}
	}()
	var ca cres
	select {
	case ca = <-cCh:
	case <-time.After(20 * time.Second):
		return fail(errors.New("sctp client set-up timed out"))
	}
	if ca.err != nil {
		return fail(ca.err)
	}
	st, err := ca.a.OpenStream(0, sctp.PayloadTypeWebRTCString)
	if err != nil {
		return fail(err)
	}
	st.SetReliabilityParams(false, sctp.ReliabilityTypeReliable, 0)
	s.tap = &verifC16WireTap{msgStream: st, hb: defaultConfig.Heartbeat}
	hc, err := heartbeatClient(s.tap, &heartbeatConfig{Interval: verifC16SusI})
	if err != nil {
		return fail(err)
	}
	s.opener = newSCTPConn(hc, cNet, uint64(ca.a.MaxMessageSize()))
	select {
	case r := <-accCh:
		if r.err != nil {
			s.opener.Close()
			return fail(r.err)
		}
		s.acceptor, s.hbs = r.conn, r.hbs
	case <-time.After(20 * time.Second):
		s.opener.Close()
		return fail(errors.New("sctp accept timed out"))
	}
	s.cleanup = func() {
		s.opener.Close()
		s.acceptor.Close()
		for _, c := range closers {
			c()
		}
	}
	return s, nil
}

// ---- transfer plans ------------------------------------------------------------------------------------------------

type verifC16SusStep struct {
	size  int
	pause time.Duration // sleep after the write
}

// continuous: messages every G for at least 3.2 T
func verifC16PlanContinuous(salt int) []verifC16SusStep {
	n := int((verifC16SusT*32/10)/verifC16SusG) + 1
	sizes := []int{1, 100, 1200, 32, 4000, 7, 900, 33, 2500, 16000}
	var out []verifC16SusStep
	for i := 0; i < n; i++ {
		out = append(out, verifC16SusStep{sizes[(i*7+salt)%len(sizes)], verifC16SusG})
	}
	return out
}

// bursts of continuous writing (about I/2 long) separated by the given pause, for at least 3.2 T
func verifC16PlanBursts(pause time.Duration, salt int) []verifC16SusStep {
	perBurst := int((verifC16SusI / 2) / verifC16SusG)
	sizes := []int{1, 100, 1200, 32, 4000, 7, 900, 33}
	var out []verifC16SusStep
	var total time.Duration
	for i := 0; total < verifC16SusT*32/10; i++ {
		p := verifC16SusG
		if i%perBurst == perBurst-1 {
			p = pause
		}
		out = append(out, verifC16SusStep{sizes[(i*5+salt)%len(sizes)], p})
		total += p
	}
	return out
}

type verifC16SusDir struct {
	name     string
	w, r     *SCTPConn
	plan     []verifC16SusStep
	tag      byte
	mu       sync.Mutex
	sent     []byte
	got      []byte
	wErr     error
	rErr     error
	wDone    time.Time
	rErrAt   time.Time
	complete bool
	// abort ends the session once an end has reported an error: with real SCTP a writer whose peer has closed the
	// stream would otherwise sit in flow control until the harness watchdog
	abort func()
}

func (d *verifC16SusDir) total() int {
	n := 0
	for _, s := range d.plan {
		n += s.size
	}
	return n
}

func (d *verifC16SusDir) run(wg *sync.WaitGroup) {
	defer wg.Done()
	var inner sync.WaitGroup
	inner.Add(2)
	total := d.total()
	go func() { // writer
		defer inner.Done()
		off := 0
		for _, s := range d.plan {
			buf := make([]byte, s.size)
			verifC16Pos(buf, off)
			for j := range buf {
				buf[j] ^= d.tag
			}
			if bytes.Equal(buf, defaultConfig.Heartbeat) {
				buf[0] ^= 0xFF
			}
			n, err := d.w.Write(buf)
			d.mu.Lock()
			d.sent = append(d.sent, buf[:n]...)
			if err != nil {
				d.wErr = err
				d.wDone = time.Now()
				d.mu.Unlock()
				d.abort()
				return
			}
			d.mu.Unlock()
			off += n
			time.Sleep(s.pause)
		}
		d.mu.Lock()
		d.wDone = time.Now()
		d.mu.Unlock()
	}()
	go func() { // reader
		defer inner.Done()
		sizes := []int{700, 1, 65536, 3000, 17, 70000}
		for i := 0; ; i++ {
			d.mu.Lock()
			have := len(d.got)
			d.mu.Unlock()
			if have >= total {
				return
			}
			sz := sizes[i%len(sizes)]
			if sz == 1 && i%12 != 1 {
				sz = 512
			}
			buf := make([]byte, sz)
			n, err := d.r.Read(buf)
			d.mu.Lock()
			d.got = append(d.got, buf[:n]...)
			if err != nil {
				d.rErr = err
				d.rErrAt = time.Now()
				d.mu.Unlock()
				d.abort()
				return
			}
			d.mu.Unlock()
		}
	}()
	inner.Wait()
	d.mu.Lock()
	d.complete = d.wErr == nil && d.rErr == nil && len(d.got) >= total
	d.mu.Unlock()
}

// ---- one case --------------------------------------------------------------------------------------------------------

type verifC16SusCase struct {
	Stack   string // mock | real-pipe | real-udp
	Pattern string // opener-writes | acceptor-writes | both-write | bursts-pause-<x>
	Pause   time.Duration
}

func (c verifC16SusCase) variant() string { return c.Stack + ":" + c.Pattern }

type verifC16SusOutcome struct {
	kind   string // ok | broken-no-heartbeats | broken-other | differ | setup | stalled | control-miss
	detail map[string]interface{}
}

func verifC16RunSustained(cs verifC16SusCase, salt int) verifC16SusOutcome {
	out := verifC16SusOutcome{detail: map[string]interface{}{"case": cs.variant(), "opener_interval_ms": verifC16SusI.Milliseconds(), "acceptor_timeout_ms": verifC16SusT.Milliseconds()}}
	var s *verifC16SusSession
	var err error
	switch cs.Stack {
	case "mock":
		s, err = verifC16SusMock()
	case "real-pipe":
		s, err = verifC16SusReal("pipe")
	default:
		s, err = verifC16SusReal("udp")
	}
	if err != nil {
		out.kind = "setup"
		out.detail["setup"] = err.Error()
		return out
	}
	defer s.cleanup()
	var dirs []*verifC16SusDir
	plan := func(k int) []verifC16SusStep {
		if cs.Pause > 0 {
			return verifC16PlanBursts(cs.Pause, salt+k)
		}
		return verifC16PlanContinuous(salt + k)
	}
	switch cs.Pattern {
	case "acceptor-writes":
		dirs = append(dirs, &verifC16SusDir{name: "acceptor->opener", w: s.acceptor, r: s.opener, plan: plan(0), tag: 0x5A})
	case "both-write":
		dirs = append(dirs, &verifC16SusDir{name: "opener->acceptor", w: s.opener, r: s.acceptor, plan: plan(0)},
			&verifC16SusDir{name: "acceptor->opener", w: s.acceptor, r: s.opener, plan: plan(3), tag: 0x5A})
	default:
		dirs = append(dirs, &verifC16SusDir{name: "opener->acceptor", w: s.opener, r: s.acceptor, plan: plan(0)})
	}
	t0 := time.Now()
	var wg sync.WaitGroup
	var abortOnce sync.Once
	for _, d := range dirs {
		d.abort = func() { abortOnce.Do(func() { go s.cleanup() }) }
		wg.Add(1)
		go d.run(&wg)
	}
	fin := make(chan struct{})
	go func() { wg.Wait(); close(fin) }()
	stalled := false
	select {
	case <-fin:
	case <-time.After(verifC16SusT*4 + 40*time.Second):
		stalled = true
		s.cleanup()
		<-fin
	}
	t1 := time.Now()
	hbOnWire, dataOnWire := s.tap.window(t0, t1)
	bytesMoved := 0
	out.detail["duration_in_timeouts_x100"] = int(t1.Sub(t0) * 100 / verifC16SusT)
	out.detail["heartbeats_on_wire_during_transfer"] = hbOnWire
	out.detail["opener_data_messages_on_wire"] = dataOnWire
	if cs.Pattern != "acceptor-writes" {
		out.detail["max_gap_between_opener_data_messages_ms"] = s.tap.maxDataGap(t0, t1).Milliseconds()
	}
	allComplete := true
	var firstBreak time.Time
	for _, d := range dirs {
		d.mu.Lock()
		if !bytes.HasPrefix(d.sent, d.got) {
			out.kind = "differ"
			out.detail["direction"] = d.name
			out.detail["first_diff"] = verifC16FirstDiff(d.sent, d.got)
			out.detail["heartbeat_surfaced"] = bytes.Contains(d.got, defaultConfig.Heartbeat) && !bytes.Contains(d.sent, defaultConfig.Heartbeat)
		}
		bytesMoved += len(d.got)
		if !d.complete {
			allComplete = false
			out.detail[d.name] = fmt.Sprintf("got %d of %d planned bytes (peer wrote %d); read_err=%s write_err=%s", len(d.got), d.total(), len(d.sent), verifC16ErrString(d.rErr), verifC16ErrString(d.wErr))
			for _, at := range []time.Time{d.rErrAt, d.wDone} {
				if (d.rErr != nil || d.wErr != nil) && !at.IsZero() && (firstBreak.IsZero() || at.Before(firstBreak)) {
					firstBreak = at
				}
			}
		}
		d.mu.Unlock()
	}
	out.detail["bytes_transferred"] = bytesMoved
	if out.kind == "differ" {
		return out
	}
	if stalled && firstBreak.IsZero() {
		out.kind = "stalled"
		return out
	}
	if !allComplete {
		// an end reported an error / EOF before the plan was complete.  Were heartbeats on the wire while they were due?
		if firstBreak.IsZero() {
			firstBreak = t1
		}
		hb, data := s.tap.window(firstBreak.Add(-verifC16SusT), firstBreak)
		due := int(verifC16SusT / (verifC16SusI / 2))
		out.detail["heartbeats_on_wire_in_last_timeout_before_break"] = hb
		out.detail["heartbeats_due_in_that_window"] = due
		out.detail["opener_data_messages_in_that_window"] = data
		out.detail["break_after_ms"] = firstBreak.Sub(t0).Milliseconds()
		if s.hbs != nil {
			out.detail["acceptor_watchdog_closed"] = verifC16ChanClosed(s.hbs.closed)
		}
		if hb <= 1 && firstBreak.Sub(t0) >= verifC16SusT/2 {
			out.kind = "broken-no-heartbeats"
		} else {
			out.kind = "broken-other"
		}
		return out
	}
	// ---- control: silence + swallowed heartbeats => the accepting end must close ----
	s.tap.suppress.Store(true)
	tSup := time.Now()
	closed := false
	tm := time.NewTimer(2*verifC16SusT + 15*time.Second)
	select {
	case <-s.hbs.closed:
		closed = true
	case <-tm.C:
	}
	tm.Stop()
	out.detail["control_closed_after_ms"] = time.Since(tSup).Milliseconds()
	if !closed {
		out.kind = "control-miss"
		return out
	}
	out.kind = "ok"
	return out
}

func TestVerifC16Sustained(t *testing.T) {
	rec := kit.NewRec("C16", "sustained")
	defer rec.Close()
	q := verifC16SusI / 4
	pauses := []struct {
		name string
		d    time.Duration
	}{
		{"bursts-pause-below-quarter-interval", q - 15*time.Millisecond}, {"bursts-pause-above-quarter-interval", q + 20*time.Millisecond},
		{"bursts-pause-below-interval", verifC16SusI - 30*time.Millisecond}, {"bursts-pause-above-interval", verifC16SusI + 40*time.Millisecond},
	}
	var cases []verifC16SusCase
	for _, st := range []string{"mock", "real-pipe", "real-udp"} {
		for _, p := range []string{"opener-writes", "acceptor-writes", "both-write"} {
			cases = append(cases, verifC16SusCase{Stack: st, Pattern: p})
		}
		for i, p := range pauses {
			if st == "mock" || kit.Thorough() || (st == "real-pipe" && i%2 == 0) || (st == "real-udp" && i%2 == 1) {
				cases = append(cases, verifC16SusCase{Stack: st, Pattern: p.name, Pause: p.d})
			}
		}
	}
	rounds := kit.Tier(1, 3)
	type job struct {
		cs   verifC16SusCase
		salt int
	}
	var jobs []job
	for r := 0; r < rounds; r++ {
		for _, cs := range cases {
			jobs = append(jobs, job{cs, r*11 + int(kit.Seed()%7)})
		}
	}
	results := make([]verifC16SusOutcome, len(jobs))
	reruns := make([]bool, len(jobs))
	rec.Case(map[string]interface{}{"sustained_sessions_in_parallel": len(jobs)})
	var wg sync.WaitGroup
	sem := make(chan struct{}, 20)
	for i := range jobs {
		wg.Add(1)
		go func(i int) {
			defer wg.Done()
			sem <- struct{}{}
			defer func() { <-sem }()
			o := verifC16RunSustained(jobs[i].cs, jobs[i].salt)
			if o.kind != "ok" {
				// everything that is not a clean pass is run once more; only what repeats can become a verdict
				o2 := verifC16RunSustained(jobs[i].cs, jobs[i].salt)
				reruns[i] = true
				if o2.kind != o.kind {
					if o2.kind == "ok" {
						o2.detail["first_run"] = o.kind
						o2.kind = "ok-on-rerun"
					} else {
						o2.detail["first_run"] = o.kind
						o2.kind = "unstable"
					}
				}
				o = o2
			}
			results[i] = o
		}(i)
	}
	wg.Wait()
	for i, o := range results {
		v := jobs[i].cs.variant()
		rec.CaseCheap(v)
		o.detail["rerun"] = reruns[i]
		switch o.kind {
		case "ok":
			rec.Count("sessions_intact", 1)
			if n, _ := o.detail["bytes_transferred"].(int); n > 0 {
				rec.Count("bytes_transferred", n)
			}
			if n, _ := o.detail["heartbeats_on_wire_during_transfer"].(int); n > 0 {
				rec.Count("heartbeats_on_wire_during_transfers", n)
			}
			if n, _ := o.detail["duration_in_timeouts_x100"].(int); n >= 300 {
				rec.Distinct("nontrivial", v, jobs[i].salt)
			}
			rec.Count("controls_closed", 1)
		case "broken-no-heartbeats":
			rec.Violation("sustained:closed-mid-transfer-without-heartbeats:"+v,
				"a healthy session was cut while data was still being written: the accepting end's heartbeat watchdog fired because the opener put (almost) no heartbeat on the wire for a whole timeout although they were due (seen twice)", o.detail)
		case "differ":
			rec.Violation("sustained:bytes-differ:"+v, "during a sustained transfer a reader received bytes that are not a prefix of what the peer wrote (heartbeat surfaced, loss, duplication or reordering; seen twice)", o.detail)
		case "control-miss":
			rec.Violation("sustained:watchdog-not-armed-after-transfer:"+v, "after a sustained transfer both ends went silent and the heartbeats were swallowed, but the accepting end did not close within 2 timeouts + 15 s (seen twice)", o.detail)
		default:
			rec.Inconclusive("sustained session could not be judged ("+o.kind+")", o.detail)
		}
		rec.Count("evaluations", 1)
		if reruns[i] {
			rec.Count("reruns", 1)
		}
		if rec.WantSample() && o.kind == "ok" && i%3 == 0 {
			rec.Sample(o.detail)
		}
	}
}
