//go:build verif

package dtls

// C16 "intruder" – a handshake completes only when both ends used the same secret, and an accepted
// connection is delivered to the caller waiting for that secret and to no other – against peers that do NOT
// know the secret but know everything an on-path observer sees of a genuine session.
//
// Scene: one real Listener over loopback UDP and one secret S.  A genuine DialWithContext/AcceptWithContext
// session runs through a recording UDP relay; from the cleartext (epoch 0) records the harness takes the
// ClientHello random, the client's certificate and the server's certificate – public data only.
// Listener side: for every forgery kind an AcceptWithContext for S is pending (seen in the listener's maps), the
// intruder dials with pion's DTLS client directly (own key material, forged Certificate message, replayed or fresh
// ClientHello random); if its handshake completes it opens SCTP and sends an intruder tag.
// Dial side: the real ClientWithContext / DialWithContext for S talks to a DTLS server that does not know S and
// presents forged certificate lists built from its own key and the recorded server certificate.
//
// Violations: the Accept for S returns a connection whose first application bytes are the intruder's tag
// (intruder:accept-delivered-peer-without-secret:<kind>/<random>), the intruder's DTLS handshake completes
// (intruder:handshake-completed-without-secret:…), the dial for S returns a connection to the forged acceptor
// (intruder:dial-completed-with-acceptor-without-secret:<kind>).
// Control after every attempt: a genuine dialer with S must be accepted (on the same pending Accept when it is
// still pending, else on a fresh one) with tags both ways – otherwise the attempt is inconclusive, because nothing
// shows that the listener was really waiting.  Per forgery kind the monitor counts the attempts and how many got as
// far as the peer's certificate verification (fatal BadCertificate alert from the listener / certificate or
// signature error at the dialer); a kind of which none did is reported inconclusive.

import (
	"bytes"
	"context"
	"crypto"
	"crypto/ecdsa"
	"crypto/rand"
	"crypto/tls"
	"crypto/x509"
	"fmt"
	mrand "math/rand"
	"net"
	"regexp"
	"strings"
	"sync"
	"testing"
	"time"

	piondtls "github.com/pion/dtls/v2"
	"github.com/pion/dtls/v2/pkg/protocol/handshake"
	"github.com/pion/dtls/v2/pkg/protocol/recordlayer"
	kit "github.com/refraction-networking/conjure/internal/verifkit"
)

// ---- recording relay ---------------------------------------------------------------------------------------

type verifC16Tap struct {
	front *net.UDPConn
	back  *net.UDPConn

	mu     sync.Mutex
	client *net.UDPAddr
	c2s    [][]byte
	s2c    [][]byte
}

func newVerifC16Tap(target *net.UDPAddr) (*verifC16Tap, error) {
	front, err := net.ListenUDP("udp", &net.UDPAddr{IP: net.IPv4(127, 0, 0, 1)})
	if err != nil {
		return nil, err
	}
	back, err := net.DialUDP("udp", nil, target)
	if err != nil {
		front.Close()
		return nil, err
	}
	tap := &verifC16Tap{front: front, back: back}
	go func() {
		buf := make([]byte, 65536)
		for {
			n, addr, err := front.ReadFromUDP(buf)
			if err != nil {
				return
			}
			tap.mu.Lock()
			tap.client = addr
			tap.c2s = append(tap.c2s, append([]byte(nil), buf[:n]...))
			tap.mu.Unlock()
			_, _ = back.Write(buf[:n])
		}
	}()
	go func() {
		buf := make([]byte, 65536)
		for {
			n, err := back.Read(buf)
			if err != nil {
				return
			}
			tap.mu.Lock()
			addr := tap.client
			tap.s2c = append(tap.s2c, append([]byte(nil), buf[:n]...))
			tap.mu.Unlock()
			if addr != nil {
				_, _ = front.WriteToUDP(buf[:n], addr)
			}
		}
	}()
	return tap, nil
}

func (tap *verifC16Tap) close() {
	tap.front.Close()
	tap.back.Close()
}

// verifC16Cleartext walks the epoch-0 handshake records of one direction.
func verifC16Cleartext(datagrams [][]byte, f func(m handshake.Message)) {
	for _, d := range datagrams {
		records, err := recordlayer.UnpackDatagram(d)
		if err != nil {
			continue
		}
		for _, raw := range records {
			hdr := &recordlayer.Header{}
			if err := hdr.Unmarshal(raw); err != nil || hdr.Epoch != 0 {
				continue
			}
			rec := &recordlayer.RecordLayer{}
			if err := rec.Unmarshal(raw); err != nil {
				continue
			}
			if hs, ok := rec.Content.(*handshake.Handshake); ok {
				f(hs.Message)
			}
		}
	}
}

type verifC16Observed struct {
	random     [handshake.RandomBytesLength]byte
	clientCert []byte
	serverCert []byte
}

func (tap *verifC16Tap) observed() (verifC16Observed, bool) {
	tap.mu.Lock()
	defer tap.mu.Unlock()
	var o verifC16Observed
	haveRandom := false
	verifC16Cleartext(tap.c2s, func(m handshake.Message) {
		switch x := m.(type) {
		case *handshake.MessageClientHello:
			o.random = x.Random.RandomBytes
			haveRandom = true
		case *handshake.MessageCertificate:
			if len(x.Certificate) > 0 {
				o.clientCert = x.Certificate[0]
			}
		}
	})
	verifC16Cleartext(tap.s2c, func(m handshake.Message) {
		if x, ok := m.(*handshake.MessageCertificate); ok && len(x.Certificate) > 0 {
			o.serverCert = x.Certificate[0]
		}
	})
	return o, haveRandom && o.clientCert != nil && o.serverCert != nil
}

// ---- forgeries ---------------------------------------------------------------------------------------------------

type verifC16Forgery struct {
	Kind  string
	Chain [][]byte
	Key   crypto.PrivateKey
}

// verifC16Lookalike is a certificate for the intruder's own key that copies every visible field of the genuine one.
func verifC16Lookalike(genuineDER []byte, own *tls.Certificate) ([]byte, error) {
	g, err := x509.ParseCertificate(genuineDER)
	if err != nil {
		return nil, err
	}
	tpl := &x509.Certificate{
		SerialNumber: g.SerialNumber, Subject: g.Subject, DNSNames: g.DNSNames, NotBefore: g.NotBefore, NotAfter: g.NotAfter,
		KeyUsage: g.KeyUsage, ExtKeyUsage: g.ExtKeyUsage, BasicConstraintsValid: true, IsCA: g.IsCA, SignatureAlgorithm: x509.ECDSAWithSHA256,
	}
	key := own.PrivateKey.(*ecdsa.PrivateKey)
	return x509.CreateCertificate(rand.Reader, tpl, tpl, key.Public(), key)
}

// verifC16Forgeries builds the forged certificate lists around one genuine certificate (client's or server's);
// other is the certificate of the opposite role seen in the same session; role picks the wrong-secret certificate.
func verifC16Forgeries(genuine, other []byte, role string, rng *mrand.Rand) ([]verifC16Forgery, error) {
	own, err := randomCertificate()
	if err != nil {
		return nil, err
	}
	own2, err := randomCertificate()
	if err != nil {
		return nil, err
	}
	look, err := verifC16Lookalike(genuine, own)
	if err != nil {
		return nil, err
	}
	wrongC, wrongS, err := certsFromSeed(verifC16RandSecret(rng))
	if err != nil {
		return nil, err
	}
	wrong := wrongC
	if role == "server" {
		wrong = wrongS
	}
	o, o2 := own.Certificate[0], own2.Certificate[0]
	return []verifC16Forgery{
		{"own-alone", [][]byte{o}, own.PrivateKey},
		{"genuine-alone-without-key", [][]byte{genuine}, own.PrivateKey},
		{"own-then-genuine", [][]byte{o, genuine}, own.PrivateKey},
		{"genuine-then-own", [][]byte{genuine, o}, own.PrivateKey},
		{"wrong-secret-certificate", [][]byte{wrong.Certificate[0]}, wrong.PrivateKey},
		{"lookalike-subject-and-serial", [][]byte{look}, own.PrivateKey},
		{"lookalike-then-genuine", [][]byte{look, genuine}, own.PrivateKey},
		{"chain3-own-genuine-own2", [][]byte{o, genuine, o2}, own.PrivateKey},
		{"chain3-own-own2-genuine", [][]byte{o, o2, genuine}, own.PrivateKey},
		{"chain3-genuine-own-own2", [][]byte{genuine, o, o2}, own.PrivateKey},
		{"own-then-other-role-certificate", [][]byte{o, other}, own.PrivateKey},
		{"own-then-genuine-twice", [][]byte{o, genuine, genuine}, own.PrivateKey},
	}, nil
}

func verifC16IntruderSecret(kind string) []byte { return []byte("INTRUDER/" + kind) }

// ---- listener side -------------------------------------------------------------------------------------------

type verifC16AccRes struct {
	conn net.Conn
	err  error
	peer []byte // first application bytes (a tag), read by the accepting goroutine
	xerr error
}

type verifC16Scene struct {
	rec    *kit.Rec
	l      *Listener
	addr   *net.UDPAddr
	secret []byte
	id     verifC16ID
	obs    verifC16Observed
	desc   string
}

// pendingAccept starts AcceptWithContext for the scene's secret; the goroutine reads the first tag of whatever
// it is handed, answers with the acceptor's tag and keeps the conn open until release is closed.
func (sc *verifC16Scene) pendingAccept(timeout time.Duration) (res chan verifC16AccRes, release chan struct{}, cancel context.CancelFunc) {
	res = make(chan verifC16AccRes, 1)
	release = make(chan struct{})
	ctx, cancel := context.WithTimeout(context.Background(), timeout)
	go func() {
		conn, err := sc.l.AcceptWithContext(ctx, &Config{PSK: sc.secret, SCTP: ServerAccept})
		r := verifC16AccRes{conn: conn, err: err}
		if err == nil && conn != nil {
			r.peer, r.xerr = verifC16Exchange(conn, sc.secret, "s", 0)
		}
		res <- r
		if conn != nil {
			select {
			case <-release:
			case <-time.After(30 * time.Second):
			}
			conn.Close()
		}
	}()
	return res, release, cancel
}

var verifC16BadCert = regexp.MustCompile(`(?i)bad ?certificate`)

type verifC16Attempt struct {
	kind, random string
	reached      bool   // the listener got as far as judging the certificates
	hsErr        string // intruder's handshake error ("" = completed)
	violation    string
	control      string // "same-accept" | "fresh-accept" | "" (failed)
	note         string
}

func (sc *verifC16Scene) attempt(f verifC16Forgery, replay bool) verifC16Attempt {
	a := verifC16Attempt{kind: f.Kind, random: "replayed-random"}
	if !replay {
		a.random = "fresh-random"
	}
	res, release, cancel := sc.pendingAccept(40 * time.Second)
	defer cancel()
	defer close(release)
	if !verifC16WaitRegistered(sc.l, sc.id, 10*time.Second) {
		a.note = "accept never registered"
		return a
	}
	// ---- the intruder ----
	udp, err := net.DialUDP("udp", nil, sc.addr)
	if err != nil {
		a.note = "intruder socket: " + err.Error()
		return a
	}
	defer udp.Close()
	cfg := &piondtls.Config{
		Certificates:         []tls.Certificate{{Certificate: f.Chain, PrivateKey: f.Key}},
		ExtendedMasterSecret: piondtls.RequireExtendedMasterSecret,
		InsecureSkipVerify:   true,
	}
	if replay {
		r := sc.obs.random
		cfg.CustomClientHelloRandom = func() [handshake.RandomBytesLength]byte { return r }
	}
	hctx, hcancel := context.WithTimeout(context.Background(), 6*time.Second)
	rogue, hsErr := piondtls.ClientWithContext(hctx, udp, cfg)
	hcancel()
	itag := verifC16Tag(verifC16IntruderSecret(f.Kind), "c", 0)
	pending := true
	var got verifC16AccRes
	if hsErr == nil {
		a.reached = true
		go func() {
			s, err := openSCTP(rogue, false)
			if err != nil {
				rogue.Close()
				return
			}
			_, _ = verifC16Exchange(s, verifC16IntruderSecret(f.Kind), "c", 0)
			time.Sleep(200 * time.Millisecond)
			s.Close()
		}()
		a.violation = "intruder:handshake-completed-without-secret"
		select {
		case got = <-res:
			pending = false
			if got.err == nil && bytes.Equal(got.peer, itag) {
				a.violation = "intruder:accept-delivered-peer-without-secret"
			}
			a.note = fmt.Sprintf("accept returned err=%v first_bytes=%q", got.err, verifC16TagSecret(got.peer))
		case <-time.After(10 * time.Second):
			a.note = "intruder's DTLS handshake completed; the pending accept did not return within 10 s"
		}
	} else {
		a.hsErr = hsErr.Error()
		a.reached = verifC16BadCert.MatchString(a.hsErr)
		select {
		case got = <-res:
			pending = false
			a.note = fmt.Sprintf("pending accept ended during the refused attempt: err=%v", got.err)
			if got.err == nil && bytes.Equal(got.peer, itag) {
				a.violation = "intruder:accept-delivered-peer-without-secret"
			}
		default:
		}
	}
	// ---- control: a genuine dialer with the secret must be accepted ----
	for try := 0; try < 2 && a.control == ""; try++ {
		how := "same-accept"
		cres, crel := res, release
		if !pending {
			how = "fresh-accept"
			var ccancel context.CancelFunc
			cres, crel, ccancel = sc.pendingAccept(30 * time.Second)
			defer ccancel()
			defer close(crel)
			if !verifC16WaitRegistered(sc.l, sc.id, 10*time.Second) {
				continue
			}
		}
		_ = crel
		dctx, dcancel := context.WithTimeout(context.Background(), 12*time.Second)
		c, err := DialWithContext(dctx, sc.addr, &Config{PSK: sc.secret, SCTP: ClientOpen})
		dcancel()
		if err != nil {
			a.note += " | control dial: " + err.Error()
			// the pending accept may or may not have been consumed by the failed dial; look
			select {
			case <-cres:
				pending = false
			default:
				pending = pending && how == "same-accept"
			}
			continue
		}
		peer, xerr := verifC16Exchange(c, sc.secret, "c", 0)
		var r verifC16AccRes
		select {
		case r = <-cres:
		case <-time.After(15 * time.Second):
		}
		pending = false
		c.Close()
		if xerr == nil && bytes.Equal(peer, verifC16Tag(sc.secret, "s", 0)) && r.err == nil && bytes.Equal(r.peer, verifC16Tag(sc.secret, "c", 0)) {
			a.control = how
		} else {
			a.note += fmt.Sprintf(" | control exchange: %v / accept err=%v", xerr, r.err)
		}
	}
	return a
}

func verifC16NewScene(rec *kit.Rec, rng *mrand.Rand, idx int) (*verifC16Scene, error) {
	sc := &verifC16Scene{rec: rec, secret: verifC16RandSecret(rng)}
	sc.id, _ = clientHelloRandomFromSeed(sc.secret)
	l, err := Listen("udp", &net.UDPAddr{IP: net.IPv4(127, 0, 0, 1), Port: 0}, &Config{LogAuthFail: verifC16NoLog, LogOther: verifC16NoLog})
	if err != nil {
		return nil, err
	}
	verifC16Retire(l) // never closed, see verifC16Retire
	sc.l = l
	sc.addr = l.Addr().(*net.UDPAddr)
	sc.desc = fmt.Sprintf("scene %d secret=%s", idx, kit.HexN(sc.secret, 6))
	// the genuine session that the observer watches
	for try := 0; try < 2; try++ {
		tap, err := newVerifC16Tap(sc.addr)
		if err != nil {
			return nil, err
		}
		res, release, cancel := sc.pendingAccept(20 * time.Second)
		verifC16WaitRegistered(sc.l, sc.id, 10*time.Second)
		dctx, dcancel := context.WithTimeout(context.Background(), 12*time.Second)
		c, derr := DialWithContext(dctx, tap.front.LocalAddr().(*net.UDPAddr), &Config{PSK: sc.secret, SCTP: ClientOpen})
		dcancel()
		ok := false
		if derr == nil {
			_, xerr := verifC16Exchange(c, sc.secret, "c", 0)
			r := <-res
			ok = xerr == nil && r.err == nil
			c.Close()
		} else {
			cancel()
			<-res
		}
		close(release)
		cancel()
		obs, have := tap.observed()
		tap.close()
		if ok && have {
			sc.obs = obs
			return sc, nil
		}
	}
	return nil, fmt.Errorf("the genuine session could not be established or recorded (twice)")
}

type verifC16KindStat struct{ attempts, reached, controlled int }

func TestVerifC16ListenerIntruder(t *testing.T) {
	rec := kit.NewRec("C16", "intruder")
	defer rec.Close()
	rng := kit.Rand("c16intruder")
	scenes := kit.Tier(2, 10)
	stats := map[string]*verifC16KindStat{}
	var order []string
	for si := 0; si < scenes; si++ {
		sc, err := verifC16NewScene(rec, rng, si)
		if err != nil {
			rec.Inconclusive("intruder scene could not be set up", err.Error())
			continue
		}
		// what the observer took from the wire must be the real thing: the recorded certificate verifies against
		// the one derived from the secret (otherwise the scene proves nothing)
		cc, _, _ := certsFromSeed(sc.secret)
		if verifyCert(sc.obs.clientCert, cc.Certificate[0]) != nil || sc.obs.random != sc.id {
			rec.Inconclusive("recorded client certificate / random are not the genuine ones", sc.desc)
			continue
		}
		forgeries, err := verifC16Forgeries(sc.obs.clientCert, sc.obs.serverCert, "client", rng)
		if err != nil {
			rec.Inconclusive("forgeries could not be built", err.Error())
			continue
		}
		type plan struct {
			f      verifC16Forgery
			replay bool
		}
		var plans []plan
		for _, f := range forgeries {
			plans = append(plans, plan{f, true})
		}
		for _, f := range forgeries {
			switch f.Kind {
			case "own-then-genuine", "genuine-alone-without-key", "chain3-own-own2-genuine":
				plans = append(plans, plan{f, false})
			}
		}
		for _, p := range plans {
			key := p.f.Kind + "/replayed-random"
			if !p.replay {
				key = p.f.Kind + "/fresh-random"
			}
			desc := fmt.Sprintf("listener %s: pending Accept, intruder presents %s (%d certificates)", sc.desc, key, len(p.f.Chain))
			rec.Case(desc)
			a := sc.attempt(p.f, p.replay)
			st := stats[key]
			if st == nil {
				st = &verifC16KindStat{}
				stats[key] = st
				order = append(order, key)
			}
			st.attempts++
			if a.reached {
				st.reached++
			}
			d := map[string]interface{}{"case": desc, "intruder_handshake_error": a.hsErr, "reached_certificate_verification": a.reached, "control": a.control, "note": strings.TrimSpace(a.note)}
			switch {
			case a.violation != "":
				rec.Violation(a.violation+":"+key, "a peer that never had the secret (it only replayed what an on-path observer sees of a genuine session) completed the handshake / was handed to the caller accepting for that secret", d)
			case a.control == "":
				rec.Inconclusive("intruder attempt without a successful control (nothing shows the listener was waiting)", d)
			default:
				st.controlled++
				rec.Count("control_"+a.control, 1)
				if a.reached {
					rec.Distinct("nontrivial", "listener", si, key)
				}
			}
			rec.Count("evaluations", 1)
			rec.Count("listener_side_attempts", 1)
			if rec.WantSample() && a.reached && a.control != "" && len(p.f.Chain) > 1 {
				rec.Sample(d)
			}
		}
		if n1, n2 := verifC16MapSizes(sc.l); n1 != 0 || n2 != 0 {
			rec.Violation("accept:registrations-left-after-batch", "every AcceptWithContext call has returned but the listener still holds registrations", map[string]interface{}{"scene": sc.desc, "connMap": n1, "connToCert": n2})
		}
		// ---- dial side: the real client for S against an acceptor that does not know S ----
		verifC16DialSide(rec, sc, rng, si, stats, &order)
		// ---- ServerWithContext (no listener): the real server for S against a client that does not know S ----
		verifC16ServerSide(rec, sc, forgeries, si, stats, &order)
	}
	for _, k := range order {
		st := stats[k]
		rec.Count("attempts["+k+"]", st.attempts)
		rec.Count("reached_verification["+k+"]", st.reached)
		if st.reached == 0 {
			rec.Inconclusive("no attempt of this forgery kind got as far as the certificate verification", map[string]interface{}{"kind": k, "attempts": st.attempts})
		}
	}
}

// ---- dial side ---------------------------------------------------------------------------------------------------

var verifC16CertErr = regexp.MustCompile(`(?i)certificate|signature`)

func verifC16DialSide(rec *kit.Rec, sc *verifC16Scene, rng *mrand.Rand, si int, stats map[string]*verifC16KindStat, order *[]string) {
	forgeries, err := verifC16Forgeries(sc.obs.serverCert, sc.obs.clientCert, "server", rng)
	if err != nil {
		rec.Inconclusive("forgeries could not be built", err.Error())
		return
	}
	for fi, f := range forgeries {
		transport := "pipe"
		if f.Kind == "own-then-genuine" || fi%5 == 4 {
			transport = "udp"
		}
		key := "dial/" + f.Kind
		desc := fmt.Sprintf("dial side %s over %s: real client for the secret meets an acceptor without it presenting %s (%d certificates)", sc.desc, transport, f.Kind, len(f.Chain))
		rec.Case(desc)
		st := stats[key]
		if st == nil {
			st = &verifC16KindStat{}
			stats[key] = st
			*order = append(*order, key)
		}
		st.attempts++
		fakeCfg := &piondtls.Config{
			Certificates:            []tls.Certificate{{Certificate: f.Chain, PrivateKey: f.Key}},
			ExtendedMasterSecret:    piondtls.RequireExtendedMasterSecret,
			ClientAuth:              piondtls.RequireAnyClientCert,
			InsecureSkipVerifyHello: true,
		}
		var serverEnd, clientEnd net.Conn
		var dialAddr *net.UDPAddr
		var closers []func()
		if transport == "pipe" {
			sp, cp := net.Pipe()
			serverEnd, clientEnd = sp, cp
			closers = append(closers, func() { sp.Close(); cp.Close() })
		} else {
			lu, err := net.ListenUDP("udp", &net.UDPAddr{IP: net.IPv4(127, 0, 0, 1)})
			if err != nil {
				rec.Inconclusive("dial side socket", err.Error())
				continue
			}
			serverEnd = &verifC16UDPPeer{UDPConn: lu}
			dialAddr = lu.LocalAddr().(*net.UDPAddr)
			closers = append(closers, func() { lu.Close() })
		}
		ctx, cancel := context.WithTimeout(context.Background(), 6*time.Second)
		fakeDone := make(chan error, 1)
		go func() {
			fc, err := piondtls.ServerWithContext(ctx, serverEnd, fakeCfg)
			fakeDone <- err
			if err == nil {
				s, err := acceptSCTP(fc, false)
				if err != nil {
					fc.Close()
					return
				}
				_, _ = verifC16Exchange(s, verifC16IntruderSecret(f.Kind), "s", 0)
				time.Sleep(200 * time.Millisecond)
				s.Close()
			}
		}()
		var victim net.Conn
		var verr error
		if transport == "pipe" {
			victim, verr = ClientWithContext(ctx, clientEnd, &Config{PSK: sc.secret, SCTP: ClientOpen})
		} else {
			victim, verr = DialWithContext(ctx, dialAddr, &Config{PSK: sc.secret, SCTP: ClientOpen})
		}
		d := map[string]interface{}{"case": desc, "dial_error": verifC16ErrString(verr)}
		reached := false
		if verr == nil && victim != nil {
			reached = true
			peer, _ := verifC16Exchange(victim, sc.secret, "c", 0)
			d["first_bytes_from_peer"] = verifC16TagSecret(peer)
			rec.Violation("intruder:dial-completed-with-acceptor-without-secret:"+f.Kind,
				"the dial for the secret returned an established connection although the accepting end never had the secret (it presented a forged certificate list built from the recorded server certificate)", d)
			victim.Close()
		} else {
			reached = verifC16CertErr.MatchString(verr.Error())
		}
		cancel()
		for _, c := range closers {
			c()
		}
		select {
		case <-fakeDone:
		case <-time.After(10 * time.Second):
		}
		if reached {
			st.reached++
			rec.Distinct("nontrivial", "dial", si, key)
		}
		d["reached_certificate_verification"] = reached
		rec.Count("evaluations", 1)
		rec.Count("dial_side_attempts", 1)
		if rec.WantSample() && reached && len(f.Chain) > 1 && fi%4 == 2 {
			rec.Sample(d)
		}
	}
	// control: the same client configuration against an acceptor that has the secret
	r := verifC16PipeHandshake(sc.secret, sc.secret, 20*time.Second)
	if !(r.clientOK && r.serverOK && r.tagsOK) {
		r = verifC16PipeHandshake(sc.secret, sc.secret, 40*time.Second)
	}
	if r.clientOK && r.serverOK && r.tagsOK {
		rec.Count("dial_side_controls_ok", 1)
	} else {
		rec.Inconclusive("dial-side control handshake with the genuine secret did not complete (twice)", fmt.Sprintf("%s: %+v", sc.desc, r))
	}
}

// ---- ServerWithContext side ------------------------------------------------------------------------------------------

func verifC16ServerSide(rec *kit.Rec, sc *verifC16Scene, forgeries []verifC16Forgery, si int, stats map[string]*verifC16KindStat, order *[]string) {
	for _, f := range forgeries {
		key := "server/" + f.Kind
		desc := fmt.Sprintf("server side %s over pipe: real ServerWithContext for the secret meets a client without it presenting %s (%d certificates)", sc.desc, f.Kind, len(f.Chain))
		rec.Case(desc)
		st := stats[key]
		if st == nil {
			st = &verifC16KindStat{}
			stats[key] = st
			*order = append(*order, key)
		}
		st.attempts++
		sp, cp := net.Pipe()
		ctx, cancel := context.WithTimeout(context.Background(), 6*time.Second)
		type hs struct {
			conn net.Conn
			err  error
		}
		victimDone := make(chan hs, 1)
		go func() {
			c, err := ServerWithContext(ctx, sp, &Config{PSK: sc.secret, SCTP: ServerAccept})
			victimDone <- hs{c, err}
		}()
		rogue, hsErr := piondtls.ClientWithContext(ctx, cp, &piondtls.Config{
			Certificates:         []tls.Certificate{{Certificate: f.Chain, PrivateKey: f.Key}},
			ExtendedMasterSecret: piondtls.RequireExtendedMasterSecret,
			InsecureSkipVerify:   true,
		})
		reached := false
		d := map[string]interface{}{"case": desc}
		if hsErr == nil {
			reached = true
			go func() {
				s, err := openSCTP(rogue, false)
				if err != nil {
					rogue.Close()
					return
				}
				_, _ = verifC16Exchange(s, verifC16IntruderSecret(f.Kind), "c", 0)
				time.Sleep(200 * time.Millisecond)
				s.Close()
			}()
		} else {
			d["intruder_handshake_error"] = hsErr.Error()
			reached = verifC16BadCert.MatchString(hsErr.Error())
		}
		var v hs
		select {
		case v = <-victimDone:
		case <-time.After(20 * time.Second):
			v.err = fmt.Errorf("verif: server did not return")
		}
		if v.err == nil && v.conn != nil {
			peer, _ := verifC16Exchange(v.conn, sc.secret, "s", 0)
			d["first_bytes_from_peer"] = verifC16TagSecret(peer)
			rec.Violation("intruder:server-completed-with-client-without-secret:"+f.Kind,
				"ServerWithContext for the secret returned an established connection although the client never had the secret", d)
			v.conn.Close()
		} else if hsErr == nil {
			rec.Violation("intruder:handshake-completed-without-secret:server/"+f.Kind,
				"the DTLS handshake of a client that never had the secret completed against ServerWithContext", d)
		}
		cancel()
		sp.Close()
		cp.Close()
		if reached {
			st.reached++
			rec.Distinct("nontrivial", "server", si, key)
		}
		rec.Count("evaluations", 1)
		rec.Count("server_side_attempts", 1)
	}
}
