//go:build verif

package dtls

// C16 (d) – a writer that outpaces the network is held back so that buffered data stays bounded, and a
// writer blocked by flow control is released when the conn is closed.
// C16 (e) – a peer that stops sending heartbeats causes the connection to close within the timeout.
//
// Both drive the real SCTPConn / hbConn over the scripted stream of zz_verif_c16_kit_test.go.

import (
	"fmt"
	"math/rand"
	"runtime"
	"strings"
	"sync"
	"sync/atomic"
	"testing"
	"time"

	kit "github.com/refraction-networking/conjure/internal/verifkit"
)

// the bound the algorithm guarantees (derivation in NOTES_c16.md): a write that does not wait satisfies
// buffered+len <= writeMax; a write that waits is released by a token; the token was produced by a
// downward crossing of writeMax/2 and every write since that crossing was a non-waiting one (a waiting
// one would have consumed the token), so buffered <= writeMax when the token is consumed, and
// len <= writeMax/2 is enforced up front.
const verifC16FlowBound = writeMaxBufferedAmount + writeMaxBufferedAmount/2

type verifC16FlowMon struct {
	mu       sync.Mutex
	lastBA   uint64
	haveBA   bool
	waits    int
	over     int
	worst    uint64
	worstLen uint64
}

// attach wires the monitor into the scripted stream: it sees the buffered amount the conn was told and
// the write that follows (both under the conn's write mutex, so they pair up).
func (m *verifC16FlowMon) attach(st *verifC16Stream) {
	st.OnWrite = func(before, n uint64) {
		m.mu.Lock()
		defer m.mu.Unlock()
		if before+n > verifC16FlowBound {
			m.over++
			if before+n > m.worst {
				m.worst, m.worstLen = before+n, n
			}
		}
	}
}

func verifC16Stack(variant string, st *verifC16Stream, nop *verifC16NopConn, max int) (*SCTPConn, error) {
	switch variant {
	case "server":
		h, err := heartbeatServer(st, nil, max)
		if err != nil {
			return nil, err
		}
		return newSCTPConn(h, nop, uint64(max)), nil
	default:
		st.DiscardHB = defaultConfig.Heartbeat
		m, err := heartbeatClient(st, &heartbeatConfig{Interval: 10 * time.Second})
		if err != nil {
			return nil, err
		}
		return newSCTPConn(m, nop, uint64(max)), nil
	}
}

func verifC16InWrite() []kit.Goroutine {
	var out []kit.Goroutine
	for _, g := range kit.InFunc(kit.Stacks(), "pkg/dtls.(*SCTPConn).Write") {
		out = append(out, g)
	}
	return out
}

// ---- scenario: free-running writers against a slow, bursty network --------------------------------------

type verifC16FlowCase struct {
	Variant string
	Writers int
	Sizes   [][]int // per writer
	Drains  []int   // drain chunk sizes, cycled
	PauseUS []int   // pause after each drain step, cycled (0 = Gosched)
}

func (c verifC16FlowCase) String() string {
	tot := 0
	for _, s := range c.Sizes {
		for _, x := range s {
			tot += x
		}
	}
	return fmt.Sprintf("slow-network %s writers=%d writes=%d total=%dB drains=%v pause_us=%v", c.Variant, c.Writers, len(c.Sizes[0])*c.Writers, tot, c.Drains, c.PauseUS)
}

func verifC16RunFlow(rec *kit.Rec, cs verifC16FlowCase) {
	rec.CaseCheap(cs.String())
	st := newVerifC16Stream()
	mon := &verifC16FlowMon{}
	mon.attach(st)
	nop := &verifC16NopConn{}
	conn, err := verifC16Stack(cs.Variant, st, nop, 65536)
	if err != nil {
		rec.Inconclusive("stack setup failed", err.Error())
		return
	}
	defer conn.Close()

	var wg sync.WaitGroup
	var wrote, failed atomic.Int64
	var firstErr atomic.Value
	for w := 0; w < cs.Writers; w++ {
		wg.Add(1)
		go func(sizes []int) {
			defer wg.Done()
			buf := make([]byte, writeMaxBufferedAmount/2)
			for _, n := range sizes {
				k, err := conn.Write(buf[:n])
				if err != nil || k != n {
					failed.Add(1)
					firstErr.CompareAndSwap(nil, fmt.Sprintf("Write(%d) = %d, %v", n, k, err))
					return
				}
				wrote.Add(int64(k))
			}
		}(cs.Sizes[w])
	}
	writersDone := make(chan struct{})
	go func() { wg.Wait(); close(writersDone) }()
	stopDrain := make(chan struct{})
	drainDone := make(chan struct{})
	go func() {
		defer close(drainDone)
		for i := 0; ; i++ {
			select {
			case <-stopDrain:
				return
			default:
			}
			st.Drain(uint64(cs.Drains[i%len(cs.Drains)]))
			if p := cs.PauseUS[i%len(cs.PauseUS)]; p > 0 {
				time.Sleep(time.Duration(p) * time.Microsecond)
			} else {
				runtime.Gosched()
			}
		}
	}()
	hung := false
	select {
	case <-writersDone:
	case <-time.After(60 * time.Second):
		hung = true
	}
	state := st.State()
	if hung {
		// the network kept draining the whole time: a writer that is still parked although nothing is
		// buffered will never be released
		stuck := verifC16InWrite()
		time.Sleep(2 * time.Second)
		state2 := st.State()
		if len(stuck) > 0 && state2.Buffered == 0 && state2.Writes == state.Writes {
			rec.Violation("flow:writer-never-released", "a writer is still blocked in SCTPConn.Write although the network drained everything that was buffered",
				map[string]interface{}{"case": cs.String(), "writes_seen": state2.Writes, "low_callbacks": state2.LowFired, "stack": stuck[0].Raw})
		} else {
			rec.Inconclusive("flow scenario hit the watchdog", map[string]interface{}{"case": cs.String(), "buffered": state2.Buffered})
		}
		conn.Close()
		<-writersDone
	}
	close(stopDrain)
	<-drainDone
	state = st.State()
	mon.mu.Lock()
	over, worst, worstLen := mon.over, mon.worst, mon.worstLen
	mon.mu.Unlock()
	if over > 0 {
		rec.Violation("flow:buffered-amount-exceeds-bound", "stream.Write was called with buffered+len above writeMax+writeMax/2: the writer was not held back",
			map[string]interface{}{"case": cs.String(), "bound": verifC16FlowBound, "worst_buffered_plus_len": worst, "len": worstLen, "writes_over_bound": over, "writes": state.Writes})
	}
	if !hung {
		if failed.Load() > 0 {
			rec.Violation("flow:write-failed-on-open-conn", "a Write within the documented size limit failed or was short although the conn was open",
				map[string]interface{}{"case": cs.String(), "first": firstErr.Load()})
		} else if uint64(wrote.Load()) != state.Written {
			rec.Violation("flow:bytes-accounting", "bytes reported written differ from the bytes the stream received",
				map[string]interface{}{"case": cs.String(), "reported": wrote.Load(), "stream_received": state.Written})
		}
	}
	rec.Count("evaluations", 1)
	rec.Count("stream_writes_checked", state.Writes)
	rec.Count("low_threshold_callbacks", state.LowFired)
	if state.PeakPre+0 > writeMaxBufferedAmount/2 && state.LowFired > 0 {
		rec.Distinct("nontrivial", cs.String())
	}
	if state.Peak > writeMaxBufferedAmount {
		rec.Count("scenarios_with_stale_token_overshoot", 1)
	}
	if rec.WantSample() {
		rec.Sample(map[string]interface{}{"case": cs.String(), "peak_buffered_plus_len": state.Peak, "bound": verifC16FlowBound, "low_callbacks": state.LowFired, "writes": state.Writes})
	}
}

func verifC16RandFlow(rng *rand.Rand) verifC16FlowCase {
	cs := verifC16FlowCase{Variant: []string{"server", "client"}[rng.Intn(2)], Writers: 1 + rng.Intn(3)}
	half := int(writeMaxBufferedAmount / 2)
	pick := func() int {
		switch rng.Intn(8) {
		case 0:
			return 1
		case 1:
			return half
		case 2:
			return half - 1
		case 3:
			return 65536
		case 4:
			return 1200
		default:
			return 1 + rng.Intn(half)
		}
	}
	nw := 30 + rng.Intn(60)
	for w := 0; w < cs.Writers; w++ {
		var s []int
		for i := 0; i < nw/cs.Writers+1; i++ {
			s = append(s, pick())
		}
		cs.Sizes = append(cs.Sizes, s)
	}
	nd := 1 + rng.Intn(4)
	for i := 0; i < nd; i++ {
		cs.Drains = append(cs.Drains, []int{1200, 16384, 65536, 200000, 400000, 1 + rng.Intn(300000)}[rng.Intn(6)])
		cs.PauseUS = append(cs.PauseUS, []int{0, 0, 20, 100, 300}[rng.Intn(5)])
	}
	return cs
}

// ---- scenario: the stale wake-up token, step by step ----------------------------------------------------

// verifC16StaleToken walks the real Write through the schedule that reaches the bound exactly and then
// checks that the next writer IS held back (if it were not, the bound assertion inside the stream fires).
func verifC16StaleToken(rec *kit.Rec, variant string, last int) {
	desc := fmt.Sprintf("stale-token %s: 2x128K, drain 200K (token, nobody waiting), 2x100K, 128K (waits, takes the stale token), then %dB must wait for a drain", variant, last)
	rec.CaseCheap(desc)
	st := newVerifC16Stream()
	mon := &verifC16FlowMon{}
	mon.attach(st)
	conn, err := verifC16Stack(variant, st, &verifC16NopConn{}, 65536)
	if err != nil {
		rec.Inconclusive("stack setup failed", err.Error())
		return
	}
	defer conn.Close()
	K := 1024
	buf := make([]byte, 128*K)
	step := func(n int) bool {
		done := make(chan error, 1)
		go func() { _, err := conn.Write(buf[:n]); done <- err }()
		select {
		case err := <-done:
			if err != nil {
				rec.Violation("flow:write-failed-on-open-conn", "a Write within the documented size limit failed although the conn was open", map[string]interface{}{"case": desc, "len": n, "err": err.Error()})
				return false
			}
			return true
		case <-time.After(30 * time.Second):
			// this write was expected to go through without a drain (the algorithm releases it with the stale
			// token); a stricter implementation that holds it back is not wrong – release it and carry on
			st.Drain(uint64(400 * K))
			<-done
			rec.Count("stale_token_write_held_back", 1)
			return true
		}
	}
	for _, n := range []int{128 * K, 128 * K} {
		if !step(n) {
			return
		}
	}
	st.Drain(uint64(200 * K))
	for _, n := range []int{100 * K, 100 * K, 128 * K} {
		if !step(n) {
			return
		}
	}
	peak := st.State().Peak
	// now buffered = 384K (or less if the implementation was stricter).  The next write must wait.
	ba0, w0 := st.State().BACalls, st.State().Writes
	done := make(chan error, 1)
	go func() { _, err := conn.Write(buf[:last]); done <- err }()
	st.WaitState(20*time.Second, func(s verifC16StreamState) bool { return s.BACalls > ba0 || s.Writes > w0 })
	// give a wrong implementation the chance to run past the wait; a correct one sits in the select
	for i := 0; i < 50; i++ {
		runtime.Gosched()
	}
	time.Sleep(2 * time.Millisecond)
	blocked := len(done) == 0
	st.Drain(uint64(300 * K))
	select {
	case <-done:
	case <-time.After(30 * time.Second):
		stuck := verifC16InWrite()
		if len(stuck) > 0 {
			rec.Violation("flow:writer-never-released", "a writer stayed blocked in SCTPConn.Write after the buffered amount fell below the low threshold",
				map[string]interface{}{"case": desc, "buffered": st.State().Buffered, "low_callbacks": st.State().LowFired, "stack": stuck[0].Raw})
		} else {
			rec.Inconclusive("stale-token scenario: final write did not return", desc)
		}
		conn.Close()
		<-done
	}
	mon.mu.Lock()
	over, worst, worstLen := mon.over, mon.worst, mon.worstLen
	mon.mu.Unlock()
	if over > 0 {
		rec.Violation("flow:buffered-amount-exceeds-bound", "stream.Write was called with buffered+len above writeMax+writeMax/2: the writer was not held back",
			map[string]interface{}{"case": desc, "bound": verifC16FlowBound, "worst_buffered_plus_len": worst, "len": worstLen, "writes_over_bound": over})
	}
	rec.Count("evaluations", 1)
	rec.Count("stream_writes_checked", st.State().Writes)
	if blocked {
		rec.Distinct("nontrivial", desc)
	}
	if peak == verifC16FlowBound {
		rec.Count("bound_reached_exactly", 1)
	}
	if rec.WantSample() {
		rec.Sample(map[string]interface{}{"case": desc, "peak_buffered_plus_len": peak, "bound": verifC16FlowBound, "last_write_observed_waiting": blocked})
	}
}

// ---- scenario: Close releases writers blocked by flow control -------------------------------------------

func verifC16CloseReleases(rec *kit.Rec, variant string, writers int, staleToken bool, delayUS int) {
	desc := fmt.Sprintf("close-releases %s blocked_writers=%d stale_token=%v close_delay_us=%d", variant, writers, staleToken, delayUS)
	rec.CaseCheap(desc)
	st := newVerifC16Stream()
	mon := &verifC16FlowMon{}
	mon.attach(st)
	conn, err := verifC16Stack(variant, st, &verifC16NopConn{}, 65536)
	if err != nil {
		rec.Inconclusive("stack setup failed", err.Error())
		return
	}
	K := 1024
	buf := make([]byte, 128*K)
	conn.Write(buf)
	conn.Write(buf)
	if staleToken {
		st.Drain(uint64(200 * K))
		conn.Write(buf[:100*K])
		conn.Write(buf[:100*K])
		conn.Write(buf) // takes the token; buffered = 384K
	}
	// the network is stalled from here on: nothing drains
	ba0, w0 := st.State().BACalls, st.State().Writes
	done := make(chan error, writers)
	for i := 0; i < writers; i++ {
		go func() { _, err := conn.Write(buf[:1+K]); done <- err }()
	}
	st.WaitState(20*time.Second, func(s verifC16StreamState) bool { return s.BACalls > ba0 || s.Writes > w0 })
	if delayUS > 0 {
		time.Sleep(time.Duration(delayUS) * time.Microsecond)
	}
	conn.Close()
	returned := 0
	deadline := time.After(30 * time.Second)
loop:
	for returned < writers {
		select {
		case <-done:
			returned++
		case <-deadline:
			break loop
		}
	}
	if returned < writers {
		stuck := verifC16InWrite()
		blocked := 0
		for _, g := range stuck {
			if g.Blocked() {
				blocked++
			}
		}
		if blocked > 0 {
			rec.Violation("flow:blocked-writer-not-released-by-close", "Close returned but a writer blocked by flow control is still parked in SCTPConn.Write",
				map[string]interface{}{"case": desc, "writers_returned": returned, "writers": writers, "stack": stuck[0].Raw})
		} else {
			rec.Inconclusive("close-releases: writers did not return but none is parked", desc)
		}
		// release them so that the process can go on
		st.Drain(1 << 30)
	}
	mon.mu.Lock()
	over, worst := mon.over, mon.worst
	mon.mu.Unlock()
	if over > 0 {
		rec.Violation("flow:buffered-amount-exceeds-bound", "stream.Write was called with buffered+len above writeMax+writeMax/2: the writer was not held back",
			map[string]interface{}{"case": desc, "bound": verifC16FlowBound, "worst_buffered_plus_len": worst})
	}
	rec.Count("evaluations", 1)
	rec.Count("writers_released_by_close", returned)
	rec.Distinct("nontrivial", desc)
}

func TestVerifC16Flow(t *testing.T) {
	rec := kit.NewRec("C16", "flow")
	defer rec.Close()
	rng := kit.Rand("c16flow")
	// a scenario that ends in its (long) watchdog is a violation witness; one witness per kind is enough,
	// the remaining scenarios of that kind would each sit out the same watchdog
	slow := func(f func()) bool {
		t0 := time.Now()
		v0 := rec.Violations()
		f()
		return rec.Violations() > v0 && time.Since(t0) > 20*time.Second
	}
	skipStale, skipClose, skipFlow := false, false, false
	for _, v := range []string{"server", "client"} {
		for _, last := range []int{1, 1200, 65536, 131072} {
			if !skipStale {
				skipStale = slow(func() { verifC16StaleToken(rec, v, last) })
			}
		}
		for _, w := range []int{1, 3} {
			for _, stale := range []bool{false, true} {
				for _, d := range []int{0, 200} {
					if !skipClose {
						skipClose = slow(func() { verifC16CloseReleases(rec, v, w, stale, d) })
					}
				}
			}
		}
	}
	n := kit.Tier(40, 600)
	for i := 0; i < n; i++ {
		cs := verifC16RandFlow(rng)
		if !skipFlow {
			skipFlow = slow(func() { verifC16RunFlow(rec, cs) })
		}
	}
	if skipStale || skipClose || skipFlow {
		rec.Note("scenarios were skipped after a violation that ended in a watchdog")
	}
}

// ---- (e) heartbeat loss ----------------------------------------------------------------------------------

type verifC16HBCase struct {
	Loss     string // silence-deadline | silence-nodeadline | data-only | near-heartbeats
	Beats    int    // heartbeats delivered (every 40 ms) before the loss
	WithData bool   // data interleaved with the heartbeats before the loss
}

func (c verifC16HBCase) String() string {
	return fmt.Sprintf("heartbeat-loss %s after %d heartbeats data_before=%v interval=100ms", c.Loss, c.Beats, c.WithData)
}

const verifC16HBInterval = 100 * time.Millisecond

// verifC16RunHB returns (closedInTime, how long after the loss the conn closed or the wait gave up, beats consumed).
func verifC16RunHB(cs verifC16HBCase, slack time.Duration) (bool, time.Duration, int, string) {
	st := newVerifC16Stream()
	st.HonorDeadline = cs.Loss != "silence-nodeadline"
	hb := defaultConfig.Heartbeat
	h, err := heartbeatServer(st, &heartbeatConfig{Interval: verifC16HBInterval}, 1024)
	if err != nil {
		return true, 0, 0, "setup: " + err.Error()
	}
	conn := newSCTPConn(h, &verifC16NopConn{}, 1024)
	defer conn.Close()
	// a reader, so that the receive queue never fills (a full queue closes the conn by another rule)
	readerErr := make(chan error, 1)
	go func() {
		buf := make([]byte, 2048)
		for {
			if _, err := conn.Read(buf); err != nil {
				readerErr <- err
				return
			}
		}
	}()
	start := time.Now()
	off := 0
	data := func(n int) verifC16Item {
		d := make([]byte, n)
		verifC16Pos(d, off)
		off += n
		return verifC16Item{Kind: "data", Data: d}
	}
	for i := 0; i < cs.Beats; i++ {
		st.Feed(verifC16Item{Kind: "hb", Data: hb})
		if cs.WithData {
			st.Feed(data(1 + i*7))
		}
		time.Sleep(40 * time.Millisecond)
		if verifC16ChanClosed(h.closed) {
			break // closed while heartbeats were still flowing (machine load); the loss clock below still applies
		}
	}
	// from here on no heartbeat is sent any more
	lossAt := time.Now()
	if s := st.State(); !s.LastHB.IsZero() {
		lossAt = s.LastHB
	} else {
		lossAt = start
	}
	stopFeed := make(chan struct{})
	feedDone := make(chan struct{})
	go func() {
		defer close(feedDone)
		if cs.Loss != "data-only" && cs.Loss != "near-heartbeats" {
			return
		}
		for i := 0; ; i++ {
			select {
			case <-stopFeed:
				return
			case <-time.After(30 * time.Millisecond):
			}
			if cs.Loss == "data-only" {
				st.Feed(data(1 + i%50))
			} else {
				// payloads that resemble the heartbeat but are not it: they are data and must not keep the conn alive
				var d []byte
				switch i % 3 {
				case 0:
					d = append(append([]byte{}, hb...), byte(i))
				case 1:
					d = append([]byte{}, hb[:len(hb)-1]...)
				default:
					d = append([]byte{}, hb...)
					d[len(d)-1] ^= 1
				}
				st.Feed(verifC16Item{Kind: "data", Data: d})
			}
		}
	}()
	bound := 2*verifC16HBInterval + slack
	var closedAfter time.Duration
	ok := false
	if d := time.Until(lossAt.Add(bound)); d > 0 {
		tm := time.NewTimer(d)
		select {
		case <-h.closed:
		case <-tm.C:
		}
		tm.Stop()
	}
	closedAfter = time.Since(lossAt)
	ok = verifC16ChanClosed(h.closed)
	close(stopFeed)
	<-feedDone
	note := ""
	if ok {
		// the close must also reach a blocked reader and the stream below
		select {
		case <-readerErr:
		case <-time.After(20 * time.Second):
			note = "reader-still-blocked"
		}
		if st.State().Closes == 0 {
			note += " stream-not-closed"
		}
	}
	return ok, closedAfter, st.State().HBSeen, strings.TrimSpace(note)
}

func TestVerifC16Heartbeat(t *testing.T) {
	rec := kit.NewRec("C16", "heartbeat")
	defer rec.Close()
	var cases []verifC16HBCase
	for _, loss := range []string{"silence-deadline", "silence-nodeadline", "data-only", "near-heartbeats"} {
		for _, beats := range []int{0, 1, 4} {
			cases = append(cases, verifC16HBCase{Loss: loss, Beats: beats, WithData: beats > 1})
		}
	}
	if kit.Thorough() {
		for _, loss := range []string{"silence-deadline", "silence-nodeadline", "data-only", "near-heartbeats"} {
			for _, beats := range []int{2, 8, 15} {
				cases = append(cases, verifC16HBCase{Loss: loss, Beats: beats, WithData: beats%2 == 0})
			}
		}
	}
	type result struct {
		cs    verifC16HBCase
		ok    bool
		after time.Duration
		beats int
		note  string
		rerun bool
	}
	results := make([]result, len(cases))
	var wg sync.WaitGroup
	sem := make(chan struct{}, 6)
	for i, cs := range cases {
		wg.Add(1)
		go func(i int, cs verifC16HBCase) {
			defer wg.Done()
			sem <- struct{}{}
			defer func() { <-sem }()
			ok, after, beats, note := verifC16RunHB(cs, 5*time.Second)
			r := result{cs: cs, ok: ok, after: after, beats: beats, note: note}
			if !ok {
				// one re-run with doubled slack before a miss counts
				ok, after, beats, note = verifC16RunHB(cs, 10*time.Second)
				r = result{cs: cs, ok: ok, after: after, beats: beats, note: note, rerun: true}
			}
			results[i] = r
		}(i, cs)
	}
	wg.Wait()
	for _, r := range results {
		rec.CaseCheap(r.cs.String())
		d := map[string]interface{}{"case": r.cs.String(), "closed": r.ok, "ms_after_last_heartbeat": r.after.Milliseconds(), "heartbeats_consumed": r.beats, "rerun_with_doubled_slack": r.rerun}
		if !r.ok {
			rec.Violation("heartbeat:not-closed-after-loss:"+r.cs.Loss, "the peer stopped sending heartbeats but the connection was not closed within 2 intervals + slack (twice, the second time with 10 s slack)", d)
		} else if strings.Contains(r.note, "reader-still-blocked") {
			rec.Violation("heartbeat:close-did-not-reach-reader", "the heartbeat watchdog closed the conn but a blocked Read never returned", d)
		} else if strings.Contains(r.note, "stream-not-closed") {
			rec.Violation("heartbeat:stream-left-open", "the heartbeat watchdog fired but the underlying stream was never closed", d)
		} else if strings.HasPrefix(r.note, "setup") {
			rec.Inconclusive("heartbeat scenario setup failed", r.note)
		}
		rec.Count("evaluations", 1)
		if r.rerun {
			rec.Count("reruns", 1)
		}
		if r.beats > 0 {
			rec.Distinct("nontrivial", r.cs.String())
		}
		if rec.WantSample() && r.beats > 0 {
			rec.Sample(d)
		}
	}
}
