//go:build verif

package dtls

// C16 (b) – with many sessions accepted concurrently on the shared listener each accepted connection is
// delivered to the caller waiting for that secret and to no other, and an accept that is cancelled
// leaves nothing registered.
//
// Monitor: batches of 2..32 sessions on ONE real Listener over loopback UDP, every actor (acceptor,
// dialer) started after its own seeded delay.  Over every established pair a secret-tagged message is
// exchanged in both directions.  Logical points (registered / dial started / accept returned) are read
// from the listener's own maps under its own locks, never from sleeps.
//
// Violations: an acceptor (or dialer) that reads another secret's tag; a duplicate accept that removes
// or replaces the first registration; a Dial that completes for a secret nobody is accepting; entries
// left in connMap / connToCert after every AcceptWithContext call of the batch has returned.
// Not violations: handshakes that fail or time out (retried, then inconclusive); a connection that was
// accepted by the listener but whose acceptor had been cancelled (it is dropped – the statement asks that
// nothing stays registered).

import (
	"context"
	"encoding/hex"
	"fmt"
	"math/rand"
	"net"
	"sort"
	"strings"
	"sync"
	"sync/atomic"
	"testing"
	"time"

	kit "github.com/refraction-networking/conjure/internal/verifkit"
)

type verifC16Sess struct {
	Idx    int
	Role   string // pair | pair-early | pair-dup-accept | pair-dup-dial | pair-cancel-after | cancel-before | cancel-registered | cancel-racing | expire | unregistered
	Secret []byte
	ADelay time.Duration // acceptor start delay
	DDelay time.Duration // dialer start delay (after its logical precondition)
	CDelay time.Duration // cancel delay for cancel-racing
	NoDDL  bool          // acceptor context without deadline

	// outcome
	established bool
	note        string

	// closed by the dialer once it has read the acceptor's reply: SCTPConn.Close drops what is still
	// queued for sending, so the acceptor must not close before its reply was read
	clientRead     chan struct{}
	clientReadOnce sync.Once
}

func (s *verifC16Sess) signalClientRead() { s.clientReadOnce.Do(func() { close(s.clientRead) }) }

func (s *verifC16Sess) String() string {
	return fmt.Sprintf("#%d %s a+%dus d+%dus", s.Idx, s.Role, s.ADelay.Microseconds(), s.DDelay.Microseconds())
}

type verifC16Batch struct {
	rec      *kit.Rec
	l        *Listener
	addr     *net.UDPAddr
	desc     string
	sess     []*verifC16Sess
	bySecret map[string]int // hex secret -> session index
	authFail atomic.Int64
	wg       sync.WaitGroup
	incon    atomic.Int64
}

func (b *verifC16Batch) id(s *verifC16Sess) verifC16ID {
	id, _ := clientHelloRandomFromSeed(s.Secret)
	return id
}

// checkTag judges what one end read from the conn it was given.
func (b *verifC16Batch) checkTag(s *verifC16Sess, side string, peer []byte) bool {
	got := verifC16TagSecret(peer)
	want := hex.EncodeToString(s.Secret)
	if got == want {
		return true
	}
	if got == "" {
		b.rec.Inconclusive("tag exchange returned something that is not a tag", map[string]interface{}{"batch": b.desc, "session": s.String(), "side": side, "got": kit.HexN(peer, 24)})
		return false
	}
	other := "?"
	if j, ok := b.bySecret[got]; ok {
		other = b.sess[j].String()
	}
	who := "acceptor"
	if side == "c" {
		who = "dialer"
	}
	b.rec.Violation("accept:cross-delivery", "an established connection carries another session's secret: the "+who+" waiting for one secret was handed the connection of another",
		map[string]interface{}{"batch": b.desc, "session": s.String(), "side": side, "own_secret": want[:16], "tag_secret_read": got[:verifC16Min(16, len(got))], "tag_belongs_to": other})
	return false
}

func (b *verifC16Batch) dial(s *verifC16Sess, timeout time.Duration) (net.Conn, error) {
	ctx, cancel := context.WithTimeout(context.Background(), timeout)
	defer cancel()
	return DialWithContext(ctx, b.addr, &Config{PSK: s.Secret, SCTP: ClientOpen})
}

// dialer for a session that is expected to get established: early attempts may fail, later ones are
// made only while the acceptor is registered.
func (b *verifC16Batch) dialLoop(s *verifC16Sess, inst int, early bool, accDone <-chan struct{}, result chan<- bool) {
	defer b.wg.Done()
	id := b.id(s)
	ok := false
	defer func() { result <- ok }()
	for attempt := 0; attempt < 3; attempt++ {
		if !(early && attempt == 0) {
			if !verifC16WaitRegisteredOr(b.l, id, 15*time.Second, accDone) {
				return
			}
		}
		if attempt == 0 {
			time.Sleep(s.DDelay)
		}
		select {
		case <-accDone:
			return
		default:
		}
		// a dialer whose connection the listener drops (second dialer of a secret, cancelled acceptor) sits in
		// the SCTP handshake until this deadline: keep it short for the surplus dialer
		timeout := 6 * time.Second
		if inst > 0 {
			timeout = 2500 * time.Millisecond
		}
		conn, err := b.dial(s, timeout)
		if err != nil {
			b.rec.Count("dial_attempts_failed", 1)
			if early && attempt == 0 {
				b.rec.Count("early_dials_refused", 1)
			}
			continue
		}
		peer, err := verifC16Exchange(conn, s.Secret, "c", inst)
		s.signalClientRead()
		if err == nil {
			ok = b.checkTag(s, "c", peer)
		} else {
			b.rec.Count("client_exchange_failed", 1)
		}
		conn.Close()
		return
	}
}

// accept runs one AcceptWithContext and the server half of the tag exchange.
func (b *verifC16Batch) accept(s *verifC16Sess, ctx context.Context, afterReturn func()) (gotConn bool, tagOK bool, err error) {
	conn, err := b.l.AcceptWithContext(ctx, &Config{PSK: s.Secret, SCTP: ServerAccept})
	if afterReturn != nil {
		afterReturn()
	}
	if err != nil || conn == nil {
		return false, false, err
	}
	peer, xerr := verifC16Exchange(conn, s.Secret, "s", 0)
	if xerr == nil || len(peer) == verifC16TagLen {
		tagOK = b.checkTag(s, "s", peer)
	} else {
		b.rec.Count("server_exchange_failed", 1)
	}
	if xerr == nil {
		select {
		case <-s.clientRead:
		case <-time.After(10 * time.Second):
		}
	}
	conn.Close()
	return true, tagOK, nil
}

// ownLeak checks – for a secret that is unique in the batch – that nothing of it is registered any more
// right after its accept call returned.
func (b *verifC16Batch) ownLeak(s *verifC16Sess, how string) {
	inMap, inCert := verifC16Registered(b.l, b.id(s))
	if inMap || inCert {
		b.rec.Violation("accept:registration-left-behind:"+how, "AcceptWithContext returned but its secret is still registered with the listener",
			map[string]interface{}{"batch": b.desc, "session": s.String(), "in_connMap": inMap, "in_connToCert": inCert})
	}
}

func (b *verifC16Batch) runSession(s *verifC16Sess) {
	defer b.wg.Done()
	switch s.Role {
	case "pair", "pair-early", "pair-dup-accept", "pair-dup-dial", "pair-cancel-after":
		time.Sleep(s.ADelay)
		var ctx context.Context
		var cancel context.CancelFunc
		if s.NoDDL {
			ctx, cancel = context.WithCancel(context.Background())
		} else {
			ctx, cancel = context.WithTimeout(context.Background(), 60*time.Second)
		}
		defer cancel()
		accDone := make(chan struct{})
		dialers := 1
		if s.Role == "pair-dup-dial" {
			dialers = 2
		}
		results := make(chan bool, dialers)
		startDialers := func() {
			for i := 0; i < dialers; i++ {
				b.wg.Add(1)
				go b.dialLoop(s, i, s.Role == "pair-early", accDone, results)
			}
		}
		if s.Role == "pair-dup-accept" {
			// the first accept can then only return with a connection or through our own cancel: while the
			// duplicate is judged it is certainly still waiting
			s.NoDDL = true
		}
		if s.Role == "pair-early" {
			startDialers() // may well arrive before the registration exists
		}
		type accRes struct {
			got, tag bool
			err      error
		}
		ar := make(chan accRes, 1)
		go func() {
			var after func()
			if s.Role == "pair-cancel-after" {
				after = cancel // cancelling a context whose accept already returned must not hurt the conn
			}
			g, tg, err := b.accept(s, ctx, after)
			close(accDone)
			ar <- accRes{g, tg, err}
		}()
		if s.Role == "pair-dup-accept" {
			// a second accept for the same secret while the first is registered and nobody has dialled yet
			if verifC16WaitRegistered(b.l, b.id(s), 15*time.Second) {
				dctx, dcancel := context.WithTimeout(context.Background(), 2*time.Second)
				t0 := time.Now()
				dconn, derr := b.l.AcceptWithContext(dctx, &Config{PSK: s.Secret, SCTP: ServerAccept})
				dcancel()
				took := time.Since(t0)
				inMap, inCert := verifC16Registered(b.l, b.id(s))
				firstStillWaiting := true
				select {
				case <-accDone:
					firstStillWaiting = false
				default:
				}
				if dconn != nil {
					// nobody dialled with this secret: whatever this is, it is somebody else's connection
					peer, _ := verifC16Exchange(dconn, s.Secret, "s", 0)
					if len(peer) == verifC16TagLen {
						b.checkTag(s, "s", peer)
					}
					dconn.Close()
				}
				if firstStillWaiting && (!inMap || !inCert) {
					b.rec.Violation("accept:duplicate-disturbed-first", "an accept for a secret that was already being accepted returned, and the first accept's registration is gone",
						map[string]interface{}{"batch": b.desc, "session": s.String(), "duplicate_error": verifC16ErrString(derr), "duplicate_took_ms": took.Milliseconds(), "first_in_connMap": inMap, "first_in_connToCert": inCert})
				}
				b.rec.Count("duplicate_accepts", 1)
				if derr != nil && strings.Contains(derr.Error(), "already registered") {
					b.rec.Count("duplicate_accepts_refused_at_once", 1)
				}
			}
		}
		if s.Role != "pair-early" {
			startDialers()
		}
		anyDial := false
		for i := 0; i < dialers; i++ {
			if <-results {
				anyDial = true
			}
		}
		if !anyDial {
			cancel() // nobody will come any more
		}
		var r accRes
		select {
		case r = <-ar:
		case <-time.After(90 * time.Second):
			b.incon.Add(1)
			s.note = "acceptor did not return"
			b.rec.Inconclusive("AcceptWithContext did not return within 90 s after its dialers gave up", map[string]interface{}{"batch": b.desc, "session": s.String()})
			return
		}
		b.ownLeak(s, "after-success-or-failure")
		s.established = r.got && r.tag && anyDial
		if !s.established {
			s.note = fmt.Sprintf("accept: conn=%v tag=%v err=%v dial_ok=%v", r.got, r.tag, r.err, anyDial)
		}

	case "cancel-before":
		time.Sleep(s.ADelay)
		ctx, cancel := context.WithCancel(context.Background())
		cancel()
		got, _, err := b.accept(s, ctx, nil)
		b.ownLeak(s, "cancelled-before-call")
		s.note = fmt.Sprintf("conn=%v err=%v", got, err)

	case "cancel-registered":
		time.Sleep(s.ADelay)
		ctx, cancel := context.WithCancel(context.Background())
		go func() {
			verifC16WaitRegistered(b.l, b.id(s), 15*time.Second)
			time.Sleep(s.CDelay)
			cancel()
		}()
		got, _, err := b.accept(s, ctx, nil)
		cancel()
		b.ownLeak(s, "cancelled-while-waiting")
		s.note = fmt.Sprintf("conn=%v err=%v", got, err)

	case "expire":
		time.Sleep(s.ADelay)
		ctx, cancel := context.WithTimeout(context.Background(), 30*time.Millisecond+s.CDelay*10)
		got, _, err := b.accept(s, ctx, nil)
		cancel()
		b.ownLeak(s, "deadline-expired")
		s.note = fmt.Sprintf("conn=%v err=%v", got, err)

	case "cancel-racing":
		// the cancellation races the arrival of the connection: either outcome is fine, nothing may stay registered
		time.Sleep(s.ADelay)
		var ctx context.Context
		var cancel context.CancelFunc
		if s.NoDDL {
			ctx, cancel = context.WithCancel(context.Background())
		} else {
			ctx, cancel = context.WithTimeout(context.Background(), 60*time.Second)
		}
		dialStarted := make(chan struct{})
		b.wg.Add(1)
		go func() {
			defer b.wg.Done()
			verifC16WaitRegistered(b.l, b.id(s), 15*time.Second)
			time.Sleep(s.DDelay)
			close(dialStarted)
			conn, err := b.dial(s, 3*time.Second)
			if err == nil {
				peer, xerr := verifC16Exchange(conn, s.Secret, "c", 0)
				s.signalClientRead()
				if xerr == nil {
					b.checkTag(s, "c", peer)
				}
				conn.Close()
			}
		}()
		go func() {
			<-dialStarted
			time.Sleep(s.CDelay)
			cancel()
		}()
		got, tag, err := b.accept(s, ctx, nil)
		cancel()
		b.ownLeak(s, "cancelled-racing-the-handshake")
		if got {
			b.rec.Count("racing_cancel_lost", 1)
		} else {
			b.rec.Count("racing_cancel_won", 1)
		}
		s.established = got && tag
		s.note = fmt.Sprintf("conn=%v err=%v", got, err)

	case "unregistered":
		time.Sleep(s.DDelay)
		conn, err := b.dial(s, 2500*time.Millisecond)
		if err == nil && conn != nil {
			peer, _ := verifC16Exchange(conn, s.Secret, "c", 0)
			b.rec.Violation("handshake:dial-completed-for-unregistered-secret", "Dial returned an established connection for a secret that no accept call was waiting for",
				map[string]interface{}{"batch": b.desc, "session": s.String(), "peer_tag": string(peer)})
			conn.Close()
		}
		s.note = fmt.Sprintf("err=%v", err)
	}
}

func verifC16MakeBatch(rng *rand.Rand, n int) []*verifC16Sess {
	roles := []string{"pair", "pair", "pair", "pair", "pair-early", "pair-early", "pair-dup-accept", "pair-dup-dial", "pair-cancel-after",
		"cancel-before", "cancel-registered", "cancel-racing", "cancel-racing", "expire", "unregistered"}
	var out []*verifC16Sess
	for i := 0; i < n; i++ {
		s := &verifC16Sess{Idx: i, Secret: verifC16RandSecret(rng), clientRead: make(chan struct{})}
		switch {
		case i == 0:
			s.Role = "pair"
		case i == 1 && n <= 3:
			s.Role = "cancel-racing"
		default:
			s.Role = roles[rng.Intn(len(roles))]
		}
		s.ADelay = time.Duration(rng.Intn(20000)) * time.Microsecond
		s.DDelay = time.Duration(rng.Intn(20000)) * time.Microsecond
		s.CDelay = time.Duration(rng.Intn(40000)) * time.Microsecond
		if rng.Intn(3) == 0 {
			s.ADelay = 0
		}
		if rng.Intn(3) == 0 {
			s.DDelay = 0
		}
		s.NoDDL = rng.Intn(4) == 0
		if s.Role == "pair-dup-accept" {
			// the first accept can then only return with a connection or through our own cancel: while the
			// duplicate is judged it is certainly still waiting
			s.NoDDL = true
		}
		if s.Role == "pair-early" {
			// the dialer really comes first: its first attempt finds no registration
			s.ADelay = time.Duration(3000+rng.Intn(20000)) * time.Microsecond
			s.DDelay = 0
		}
		out = append(out, s)
	}
	return out
}

func verifC16RunBatch(t *testing.T, rec *kit.Rec, rng *rand.Rand, bi, n int) {
	b := &verifC16Batch{rec: rec, bySecret: map[string]int{}}
	b.sess = verifC16MakeBatch(rng, n)
	var roles []string
	for _, s := range b.sess {
		b.bySecret[hex.EncodeToString(s.Secret)] = s.Idx
		roles = append(roles, s.Role)
	}
	b.desc = fmt.Sprintf("batch %d n=%d roles=%v", bi, n, roles)
	rec.Case(map[string]interface{}{"batch": b.desc})
	l, err := Listen("udp", &net.UDPAddr{IP: net.IPv4(127, 0, 0, 1), Port: 0}, &Config{
		LogAuthFail: func(*net.IP) { b.authFail.Add(1) }, LogOther: func(*net.IP) {}})
	if err != nil {
		t.Fatalf("cannot listen on loopback UDP: %v", err)
	}
	b.l = l
	b.addr = l.Addr().(*net.UDPAddr)
	// random start order: the goroutines are launched in a shuffled order on top of their own delays
	order := rng.Perm(n)
	for _, i := range order {
		b.wg.Add(1)
		go b.runSession(b.sess[i])
	}
	fin := make(chan struct{})
	go func() { b.wg.Wait(); close(fin) }()
	allReturned := true
	select {
	case <-fin:
	case <-time.After(4 * time.Minute):
		allReturned = false
		rec.Inconclusive("batch did not finish within 4 minutes", map[string]interface{}{"batch": b.desc})
	}
	if allReturned && b.incon.Load() == 0 {
		// every AcceptWithContext call of the batch has returned
		l.connMapMutex.Lock()
		var left []string
		for id := range l.connMap {
			left = append(left, "connMap:"+b.whose(id))
		}
		l.connMapMutex.Unlock()
		l.connToCertMutex.Lock()
		for id := range l.connToCert {
			left = append(left, "connToCert:"+b.whose(id))
		}
		l.connToCertMutex.Unlock()
		sort.Strings(left)
		if len(left) > 0 {
			rec.Violation("accept:registrations-left-after-batch", "every AcceptWithContext call has returned but the listener still holds registrations",
				map[string]interface{}{"batch": b.desc, "left": left})
		}
		rec.Count("evaluations", 1)
		rec.Count("map_checks", 1)
	}
	verifC16Retire(l)

	est, cancels := 0, 0
	for _, s := range b.sess {
		rec.Count("evaluations", 1)
		rec.Count("sessions_"+s.Role, 1)
		if strings.HasPrefix(s.Role, "pair") {
			if s.established {
				est++
				rec.Distinct("nontrivial", "established", bi, s.Idx, s.Role)
			} else {
				rec.Count("pairs_not_established", 1)
				rec.Inconclusive("a session with matching secrets was not established (after retries)", map[string]interface{}{"batch": b.desc, "session": s.String(), "note": s.note})
			}
		}
		if strings.HasPrefix(s.Role, "cancel") || s.Role == "expire" {
			cancels++
		}
	}
	rec.Count("sessions_established", est)
	rec.Count("auth_failures_logged_by_listener", int(b.authFail.Load()))
	if cancels > 0 {
		rec.Distinct("nontrivial", "batch-with-cancellations", b.desc)
	}
	rec.Distinct("batch_sizes", n)
	if rec.WantSample() {
		rec.Sample(map[string]interface{}{"batch": b.desc, "established": est, "cancelled_or_expired": cancels})
	}
}

func (b *verifC16Batch) whose(id verifC16ID) string {
	for _, s := range b.sess {
		if b.id(s) == id {
			return s.String() + " (" + s.note + ")"
		}
	}
	return "unknown id " + hex.EncodeToString(id[:4])
}

func TestVerifC16Listener(t *testing.T) {
	rec := kit.NewRec("C16", "listener")
	defer rec.Close()
	rng := kit.Rand("c16listener")
	sizes := []int{2, 32, 3}
	extra := kit.Tier(3, 50)
	for i := 0; i < extra; i++ {
		sizes = append(sizes, 2+rng.Intn(31))
	}
	for bi, n := range sizes {
		verifC16RunBatch(t, rec, rng, bi, n)
	}
}
