//go:build verif

package dtls

// C16 – shared instruments of the DTLS-session monitors: a scripted message stream (the stand-in for
// the pion SCTP stream behind the msgStream interface that newSCTPConn / heartbeatServer /
// heartbeatClient consume) and a recording stub for the net.Conn that SCTPConn closes.
//
// Every identifier of the driver carries "verif" in its name: the orchestrator's race attribution
// skips frames whose function name contains it.

import (
	"errors"
	"fmt"
	"io"
	"net"
	"sync"
	"sync/atomic"
	"time"
)

// ---- scripted message stream ------------------------------------------------------------------------

type verifC16Item struct {
	Kind string // "data" | "hb" | "err" | "data+err"
	Data []byte
	Err  error
}

var errVerifC16StreamClosed = errors.New("verif: scripted stream closed locally")

type verifC16Timeout struct{}

func (verifC16Timeout) Error() string   { return "verif: scripted stream read deadline exceeded" }
func (verifC16Timeout) Timeout() bool   { return true }
func (verifC16Timeout) Temporary() bool { return true }

// verifC16Stream implements msgStream.
//
// Read side: messages are handed out one per Read in script order, exactly as pion's Stream.Read
// does (a message longer than the buffer is discarded and reported as io.ErrShortBuffer with n = 0,
// pion/sctp v1.8.35 stream.go:140).  An "err" item is sticky (every later Read repeats it).  When the
// script is exhausted Read blocks until Feed, Close, or – if HonorDeadline – the read deadline.
//
// Write side: a model of a slow network.  Write adds to the buffered amount, Drain releases bytes and
// fires the low-threshold callback on a downward crossing, exactly as pion's onBufferReleased does.
type verifC16Stream struct {
	HonorDeadline bool
	// OnWrite is evaluated under the stream lock before the write is accounted: buffered amount
	// before the write, length of the write.
	OnWrite func(before, n uint64)
	// DiscardHB: writes equal to this payload are the heartbeat client's; they are counted, not buffered.
	DiscardHB []byte
	// MaxDeclared is the maximum message size the stack under test was configured with: a message within
	// it that is refused for a short buffer means the stack offered too small a buffer.
	MaxDeclared int

	mu        sync.Mutex
	wake      chan struct{}
	items     []verifC16Item
	next      int
	sticky    error
	closed    bool
	closes    int
	rdl       time.Time
	consumed  int // items handed out (incl. the terminal error, once)
	lastHB    time.Time
	hbSeen    int
	readCalls int
	parked    int // Reads blocked because the script is exhausted
	// what the stack has been given, the reference for the byte-stream oracle
	exp       []byte       // concatenation of the data messages handed out in full before the first error
	hbOffsets map[int]bool // offsets in exp at which a heartbeat was handed out
	firstErr  error        // first error returned by Read (script error or short buffer)
	tailLen   int          // bytes handed out together with firstErr
	refusedIn int          // messages within MaxDeclared refused with io.ErrShortBuffer
	refusedLg int          // messages beyond MaxDeclared refused with io.ErrShortBuffer

	buffered uint64
	lowTh    uint64
	onLow    func()
	writes   int
	written  uint64
	hbWrites int
	peak     uint64 // max over writes of buffered-before + len
	peakPre  uint64 // max over writes of buffered-before
	stalled  bool   // the "network" is not draining
	lowFired int
	baCalls  int
}

func newVerifC16Stream(items ...verifC16Item) *verifC16Stream {
	return &verifC16Stream{wake: make(chan struct{}), items: items, hbOffsets: map[int]bool{}}
}

func (s *verifC16Stream) bcastLocked() {
	close(s.wake)
	s.wake = make(chan struct{})
}

// Feed appends items to the read script.
func (s *verifC16Stream) Feed(items ...verifC16Item) {
	s.mu.Lock()
	s.items = append(s.items, items...)
	s.bcastLocked()
	s.mu.Unlock()
}

func (s *verifC16Stream) Read(b []byte) (int, error) {
	s.mu.Lock()
	defer s.mu.Unlock()
	s.readCalls++
	for {
		if s.closed {
			return 0, errVerifC16StreamClosed
		}
		if s.sticky != nil {
			return 0, s.sticky
		}
		if s.next < len(s.items) {
			it := s.items[s.next]
			s.next++
			s.consumed++
			s.bcastLocked()
			short := func() (int, error) {
				if s.MaxDeclared > 0 && len(it.Data) <= s.MaxDeclared {
					s.refusedIn++
				} else {
					s.refusedLg++
				}
				if s.firstErr == nil {
					s.firstErr = io.ErrShortBuffer
				}
				return 0, io.ErrShortBuffer
			}
			switch it.Kind {
			case "err":
				s.sticky = it.Err
				if s.firstErr == nil {
					s.firstErr = it.Err
				}
				return 0, it.Err
			case "data+err":
				s.sticky = it.Err
				if len(it.Data) > len(b) {
					return short()
				}
				if s.firstErr == nil {
					s.exp = append(s.exp, it.Data...)
					s.tailLen = len(it.Data)
					s.firstErr = it.Err
				}
				return copy(b, it.Data), it.Err
			case "hb":
				s.hbSeen++
				s.lastHB = time.Now()
				if len(it.Data) > len(b) {
					return short()
				}
				if s.firstErr == nil {
					s.hbOffsets[len(s.exp)] = true
				}
				return copy(b, it.Data), nil
			default:
				if len(it.Data) > len(b) {
					return short()
				}
				if s.firstErr == nil {
					s.exp = append(s.exp, it.Data...)
				}
				return copy(b, it.Data), nil
			}
		}
		// script exhausted: block
		s.parked++
		s.bcastLocked()
		ch := s.wake
		var tc <-chan time.Time
		var tm *time.Timer
		if s.HonorDeadline && !s.rdl.IsZero() {
			d := time.Until(s.rdl)
			if d <= 0 {
				return 0, verifC16Timeout{}
			}
			tm = time.NewTimer(d)
			tc = tm.C
		}
		s.mu.Unlock()
		select {
		case <-ch:
		case <-tc:
		}
		if tm != nil {
			tm.Stop()
		}
		s.mu.Lock()
		s.parked--
	}
}

func (s *verifC16Stream) Write(b []byte) (int, error) {
	s.mu.Lock()
	defer s.mu.Unlock()
	if s.closed {
		return 0, errVerifC16StreamClosed
	}
	if s.DiscardHB != nil && string(b) == string(s.DiscardHB) {
		s.hbWrites++
		return len(b), nil
	}
	n := uint64(len(b))
	if s.OnWrite != nil {
		s.OnWrite(s.buffered, n)
	}
	if s.buffered+n > s.peak {
		s.peak = s.buffered + n
	}
	if s.buffered > s.peakPre {
		s.peakPre = s.buffered
	}
	s.buffered += n
	s.written += n
	s.writes++
	s.bcastLocked()
	return len(b), nil
}

// Drain releases up to n buffered bytes ("the network delivered them") and returns how many.
func (s *verifC16Stream) Drain(n uint64) uint64 {
	s.mu.Lock()
	from := s.buffered
	if n > s.buffered {
		n = s.buffered
	}
	s.buffered -= n
	fire := s.onLow != nil && from > s.lowTh && s.buffered <= s.lowTh
	f := s.onLow
	if fire {
		s.lowFired++
	}
	s.mu.Unlock()
	if fire {
		f()
	}
	return n
}

func (s *verifC16Stream) Close() error {
	s.mu.Lock()
	s.closed = true
	s.closes++
	s.bcastLocked()
	s.mu.Unlock()
	return nil
}

func (s *verifC16Stream) BufferedAmount() uint64 {
	s.mu.Lock()
	defer s.mu.Unlock()
	s.baCalls++
	s.bcastLocked()
	return s.buffered
}

func (s *verifC16Stream) SetReadDeadline(t time.Time) error {
	s.mu.Lock()
	s.rdl = t
	s.bcastLocked()
	s.mu.Unlock()
	return nil
}

func (s *verifC16Stream) SetBufferedAmountLowThreshold(th uint64) {
	s.mu.Lock()
	s.lowTh = th
	s.mu.Unlock()
}

func (s *verifC16Stream) OnBufferedAmountLow(f func()) {
	s.mu.Lock()
	s.onLow = f
	s.mu.Unlock()
}

type verifC16StreamState struct {
	Consumed, Total, Closes, Writes, HBWrites, HBSeen, LowFired, BACalls int
	Buffered, Written, Peak, PeakPre                                      uint64
	Closed, Parked                                                        bool
	LastHB                                                                time.Time
	ExpLen, TailLen, RefusedIn, RefusedLg                                 int
	FirstErr                                                              error
}

// Expected returns the reference byte string and the offsets at which heartbeats were handed out.
func (s *verifC16Stream) Expected() ([]byte, map[int]bool) {
	s.mu.Lock()
	defer s.mu.Unlock()
	hb := map[int]bool{}
	for k := range s.hbOffsets {
		hb[k] = true
	}
	return append([]byte{}, s.exp...), hb
}

func (s *verifC16Stream) State() verifC16StreamState {
	s.mu.Lock()
	defer s.mu.Unlock()
	return verifC16StreamState{Consumed: s.consumed, Total: len(s.items), Closes: s.closes, Writes: s.writes, HBWrites: s.hbWrites,
		HBSeen: s.hbSeen, LowFired: s.lowFired, BACalls: s.baCalls, Buffered: s.buffered, Written: s.written, Peak: s.peak, PeakPre: s.peakPre,
		Closed: s.closed, Parked: s.parked > 0, LastHB: s.lastHB, ExpLen: len(s.exp), TailLen: s.tailLen, RefusedIn: s.refusedIn, RefusedLg: s.refusedLg, FirstErr: s.firstErr}
}

// WaitState blocks until pred holds on the stream state or the bound passes; it reports whether it held.
func (s *verifC16Stream) WaitState(bound time.Duration, pred func(verifC16StreamState) bool) bool {
	deadline := time.Now().Add(bound)
	for {
		s.mu.Lock()
		ch := s.wake
		s.mu.Unlock()
		if pred(s.State()) {
			return true
		}
		d := time.Until(deadline)
		if d <= 0 {
			return false
		}
		if d > 5*time.Millisecond {
			d = 5 * time.Millisecond
		}
		tm := time.NewTimer(d)
		select {
		case <-ch:
		case <-tm.C:
		}
		tm.Stop()
	}
}

// ---- stub for the net.Conn below SCTPConn ---------------------------------------------------------

type verifC16NopConn struct {
	closes atomic.Int32
}

func (c *verifC16NopConn) Read(b []byte) (int, error)  { return 0, io.EOF }
func (c *verifC16NopConn) Write(b []byte) (int, error) { return len(b), nil }
func (c *verifC16NopConn) Close() error                { c.closes.Add(1); return nil }
func (c *verifC16NopConn) LocalAddr() net.Addr {
	return &net.UDPAddr{IP: net.IPv4(192, 0, 2, 1), Port: 41245}
}
func (c *verifC16NopConn) RemoteAddr() net.Addr {
	return &net.UDPAddr{IP: net.IPv4(203, 0, 113, 7), Port: 50007}
}
func (c *verifC16NopConn) SetDeadline(time.Time) error      { return nil }
func (c *verifC16NopConn) SetReadDeadline(time.Time) error  { return nil }
func (c *verifC16NopConn) SetWriteDeadline(time.Time) error { return nil }

// ---- small helpers ------------------------------------------------------------------------------------

// verifC16Pos fills b with bytes that encode the absolute stream offset, so that loss, duplication
// and reordering all change the byte string.
func verifC16Pos(b []byte, off int) {
	for i := range b {
		p := off + i
		b[i] = byte(p*131+p/251*17+7) ^ byte(p>>11)
	}
}

func verifC16FirstDiff(a, b []byte) int {
	n := len(a)
	if len(b) < n {
		n = len(b)
	}
	for i := 0; i < n; i++ {
		if a[i] != b[i] {
			return i
		}
	}
	return n
}

func verifC16ErrString(err error) string {
	if err == nil {
		return ""
	}
	return fmt.Sprintf("%T:%v", err, err)
}

func verifC16ChanClosed(ch <-chan struct{}) bool {
	select {
	case <-ch:
		return true
	default:
		return false
	}
}
