//go:build verif

package phantoms

// C14 – phantom selection is a pure function that stays inside the configured subnets.
//
// Monitors (all of them drive the REAL selection code of this package):
//   select      PhantomIPSelector.Select (station path, lib versions 0-4) and SelectPhantom (client path) over generated
//               configurations; online oracles: well-formedness / family / containment (net/netip) / port-randomisation flag /
//               "panic instead of error"; purity: serial repeat (reverse order), "an earlier result is not changed by later
//               calls", and 2-32 concurrent goroutines over the same case list against the serial results.
//   offsets     selectAddrFromSubnetOffset for EVERY offset of subnets of <= 4096 addresses: bijection onto the subnet.
//   concurrent  the concurrent purity phase again, meant to be built with -race (second stage).
//
// Everything whose name starts with verifC14 is driver code (the orchestrator ignores frames containing "erif").

import (
	"bytes"
	"encoding/hex"
	"fmt"
	"math/big"
	"math/rand"
	"net/netip"
	"os"
	"path/filepath"
	"runtime"
	"sort"
	"strings"
	"sync"
	"testing"

	kit "github.com/refraction-networking/conjure/internal/verifkit"
	pb "github.com/refraction-networking/conjure/proto"
)

// ---- the oracle's view of a configuration ---------------------------------------------------------

type verifC14Entry struct {
	pfx    netip.Prefix // masked; 4-byte prefix for IPv4 text, 16-byte prefix for IPv6 text (also for ::ffff:a.b.c.d/n)
	alt    netip.Prefix // for an IPv4-mapped IPv6 prefix with n >= 96: a.b.c.d/(n-96)
	hasAlt bool
	flag   bool
	group  int
}

type verifC14GroupDesc struct {
	Weight   *uint32  `json:"weight"`
	RandPort *bool    `json:"randomize_dst_port"`
	Subnets  []string `json:"subnets"`
}

type verifC14Cfg struct {
	groups    []*pb.PhantomSubnets
	entries   []verifC14Entry
	zeroTotal bool // the weights of the groups that have a (non-nil) subnet list add up to 0
	feat      string
	hash      string
}

func (c *verifC14Cfg) desc() []verifC14GroupDesc {
	if c == nil {
		return nil
	}
	out := make([]verifC14GroupDesc, 0, len(c.groups))
	for _, g := range c.groups {
		if g == nil {
			out = append(out, verifC14GroupDesc{})
			continue
		}
		out = append(out, verifC14GroupDesc{Weight: g.Weight, RandPort: g.RandomizeDstPort, Subnets: g.Subnets})
	}
	return out
}

// verifC14Analyse derives the oracle's view from the very objects that are handed to the code under
// test.  Subnet strings are parsed with net/netip (independent of the net.ParseCIDR used by the
// package); strings that are not CIDRs configure nothing.
func verifC14Analyse(groups []*pb.PhantomSubnets) *verifC14Cfg {
	c := &verifC14Cfg{groups: groups}
	var tot uint64
	feats := map[string]bool{}
	var hb strings.Builder
	for gi, g := range groups {
		fmt.Fprintf(&hb, "|g%d w=%v r=%v", gi, g.GetWeight(), g.GetRandomizeDstPort())
		if g == nil {
			feats["nil-group"] = true
			continue
		}
		if g.Weight == nil {
			feats["weight-unset"] = true
		}
		if g.GetSubnets() != nil {
			tot += uint64(g.GetWeight())
		}
		if len(g.GetSubnets()) == 0 {
			feats["empty-group"] = true
		}
		has4, has6 := false, false
		for _, s := range g.GetSubnets() {
			hb.WriteString(" " + s)
			p, err := netip.ParsePrefix(s)
			if err != nil {
				feats["unparsable-subnet"] = true
				continue
			}
			m := p.Masked()
			if m != p {
				feats["host-bits-set"] = true
			}
			e := verifC14Entry{pfx: m, flag: g.GetRandomizeDstPort(), group: gi}
			if m.Addr().Is4In6() && m.Bits() >= 96 {
				e.hasAlt = true
				e.alt = netip.PrefixFrom(m.Addr().Unmap(), m.Bits()-96).Masked()
				feats["v4mapped-prefix"] = true
			}
			if m.Addr().Is4() {
				has4 = true
				if m.Addr().As4()[0] == 0 {
					feats["leading-zero-v4"] = true
				}
				if m.Bits() == 32 {
					feats["/32"] = true
				}
			} else {
				has6 = true
				if m.Addr().As16()[0] == 0 {
					feats["leading-zero-v6"] = true
				}
				if m.Bits() == 128 {
					feats["/128"] = true
				}
			}
			for _, o := range c.entries {
				if o.pfx == m {
					feats["duplicate"] = true
				} else if o.pfx.Overlaps(m) {
					feats["overlap"] = true
				}
			}
			c.entries = append(c.entries, e)
		}
		if has4 != has6 {
			feats["one-family-group"] = true
		}
	}
	c.zeroTotal = tot == 0
	if c.zeroTotal {
		feats["zero-total-weight"] = true
	}
	if len(groups) == 0 {
		feats["no-groups"] = true
	}
	var fl []string
	for f := range feats {
		fl = append(fl, f)
	}
	sort.Strings(fl)
	c.feat = strings.Join(fl, ",")
	c.hash = hb.String()
	return c
}

// containing reports whether some configured subnet contains a, and whether one of the containing
// subnets belongs to a group that allows destination-port randomisation.
func (c *verifC14Cfg) containing(a netip.Addr) (inside, flag bool, which string) {
	if c == nil {
		return false, false, ""
	}
	for _, e := range c.entries {
		if e.pfx.Contains(a) || (e.hasAlt && e.alt.Contains(a)) {
			if !inside {
				which = e.pfx.String()
			}
			inside = true
			flag = flag || e.flag
		}
	}
	return
}

// ---- cases and outcomes ----------------------------------------------------------------------------

type verifC14Case struct {
	Station  bool
	Gen      uint
	GenKnown bool
	LibVer   uint
	Fam      int // 4, 6, 0 = any (client path without filter)
	Weighted bool
	Seed     []byte
	seedCopy string
	cfg      *verifC14Cfg // nil for an unknown / removed generation
	list     *pb.PhantomSubnetsList
}

func (c *verifC14Case) path() string {
	if c.Station {
		switch {
		case c.LibVer == 0:
			return "station-v0"
		case c.LibVer == 1:
			return "station-v1"
		default:
			return "station-hkdf"
		}
	}
	if c.Weighted {
		return "client-weighted"
	}
	return "client-unweighted"
}

// purityClass is the class used in purity signatures: the legacy (lib version 0/1) paths share the
// process-global math/rand, the others do not.
func (c *verifC14Case) purityClass() string {
	if c.Station && c.LibVer < 2 {
		return "legacy-v0v1"
	}
	if c.Station {
		return "station-hkdf"
	}
	return "client"
}

func (c *verifC14Case) addrFunc() string {
	if c.Station && c.LibVer < 2 {
		return "SelectAddrFromSubnet"
	}
	return "selectAddrFromSubnetOffset"
}

func (c *verifC14Case) famName() string {
	switch c.Fam {
	case 4:
		return "v4"
	case 6:
		return "v6"
	}
	return "any"
}

type verifC14CaseDesc struct {
	World    int                 `json:"world"`
	Call     string              `json:"call"`
	Path     string              `json:"path"`
	Gen      uint                `json:"generation"`
	GenKnown bool                `json:"generation_configured"`
	LibVer   uint                `json:"lib_version"`
	Family   string              `json:"family"`
	Weighted bool                `json:"weighted"`
	Seed     string              `json:"seed_hex"`
	Config   []verifC14GroupDesc `json:"config_of_generation"`
	Features string              `json:"config_features"`
}

func (c *verifC14Case) describe(world int) verifC14CaseDesc {
	d := verifC14CaseDesc{World: world, Path: c.path(), Gen: c.Gen, GenKnown: c.GenKnown, LibVer: c.LibVer, Family: c.famName(),
		Weighted: c.Weighted, Seed: hex.EncodeToString(c.Seed), Config: c.cfg.desc()}
	if c.cfg != nil {
		d.Features = c.cfg.feat
	}
	if c.Station {
		d.Call = fmt.Sprintf("PhantomIPSelector.Select(seed, gen=%d, clientLibVer=%d, v6Support=%v)", c.Gen, c.LibVer, c.Fam == 6)
	} else {
		tr := map[int]string{0: "nil", 4: "V4Only", 6: "V6Only"}[c.Fam]
		d.Call = fmt.Sprintf("SelectPhantom(seed, list, %s, weighted=%v)", tr, c.Weighted)
	}
	return d
}

type verifC14Out struct {
	Kind byte   // 'A' address, 'E' error, 'P' panic
	IP   string // raw bytes of the returned net.IP
	Flag bool
	Err  string
	Site string
	res  *PhantomIP
}

func (o verifC14Out) same(p verifC14Out) bool {
	if o.Kind != p.Kind {
		return false
	}
	switch o.Kind {
	case 'A':
		return o.IP == p.IP && o.Flag == p.Flag
	case 'P':
		return o.Site == p.Site
	}
	return true // an error is an error; the text is not compared
}

func (o verifC14Out) String() string {
	switch o.Kind {
	case 'A':
		return fmt.Sprintf("addr %s (raw %s, %d bytes) randport=%v", verifC14IPText([]byte(o.IP)), hex.EncodeToString([]byte(o.IP)), len(o.IP), o.Flag)
	case 'E':
		return "error: " + o.Err
	}
	return "PANIC at " + o.Site + ": " + o.Err
}

func verifC14IPText(b []byte) string {
	if a, ok := netip.AddrFromSlice(b); ok {
		return a.String()
	}
	return "?" + hex.EncodeToString(b)
}

// verifC14PanicSite returns the innermost repository (non-driver) function on the panicking stack.
func verifC14PanicSite() string {
	pcs := make([]uintptr, 64)
	n := runtime.Callers(2, pcs)
	frames := runtime.CallersFrames(pcs[:n])
	seen := false
	for {
		f, more := frames.Next()
		if strings.HasPrefix(f.Function, "runtime.gopanic") {
			seen = true
		} else if seen && strings.Contains(f.Function, "refraction-networking/conjure/") && !strings.Contains(f.Function, "erif") {
			return strings.TrimPrefix(f.Function, "github.com/refraction-networking/conjure/")
		}
		if !more {
			break
		}
	}
	return "?"
}

func verifC14Digest(res *PhantomIP) (string, bool, bool) {
	if res == nil || res.IP() == nil {
		return "", false, false
	}
	return string(*res.IP()), res.SupportRandomPort(), true
}

// verifC14Run executes one selection of the real code; a panic is recovered and becomes an outcome.
func verifC14Run(sel *PhantomIPSelector, c *verifC14Case) (o verifC14Out) {
	defer func() {
		if p := recover(); p != nil {
			o = verifC14Out{Kind: 'P', Err: fmt.Sprint(p), Site: verifC14PanicSite()}
		}
	}()
	var res *PhantomIP
	var err error
	if c.Station {
		res, err = sel.Select(c.Seed, c.Gen, c.LibVer, c.Fam == 6)
	} else {
		var tr SubnetFilter
		switch c.Fam {
		case 4:
			tr = V4Only
		case 6:
			tr = V6Only
		}
		res, err = SelectPhantom(c.Seed, c.list, tr, c.Weighted)
	}
	if err != nil {
		return verifC14Out{Kind: 'E', Err: err.Error()}
	}
	ip, fl, ok := verifC14Digest(res)
	if !ok {
		return verifC14Out{Kind: 'A', IP: "\x00nil", res: res}
	}
	return verifC14Out{Kind: 'A', IP: ip, Flag: fl, res: res}
}

// ---- the address oracle ------------------------------------------------------------------------------

// verifC14Judge decides about a returned address.  It returns "" if the address is a well-formed
// address of the requested family inside a configured subnet whose flag permits what was granted,
// else (signature, message).  fn is the function that built the address (for the signature).
func verifC14Judge(cfg *verifC14Cfg, fam int, raw []byte, flag bool, path, fn string) (sig, msg, class string) {
	if string(raw) == "\x00nil" {
		return "result:nil-without-error:" + path, "selection returned neither an error nor an address", ""
	}
	pad := func(n int) (netip.Addr, bool) {
		if len(raw) >= n {
			return netip.Addr{}, false
		}
		b := make([]byte, n)
		copy(b[n-len(raw):], raw)
		a, _ := netip.AddrFromSlice(b)
		in, _, _ := cfg.containing(a)
		return a, in
	}
	lz := func(a netip.Addr) (string, string, string) {
		return "wellformed:leading-zero-bytes-dropped:" + fn,
			fmt.Sprintf("the returned net.IP has %d bytes (%s); zero-extended it is %s, which IS inside the configured subnets: leading zero bytes of the address were dropped, the result is not a well-formed address", len(raw), hex.EncodeToString(raw), a),
			""
	}
	var a netip.Addr
	switch {
	case len(raw) == 4 && fam != 6:
		a, _ = netip.AddrFromSlice(raw)
		if fam == 0 {
			// ambiguous: a genuine IPv4 address, or a 16-byte address that lost 12 zero bytes (::a.b.c.d).  If the IPv4
			// reading is not fully in order (not inside an IPv4 subnet, or a flag no containing IPv4 subnet grants) and
			// the zero-extended value IS inside a configured IPv6 subnet, the truncation is what happened.
			if in, okFlag, _ := cfg.containing(a); !in || (flag && !okFlag) {
				if p, ok := pad(16); ok {
					return lz(p)
				}
			}
		}
	case len(raw) == 16:
		a, _ = netip.AddrFromSlice(raw)
		if fam == 4 {
			if !a.Is4In6() {
				return "family:v6-address-for-v4-request:" + path, fmt.Sprintf("IPv4 was requested, got the IPv6 address %s", a), ""
			}
			a = a.Unmap()
		}
	default:
		// neither 4 nor 16 bytes, or 4 bytes where IPv6 was requested
		if fam != 6 {
			if p, ok := pad(4); ok {
				return lz(p)
			}
		}
		if fam != 4 {
			if p, ok := pad(16); ok {
				return lz(p)
			}
		}
		if len(raw) == 4 {
			a4, _ := netip.AddrFromSlice(raw)
			return "family:v4-address-for-v6-request:" + path, fmt.Sprintf("IPv6 was requested, got the 4-byte address %s", a4), ""
		}
		return "wellformed:bad-length:" + path, fmt.Sprintf("the returned net.IP has %d bytes (%s): not a well-formed address", len(raw), hex.EncodeToString(raw)), ""
	}
	in, okFlag, which := cfg.containing(a)
	if !in {
		if cfg == nil {
			return "containment:address-for-unconfigured-generation:" + path, fmt.Sprintf("address %s returned for a generation that has no configuration", a), ""
		}
		return "containment:outside-configured-subnets:" + path, fmt.Sprintf("address %s is in none of the subnets configured for this generation and family", a), ""
	}
	if flag && !okFlag {
		return "randport:granted-without-permission:" + path, fmt.Sprintf("address %s (inside %s): port randomisation granted, but no group with a subnet containing the address sets RandomizeDstPort", a, which), ""
	}
	cl := "v6"
	if a.Is4() {
		cl = "v4"
	}
	if flag {
		cl += "+randport"
	}
	return "", "", cl
}

// ---- generators ------------------------------------------------------------------------------------

var verifC14Bits4 = []int{32, 32, 32, 31, 30, 29, 28, 27, 26, 25, 24, 24, 24, 23, 22, 21, 20, 18, 16, 16, 12, 8}
var verifC14Bits6 = []int{128, 128, 128, 127, 126, 124, 120, 120, 116, 112, 104, 96, 96, 80, 64, 64, 56, 48, 32, 29}
var verifC14Junk = []string{"", "bogus", "1.2.3.4", "1.2.3.0/33", "::1/129", "1.2.3/24", "300.1.1.0/24", "2001:db8::/x"}

func verifC14Bits(r *rand.Rand, v6 bool) int {
	if v6 {
		return verifC14Bits6[r.Intn(len(verifC14Bits6))]
	}
	return verifC14Bits4[r.Intn(len(verifC14Bits4))]
}

// verifC14GenPrefix returns the text of one subnet.  pool collects the prefixes generated so far for
// this configuration (source of duplicates and overlaps).
func verifC14GenPrefix(r *rand.Rand, v6 bool, pool *[]netip.Prefix, maxHostBits int) string {
	n := 4
	if v6 {
		n = 16
	}
	b := make([]byte, n)
	r.Read(b)
	bits := verifC14Bits(r, v6)
	var same []netip.Prefix
	for _, p := range *pool {
		if p.Addr().Is4() != v6 {
			same = append(same, p)
		}
	}
	k := r.Intn(100)
	switch {
	case k < 25 && len(same) > 0:
		q := same[r.Intn(len(same))]
		qb := q.Addr().AsSlice()
		switch r.Intn(3) {
		case 0: // duplicate
			copy(b, qb)
			bits = q.Bits()
		case 1: // a super-net of q
			copy(b, qb)
			bits = q.Bits() - 1 - r.Intn(8)
			if bits < 0 {
				bits = 0
			}
		default: // a sub-net of q: random host part, longer mask
			for i := 0; i < n; i++ {
				for j := 0; j < 8; j++ {
					if i*8+j < q.Bits() {
						m := byte(0x80 >> uint(j))
						b[i] = b[i]&^m | qb[i]&m
					}
				}
			}
			bits = q.Bits() + 1 + r.Intn(8)
			if bits > n*8 {
				bits = n * 8
			}
		}
	case k < 34: // networks with leading zero bytes
		if !v6 {
			z := 1 + r.Intn(3)
			for i := 0; i < z; i++ {
				b[i] = 0
			}
			if z == 3 && bits < 24 {
				bits = 24 + r.Intn(9)
			}
		} else {
			switch r.Intn(7) {
			case 0: // the NAT64 well-known prefix
				copy(b, []byte{0, 0x64, 0xff, 0x9b, 0, 0, 0, 0, 0, 0, 0, 0})
				bits = 96 + 4*r.Intn(9)
			case 1: // IPv4-mapped: ::ffff:a.b.c.d/96..128
				copy(b, []byte{0, 0, 0, 0, 0, 0, 0, 0, 0, 0, 0xff, 0xff})
				bits = 96 + r.Intn(33)
			case 2: // looks like it, but is not: ::fffe:a.b.c.d
				copy(b, []byte{0, 0, 0, 0, 0, 0, 0, 0, 0, 0, 0xff, 0xfe})
				bits = 96 + r.Intn(33)
			case 3: // IPv4-compatible: ::a.b.c.d
				copy(b, []byte{0, 0, 0, 0, 0, 0, 0, 0, 0, 0, 0, 0})
				bits = 96 + r.Intn(33)
			case 4: // one zero byte
				b[0] = 0
			default: // 2-8 zero bytes
				z := 2 + r.Intn(7)
				for i := 0; i < z; i++ {
					b[i] = 0
				}
				if bits < 8*z {
					bits = 8*z + r.Intn(n*8-8*z+1)
				}
			}
		}
	case k < 39: // top of the address space
		z := 2 + r.Intn(n-2)
		for i := 0; i < z; i++ {
			b[i] = 0xff
		}
	case k < 41: // everything
		bits = 0
	default:
		if !v6 {
			b[0] = byte(1 + r.Intn(223))
		} else if b[0] == 0 {
			b[0] = 0x20
		}
	}
	if maxHostBits >= 0 && n*8-bits > maxHostBits {
		bits = n*8 - r.Intn(maxHostBits+1)
	}
	a, _ := netip.AddrFromSlice(b)
	p := netip.PrefixFrom(a, bits)
	*pool = append(*pool, p.Masked())
	if r.Intn(10) == 0 {
		return p.String() // host bits left set: "10.1.2.3/24"
	}
	return p.Masked().String()
}

func verifC14GenGroups(r *rand.Rand) []*pb.PhantomSubnets {
	ng := []int{1, 1, 1, 2, 2, 2, 2, 3, 3, 3, 4, 6}[r.Intn(12)]
	if r.Intn(40) == 0 {
		ng = 0
	}
	wmode := r.Intn(40)
	eq := uint32(1 + r.Intn(50))
	var pool []netip.Prefix
	groups := make([]*pb.PhantomSubnets, 0, ng)
	for g := 0; g < ng; g++ {
		ps := &pb.PhantomSubnets{}
		var w uint32
		set := true
		switch {
		case wmode < 1: // every weight zero
			w = 0
		case wmode < 2: // weights not set at all
			set = false
		case wmode < 12: // equal
			w = eq
		case wmode < 26: // skewed
			w = []uint32{1, 1, 2, 9, 100, 1000, 65535}[r.Intn(7)]
		case wmode < 32: // some zero
			w = []uint32{0, 0, 1, 3, 10, 2}[r.Intn(6)]
		case wmode < 34: // huge
			w = []uint32{1 << 31, 0xffffffff, 0xfffffffe, 1}[r.Intn(4)]
		default:
			w = 1
		}
		if set {
			ps.Weight = &w
		}
		switch r.Intn(3) {
		case 1:
			t := true
			ps.RandomizeDstPort = &t
		case 2:
			f := false
			ps.RandomizeDstPort = &f
		}
		fm := r.Intn(40)
		var subs []string
		switch {
		case fm < 1: // no subnet list at all
			subs = nil
		case fm < 2: // an empty list
			subs = []string{}
		default:
			ns := 1 + r.Intn(4)
			for s := 0; s < ns; s++ {
				v6 := r.Intn(2) == 0
				if fm < 8 {
					v6 = false
				} else if fm < 14 {
					v6 = true
				}
				subs = append(subs, verifC14GenPrefix(r, v6, &pool, -1))
			}
			if fm == 39 {
				subs = append(subs, verifC14Junk[r.Intn(len(verifC14Junk))])
				r.Shuffle(len(subs), func(i, j int) { subs[i], subs[j] = subs[j], subs[i] })
			}
		}
		ps.Subnets = subs
		groups = append(groups, ps)
	}
	return groups
}

func verifC14Seed(r *rand.Rand) []byte {
	mk := func(n int) []byte { b := make([]byte, n); r.Read(b); return b }
	switch k := r.Intn(100); {
	case k < 78:
		return mk(32)
	case k < 83:
		return mk(16)
	case k < 87:
		return mk(1 + r.Intn(8))
	case k < 89:
		return []byte{}
	case k < 91:
		return nil
	case k < 94:
		return make([]byte, 32)
	case k < 97:
		return bytes.Repeat([]byte{0xff}, 32)
	case k < 98:
		return bytes.Repeat([]byte{0x80}, 32)
	default:
		return mk(64)
	}
}

type verifC14World struct {
	id      int
	sel     *PhantomIPSelector
	gens    []uint
	cfgs    map[uint]*verifC14Cfg
	lists   map[uint]*pb.PhantomSubnetsList
	removed []uint
	viaToml bool
}

func verifC14Toml(gens []uint, groups map[uint][]*pb.PhantomSubnets) string {
	var sb strings.Builder
	sb.WriteString("[Networks]\n")
	for _, g := range gens {
		fmt.Fprintf(&sb, "  [Networks.%d]\n    Generation = %d\n", g, g)
		for _, ps := range groups[g] {
			fmt.Fprintf(&sb, "    [[Networks.%d.WeightedSubnets]]\n", g)
			if ps.Weight != nil {
				fmt.Fprintf(&sb, "      Weight = %d\n", *ps.Weight)
			}
			if ps.RandomizeDstPort != nil {
				fmt.Fprintf(&sb, "      RandomizeDstPort = %v\n", *ps.RandomizeDstPort)
			}
			if ps.Subnets != nil {
				q := make([]string, len(ps.Subnets))
				for i, s := range ps.Subnets {
					q[i] = fmt.Sprintf("%q", s)
				}
				fmt.Fprintf(&sb, "      Subnets = [%s]\n", strings.Join(q, ", "))
			}
		}
	}
	return sb.String()
}

// verifC14FromSelector builds the world (and the oracle's view) from a selector object.
func verifC14FromSelector(id int, sel *PhantomIPSelector) *verifC14World {
	w := &verifC14World{id: id, sel: sel, cfgs: map[uint]*verifC14Cfg{}, lists: map[uint]*pb.PhantomSubnetsList{}}
	for g, sc := range sel.Networks {
		if sc == nil {
			w.removed = append(w.removed, g)
			continue
		}
		w.gens = append(w.gens, g)
		w.cfgs[g] = verifC14Analyse(sc.WeightedSubnets)
		w.lists[g] = &pb.PhantomSubnetsList{WeightedSubnets: sc.WeightedSubnets}
	}
	sort.Slice(w.gens, func(i, j int) bool { return w.gens[i] < w.gens[j] })
	return w
}

func verifC14GenWorld(t *testing.T, rec *kit.Rec, r *rand.Rand, id int, dir string) *verifC14World {
	ngen := 1 + r.Intn(3)
	groups := map[uint][]*pb.PhantomSubnets{}
	var gens []uint
	for len(gens) < ngen {
		g := []uint{0, 1, 2, 3, 957, 4294967295, uint(r.Intn(100000))}[r.Intn(7)]
		if _, dup := groups[g]; dup {
			continue
		}
		groups[g] = verifC14GenGroups(r)
		gens = append(gens, g)
	}
	var sel *PhantomIPSelector
	viaToml := r.Intn(4) == 0
	if viaToml {
		p := filepath.Join(dir, fmt.Sprintf("w%d.toml", id))
		if err := os.WriteFile(p, []byte(verifC14Toml(gens, groups)), 0o644); err != nil {
			t.Fatalf("cannot write %s: %v", p, err)
		}
		s, err := SubnetsFromTomlFile(p)
		os.Remove(p)
		if err != nil || len(s.Networks) != len(gens) {
			rec.Count("toml_load_fallback", 1)
			viaToml = false
		} else {
			sel = s
		}
	}
	if sel == nil {
		sel = &PhantomIPSelector{Networks: map[uint]*SubnetConfig{}}
		for _, g := range gens {
			sel.Networks[g] = &SubnetConfig{WeightedSubnets: groups[g]}
		}
	}
	if r.Intn(8) == 0 {
		// a generation that was removed again (RemoveGeneration leaves a nil entry behind)
		g := uint(200000 + r.Intn(10))
		sel.AddGeneration(int(g), &SubnetConfig{WeightedSubnets: verifC14GenGroups(r)})
		sel.RemoveGeneration(g)
	}
	w := verifC14FromSelector(id, sel)
	w.viaToml = viaToml
	return w
}

func verifC14GenCases(r *rand.Rand, w *verifC14World, n int) []verifC14Case {
	cases := make([]verifC14Case, n)
	for i := range cases {
		c := &cases[i]
		c.Seed = verifC14Seed(r)
		c.seedCopy = string(c.Seed)
		c.Gen = w.gens[r.Intn(len(w.gens))]
		c.GenKnown = true
		c.Station = r.Intn(4) != 0
		if c.Station {
			c.LibVer = uint(r.Intn(5))
			c.Fam = 4 + 2*r.Intn(2)
			c.Weighted = true
			switch k := r.Intn(100); {
			case k < 6: // a generation nobody configured
				c.Gen = uint(300000 + r.Intn(1000))
				c.GenKnown = false
			case k < 10 && len(w.removed) > 0:
				c.Gen = w.removed[r.Intn(len(w.removed))]
				c.GenKnown = false
			}
		} else {
			c.LibVer = 2 + uint(r.Intn(3))
			c.Fam = []int{4, 6, 4, 6, 0}[r.Intn(5)]
			c.Weighted = r.Intn(3) != 0
			if r.Intn(40) == 0 {
				c.GenKnown = false // the client was given no list at all
			}
		}
		if c.GenKnown {
			c.cfg = w.cfgs[c.Gen]
			c.list = w.lists[c.Gen]
		}
	}
	return cases
}

// ---- one batch: serial pass, oracles, repeat, alias check, concurrent pass ----------------------------

type verifC14Opts struct {
	repeat     bool
	goroutines int  // 0 = no concurrent pass
	concFirst  bool // run the concurrent pass BEFORE the serial one (shared state, if any, is still cold)
}

// inputClass names the input class of a case for the signature of a panic.
func verifC14InputClass(c *verifC14Case) string {
	switch {
	case c.cfg == nil:
		return "unconfigured-generation"
	case c.cfg.zeroTotal && c.Weighted:
		return "zero-total-weight"
	case len(c.Seed) == 0:
		return "empty-seed"
	case strings.Contains(c.cfg.feat, "unparsable-subnet"):
		return "unparsable-subnet"
	case strings.Contains(c.cfg.feat, "v4mapped-prefix"):
		return "v4mapped-prefix"
	}
	return "wellformed-config"
}

func verifC14Batch(rec *kit.Rec, w *verifC14World, cases []verifC14Case, o verifC14Opts) {
	rec.Case(map[string]interface{}{"world": w.id, "generations": w.gens, "cases": len(cases), "via_toml": w.viaToml})
	serial := make([]verifC14Out, len(cases))
	restore := func(c *verifC14Case) {
		if string(c.Seed) != c.seedCopy {
			rec.Count("seed_argument_modified_by_callee", 1)
			c.Seed = []byte(c.seedCopy)
		}
	}
	var got [][]verifC14Out
	if o.goroutines > 0 && o.concFirst {
		got = verifC14Conc(w, cases, o.goroutines)
		for i := range cases {
			restore(&cases[i])
		}
	}
	// pass A: every case once, all oracles
	for i := range cases {
		c := &cases[i]
		out := verifC14Run(w.sel, c)
		restore(c)
		serial[i] = out
		rec.Count("evaluations", 1)
		path := c.path()
		switch out.Kind {
		case 'E':
			rec.Count("outcome_error", 1)
			rec.Count("error/"+verifC14ErrClass(out.Err), 1)
			rec.Distinct("outcomes", path, "error", c.famName())
		case 'P':
			rec.Count("outcome_panic", 1)
			rec.Distinct("outcomes", path, "panic", out.Site)
			rec.Distinct("nontrivial", w.id, path, c.Gen, c.famName(), c.seedCopy)
			rec.Violation("panic:"+verifC14InputClass(c)+":"+out.Site,
				fmt.Sprintf("selection panicked instead of returning an error: %s (in %s)", out.Err, out.Site), c.describe(w.id))
		case 'A':
			rec.Count("outcome_address", 1)
			rec.Distinct("nontrivial", w.id, path, c.Gen, c.famName(), c.seedCopy)
			sig, msg, cl := verifC14Judge(c.cfg, c.Fam, []byte(out.IP), out.Flag, path, c.addrFunc())
			if sig != "" {
				rec.Count("outcome_address_bad", 1)
				rec.Violation(sig, msg, map[string]interface{}{"case": c.describe(w.id), "result": out.String()})
			} else {
				rec.Distinct("outcomes", path, cl, c.famName())
				if c.cfg != nil {
					rec.Distinct("config_shapes_with_address", c.cfg.feat)
				}
			}
			if rec.WantSample() && i%17 == 3 {
				rec.Sample(map[string]interface{}{"case": c.describe(w.id), "result": out.String()})
			}
		}
		if c.cfg != nil {
			rec.Distinct("configs", c.cfg.hash)
			rec.Distinct("config_shapes", c.cfg.feat)
		}
		if verifC14DumpTo != nil {
			verdict := "ok"
			if out.Kind == 'P' {
				verdict = "bad"
			} else if out.Kind == 'A' {
				if sig, _, _ := verifC14Judge(c.cfg, c.Fam, []byte(out.IP), out.Flag, path, c.addrFunc()); sig != "" {
					verdict = "bad"
				}
			}
			o := string(out.Kind)
			if out.Kind == 'A' {
				o += fmt.Sprintf(" %s %v", hex.EncodeToString([]byte(out.IP)), out.Flag)
			}
			verifC14DumpTo.line(fmt.Sprintf("%d/%d/%s/%d/%s/%x", w.id, i, path, c.Gen, c.famName(), c.seedCopy), verdict, o)
		}
	}
	// pass B: the same cases again, in reverse order
	if o.repeat {
		for i := len(cases) - 1; i >= 0; i-- {
			c := &cases[i]
			out := verifC14Run(w.sel, c)
			restore(c)
			rec.Count("serial_repeats", 1)
			if !out.same(serial[i]) {
				rec.Violation("purity:serial-repeat-differs:"+c.purityClass(), "repeating the selection with equal inputs gave a different result",
					map[string]interface{}{"case": c.describe(w.id), "first": serial[i].String(), "repeat": out.String()})
			}
		}
		// results handed out earlier must not have been changed by the later calls
		for i := range cases {
			if serial[i].Kind != 'A' || serial[i].res == nil {
				continue
			}
			ip, fl, ok := verifC14Digest(serial[i].res)
			rec.Count("alias_checks", 1)
			if !ok || ip != serial[i].IP || fl != serial[i].Flag {
				rec.Violation("purity:earlier-result-changed-by-later-calls:"+cases[i].purityClass(), "a result object returned earlier changed while later selections ran",
					map[string]interface{}{"case": cases[i].describe(w.id), "returned": serial[i].String(), "now": verifC14IPText([]byte(ip))})
			}
		}
	}
	for i := range serial {
		serial[i].res = nil
	}
	if o.goroutines > 0 {
		if got == nil {
			got = verifC14Conc(w, cases, o.goroutines)
		}
		verifC14Compare(rec, w, cases, serial, got, o.concFirst)
		for i := range cases {
			restore(&cases[i])
		}
	}
}

// verifC14Conc runs the case list in G goroutines at once, each from its own starting point and in
// its own direction, and returns what each goroutine got for each case.
func verifC14Conc(w *verifC14World, cases []verifC14Case, G int) [][]verifC14Out {
	got := make([][]verifC14Out, G)
	var wg sync.WaitGroup
	start := make(chan struct{})
	n := len(cases)
	for g := 0; g < G; g++ {
		got[g] = make([]verifC14Out, n)
		wg.Add(1)
		go func(g int) {
			defer wg.Done()
			<-start
			off := g * n / G
			for k := 0; k < n; k++ {
				i := (off + k) % n
				if g%2 == 1 {
					i = (off + n - k) % n
				}
				out := verifC14Run(w.sel, &cases[i])
				out.res = nil
				got[g][i] = out
			}
		}(g)
	}
	close(start)
	wg.Wait()
	return got
}

// verifC14Compare holds every concurrent result against the serial result of the same case.
func verifC14Compare(rec *kit.Rec, w *verifC14World, cases []verifC14Case, serial []verifC14Out, got [][]verifC14Out, concFirst bool) {
	G := len(got)
	rec.Count("concurrent_selections", G*len(cases))
	if concFirst {
		rec.Count("concurrent_selections_before_any_serial_call", G*len(cases))
	}
	rec.Distinct("goroutine_counts", G)
	for g := range got {
		for i, out := range got[g] {
			if out.same(serial[i]) {
				continue
			}
			c := &cases[i]
			rec.Count("concurrent_mismatches", 1)
			rec.Count("concurrent_mismatches_"+c.purityClass(), 1)
			rec.Violation("purity:concurrent-differs-from-serial:"+c.purityClass(),
				fmt.Sprintf("with %d goroutines selecting concurrently, a selection returned something else than the same selection run serially", G),
				map[string]interface{}{"case": c.describe(w.id), "goroutines": G, "serial": serial[i].String(), "concurrent": out.String(), "concurrent_phase_ran_first": concFirst})
			// a result that differs from the serial one is also put before the address / panic oracles: whatever the
			// reason for the difference, it must still be a proper address inside the configured subnets
			switch out.Kind {
			case 'A':
				if sig, msg, _ := verifC14Judge(c.cfg, c.Fam, []byte(out.IP), out.Flag, c.path(), c.addrFunc()); sig != "" {
					rec.Violation(sig, "(concurrent phase) "+msg, map[string]interface{}{"case": c.describe(w.id), "goroutines": G, "result": out.String()})
				}
			case 'P':
				rec.Violation("panic:"+verifC14InputClass(c)+":"+out.Site,
					fmt.Sprintf("(concurrent phase) selection panicked instead of returning an error: %s (in %s)", out.Err, out.Site), c.describe(w.id))
			}
		}
	}
}

var verifC14G = []int{2, 3, 4, 8, 16, 32}

// verifC14Dump: with VERIF_C14_DUMP=<dir> every serial outcome is also written to <dir>/<monitor>.tsv, so that two
// trees (e.g. the pinned one and one carrying a proposed fix) can be compared case by case.  Not an oracle.
type verifC14Dump struct {
	f *os.File
	w *strings.Builder
}

func verifC14OpenDump(mon string) *verifC14Dump {
	d := os.Getenv("VERIF_C14_DUMP")
	if d == "" {
		return nil
	}
	f, err := os.Create(filepath.Join(d, mon+".tsv"))
	if err != nil {
		return nil
	}
	return &verifC14Dump{f: f, w: &strings.Builder{}}
}

func (d *verifC14Dump) line(key string, verdict string, out string) {
	if d == nil {
		return
	}
	fmt.Fprintf(d.w, "%s\t%s\t%s\n", key, verdict, out)
	if d.w.Len() > 1<<20 {
		d.f.WriteString(d.w.String())
		d.w.Reset()
	}
}

func (d *verifC14Dump) close() {
	if d == nil {
		return
	}
	d.f.WriteString(d.w.String())
	d.f.Close()
}

var verifC14DumpTo *verifC14Dump

// verifC14ErrClass shortens an error text to its constant part (statistics only, never an oracle).
func verifC14ErrClass(e string) string {
	for _, cut := range []string{": invalid CIDR", "invalid CIDR"} {
		if i := strings.Index(e, cut); i >= 0 {
			return e[:i] + " invalid CIDR address"
		}
	}
	if len(e) > 60 {
		e = e[:60]
	}
	return e
}

// fixed worlds: the configuration shipped with the package's tests, the built-in client default, and
// the hand-written corner cases named in the design (so that they are exercised at every seed).
func verifC14FixedWorlds(t *testing.T, rec *kit.Rec) []*verifC14World {
	var ws []*verifC14World
	if sel, err := SubnetsFromTomlFile("./test/phantom_subnets.toml"); err == nil {
		ws = append(ws, verifC14FromSelector(-1, sel))
	} else {
		rec.Note("shipped test configuration not loadable: " + err.Error())
	}
	u := func(v uint32) *uint32 { return &v }
	tr, fa := true, false
	hand := &PhantomIPSelector{Networks: map[uint]*SubnetConfig{
		1: {WeightedSubnets: GetDefaultPhantomSubnets().WeightedSubnets},
		2: {WeightedSubnets: []*pb.PhantomSubnets{{Weight: u(1), Subnets: []string{"0.1.2.0/24", "64:ff9b::/96"}}}},
		3: {WeightedSubnets: []*pb.PhantomSubnets{{Weight: u(0), Subnets: []string{"192.0.2.0/24", "2001:db8::/64"}}}},
		4: {WeightedSubnets: []*pb.PhantomSubnets{{Subnets: []string{"192.0.2.0/24", "2001:db8::/64"}}}},
		5: {WeightedSubnets: []*pb.PhantomSubnets{}},
		6: {WeightedSubnets: []*pb.PhantomSubnets{
			{Weight: u(1), RandomizeDstPort: &tr, Subnets: []string{"198.51.100.0/24", "2001:db8:1::/64"}},
			{Weight: u(1), RandomizeDstPort: &fa, Subnets: []string{"198.51.100.128/25", "203.0.113.7/32", "2001:db8:2::1/128"}}}},
		7: {WeightedSubnets: []*pb.PhantomSubnets{
			{Weight: u(3), Subnets: []string{"203.0.113.0/24"}},
			{Weight: u(3), Subnets: []string{"2001:db8:3::/48"}},
			{Weight: u(3), Subnets: []string{"203.0.113.0/24", "203.0.113.0/24"}}}},
		8: {WeightedSubnets: []*pb.PhantomSubnets{{Weight: u(1), Subnets: []string{"::ffff:192.0.2.0/120", "::192.0.2.0/120", "0.0.0.0/0", "::/0"}}}},
		9: {WeightedSubnets: []*pb.PhantomSubnets{
			{Weight: u(1), RandomizeDstPort: &tr, Subnets: []string{"::768:ca40/123"}},
			{Weight: u(1), Subnets: []string{"0.0.0.0/0"}}}},
	}}
	ws = append(ws, verifC14FromSelector(-2, hand))
	return ws
}

// ---- tests -----------------------------------------------------------------------------------------

func TestVerifC14Select(t *testing.T) {
	rec := kit.NewRec("C14", "select")
	defer rec.Close()
	verifC14DumpTo = verifC14OpenDump("select")
	defer verifC14DumpTo.close()
	r := kit.Rand("c14/select")
	dir := t.TempDir()
	worlds, per := kit.Tier(400, 6000), kit.Tier(100, 500)
	concEvery := kit.Tier(1, 4)
	bi := 0
	for _, w := range verifC14FixedWorlds(t, rec) {
		verifC14Batch(rec, w, verifC14GenCases(r, w, 4*per), verifC14Opts{repeat: true, goroutines: verifC14G[bi%len(verifC14G)], concFirst: bi%2 == 1})
		bi++
	}
	for wi := 0; wi < worlds; wi++ {
		w := verifC14GenWorld(t, rec, r, wi, dir)
		if w.viaToml {
			rec.Count("worlds_loaded_through_toml", 1)
		}
		o := verifC14Opts{repeat: true}
		if wi%concEvery == 0 {
			o.goroutines = verifC14G[bi%len(verifC14G)]
			o.concFirst = (bi/len(verifC14G))%2 == 0
			bi++
		}
		verifC14Batch(rec, w, verifC14GenCases(r, w, per), o)
	}
	rec.Count("worlds", worlds+2)
}

// TestVerifC14Concurrent is the concurrent purity phase on its own; the orchestrator runs it in a
// binary built with -race and attributes race reports with a frame in this package to the property.
func TestVerifC14Concurrent(t *testing.T) {
	rec := kit.NewRec("C14", "concurrent")
	defer rec.Close()
	verifC14DumpTo = verifC14OpenDump("concurrent")
	defer verifC14DumpTo.close()
	r := kit.Rand("c14/concurrent")
	dir := t.TempDir()
	worlds, per := kit.Tier(60, 600), kit.Tier(100, 200)
	bi := 0
	for _, w := range verifC14FixedWorlds(t, rec) {
		verifC14Batch(rec, w, verifC14GenCases(r, w, 2*per), verifC14Opts{goroutines: verifC14G[(bi+3)%len(verifC14G)], concFirst: bi%2 == 0})
		bi++
	}
	for wi := 0; wi < worlds; wi++ {
		w := verifC14GenWorld(t, rec, r, wi, dir)
		verifC14Batch(rec, w, verifC14GenCases(r, w, per), verifC14Opts{goroutines: verifC14G[bi%len(verifC14G)], concFirst: (bi/len(verifC14G))%2 == 0})
		bi++
	}
	rec.Count("worlds", worlds+2)
}

// TestVerifC14Offsets: every offset of small subnets through the real selectAddrFromSubnetOffset.
func TestVerifC14Offsets(t *testing.T) {
	rec := kit.NewRec("C14", "offsets")
	defer rec.Close()
	dump := verifC14OpenDump("offsets")
	defer dump.close()
	r := kit.Rand("c14/offsets")
	nsub := kit.Tier(90, 1800)
	fixed := []string{"0.1.2.0/24", "64:ff9b::/116", "0.0.0.0/24", "::/120", "::ffff:0:0/116", "255.255.255.0/24", "ffff:ffff:ffff:ffff:ffff:ffff:ffff:f000/116",
		"10.0.0.0/20", "192.0.2.1/32", "2001:db8::1/128", "203.0.113.8/31", "2001:db8::/127", "0.0.1.0/24", "::1:0/116", "::ffff:192.0.2.0/120"}
	var pool []netip.Prefix
	subnets := 0
	for si := 0; si < nsub; si++ {
		var text string
		if si < len(fixed) {
			text = fixed[si]
		} else {
			text = verifC14GenPrefix(r, r.Intn(2) == 0, &pool, 12)
		}
		p, err := netip.ParsePrefix(text)
		if err != nil {
			t.Fatalf("driver generated an unparsable prefix %q", text)
		}
		m := p.Masked()
		hostBits := m.Addr().BitLen() - m.Bits()
		if hostBits > 12 {
			if si < len(fixed) {
				t.Fatalf("fixed prefix %q too large", text)
			}
			continue
		}
		flag := si%2 == 0
		nets, err := parseSubnets(&pb.PhantomSubnets{Subnets: []string{text}, RandomizeDstPort: &flag})
		if err != nil || len(nets) != 1 {
			rec.Violation("offsets:valid-cidr-rejected", "parseSubnets rejected a valid CIDR", map[string]interface{}{"subnet": text, "err": fmt.Sprint(err)})
			continue
		}
		cfg := verifC14Analyse([]*pb.PhantomSubnets{{Subnets: []string{text}, RandomizeDstPort: &flag}})
		fam := 6
		// an IPv4-mapped prefix may be understood as the IPv6 subnet it is written as or as the IPv4 subnet it maps
		if m.Addr().Is4() {
			fam = 4
		} else if cfg.entries[0].hasAlt {
			fam = 0
		}
		size := 1 << uint(hostBits)
		rec.Case(map[string]interface{}{"subnet": text, "size": size})
		subnets++
		rec.Distinct("nontrivial", text)
		rec.Distinct("subnet_sizes", fam, size)
		seen := map[netip.Addr]int{}
		bad := false
		for off := 0; off < size; off++ {
			rec.Count("evaluations", 1)
			detail := map[string]interface{}{"subnet": text, "offset": off, "size": size}
			res, sig, msg := verifC14Offset(nets[0], int64(off))
			if sig == "" {
				ip, fl, ok := verifC14Digest(res)
				if !ok {
					sig, msg = "offsets:nil-without-error", "neither an address nor an error"
				} else {
					detail["result"] = verifC14IPText([]byte(ip)) + " raw " + hex.EncodeToString([]byte(ip))
					var s2 string
					s2, msg, _ = verifC14Judge(cfg, fam, []byte(ip), fl, "selectAddrFromSubnetOffset", "selectAddrFromSubnetOffset")
					sig = s2
					// injectivity is judged on the zero-extended value, so that the dropped-zero-bytes defect is reported once, as itself
					n := 4
					if fam == 6 || len(ip) > 4 {
						n = 16
					}
					if len(ip) <= n {
						b := make([]byte, n)
						copy(b[n-len(ip):], ip)
						a, _ := netip.AddrFromSlice(b)
						if prev, dup := seen[a]; dup {
							rec.Violation("offsets:not-injective", fmt.Sprintf("offsets %d and %d of %s give the same address %s", prev, off, text, a), detail)
							bad = true
						}
						seen[a] = off
					}
				}
			}
			if dump != nil {
				verdict, o := "ok", "E"
				if sig != "" {
					verdict = "bad"
				}
				if ip, fl, ok := verifC14Digest(res); ok {
					o = fmt.Sprintf("A %s %v", hex.EncodeToString([]byte(ip)), fl)
				}
				dump.line(fmt.Sprintf("%s/%d", text, off), verdict, o)
			}
			if sig != "" {
				bad = true
				rec.Violation(sig, msg, detail)
			}
		}
		if !bad && len(seen) == size {
			rec.Count("subnets_mapped_bijectively", 1)
		}
		// offsets beyond the subnet must not produce an address outside it
		for _, off := range []int64{int64(size), int64(size) + 1, 2 * int64(size), 1 << 40} {
			rec.Count("evaluations", 1)
			res, sig, msg := verifC14Offset(nets[0], off)
			detail := map[string]interface{}{"subnet": text, "offset": off, "size": size}
			if sig != "" {
				rec.Violation(sig, msg, detail)
				continue
			}
			if ip, fl, ok := verifC14Digest(res); ok {
				if s2, m2, _ := verifC14Judge(cfg, fam, []byte(ip), fl, "selectAddrFromSubnetOffset", "selectAddrFromSubnetOffset"); s2 != "" && !strings.HasPrefix(s2, "wellformed:leading-zero") {
					rec.Violation("offsets:offset-beyond-subnet-accepted", "an offset >= the subnet size produced an address instead of an error: "+m2, detail)
				}
			}
		}
	}
	rec.Count("subnets", subnets)
	rec.Exhaustive(fmt.Sprintf("every offset 0..size-1 of %d subnets with <= 4096 addresses (IPv4 /20-/32, IPv6 /116-/128) through selectAddrFromSubnetOffset", subnets))
}

// verifC14Offset calls the real function; an error for an in-range offset and a panic are violations.
func verifC14Offset(n *phantomNet, off int64) (res *PhantomIP, sig, msg string) {
	defer func() {
		if p := recover(); p != nil {
			res, sig, msg = nil, "panic:offset:"+verifC14PanicSite(), fmt.Sprintf("selectAddrFromSubnetOffset panicked: %v", p)
		}
	}()
	bits, l := n.Mask.Size()
	r, err := selectAddrFromSubnetOffset(n, big.NewInt(off))
	if err != nil {
		if l-bits < 62 && off < int64(1)<<uint(l-bits) {
			return nil, "offsets:in-range-offset-rejected", "an offset inside the subnet was rejected: " + err.Error()
		}
		return nil, "", ""
	}
	return r, "", ""
}
