//go:build verif

package assets

// C20 – the client's stored ClientConf is replaced atomically.
//
// The test binary is both the supervisor and the child.  The child (TestVerifC20Child, role "child")
// stores a numbered sequence of configurations through the REAL assets API (AssetsSetDir, SetClientConf,
// SetGeneration, SetDecoys, SetPubkey, SetPhantomSubnets) and reports every step on a pipe.  The supervisor
// kills it (SIGKILL at seeded instants; SIGKILL injected by strace at every system call of the storing
// thread), makes its system calls fail (strace error injection, read-only remount, full tmpfs, vanished
// directory, RLIMIT_NOFILE, RLIMIT_FSIZE, unmarshalable configuration) and after every such event compares
// the ClientConf file with {what was there before the store, the configuration being stored}.
//
// This file: the configuration generator (a configuration is a pure function of its number), the child,
// the process / strace plumbing and the disk oracle.  zz_verif_c20_stages_test.go: the supervisor stages.

import (
	"bufio"
	"bytes"
	"crypto/sha256"
	"encoding/binary"
	"errors"
	"fmt"
	"io"
	"io/fs"
	"os"
	"os/exec"
	"os/signal"
	"path/filepath"
	"regexp"
	"runtime"
	"sort"
	"strconv"
	"strings"
	"sync"
	"syscall"
	"time"
	"unsafe"

	"github.com/refraction-networking/conjure/pkg/station/log"
	pb "github.com/refraction-networking/conjure/proto"
	"google.golang.org/protobuf/proto"
)

const (
	c20EnvRole   = "VERIF_C20_ROLE"
	c20EnvDir    = "VERIF_C20_DIR"
	c20EnvExpect = "VERIF_C20_EXPECT"
	c20File      = "ClientConf"
)

// ---- the numbered configurations -------------------------------------------------------------------
//
// Store number k (k >= 1) is performed with the operation c20Op(k) and ALWAYS results in the complete
// configuration c20Config(k): the components of c20Config(k) carry the number of the latest store <= k
// that replaced that component (a whole-ClientConf store replaces all of them), so a partial setter
// applied to c20Config(k-1) yields exactly c20Config(k).

func c20Op(k int) string {
	switch k % 8 {
	case 1, 5:
		return "SetClientConf"
	case 2, 0:
		return "SetGeneration"
	case 3, 7:
		return "SetDecoys"
	case 4:
		return "SetPubkey"
	default: // 6
		return "SetPhantomSubnets"
	}
}

// c20LargeDecoys: decoy-list version j is the multi-megabyte one.
func c20LargeDecoys(j int) bool { return j%8 == 3 || j%8 == 5 }

// c20Ver: the latest store j <= k that replaced component comp.
func c20Ver(k int, comp string) int {
	for j := k; j >= 1; j-- {
		op := c20Op(j)
		if op == "SetClientConf" || op == comp {
			return j
		}
	}
	return 1
}

// c20Size: "large" when c20Config(k) is the multi-megabyte one.
func c20Size(k int) string {
	if c20LargeDecoys(c20Ver(k, "SetDecoys")) {
		return "large"
	}
	return "small"
}

func c20Bytes(tag string, j, n int) []byte {
	out := make([]byte, 0, n+32)
	var ctr [8]byte
	for i := 0; len(out) < n; i++ {
		binary.BigEndian.PutUint64(ctr[:], uint64(i))
		h := sha256.Sum256(append([]byte(fmt.Sprintf("c20/%s/%d/", tag, j)), ctr[:]...))
		out = append(out, h[:]...)
	}
	return out[:n]
}

func c20Key(tag string, j int) *pb.PubKey {
	kt := pb.KeyType_AES_GCM_128
	if j%2 == 0 {
		kt = pb.KeyType_AES_GCM_256
	}
	return &pb.PubKey{Key: c20Bytes(tag, j, 32), Type: &kt}
}

func c20Decoys(j int) []*pb.TLSDecoySpec {
	n := 2 + j%5
	if c20LargeDecoys(j) {
		n = 37000 + (j*131)%3000 // ≈ 4 MB marshalled, the exact size depends on j
	}
	// one xorshift stream per version: cheap, deterministic, and different for every j
	x := uint64(j)*0x9E3779B97F4A7C15 + 0x1234567
	next := func() uint64 {
		x ^= x << 13
		x ^= x >> 7
		x ^= x << 17
		return x
	}
	kt := pb.KeyType_AES_GCM_128
	out := make([]*pb.TLSDecoySpec, n)
	for i := range out {
		host := "d" + strconv.Itoa(i) + "-v" + strconv.Itoa(j) + ".decoy-" + strconv.FormatUint(next()%100000, 36) + ".example.net"
		ip4 := uint32(next())
		key := make([]byte, 32)
		for o := 0; o < 32; o += 8 {
			binary.LittleEndian.PutUint64(key[o:], next())
		}
		ip6 := make([]byte, 16)
		binary.LittleEndian.PutUint64(ip6[0:], next())
		binary.LittleEndian.PutUint64(ip6[8:], next())
		to := uint32(20000 + next()%10000)
		win := uint32(14400 + next()%1000)
		out[i] = &pb.TLSDecoySpec{Hostname: &host, Ipv4Addr: &ip4, Ipv6Addr: ip6, Pubkey: &pb.PubKey{Key: key, Type: &kt}, Timeout: &to, Tcpwin: &win}
	}
	return out
}

func c20Subnets(j int) *pb.PhantomSubnetsList {
	var l pb.PhantomSubnetsList
	for i := 0; i < 1+j%3; i++ {
		w := uint32(1 + (j+i)%9)
		rnd := (j+i)%2 == 0
		l.WeightedSubnets = append(l.WeightedSubnets, &pb.PhantomSubnets{Weight: &w, RandomizeDstPort: &rnd,
			Subnets: []string{fmt.Sprintf("192.0.%d.0/24", (j+i)%256), fmt.Sprintf("2001:db8:%x::/48", j+i)}})
	}
	return &l
}

func c20Dns(j int) *pb.DnsRegConf {
	m := pb.DnsRegMethod_DOH
	if j%2 == 0 {
		m = pb.DnsRegMethod_UDP
	}
	tgt := fmt.Sprintf("https://198.51.100.%d/dns-query", j%250)
	dom := fmt.Sprintf("r%d.refraction.example", j)
	utls := "3*Firefox_65,1*Firefox_63"
	stun := fmt.Sprintf("stun%d.example.net:3478", j)
	return &pb.DnsRegConf{DnsRegMethod: &m, Target: &tgt, Domain: &dom, Pubkey: c20Bytes("dnskey", j, 32), UtlsDistribution: &utls, StunServer: &stun}
}

func c20Gen(j int) uint32 { return uint32(1000 + j) }

func c20Config(k int) *pb.ClientConf {
	g := c20Gen(c20Ver(k, "SetGeneration"))
	fv := c20Ver(k, "SetClientConf")
	return &pb.ClientConf{
		DecoyList:          &pb.DecoyList{TlsDecoys: c20Decoys(c20Ver(k, "SetDecoys"))},
		Generation:         &g,
		DefaultPubkey:      c20Key("pubkey", c20Ver(k, "SetPubkey")),
		PhantomSubnetsList: c20Subnets(c20Ver(k, "SetPhantomSubnets")),
		ConjurePubkey:      c20Key("conjure", fv),
		DnsRegConf:         c20Dns(fv),
	}
}

// ---- the child -------------------------------------------------------------------------------------
//
// fd 3: events to the supervisor (one line each), fd 4: commands from the supervisor.  Raw system calls on
// both, from a goroutine locked to its thread, so that every system call of a store is issued by ONE
// thread whose id the supervisor knows (strace attaches to exactly that thread).
//
//	L ok same|DIFF <generation> | L absent | L err <text>      result of the real loader (AssetsSetDir)
//	T <tid>                                                    ready for commands
//	B <k> <op>                                                 about to call the API for store k
//	A <k> ok <mem> | A <k> fail <memcheck> <mem> <error text>        the API returned
//	Q                                                          quitting on request
//
// memcheck (only after a failed SetClientConf): same | DIFF:<what> – whether the in-memory configuration
// equals the snapshot taken just before the call.  mem: new | old | other – what the memory holds now.

func c20OneLine(err error) string {
	s := strings.ReplaceAll(err.Error(), "\n", " ")
	if len(s) > 300 {
		s = s[:300]
	}
	return s
}

type c20FdReader struct {
	fd  int
	buf []byte
}

func (r *c20FdReader) line() (string, bool) {
	for {
		if i := bytes.IndexByte(r.buf, '\n'); i >= 0 {
			l := string(r.buf[:i])
			r.buf = r.buf[i+1:]
			return l, true
		}
		tmp := make([]byte, 256)
		n, err := syscall.Read(r.fd, tmp)
		if err == syscall.EINTR {
			continue
		}
		if err != nil || n == 0 {
			return "", false
		}
		r.buf = append(r.buf, tmp[:n]...)
	}
}

func c20ChildMain() {
	runtime.LockOSThread()
	signal.Ignore(syscall.SIGPIPE)
	log.SetOutput(io.Discard)
	say := func(format string, a ...interface{}) {
		line := []byte(fmt.Sprintf(format, a...) + "\n")
		for len(line) > 0 {
			n, err := syscall.Write(3, line)
			if err == syscall.EINTR {
				continue
			}
			if err != nil {
				os.Exit(97) // the event pipe failed (e.g. an injected error hit a protocol write): the run is void
			}
			line = line[n:]
		}
	}
	dir := os.Getenv(c20EnvDir)
	as, err := AssetsSetDir(dir)
	if as == nil {
		say("L err no assets instance: %v", err)
		os.Exit(96)
	}
	switch {
	case err == nil:
		verdict := "same"
		if e, err2 := strconv.Atoi(os.Getenv(c20EnvExpect)); err2 != nil || e < 1 || !proto.Equal(as.GetClientConfPtr(), c20Config(e)) {
			verdict = "DIFF"
		}
		sum := "unmarshalable"
		if b, merr := proto.Marshal(as.GetClientConfPtr()); merr == nil {
			sum = fmt.Sprintf("%x", sha256.Sum256(b))
		}
		say("L ok %s %d %s", verdict, as.GetGeneration(), sum)
	case errors.Is(err, fs.ErrNotExist):
		say("L absent")
	default:
		say("L err %s", c20OneLine(err))
	}
	say("T %d", syscall.Gettid())

	rd := &c20FdReader{fd: 4}
	force := false
	var saved [2]syscall.Rlimit
	for {
		l, ok := rd.line()
		if !ok {
			return
		}
		f := strings.Fields(l)
		if len(f) == 0 {
			continue
		}
		has := func(flag string) bool {
			for _, x := range f[1:] {
				if x == flag {
					return true
				}
			}
			return false
		}
		switch f[0] {
		case "run": // run a b [full]: stores a..b back to back
			a, _ := strconv.Atoi(f[1])
			b, _ := strconv.Atoi(f[2])
			for k := a; k <= b; k++ {
				force = !c20ChildStore(as, k, force || (k == a && has("full")), false, "", say)
			}
		case "store": // store k [full] [bad] [op=<setter>]
			k, _ := strconv.Atoi(f[1])
			override := ""
			for _, x := range f[2:] {
				if strings.HasPrefix(x, "op=") {
					override = x[3:]
				}
			}
			if override != "" {
				// an explicitly chosen setter applied to whatever the memory holds (the supervisor knows: it is what is on disk)
				force = !c20ChildStore(as, k, false, false, override, say)
			} else {
				force = !c20ChildStore(as, k, force || has("full"), has("bad"), "", say)
			}
		case "rlimit": // rlimit nofile|fsize <n> [die] | rlimit restore
			switch f[1] {
			case "nofile", "fsize":
				res, slot := syscall.RLIMIT_NOFILE, 0
				if f[1] == "fsize" {
					res, slot = 1 /* RLIMIT_FSIZE */, 1
				}
				n, _ := strconv.ParseUint(f[2], 10, 64)
				if f[1] == "fsize" && has("die") {
					// The Go runtime ignores SIGXFSZ, so a write at the limit just fails with EFBIG.  With "die" the kernel's
					// default disposition is put back behind the runtime's back: the write that reaches the limit terminates
					// the process – a crash in mid-write at a chosen offset.  No core file, please.
					syscall.Setrlimit(syscall.RLIMIT_CORE, &syscall.Rlimit{Cur: 0, Max: 0})
					var sa struct {
						handler  uintptr // 0 = SIG_DFL
						flags    uint64
						restorer uintptr
						mask     uint64
					}
					if _, _, e := syscall.RawSyscall6(syscall.SYS_RT_SIGACTION, uintptr(syscall.SIGXFSZ), uintptr(unsafe.Pointer(&sa)), 0, 8, 0, 0); e != 0 {
						say("R err rt_sigaction: %v", e)
						continue
					}
				}
				var cur syscall.Rlimit
				if err := syscall.Getrlimit(res, &cur); err != nil {
					say("R err %v", err)
					continue
				}
				if saved[slot].Max == 0 {
					saved[slot] = cur
				}
				if err := syscall.Setrlimit(res, &syscall.Rlimit{Cur: n, Max: cur.Max}); err != nil {
					say("R err %v", err)
					continue
				}
				say("R ok")
			case "restore":
				for slot, res := range []int{syscall.RLIMIT_NOFILE, 1} {
					if saved[slot].Max != 0 {
						syscall.Setrlimit(res, &saved[slot])
					}
				}
				say("R ok")
			}
		case "quit":
			say("Q")
			return
		}
	}
}

// c20ChildStore performs store k through the real API and reports it; false when the API returned an error.
func c20ChildStore(as *assets, k int, full, bad bool, override string, say func(string, ...interface{})) bool {
	op := c20Op(k)
	if full || bad {
		op = "SetClientConf"
	}
	if override != "" {
		op = override
	}
	// everything is prepared BEFORE the B line: between B and A there is only the API call
	var conf *pb.ClientConf
	var decoys []*pb.TLSDecoySpec
	var key *pb.PubKey
	var subnets *pb.PhantomSubnetsList
	var snap *pb.ClientConf
	switch op {
	case "SetClientConf":
		conf = c20Config(k)
		if bad {
			conf.DnsRegConf = &pb.DnsRegConf{} // required fields missing: proto.Marshal refuses it
		}
		snap = proto.Clone(as.GetClientConfPtr()).(*pb.ClientConf)
	case "SetDecoys":
		decoys = c20Decoys(k)
	case "SetPubkey":
		key = c20Key("pubkey", k)
	case "SetPhantomSubnets":
		subnets = c20Subnets(k)
	}
	say("B %d %s", k, op)
	var err error
	switch op {
	case "SetClientConf":
		err = as.SetClientConf(conf)
	case "SetGeneration":
		err = as.SetGeneration(c20Gen(k))
	case "SetDecoys":
		err = as.SetDecoys(decoys)
	case "SetPubkey":
		err = as.SetPubkey(key)
	case "SetPhantomSubnets":
		err = as.SetPhantomSubnets(subnets)
	}
	if err == nil {
		// what is in effect in memory after a store that reported success (whole-ClientConf stores only): the supervisor
		// compares it with what it then finds on disk (a "success" that did not replace the file is a failed replacement)
		memOK := "na"
		if snap != nil && !bad {
			switch now := as.GetClientConfPtr(); {
			case proto.Equal(now, conf):
				memOK = "new"
			case proto.Equal(now, snap):
				memOK = "old"
			default:
				memOK = "other"
			}
		}
		say("A %d ok %s", k, memOK)
		// after an explicitly chosen partial setter the memory is not c20Config(k): the next numbered store is a whole-ClientConf one
		return override == "" || op == "SetClientConf"
	}
	now := as.GetClientConfPtr()
	memcheck := "na"
	mem := "other"
	if snap != nil {
		switch {
		case !proto.Equal(now, snap):
			memcheck = fmt.Sprintf("DIFF:generation-now=%d,generation-before=%d", now.GetGeneration(), snap.GetGeneration())
		case as.GetGeneration() != snap.GetGeneration():
			memcheck = fmt.Sprintf("DIFF:GetGeneration()=%d,before=%d", as.GetGeneration(), snap.GetGeneration())
		default:
			memcheck = "same"
			mem = "old"
		}
	}
	if mem == "other" && !bad && proto.Equal(now, c20Config(k)) {
		mem = "new"
	}
	say("A %d fail %s %s %s", k, memcheck, mem, c20OneLine(err))
	// the numbering stays consistent only if the memory now holds c20Config(k); otherwise the next store is a whole-ClientConf one
	return mem == "new"
}

// ---- supervisor side: child process handle -----------------------------------------------------------

type c20Proc struct {
	cmd    *exec.Cmd
	lines  chan string
	ctl    *os.File
	tid    int
	load   string // the L line
	waited bool
	exit   string
}

const c20LineTimeout = 120 * time.Second

// start launches a child on dir and waits for its L and T lines.
func (s *c20Sup) start(dir string, expect int, extraEnv ...string) (*c20Proc, error) {
	evR, evW, err := os.Pipe()
	if err != nil {
		return nil, err
	}
	ctlR, ctlW, err := os.Pipe()
	if err != nil {
		return nil, err
	}
	cmd := exec.Command(os.Args[0], "-test.run", "^TestVerifC20Child$", "-test.timeout", "30m")
	cmd.Env = append(os.Environ(), c20EnvRole+"=child", c20EnvDir+"="+dir, c20EnvExpect+"="+strconv.Itoa(expect),
		"TMPDIR="+s.tmpdir, "GOMAXPROCS=2")
	cmd.Env = append(cmd.Env, extraEnv...)
	logf, err := os.OpenFile(filepath.Join(s.base, "children.log"), os.O_CREATE|os.O_WRONLY|os.O_APPEND, 0o644)
	if err != nil {
		return nil, err
	}
	defer logf.Close()
	cmd.Stdout, cmd.Stderr = logf, logf
	cmd.ExtraFiles = []*os.File{evW, ctlR}
	cmd.Dir = s.base // never the repository
	cmd.SysProcAttr = &syscall.SysProcAttr{Pdeathsig: syscall.SIGKILL}
	if err := cmd.Start(); err != nil {
		evR.Close()
		evW.Close()
		ctlR.Close()
		ctlW.Close()
		return nil, err
	}
	evW.Close()
	ctlR.Close()
	p := &c20Proc{cmd: cmd, lines: make(chan string, 4096), ctl: ctlW}
	go func() {
		sc := bufio.NewScanner(evR)
		sc.Buffer(make([]byte, 64<<10), 1<<20)
		for sc.Scan() {
			p.lines <- sc.Text()
		}
		evR.Close()
		close(p.lines)
	}()
	for p.tid == 0 {
		l, ok := p.next()
		if !ok {
			p.kill()
			return nil, fmt.Errorf("child ended before it was ready (%s); see %s", p.wait(), logf.Name())
		}
		switch {
		case strings.HasPrefix(l, "L "):
			p.load = l
		case strings.HasPrefix(l, "T "):
			p.tid, _ = strconv.Atoi(l[2:])
		}
	}
	return p, nil
}

// next returns the next event line; false at end of stream (the child is gone) or on the watchdog.
func (p *c20Proc) next() (string, bool) {
	select {
	case l, ok := <-p.lines:
		return l, ok
	case <-time.After(c20LineTimeout):
		return "WATCHDOG", false
	}
}

func (p *c20Proc) send(cmd string) { io.WriteString(p.ctl, cmd+"\n") }

func (p *c20Proc) kill() { p.cmd.Process.Kill() }

// wait reaps the child: "killed", "exit:N" or "signal:…".
func (p *c20Proc) wait() string {
	if p.waited {
		return p.exit
	}
	p.waited = true
	p.ctl.Close()
	err := p.cmd.Wait()
	p.exit = "exit:0"
	if ee, ok := err.(*exec.ExitError); ok {
		ws := ee.Sys().(syscall.WaitStatus)
		switch {
		case ws.Signaled() && ws.Signal() == syscall.SIGKILL:
			p.exit = "killed"
		case ws.Signaled():
			p.exit = "signal:" + ws.Signal().String()
		default:
			p.exit = fmt.Sprintf("exit:%d", ws.ExitStatus())
		}
	} else if err != nil {
		p.exit = "wait:" + err.Error()
	}
	return p.exit
}

// drain reads the remaining event lines (to be called after the child is dead or was told to quit).
func (p *c20Proc) drain(f func(string)) {
	for {
		l, ok := p.next()
		if !ok {
			return
		}
		f(l)
	}
}

// ---- strace ----------------------------------------------------------------------------------------------

// attach starts `strace -p tid` (one thread, no -f) with an optional injection expression and returns once
// strace reports that it is attached.
func (s *c20Sup) attach(tid int, logPath, inject string) (*exec.Cmd, error) {
	args := []string{"-p", strconv.Itoa(tid), "-o", logPath, "-s", "40", "-e", "trace=all"}
	if inject != "" {
		args = append(args, "-e", "inject="+inject)
	}
	cmd := exec.Command(s.strace, args...)
	cmd.SysProcAttr = &syscall.SysProcAttr{Pdeathsig: syscall.SIGKILL}
	stderr, err := cmd.StderrPipe()
	if err != nil {
		return nil, err
	}
	if err := cmd.Start(); err != nil {
		return nil, err
	}
	ready := make(chan string, 1)
	go func() {
		sc := bufio.NewScanner(stderr)
		var all []string
		sent := false
		for sc.Scan() {
			all = append(all, sc.Text())
			if !sent && strings.Contains(sc.Text(), "attached") {
				ready <- ""
				sent = true
			}
		}
		if !sent {
			ready <- "strace said: " + strings.Join(all, " | ")
		}
	}()
	select {
	case msg := <-ready:
		if msg != "" {
			cmd.Process.Kill()
			cmd.Wait()
			return nil, errors.New(msg)
		}
	case <-time.After(60 * time.Second):
		cmd.Process.Kill()
		cmd.Wait()
		return nil, errors.New("strace did not attach within 60 s")
	}
	return cmd, nil
}

// c20Sys is one system call of the traced thread.
type c20Sys struct {
	Name     string
	Line     string
	Proto    string // "B 3 SetDecoys" when this is a write on the event pipe
	Store    int    // k when issued between the B k and the A k event, else 0
	Idx      int    // 1-based index among the calls of the same name within this store (or within the gap)
	Nth      int    // 1-based index among the calls of the same name since strace attached (what when=N counts)
	Injected bool   // strace tampered with this call (error injection)
	Fd3      bool
	OnDir    bool // the call names a path under the assets directory, or a descriptor opened from there
}

var c20SysRe = regexp.MustCompile(`^([a-z0-9_]+)\((.*)$`)
var c20ProtoRe = regexp.MustCompile(`^3, "((?:[^"\\]|\\.)*)"`)
var c20FdArgRe = regexp.MustCompile(`^(\d+)[,)]`)
var c20RetFdRe = regexp.MustCompile(`\) = (\d+)\s*$`)

// c20ParseStrace reads a log written by `strace -p tid -o`; dir is the assets directory of that run.
func c20ParseStrace(path, dir string) (seq []c20Sys, killed bool, err error) {
	b, err := os.ReadFile(path)
	if err != nil {
		return nil, false, err
	}
	store := 0
	nth := map[string]int{}
	idx := map[string]int{}
	dirFds := map[string]bool{}
	for _, l := range strings.Split(string(b), "\n") {
		if strings.HasPrefix(l, "+++ killed by SIGKILL") {
			killed = true
			continue
		}
		m := c20SysRe.FindStringSubmatch(l)
		if m == nil {
			continue // signals, exit lines, resumed fragments
		}
		sc := c20Sys{Name: m[1], Line: l, Injected: strings.Contains(l, "(INJECTED)")}
		if sc.Name == "write" {
			if pm := c20ProtoRe.FindStringSubmatch(m[2]); pm != nil {
				sc.Fd3 = true
				sc.Proto = strings.TrimSpace(strings.ReplaceAll(pm[1], `\n`, " "))
			}
		}
		if strings.Contains(m[2], `"`+dir+`/`) || strings.Contains(m[2], `"`+dir+`"`) {
			sc.OnDir = true
			if rm := c20RetFdRe.FindStringSubmatch(l); rm != nil && strings.HasPrefix(sc.Name, "open") {
				dirFds[rm[1]] = true
			}
		} else if fm := c20FdArgRe.FindStringSubmatch(m[2]); fm != nil && dirFds[fm[1]] {
			sc.OnDir = true
			if sc.Name == "close" && !sc.Injected {
				delete(dirFds, fm[1])
			}
		}
		f := strings.Fields(sc.Proto)
		if len(f) >= 2 && f[0] == "A" {
			store = 0
			idx = map[string]int{}
		}
		nth[sc.Name]++
		idx[sc.Name]++
		sc.Nth, sc.Idx, sc.Store = nth[sc.Name], idx[sc.Name], store
		if len(f) >= 2 && f[0] == "B" {
			store, _ = strconv.Atoi(f[1])
			idx = map[string]int{}
		}
		seq = append(seq, sc)
	}
	return seq, killed, nil
}

// system calls whose number on a Go thread is not determined by the program (runtime housekeeping); they
// do not change the file system, so a crash "at" one of them is the same crash state as at its neighbours.
var c20Noise = map[string]bool{"futex": true, "nanosleep": true, "clock_nanosleep": true, "sched_yield": true, "madvise": true, "mmap": true, "munmap": true,
	"mprotect": true, "brk": true, "rt_sigprocmask": true, "rt_sigreturn": true, "rt_sigaction": true, "sigaltstack": true, "tgkill": true, "getpid": true,
	"gettid": true, "epoll_pwait": true, "epoll_wait": true, "epoll_ctl": true, "clone": true, "clone3": true, "restart_syscall": true, "read": true,
	"exit": true, "exit_group": true, "sched_getaffinity": true, "timer_settime": true, "timer_create": true, "timer_delete": true, "membarrier": true, "prlimit64": true}

// ---- the disk oracle -----------------------------------------------------------------------------------

// c20Disk is what is at <dir>/ClientConf.
type c20Disk struct {
	Absent bool
	Bytes  []byte
	Num    int // the number whose configuration it is, when known (0 = unknown / absent)
}

func (d c20Disk) String() string {
	switch {
	case d.Absent:
		return "absent"
	case d.Num > 0:
		return fmt.Sprintf("config#%d(%dB)", d.Num, len(d.Bytes))
	}
	h := sha256.Sum256(d.Bytes)
	return fmt.Sprintf("%dB sha256=%x", len(d.Bytes), h[:6])
}

func c20ReadDisk(dir string) (c20Disk, error) {
	b, err := os.ReadFile(filepath.Join(dir, c20File))
	if err != nil {
		if errors.Is(err, fs.ErrNotExist) || errors.Is(err, syscall.ENOTDIR) {
			return c20Disk{Absent: true}, nil
		}
		return c20Disk{}, err
	}
	return c20Disk{Bytes: b}, nil
}

// want returns the marshalled c20Config(k) (small LRU: the large ones are 4 MB each).
func (s *c20Sup) want(k int) []byte {
	s.cmu.Lock()
	if b, ok := s.cache[k]; ok {
		s.cmu.Unlock()
		return b
	}
	s.cmu.Unlock()
	b, err := proto.Marshal(c20Config(k))
	if err != nil {
		panic(fmt.Sprintf("c20: cannot marshal the reference configuration %d: %v", k, err))
	}
	s.cmu.Lock()
	s.cache[k] = b
	s.corder = append(s.corder, k)
	for len(s.corder) > 24 {
		delete(s.cache, s.corder[0])
		s.corder = s.corder[1:]
	}
	s.cmu.Unlock()
	return b
}

// judge decides whether the disk state now is one of: the state before the store (prev), or the
// configuration being stored (number k; k == 0: nothing is being stored).  It returns the disk state with
// Num filled in when it is a numbered configuration, and a non-empty class when it is neither.
func (s *c20Sup) judge(now, prev c20Disk, k int) (c20Disk, string) {
	var wantNew []byte
	if k > 0 {
		wantNew = s.want(k)
	}
	now, class, isNew := s.judgeBytes(now, prev, wantNew)
	if isNew {
		now.Num = k
	}
	return now, class
}

// judgeBytes is judge with the new configuration given as its marshalled bytes (nil: nothing is being stored).
func (s *c20Sup) judgeBytes(now, prev c20Disk, wantNew []byte) (c20Disk, string, bool) {
	if now.Absent {
		if prev.Absent {
			return now, "", false
		}
		return now, "file-gone", false
	}
	if wantNew != nil && bytes.Equal(now.Bytes, wantNew) {
		return now, "", true
	}
	if !prev.Absent && bytes.Equal(now.Bytes, prev.Bytes) {
		now.Num = prev.Num
		return now, "", false
	}
	// not byte-identical: does it parse, and is it the same configuration encoded differently?
	var got pb.ClientConf
	perr := proto.Unmarshal(now.Bytes, &got)
	if perr == nil {
		if wantNew != nil {
			var nw pb.ClientConf
			if proto.Unmarshal(wantNew, &nw) == nil && proto.Equal(&got, &nw) {
				s.rec.Count("equal_but_encoded_differently", 1)
				return now, "", true
			}
		}
		if !prev.Absent {
			var old pb.ClientConf
			if proto.Unmarshal(prev.Bytes, &old) == nil && proto.Equal(&got, &old) {
				s.rec.Count("equal_but_encoded_differently", 1)
				now.Num = prev.Num
				return now, "", false
			}
		}
	}
	// neither: classify for the signature
	isPrefix := func(whole []byte) bool {
		return whole != nil && len(now.Bytes) < len(whole) && bytes.Equal(now.Bytes, whole[:len(now.Bytes)])
	}
	switch {
	case len(now.Bytes) == 0:
		return now, "empty-file", false
	case isPrefix(wantNew):
		return now, "truncated-new", false
	case !prev.Absent && isPrefix(prev.Bytes):
		return now, "truncated-old", false
	case wantNew != nil && len(now.Bytes) > len(wantNew) && bytes.Equal(now.Bytes[:len(wantNew)], wantNew):
		return now, "new-followed-by-stale-bytes", false
	case perr != nil:
		return now, "unparseable", false
	default:
		return now, "parses-but-neither-old-nor-new", false
	}
}

// c20Setter applies to conf what the setter op does when called for store k (the supervisor's reference for a
// setter applied to an arbitrary, known starting configuration).
func (s *c20Sup) expectAfter(disk c20Disk, op string, k int) []byte {
	if op == "SetClientConf" {
		return s.want(k)
	}
	var c pb.ClientConf
	if disk.Absent || proto.Unmarshal(disk.Bytes, &c) != nil {
		return nil
	}
	switch op {
	case "SetGeneration":
		g := c20Gen(k)
		c.Generation = &g
	case "SetDecoys":
		if c.DecoyList == nil {
			c.DecoyList = &pb.DecoyList{}
		}
		c.DecoyList.TlsDecoys = c20Decoys(k)
	case "SetPubkey":
		c.DefaultPubkey = c20Key("pubkey", k)
	case "SetPhantomSubnets":
		c.PhantomSubnetsList = c20Subnets(k)
	default:
		return nil
	}
	b, err := proto.Marshal(&c)
	if err != nil {
		return nil
	}
	return b
}

// leftovers lists (and removes) everything in dir except the ClientConf file: the temporary files a killed
// or failed store left behind.  Not a violation per the statement; counted.
func c20Leftovers(dir string, remove bool) (sizes []int64) {
	ents, err := os.ReadDir(dir)
	if err != nil {
		return nil
	}
	for _, e := range ents {
		if e.Name() == c20File || e.Name() == "filler" {
			continue
		}
		if fi, err := e.Info(); err == nil {
			sizes = append(sizes, fi.Size())
		}
		if remove {
			os.RemoveAll(filepath.Join(dir, e.Name()))
		}
	}
	sort.Slice(sizes, func(i, j int) bool { return sizes[i] < sizes[j] })
	return sizes
}

// c20Sup is the supervisor state.
type c20Sup struct {
	rec     c20Rec
	base    string // scratch root (under VERIF_OUT)
	tmpdir  string // TMPDIR given to the children (on the scratch file system; the pinned code does not use it)
	mountns bool   // we are in a private mount namespace and may mount
	strace  string
	fatal   func(format string, a ...interface{})
	logf    func(format string, a ...interface{})

	cmu    sync.Mutex
	cache  map[int][]byte
	corder []int

	dur map[string]time.Duration // calibrated B→A time per size class (only steers where kills land)

	delivered struct {
		sync.Mutex
		kills, crashpoints, faults int
	}
	soft    []string
	samples map[string]int // written-out samples per kind (a few of each kind rather than the first six)
}

// wantSample: at most max samples of each kind (the recorder keeps six in all).
func (s *c20Sup) wantSample(kind string, max int) bool {
	s.cmu.Lock()
	defer s.cmu.Unlock()
	if s.samples == nil {
		s.samples = map[string]int{}
	}
	if s.samples[kind] >= max {
		return false
	}
	s.samples[kind]++
	return true
}

// c20Rec is the part of kit.Rec the supervisor uses.
type c20Rec interface {
	Case(desc interface{})
	Violation(sig, msg string, detail interface{})
	Inconclusive(msg string, detail interface{})
	Count(key string, n int)
	Distinct(key string, v ...interface{})
	Sample(v interface{})
	WantSample() bool
	Exhaustive(what string)
	Note(s string)
}
