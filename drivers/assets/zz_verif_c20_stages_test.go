//go:build verif

package assets

// C20 supervisor: baseline, random SIGKILL, system-call crash points, injected failures.

import (
	"bytes"
	"crypto/sha256"
	"fmt"
	"os"
	"os/exec"
	"path/filepath"
	"runtime"
	"sort"
	"strconv"
	"strings"
	"sync"
	"syscall"
	"testing"
	"time"

	kit "github.com/refraction-networking/conjure/internal/verifkit"
	pb "github.com/refraction-networking/conjure/proto"
	"google.golang.org/protobuf/proto"
)

func TestVerifC20Child(t *testing.T) {
	if os.Getenv(c20EnvRole) != "child" {
		t.Skip("helper process of TestVerifC20")
	}
	c20ChildMain()
}

func TestVerifC20(t *testing.T) {
	switch os.Getenv(c20EnvRole) {
	case "child":
		t.Skip("child role")
	case "super":
		c20Supervise(t, os.Getenv("VERIF_C20_MOUNTNS") == "1")
		return
	}
	// Re-execute ourselves as the supervisor inside a private mount namespace (so that it can mount a small
	// tmpfs / remount read-only without anything leaking out).  Not permitted -> run it here, without mounts.
	cmd := exec.Command(os.Args[0], "-test.run", "^TestVerifC20$", "-test.timeout", "120m", "-test.v")
	cmd.Env = append(os.Environ(), c20EnvRole+"=super", "VERIF_C20_MOUNTNS=1")
	cmd.Stdout, cmd.Stderr = os.Stdout, os.Stderr
	cmd.SysProcAttr = &syscall.SysProcAttr{Unshareflags: syscall.CLONE_NEWNS, Pdeathsig: syscall.SIGKILL}
	if err := cmd.Start(); err != nil {
		t.Logf("cannot start the supervisor in a private mount namespace (%v): running without mount-based faults", err)
		c20Supervise(t, false)
		return
	}
	if err := cmd.Wait(); err != nil {
		t.Fatalf("the C20 supervisor process failed: %v", err)
	}
}

func c20Supervise(t *testing.T, mountns bool) {
	rec := kit.NewRec("C20", "atomic-store")
	defer rec.Close()
	s := &c20Sup{rec: rec, base: filepath.Join(kit.OutDir(), "c20"), mountns: mountns, cache: map[int][]byte{}, dur: map[string]time.Duration{}}
	s.fatal = func(f string, a ...interface{}) { rec.Close(); t.Fatalf(f, a...) }
	s.logf = t.Logf
	s.tmpdir = filepath.Join(s.base, "tmp")
	if err := os.MkdirAll(s.tmpdir, 0o755); err != nil {
		t.Fatal(err)
	}
	// VERIF_C20_NO_STRACE / VERIF_C20_NO_MOUNTNS: pretend the tool is missing (to exercise the degraded paths)
	if os.Getenv("VERIF_C20_NO_MOUNTNS") != "" {
		mountns = false
		s.mountns = false
	}
	if p, err := exec.LookPath("strace"); err == nil && os.Getenv("VERIF_C20_NO_STRACE") == "" {
		s.strace = p
	} else {
		rec.Note("strace not found: the system-call crash-point and error-injection sub-stages did not run")
	}
	if mountns {
		// probe: can we really mount here?
		probe := filepath.Join(s.base, "probe")
		os.MkdirAll(probe, 0o755)
		if err := syscall.Mount("tmpfs", probe, "tmpfs", 0, "size=1m"); err != nil {
			s.mountns = false
			rec.Note(fmt.Sprintf("mount not permitted (%v): the tmpfs sub-stages (ENOSPC, EROFS, cross-device) did not run", err))
		} else {
			syscall.Unmount(probe, syscall.MNT_DETACH)
		}
	} else {
		rec.Note("no private mount namespace: the tmpfs sub-stages (ENOSPC, EROFS, cross-device) did not run")
	}

	s.stageBaseline()
	if s.strace != "" {
		// can strace attach to a thread of a child here (ptrace may be forbidden)?
		dir, cleanup := s.newDir("probe-strace", "")
		p, err := s.start(dir, 0)
		if err != nil {
			s.fatal("probe: %v", err)
		}
		tr, err := s.attach(p.tid, filepath.Join(s.base, "probe.log"), "")
		p.send("quit")
		p.drain(func(string) {})
		p.wait()
		if err != nil {
			rec.Note(fmt.Sprintf("strace cannot attach here (%v): the system-call crash-point and error-injection sub-stages did not run", err))
			s.strace = ""
		} else {
			tr.Wait()
		}
		cleanup()
	}
	s.stageKill(kit.Tier(150, 5000))
	if s.strace != "" {
		s.stageStrace("plain", false, 0, 1, kit.Tier(8, 16), true)
		if s.mountns {
			// the same on a tmpfs that is a different file system than TMPDIR (a temp file made elsewhere cannot be renamed in)
			s.stageStrace("xdev", true, 2, 3, kit.Tier(4, 10), false)
		}
	}
	s.stageFaults()

	s.delivered.Lock()
	k, c, f := s.delivered.kills, s.delivered.crashpoints, s.delivered.faults
	s.delivered.Unlock()
	t.Logf("C20: kills=%d crash points=%d failures=%d", k, c, f)
	s.cmu.Lock()
	soft := s.soft
	s.cmu.Unlock()
	if len(soft) > 0 {
		s.fatal("C20: a sub-stage could not observe what it is there for (infrastructure / a tree on which healthy stores fail), refusing to pass: %v", soft)
	}
	if c+f == 0 || k == 0 {
		s.fatal("C20: could not inject (kills=%d crash points=%d failures=%d): nothing was observed, refusing to pass", k, c, f)
	}
}

// ---- helpers ----------------------------------------------------------------------------------------------

var c20DirSeq struct {
	sync.Mutex
	n int
}

// newDir makes a fresh scratch directory; tmpfsSize != "" mounts a tmpfs of that size on it.
func (s *c20Sup) newDir(label, tmpfsSize string) (string, func()) {
	c20DirSeq.Lock()
	c20DirSeq.n++
	n := c20DirSeq.n
	c20DirSeq.Unlock()
	dir := filepath.Join(s.base, fmt.Sprintf("%s-%d", label, n))
	if err := os.MkdirAll(dir, 0o755); err != nil {
		s.fatal("mkdir: %v", err)
	}
	if tmpfsSize == "" {
		return dir, func() { os.RemoveAll(dir) }
	}
	if err := syscall.Mount("tmpfs", dir, "tmpfs", 0, "size="+tmpfsSize); err != nil {
		s.fatal("mount tmpfs on %s: %v", dir, err)
	}
	return dir, func() {
		syscall.Unmount(dir, syscall.MNT_DETACH)
		os.RemoveAll(dir)
		os.RemoveAll(dir + ".away")
	}
}

// prepopulate writes c20Config(num) as the ClientConf of dir (the supervisor's own set-up, not the code under test).
func (s *c20Sup) prepopulate(dir string, num int) {
	if num <= 0 {
		return
	}
	if err := os.WriteFile(filepath.Join(dir, c20File), s.want(num), 0o644); err != nil {
		s.fatal("prepopulate: %v", err)
	}
}

// softErr: a sub-stage could not do its work; the other sub-stages still run, the check ends with ERROR.
func (s *c20Sup) softErr(msg string) {
	s.rec.Note("ERROR " + msg)
	s.cmu.Lock()
	s.soft = append(s.soft, msg)
	s.cmu.Unlock()
}

func (s *c20Sup) violation(sig, msg string, detail map[string]interface{}) {
	s.rec.Violation(sig, msg, detail)
}

func c20Tail(path string, n int) string {
	b, _ := os.ReadFile(path)
	if len(b) > n {
		b = b[len(b)-n:]
	}
	return string(b)
}

// checkLoad compares what the real loader said in a fresh process with what the supervisor sees on disk.
func (s *c20Sup) checkLoad(stage string, p *c20Proc, disk c20Disk) {
	f := strings.Fields(p.load)
	s.rec.Count("loader_checks", 1)
	switch {
	case disk.Absent:
		if len(f) < 2 || f[1] != "absent" {
			s.rec.Inconclusive("loader did not report a missing file as missing", map[string]interface{}{"stage": stage, "L": p.load})
		}
	case disk.Num == 0:
		// not one of the numbered configurations: compare the checksum of what the loader holds with the file's content
		var c pb.ClientConf
		if proto.Unmarshal(disk.Bytes, &c) != nil {
			return // unparseable for us too: the disk oracle has reported it already
		}
		b, err := proto.Marshal(&c)
		if err != nil {
			return
		}
		if len(f) >= 5 && f[1] == "ok" && f[4] == fmt.Sprintf("%x", sha256.Sum256(b)) {
			return
		}
		what := "loads-a-different-configuration"
		if len(f) >= 2 && f[1] != "ok" {
			what = "rejects-the-file"
		}
		s.violation("loader:"+what+":"+stage, "the real loader (AssetsSetDir) in a fresh process does not yield the configuration that is on disk",
			map[string]interface{}{"disk": disk.String(), "loader": p.load})
	case disk.Num > 0:
		if len(f) >= 3 && f[1] == "ok" && f[2] == "same" {
			return
		}
		what := "loads-a-different-configuration"
		if len(f) >= 2 && f[1] != "ok" {
			what = "rejects-the-file"
		}
		s.violation("loader:"+what+":"+stage, "the real loader (AssetsSetDir) in a fresh process does not yield the configuration that is on disk",
			map[string]interface{}{"disk": disk.String(), "loader": p.load})
	}
}

// ---- scripted runs ------------------------------------------------------------------------------------------

type c20Step struct {
	K       int
	Flags   string // "", "full", "bad"
	Pre     func() // environment change before the store (fault on)
	Post    func() // environment change after the store (fault off)
	PreCmd  string // command to the child before the store (rlimit …)
	PostCmd string
	Fault   string // name of the fault active during this store ("" = healthy)
	// ExpectDeath: the fault is meant to kill the child in this store (SIGXFSZ with its default disposition)
	ExpectDeath bool
}

type c20StepResult struct {
	K        int
	Op       string
	Size     string
	Fault    string
	Done     bool // the API returned
	OK       bool
	MemCheck string
	Mem      string
	Err      string
	Before   string
	After    string
	Class    string
	Took     time.Duration
	Left     []int64
}

type c20Run struct {
	Steps  []c20StepResult
	Exit   string
	DiedIn int // store in progress when the child died (0: none)
	Disk   c20Disk
	Log    string
	// Crashed: the child ended by itself abnormally (panic, fatal error).  Reported by the caller (reportCrash)
	// unless the caller finds that its own injection hit the Go runtime instead of the store.
	Crashed  bool
	expected bool
	Stage    string
	Inject   string
}

func (s *c20Sup) reportCrash(run *c20Run) {
	if !run.Crashed {
		return
	}
	last := c20StepResult{}
	if len(run.Steps) > 0 {
		last = run.Steps[len(run.Steps)-1]
	}
	s.violation(fmt.Sprintf("crash:child:%s:%s", run.Stage, last.Op), "the storing process crashed by itself ("+run.Exit+")",
		map[string]interface{}{"last_step": last, "inject": run.Inject, "child_output_tail": c20Tail(filepath.Join(s.base, "children.log"), 3000)})
}

// scripted drives one child through steps, one `store` command at a time, judging the disk after each.
// stage names the sub-stage for signatures; inject is a strace injection expression ("" = none; logPath
// != "" still traces).
func (s *c20Sup) scripted(stage, dir string, startNum int, steps []c20Step, inject, logPath string) *c20Run {
	disk, err := c20ReadDisk(dir)
	if err != nil {
		s.fatal("read %s: %v", dir, err)
	}
	if !disk.Absent && startNum > 0 && bytes.Equal(disk.Bytes, s.want(startNum)) {
		disk.Num = startNum
	}
	p, err := s.start(dir, startNum)
	if err != nil {
		s.fatal("%s: %v", stage, err)
	}
	defer func() { p.kill(); p.wait() }()
	s.checkLoad(stage, p, disk)
	run := &c20Run{Log: logPath, Stage: stage, Inject: inject}
	var tracer *exec.Cmd
	if logPath != "" {
		tracer, err = s.attach(p.tid, logPath, inject)
		if err != nil {
			s.fatal("%s: strace attach: %v", stage, err)
		}
		defer func() {
			done := make(chan struct{})
			go func() { tracer.Wait(); close(done) }()
			select {
			case <-done:
			case <-time.After(30 * time.Second):
				tracer.Process.Kill()
				<-done
			}
		}()
	}
	childCmd := func(c string) bool {
		if c == "" {
			return true
		}
		p.send(c)
		l, ok := p.next()
		if !ok || !strings.HasPrefix(l, "R ok") {
			s.rec.Inconclusive("child could not apply "+c, map[string]interface{}{"reply": l, "stage": stage})
			return false
		}
		return true
	}
	first := true
	for _, st := range steps {
		if st.Pre != nil {
			st.Pre()
		}
		if !childCmd(st.PreCmd) {
			break
		}
		prev, err := c20ReadDisk(dir)
		if err != nil {
			s.fatal("read %s: %v", dir, err)
		}
		if !prev.Absent && !disk.Absent && bytes.Equal(prev.Bytes, disk.Bytes) {
			prev.Num = disk.Num
		}
		flags := st.Flags
		if first && flags == "" && (disk.Num == 0 || disk.Num != st.K-1) {
			flags = "full" // the memory does not hold c20Config(K-1): only a whole-ClientConf store yields c20Config(K)
		}
		first = false
		res := c20StepResult{K: st.K, Op: c20Op(st.K), Size: c20Size(st.K), Fault: st.Fault, Before: prev.String()}
		s.rec.Case(map[string]interface{}{"stage": stage, "dir_state_before": prev.String(), "store": st.K, "flags": flags, "fault": st.Fault, "inject": inject})
		t0 := time.Now()
		p.send(strings.TrimSpace(fmt.Sprintf("store %d %s", st.K, flags)))
		alive := true
		for {
			l, ok := p.next()
			if !ok {
				alive = false
				if l == "WATCHDOG" {
					s.fatal("%s: store %d did not return within %v (child stuck; infrastructure)", stage, st.K, c20LineTimeout)
				}
				break
			}
			f := strings.Fields(l)
			if len(f) >= 3 && f[0] == "B" {
				res.Op = f[2]
				t0 = time.Now()
			}
			if len(f) >= 3 && f[0] == "A" {
				res.Took = time.Since(t0)
				res.Done = true
				res.OK = f[2] == "ok"
				if res.OK && len(f) >= 4 {
					res.Mem = f[3]
				}
				if !res.OK && len(f) >= 5 {
					res.MemCheck, res.Mem = f[3], f[4]
					res.Err = strings.Join(f[5:], " ")
				}
				break
			}
		}
		if !alive {
			run.Exit = p.wait()
			run.DiedIn = st.K
			run.expected = st.ExpectDeath && strings.HasPrefix(run.Exit, "signal:")
		}
		now, err := c20ReadDisk(dir)
		if err != nil {
			s.fatal("read %s: %v", dir, err)
		}
		k := st.K
		if st.Flags == "bad" {
			k = 0 // the unmarshalable configuration can never be on disk
		}
		if st.Flags == "bad" && res.Done && res.OK {
			// this tree accepted a configuration that proto.Marshal refuses (required fields missing); what "the new
			// configuration" is on disk is then its business: only parseability can be demanded
			var c pb.ClientConf
			if !now.Absent && !bytes.Equal(now.Bytes, prev.Bytes) && proto.Unmarshal(now.Bytes, &c) != nil {
				res.Class = "unparseable"
			}
			s.rec.Inconclusive("a configuration without its required fields was stored successfully; only parseability was checked", map[string]interface{}{"store": st.K, "after": now.String()})
		} else {
			now, res.Class = s.judge(now, prev, k)
		}
		res.After = now.String()
		res.Left = c20Leftovers(dir, false)
		if res.Class != "" {
			how := "after a store that returned"
			if !alive {
				how = "after the process died in a store"
			} else if !res.OK {
				how = "after a failed store"
			}
			s.violation(fmt.Sprintf("file:%s:%s:%s", res.Class, stage, res.Op),
				fmt.Sprintf("%s the ClientConf file is neither what it was before nor the configuration being stored (%s)", how, res.Class),
				map[string]interface{}{"store": st.K, "op": res.Op, "size": res.Size, "fault": st.Fault, "inject": inject, "before": prev.String(), "after": now.String(),
					"want_new": fmt.Sprintf("config#%d(%dB)", st.K, len(s.want(st.K))), "api_error": res.Err, "exit": run.Exit, "leftover_sizes": res.Left})
		}
		if alive && !res.OK && strings.HasPrefix(res.MemCheck, "DIFF") {
			cause := "write"
			if st.Flags == "bad" {
				cause = "marshal"
			}
			s.violation("memory:not-previous-after-failed-SetClientConf:"+cause,
				"SetClientConf returned an error but the in-memory configuration is no longer the previous one",
				map[string]interface{}{"store": st.K, "fault": st.Fault, "inject": inject, "api_error": res.Err, "memcheck": res.MemCheck, "stage": stage})
		}
		if alive && res.OK && res.Op == "SetClientConf" && st.Flags != "bad" && res.Mem == "new" && res.Class == "" &&
			bytes.Equal(now.Bytes, prev.Bytes) && now.Absent == prev.Absent && !bytes.Equal(now.Bytes, s.want(st.K)) {
			// the call reported success, the file is still the previous configuration (the replacement did not happen), and
			// the configuration that never reached the disk is in effect in memory (added after seeded change C20-N)
			s.violation("memory:new-in-effect-although-file-not-replaced:"+stage,
				"SetClientConf left the previous ClientConf file in place (the replacement failed) but the new configuration is in effect in memory and no error was returned",
				map[string]interface{}{"store": st.K, "fault": st.Fault, "inject": inject, "file_before": prev.String(), "file_after": now.String(),
					"want_new": fmt.Sprintf("config#%d(%dB)", st.K, len(s.want(st.K))), "memory": res.Mem, "leftover_sizes": res.Left})
		}
		disk = now
		run.Steps = append(run.Steps, res)
		if !alive {
			break
		}
		childCmd(st.PostCmd)
		if st.Post != nil {
			st.Post()
		}
	}
	if run.DiedIn == 0 {
		p.send("quit")
		p.drain(func(string) {})
		run.Exit = p.wait()
	}
	run.Disk = disk
	run.Crashed = run.Exit != "killed" && run.Exit != "exit:0" && run.Exit != "exit:97" && !run.expected
	return run
}

func c20Healthy(from, to int) []c20Step {
	var st []c20Step
	for k := from; k <= to; k++ {
		st = append(st, c20Step{K: k})
	}
	return st
}

// ---- stage 0: baseline (no faults) ---------------------------------------------------------------------------
//
// Validates the model the other stages rest on: every store k, through whichever setter, leaves exactly
// c20Config(k) on disk, also across a restart (load + partial setter).  Also calibrates store durations.

func (s *c20Sup) stageBaseline() {
	dir, cleanup := s.newDir("baseline", "")
	defer cleanup()
	durs := map[string][]time.Duration{}
	check := func(run *c20Run) {
		s.reportCrash(run)
		for _, r := range run.Steps {
			if !r.OK || !strings.HasPrefix(r.After, fmt.Sprintf("config#%d(", r.K)) {
				if r.Class == "" {
					s.fatal("baseline: store %d (%s) in a healthy directory: ok=%v err=%q, disk %s -> %s (the monitor's model does not fit this tree; infrastructure)",
						r.K, r.Op, r.OK, r.Err, r.Before, r.After)
				}
				return
			}
			durs[r.Size] = append(durs[r.Size], r.Took)
			s.rec.Count("healthy_store_checks", 1)
		}
	}
	run := s.scripted("healthy", dir, 0, c20Healthy(1, 11), "", "")
	check(run)
	run = s.scripted("healthy", dir, run.Disk.Num, c20Healthy(12, 20), "", "") // restart: real loader, then partial setters
	check(run)
	for _, size := range []string{"small", "large"} {
		d := durs[size]
		if len(d) == 0 {
			s.dur[size] = time.Millisecond
			continue
		}
		sort.Slice(d, func(i, j int) bool { return d[i] < d[j] })
		s.dur[size] = d[len(d)/2]
	}
	s.rec.Note(fmt.Sprintf("calibration: median store time small=%v large=%v; sizes small=%dB large=%dB", s.dur["small"], s.dur["large"], len(s.want(1)), len(s.want(5))))
}

// ---- stage 1: SIGKILL at seeded random instants ---------------------------------------------------------------
//
// Every worker keeps ONE directory for all its rounds and never tidies it between a kill and the next store: whatever
// a killed store left behind (a partly written temp file) is still there when the next child – a restarted client –
// loads the directory and stores again.  That next store (the "aftermath" store) is deliberately a SMALL one, through
// a rotating setter, so that an implementation that reuses / does not truncate an orphaned temp file publishes
// "new configuration + tail of the interrupted big one".  Odd rounds are "steered": a large store is killed when its
// temp file is seen to have reached a seeded size, so that an orphaned multi-megabyte temp file really exists.

type c20KillWorker struct {
	dir  string
	disk c20Disk
	num  int // highest store number used in this directory
}

// nextNum returns the next unused store number that is ≡ res (mod 8).
func (w *c20KillWorker) nextNum(res int) int {
	k := w.num + 1
	for k%8 != res%8 {
		k++
	}
	w.num = k
	return k
}

const c20SmallLimit = 64 << 10

func c20IsSmall(d c20Disk) bool { return !d.Absent && len(d.Bytes) <= c20SmallLimit }

// c20SmallStore picks the setter and the number residue of a store whose result is small, given what is on disk.
func c20SmallStore(disk c20Disk, pick int) (op string, res int) {
	switch {
	case disk.Absent:
		return "SetClientConf", 1
	case c20IsSmall(disk):
		// every setter keeps a small configuration small (decoy version ≡ 7 is a short list)
		switch pick % 7 {
		case 0:
			return "SetGeneration", 2
		case 1:
			return "SetDecoys", 7
		case 2:
			return "SetPubkey", 4
		case 3:
			return "SetClientConf", 1
		case 4:
			return "SetPhantomSubnets", 6
		case 5:
			return "SetGeneration", 0
		default:
			return "SetPubkey", 2
		}
	default:
		// a large configuration on disk: only replacing the decoy list or the whole ClientConf makes it small
		if pick%2 == 0 {
			return "SetDecoys", 7
		}
		return "SetClientConf", 1
	}
}

// one sends a store command to a live child and waits for its A line.
func (s *c20Sup) one(p *c20Proc, cmd string) (ok bool, line string, alive bool) {
	p.send(cmd)
	for {
		l, more := p.next()
		if !more {
			return false, l, false
		}
		f := strings.Fields(l)
		if len(f) >= 3 && f[0] == "A" {
			return f[2] == "ok", l, true
		}
	}
}

// aftermath: dir holds whatever a store that died left behind; p is a child freshly started there.  It performs ONE
// small store (setter op, number k) and the file is judged as always: what it was before, or exactly the new
// configuration.  Afterwards the debris is removed (supervisor housekeeping).  Returns the new disk state.
func (s *c20Sup) aftermath(stage string, p *c20Proc, dir string, disk c20Disk, op string, k int, origin interface{}) (c20Disk, bool) {
	left := c20Leftovers(dir, false)
	want := s.expectAfter(disk, op, k)
	if want == nil {
		op = "SetClientConf"
		for k%8 != 1 {
			k++
		}
		want = s.want(k)
	}
	stale := len(left) > 0 && left[len(left)-1] > int64(len(want))
	s.rec.Case(map[string]interface{}{"stage": stage, "debris_sizes_before": left, "disk_before": disk.String(), "small_store": k, "op": op, "new_size": len(want), "after": origin})
	cmd := fmt.Sprintf("store %d op=%s", k, op)
	ok, line, alive := s.one(p, cmd)
	if !alive {
		return disk, false
	}
	now, err := c20ReadDisk(dir)
	if err != nil {
		s.fatal("read %s: %v", dir, err)
	}
	now, class, isNew := s.judgeBytes(now, disk, want)
	if isNew && op == "SetClientConf" {
		now.Num = k
	}
	s.rec.Count("aftermath_small_stores", 1)
	s.rec.Count("aftermath_small_stores."+op, 1)
	if stale {
		s.rec.Count("stale_temp_present_before_small_store", 1)
		s.rec.Count("stale_temp_present_before_small_store."+op, 1)
		s.rec.Count("stale_temp_present_before_small_store."+stage, 1)
		s.rec.Distinct("nontrivial", "aftermath", stage, op)
	}
	if !ok {
		s.rec.Count("aftermath_store_failed", 1)
	}
	if class != "" {
		s.violation(fmt.Sprintf("file:%s:%s:%s", class, stage, op),
			fmt.Sprintf("the first store of a restarted client in a directory where an earlier store had died left a ClientConf that is neither the previous nor the new configuration (%s)", class),
			map[string]interface{}{"store": k, "op": op, "api": line, "debris_sizes_before_the_store": left, "before": disk.String(), "after": now.String(), "want_new_bytes": len(want), "earlier_death": origin})
	} else if stale && ok && s.wantSample("aftermath", 1) {
		s.rec.Sample(map[string]interface{}{"kind": "small store of a restarted client next to an orphaned temp file", "stage": stage, "earlier_death": origin, "debris_sizes_before_the_store": left,
			"store": k, "op": op, "file_before": disk.String(), "file_after": now.String(), "debris_after": c20Leftovers(dir, false)})
	}
	c20Leftovers(dir, true)
	return now, true
}

// aftermathFresh: the same for the sub-stages that work in throw-away directories: a new child for the small store,
// then another one that only reloads (the real loader must yield what is on disk).
func (s *c20Sup) aftermathFresh(stage, dir string, disk c20Disk, pick int, origin interface{}) {
	if disk.Num == 0 && !disk.Absent {
		if d, err := c20ReadDisk(dir); err == nil {
			disk = d
		}
	}
	p, err := s.start(dir, disk.Num)
	if err != nil {
		s.fatal("%s: %v", stage, err)
	}
	s.checkLoad(stage, p, disk)
	op, res := c20SmallStore(disk, pick)
	k := 1000 + pick*8
	for k%8 != res {
		k++
	}
	now, alive := s.aftermath(stage, p, dir, disk, op, k, origin)
	p.send("quit")
	p.drain(func(string) {})
	exit := p.wait()
	if !alive || exit != "exit:0" {
		s.rec.Inconclusive("aftermath child ended unexpectedly", map[string]interface{}{"stage": stage, "exit": exit})
		return
	}
	p2, err := s.start(dir, now.Num)
	if err != nil {
		s.fatal("%s: %v", stage, err)
	}
	s.checkLoad(stage, p2, now)
	p2.send("quit")
	p2.drain(func(string) {})
	p2.wait()
}

func (s *c20Sup) stageKill(rounds int) {
	const workers = 4
	var wg sync.WaitGroup
	next := make(chan int, rounds)
	for i := 0; i < rounds; i++ {
		next <- i
	}
	close(next)
	for w := 0; w < workers; w++ {
		wg.Add(1)
		go func() {
			defer wg.Done()
			dir, cleanup := s.newDir("kill", "")
			defer cleanup()
			kw := &c20KillWorker{dir: dir, disk: c20Disk{Absent: true}}
			for round := range next {
				s.killRound(kw, round)
			}
		}()
	}
	wg.Wait()
}

func (s *c20Sup) killRound(w *c20KillWorker, round int) {
	r := kit.Rand(fmt.Sprintf("c20/kill/%d", round))
	p, err := s.start(w.dir, w.disk.Num)
	if err != nil {
		s.fatal("kill stage: %v", err)
	}
	defer func() { p.kill(); p.wait() }()
	s.checkLoad("kill", p, w.disk)
	healthyFail := func(what, line string) {
		exit := "alive"
		if line == "" || line == "WATCHDOG" {
			p.kill()
			exit = p.wait()
		}
		s.rec.Inconclusive("kill stage: unexpected child behaviour in a healthy directory", map[string]interface{}{"round": round, "what": what, "line": line, "exit": exit,
			"child_output_tail": c20Tail(filepath.Join(s.base, "children.log"), 1500)})
		s.fatal("kill stage: %s in a healthy directory (%q, %s)", what, line, exit)
	}

	// (1) the aftermath of the previous round's kill: a small store next to whatever that kill left behind
	if left := c20Leftovers(w.dir, false); len(left) > 0 {
		op, res := c20SmallStore(w.disk, r.Intn(1000))
		var alive bool
		w.disk, alive = s.aftermath("kill-aftermath", p, w.dir, w.disk, op, w.nextNum(res), map[string]interface{}{"round": round - 1, "kind": "SIGKILL"})
		if !alive {
			healthyFail("the child died during the aftermath store", "")
		}
	}

	// (2) the stores of this round and the kill
	var (
		lastA, lastB int
		lastOp       string
		wantNew      []byte // the configuration being stored when the kill landed inside a store
		prev         = w.disk
		failed       []string
		delayDesc    string
	)
	if round%2 == 1 {
		// steered: a small configuration on disk, then ONE large store, killed when its temp file reaches a seeded size
		if !c20IsSmall(w.disk) {
			k := w.nextNum(1)
			ok, line, alive := s.one(p, fmt.Sprintf("store %d full", k))
			if !alive || !ok {
				healthyFail("a small store failed", line)
			}
			now, err := c20ReadDisk(w.dir)
			if err != nil {
				s.fatal("read: %v", err)
			}
			var class string
			now, class = s.judge(now, w.disk, k)
			if class != "" {
				s.violation("file:"+class+":healthy:SetClientConf", "after a store that returned the ClientConf file is neither what it was before nor the configuration stored",
					map[string]interface{}{"store": k, "before": w.disk.String(), "after": now.String()})
			}
			w.disk, prev = now, now
		}
		op, res := "SetClientConf", 5
		if r.Intn(2) == 1 {
			op, res = "SetDecoys", 3
		}
		k := w.nextNum(res)
		wantNew = s.expectAfter(w.disk, op, k)
		if wantNew == nil {
			op = "SetClientConf"
			wantNew = s.want(k) // k ≡ 3 or 5: large either way
		}
		// the temp-file size at which to kill: anywhere in the write, sometimes "complete"
		// (the kill takes effect some tens of microseconds after the size was seen, so small thresholds still spread over the write)
		thr := int64(1 + r.Intn(len(wantNew)/8))
		switch x := r.Intn(10); {
		case x == 0:
			thr = int64(len(wantNew))
		case x <= 3:
			thr = int64(1 + r.Intn(len(wantNew)))
		}
		delayDesc = fmt.Sprintf("when a temp file reached %d of %d bytes", thr, len(wantNew))
		p.send(fmt.Sprintf("store %d op=%s", k, op))
		deadline := time.Now().Add(20*time.Second + 4*s.dur["large"])
		seenB := false
	watch:
		for time.Now().Before(deadline) {
			select {
			case l, ok := <-p.lines:
				if !ok {
					break watch
				}
				f := strings.Fields(l)
				if len(f) >= 3 && f[0] == "B" {
					seenB = true
					lastB, lastOp = k, f[2]
				}
				if len(f) >= 3 && f[0] == "A" {
					if f[2] == "ok" {
						lastA = k
					} else {
						failed = append(failed, l)
					}
					break watch // too late (or an implementation without a temp file): the kill lands outside the store
				}
			default:
				if seenB {
					if left := c20Leftovers(w.dir, false); len(left) > 0 && left[len(left)-1] >= thr {
						break watch
					}
				}
				runtime.Gosched()
			}
		}
		p.kill()
		exit := p.wait()
		p.drain(func(l string) {
			f := strings.Fields(l)
			if len(f) >= 3 && f[0] == "B" {
				lastB, lastOp = k, f[2]
			}
			if len(f) >= 3 && f[0] == "A" {
				if f[2] == "ok" {
					lastA = k
				} else {
					failed = append(failed, l)
				}
			}
		})
		if len(failed) > 0 || exit != "killed" {
			healthyFail("a store failed / the child ended by itself", strings.Join(failed, "; "))
		}
		if lastA == k {
			prev = c20Disk{Bytes: wantNew} // acknowledged: that is the only legitimate content now
			wantNew = nil
		}
		s.rec.Count("kills_steered", 1)
	} else {
		from := w.num + 1
		tgt := from + r.Intn(8)
		frac := r.Float64() * 1.25
		cmd := fmt.Sprintf("run %d %d", from, from+63)
		if w.disk.Num == 0 || w.disk.Num != w.num {
			cmd += " full" // the memory does not hold c20Config(from-1)
		}
		p.send(cmd)
		note := func(l string) {
			f := strings.Fields(l)
			if len(f) < 3 {
				return
			}
			k, _ := strconv.Atoi(f[1])
			switch f[0] {
			case "B":
				lastB, lastOp = k, f[2]
			case "A":
				if f[2] == "ok" {
					lastA = k
				} else {
					failed = append(failed, l)
				}
			}
		}
		for lastB < tgt {
			l, ok := p.next()
			if !ok {
				break
			}
			note(l)
		}
		delay := time.Duration(frac * float64(s.dur[c20Size(tgt)]))
		if delay > 0 {
			time.Sleep(delay)
		}
		delayDesc = fmt.Sprintf("%v after the B line of store %d", delay, tgt)
		p.kill()
		exit := p.wait()
		p.drain(note)
		if len(failed) > 0 || exit != "killed" {
			healthyFail("a store failed / the child ended by itself", strings.Join(failed, "; "))
		}
		if lastB > w.num {
			w.num = lastB
		}
		if lastA >= from {
			prev = c20Disk{Bytes: s.want(lastA), Num: lastA}
		}
		if lastB > lastA {
			wantNew = s.want(lastB)
		}
	}
	inStore := lastB > lastA
	if !inStore {
		wantNew = nil
	}
	s.rec.Case(map[string]interface{}{"stage": "kill", "round": round, "last_acknowledged": lastA, "in_progress": lastB, "in_store": inStore, "op": lastOp, "killed": delayDesc})
	now, err := c20ReadDisk(w.dir)
	if err != nil {
		s.fatal("read %s: %v", w.dir, err)
	}
	now, class, isNew := s.judgeBytes(now, prev, wantNew)
	if isNew && (round%2 == 0 || lastOp == "SetClientConf") {
		now.Num = lastB
	}
	left := c20Leftovers(w.dir, false) // NOT removed: the next round's child finds it
	s.rec.Count("evaluations", 1)
	s.rec.Count("kills", 1)
	s.rec.Count("leftover_temp_files", len(left))
	s.delivered.Lock()
	s.delivered.kills++
	s.delivered.Unlock()
	if class != "" {
		s.violation(fmt.Sprintf("file:%s:kill:%s", class, lastOp),
			fmt.Sprintf("after SIGKILL the ClientConf file is neither the last acknowledged configuration nor the one being stored (%s)", class),
			map[string]interface{}{"round": round, "last_acknowledged": lastA, "in_progress": lastB, "in_store": inStore, "op": lastOp, "killed": delayDesc, "before": prev.String(), "after": now.String(),
				"want_new_bytes": len(wantNew), "leftover_sizes": left})
		// continue from a clean slate
		os.Remove(filepath.Join(w.dir, c20File))
		c20Leftovers(w.dir, true)
		w.disk = c20Disk{Absent: true}
		return
	}
	if inStore {
		// crash state actually reached
		size := "small"
		if len(wantNew) > c20SmallLimit {
			size = "large"
		}
		phase := "before-temp-file"
		switch {
		case isNew:
			phase = "renamed"
		case len(left) > 0 && left[len(left)-1] == int64(len(wantNew)):
			phase = "temp-complete-not-renamed"
		case len(left) > 0:
			phase = fmt.Sprintf("temp-partial:%d", left[len(left)-1])
		}
		s.rec.Count("kills_inside_a_store", 1)
		s.rec.Count("kill_state."+size+"."+strings.SplitN(phase, ":", 2)[0], 1)
		s.rec.Count("kills_inside."+lastOp+"."+size, 1)
		s.rec.Distinct("nontrivial", "kill", lastOp, size, phase)
		s.rec.Distinct("kill_crash_states", lastOp, size, phase)
		if strings.HasPrefix(phase, "temp-partial") && size == "large" && s.wantSample("kill", 1) {
			s.rec.Sample(map[string]interface{}{"kind": "SIGKILL", "round": round, "store": lastB, "op": lastOp, "size": size, "killed": delayDesc, "crash_state": phase, "file_before": prev.String(), "file_after": now.String()})
		}
	}
	w.disk = now
}

// ---- stage 2: crash points and error injection at system-call granularity (strace) ---------------------------------

type c20Point struct {
	c20Sys
	Op, Size string
}

var c20ErrInject = map[string][]string{
	"openat":    {"ENOSPC", "EACCES", "EMFILE", "EROFS", "EINTR"},
	"open":      {"ENOSPC", "EACCES"},
	"creat":     {"ENOSPC", "EACCES"},
	"write":     {"ENOSPC", "EIO", "EDQUOT", "EINTR"},
	"pwrite64":  {"ENOSPC", "EIO"},
	"writev":    {"ENOSPC", "EIO"},
	"close":     {"EIO", "ENOSPC"},
	"rename":    {"EIO", "EXDEV", "EACCES"},
	"renameat":  {"EIO", "EXDEV", "EACCES", "ENOSPC"},
	"renameat2": {"EIO", "EXDEV", "EACCES", "ENOSPC"},
	"fsync":     {"EIO", "ENOSPC"},
	"fdatasync": {"EIO", "ENOSPC"},
	"fchmod":    {"EPERM"},
	"fchmodat":  {"EPERM"},
	"linkat":    {"EIO", "EEXIST"},
	"unlinkat":  {"EIO"},
	"ftruncate": {"EIO"},
	"mkdirat":   {"EACCES"},
}

// stageStrace: dry run to learn the system calls of stores from..to, then one run per (system call, N) with
// SIGKILL injected there, then one run per (failing-capable system call inside a store, errno).
func (s *c20Sup) stageStrace(label string, tmpfs bool, startNum, from, to int, errInject bool) {
	size := ""
	if tmpfs {
		size = "64m"
	}
	mk := func() (string, func()) {
		d, c := s.newDir("strace-"+label, size)
		s.prepopulate(d, startNum)
		return d, c
	}
	stageKillName, stageErrName := "crashpoint", "errinject"
	if label != "plain" {
		stageKillName, stageErrName = "crashpoint-"+label, "errinject-"+label
	}
	// dry run
	dir, cleanup := mk()
	logPath := filepath.Join(s.base, fmt.Sprintf("strace-%s-dry.log", label))
	run := s.scripted(stageKillName, dir, startNum, c20Healthy(from, to), "", logPath)
	cleanup()
	s.reportCrash(run)
	seq, _, err := c20ParseStrace(logPath, dir)
	if err != nil || len(seq) == 0 {
		s.rec.Note(fmt.Sprintf("strace produced no usable log (%v): the system-call sub-stages did not run", err))
		return
	}
	ops := map[int]string{}
	for _, r := range run.Steps {
		ops[r.K] = r.Op
		if !r.OK {
			s.softErr(fmt.Sprintf("%s: store %d (%s) failed in a healthy directory during the dry strace run (%s): the system-call sub-stage could not run", label, r.K, r.Op, r.Err))
			return
		}
	}
	var points []c20Point
	started := false
	perStore := map[int][]string{}
	for _, sc := range seq {
		f := strings.Fields(sc.Proto)
		if len(f) >= 2 && f[0] == "B" {
			started = true
		}
		if !started || c20Noise[sc.Name] {
			continue
		}
		if len(f) >= 1 && f[0] == "Q" {
			break
		}
		k := sc.Store
		points = append(points, c20Point{c20Sys: sc, Op: ops[k], Size: c20Size(k)})
		if k > 0 {
			perStore[k] = append(perStore[k], sc.Name)
		}
	}
	if s.wantSample("dry", 1) {
		s.rec.Sample(map[string]interface{}{"kind": "system calls of one store (dry strace run, " + label + ")", "store": from, "op": ops[from], "syscalls": strings.Join(perStore[from], " ")})
	}

	// (a) SIGKILL at every system call
	type job struct {
		pt     c20Point
		inject string
		errno  string
	}
	var jobs []job
	for _, pt := range points {
		jobs = append(jobs, job{pt: pt, inject: fmt.Sprintf("%s:signal=KILL:when=%d", pt.Name, pt.Nth)})
	}
	// (b) an error at every system call of a store that can fail
	if errInject {
		nerr := kit.Tier(2, 99)
		for _, pt := range points {
			if pt.Store == 0 || pt.Fd3 || !pt.OnDir {
				continue
			}
			for i, e := range c20ErrInject[pt.Name] {
				if i >= nerr && e != "EINTR" {
					continue
				}
				jobs = append(jobs, job{pt: pt, errno: e, inject: fmt.Sprintf("%s:error=%s:when=%d", pt.Name, e, pt.Nth)})
			}
		}
	}
	var mu sync.Mutex
	hitAll := 0
	missed := []string{}
	var seqNo int
	// attempt runs one injection; false = the injection did not land where it was aimed (the Go runtime issued an
	// extra write/close on this thread and shifted strace's count): the caller tries again
	attempt := func(j job, lastTry bool) bool {
		mu.Lock()
		seqNo++
		n := seqNo
		mu.Unlock()
		dir, cleanup := mk()
		defer cleanup()
		lp := filepath.Join(s.base, fmt.Sprintf("strace-%s-%d.log", label, n))
		defer os.Remove(lp)
		stage := stageKillName
		last := to
		if j.errno != "" {
			stage = stageErrName
			if j.pt.Store+2 < last {
				last = j.pt.Store + 2
			}
		} else if j.pt.Store > 0 && j.pt.Store < last {
			last = j.pt.Store
		}
		steps := c20Healthy(from, last)
		for i := range steps {
			if steps[i].K == j.pt.Store {
				steps[i].Fault = "strace " + j.inject
			}
		}
		run := s.scripted(stage, dir, startNum, steps, j.inject, lp)
		got, killed, _ := c20ParseStrace(lp, dir)
		desc := fmt.Sprintf("%s#%d of store %d (%s, %s)", j.pt.Name, j.pt.Idx, j.pt.Store, j.pt.Op, j.pt.Size)
		if j.errno == "" {
			// what did the kill actually hit?
			if !killed || run.Exit != "killed" || len(got) == 0 {
				s.reportCrash(run)
				s.rec.Count("crashpoint_not_delivered", 1)
				if lastTry {
					mu.Lock()
					missed = append(missed, desc)
					mu.Unlock()
				}
				return false
			}
			hit := got[len(got)-1]
			s.rec.Count("evaluations", 1)
			s.rec.Count("crashpoints_delivered", 1)
			s.delivered.Lock()
			s.delivered.crashpoints++
			s.delivered.Unlock()
			exact := hit.Name == j.pt.Name && hit.Store == j.pt.Store && hit.Idx == j.pt.Idx
			if hit.Store > 0 {
				s.rec.Distinct("nontrivial", "crashpoint", label, ops[hit.Store], c20Size(hit.Store), hit.Name, hit.Idx)
				s.rec.Distinct("crash_points_inside_stores", label, hit.Store, hit.Name, hit.Idx)
				s.rec.Count("crashpoints_inside_a_store", 1)
			}
			if hit.Store > 0 && strings.HasPrefix(hit.Name, "rename") && c20Size(hit.Store) == "large" && len(run.Steps) > 0 && s.wantSample("crashpoint", 1) {
				st := run.Steps[len(run.Steps)-1]
				s.rec.Sample(map[string]interface{}{"kind": "SIGKILL injected at a system call (" + label + ")", "syscall": hit.Name, "index_in_store": hit.Idx, "store": hit.Store, "op": st.Op, "size": st.Size,
					"strace_line": c20Short(hit.Line, 160), "file_before": st.Before, "file_after": st.After, "leftover_sizes": st.Left})
			}
			if hit.Store > 0 {
				// a large temp file orphaned by this death (the crash point lies after the temp file's first write)?  Then a
				// restarted client stores something small next to it.
				if left := c20Leftovers(dir, false); len(left) > 0 && left[len(left)-1] > c20SmallLimit {
					s.aftermathFresh(stageKillName+"-aftermath", dir, run.Disk, n, map[string]interface{}{"kind": "SIGKILL injected by strace on entering " + hit.Name, "store": hit.Store, "index_in_store": hit.Idx, "op": ops[hit.Store]})
				}
			}
			if j.pt.Store == 0 {
				return true
			}
			mu.Lock()
			if exact {
				hitAll++
			} else if lastTry {
				missed = append(missed, desc+" (hit "+hit.Name+" in store "+strconv.Itoa(hit.Store)+" instead)")
			}
			mu.Unlock()
			return exact
		}
		// error injection: which call did strace tamper with, and did the store fail?
		var inj *c20Sys
		for i := range got {
			if got[i].Injected {
				inj = &got[i]
				break
			}
		}
		if inj == nil || !inj.OnDir || inj.Fd3 || run.Exit == "exit:97" {
			// not delivered, or delivered to a call of the Go runtime (e.g. its eventfd wake-up write, which makes the
			// runtime abort): an artefact of the injection, says nothing about the store
			s.rec.Count("errinject_misfired", 1)
			return false
		}
		s.reportCrash(run)
		var failedStep *c20StepResult
		for i := range run.Steps {
			if run.Steps[i].Done && !run.Steps[i].OK {
				failedStep = &run.Steps[i]
				break
			}
		}
		s.rec.Count("evaluations", 1)
		if failedStep == nil {
			// delivered, but the store succeeded all the same (EINTR is retried by the Go runtime): observed, judged, not a failure
			s.rec.Count("errinject_absorbed."+j.errno, 1)
			return true
		}
		s.rec.Count("errinject_delivered", 1)
		s.delivered.Lock()
		s.delivered.faults++
		s.delivered.Unlock()
		s.rec.Distinct("nontrivial", "errinject", label, failedStep.Op, failedStep.Size, inj.Name, j.errno)
		s.rec.Distinct("failure_kinds", "strace:"+inj.Name+":"+j.errno)
		if failedStep.MemCheck == "same" {
			s.rec.Count("rollback_checks", 1)
		}
		if j.errno == "ENOSPC" && inj.Name == "write" && s.wantSample("errinject", 1) {
			s.rec.Sample(map[string]interface{}{"kind": "error injected by strace", "syscall": inj.Name, "errno": j.errno, "store": failedStep.K, "op": failedStep.Op, "size": failedStep.Size,
				"strace_line": c20Short(inj.Line, 160), "api_error": failedStep.Err, "memory_after": failedStep.MemCheck + "/" + failedStep.Mem, "file_before": failedStep.Before, "file_after": failedStep.After, "leftover_sizes": failedStep.Left})
		}
		return true
	}
	var wg sync.WaitGroup
	ch := make(chan job, len(jobs))
	for _, j := range jobs {
		ch <- j
	}
	close(ch)
	for w := 0; w < 4; w++ {
		wg.Add(1)
		go func() {
			defer wg.Done()
			for j := range ch {
				for try := 0; try < 3; try++ {
					if attempt(j, try == 2) {
						break
					}
					s.rec.Count("strace_retries", 1)
				}
			}
		}()
	}
	wg.Wait()
	nIn := 0
	for _, pt := range points {
		if pt.Store > 0 {
			nIn++
		}
	}
	if hitAll == nIn && nIn > 0 {
		s.rec.Exhaustive(fmt.Sprintf("%s: SIGKILL delivered at every one of the %d system calls the storing thread issues inside stores %d..%d (all five setters, small and large files)", label, nIn, from, to))
	} else {
		sort.Strings(missed)
		if len(missed) > 8 {
			missed = missed[:8]
		}
		s.rec.Note(fmt.Sprintf("%s: %d of %d in-store crash points were hit exactly as planned; not hit: %v", label, hitAll, nIn, missed))
	}
}

func c20Short(s string, n int) string {
	if len(s) > n {
		return s[:n] + "…"
	}
	return s
}

// ---- stage 3: real failures ----------------------------------------------------------------------------------------

type c20FaultCase struct {
	Kind   string
	Tmpfs  string // tmpfs size ("" = plain directory)
	K      int    // the store that meets the fault
	Window int    // how many consecutive stores meet it
	Param  int64
}

func (s *c20Sup) stageFaults() {
	var cases []c20FaultCase
	positions := []int{2, 3, 4, 5, 6, 7, 8, 9}
	if kit.Thorough() {
		for k := 10; k <= 17; k++ {
			positions = append(positions, k)
		}
	}
	for _, k := range positions {
		cases = append(cases, c20FaultCase{Kind: "bad-config", K: k, Window: 1})
		cases = append(cases, c20FaultCase{Kind: "emfile", K: k, Window: 1})
		cases = append(cases, c20FaultCase{Kind: "enoent-dir-removed", K: k, Window: 1})
		cases = append(cases, c20FaultCase{Kind: "enoent-dir-moved-away", K: k, Window: 1})
		for _, lim := range []int64{0, 100, 4096, 1 << 20, 3 << 20} {
			if !kit.Thorough() && lim != 100 && lim != 1<<20 && !(lim == 0 && k%2 == 0) {
				continue
			}
			cases = append(cases, c20FaultCase{Kind: "efbig", K: k, Window: 1, Param: lim})
		}
		for _, lim := range []int64{0, 1, 300, 4096, 1 << 20, 2<<20 + 12345, 3 << 20} {
			if !kit.Thorough() && lim != 1 && lim != 4096 && lim != 2<<20+12345 {
				continue
			}
			cases = append(cases, c20FaultCase{Kind: "sigxfsz-crash", K: k, Window: 1, Param: lim})
		}
		if s.mountns {
			cases = append(cases, c20FaultCase{Kind: "erofs", Tmpfs: "32m", K: k, Window: 1})
			for _, free := range []int64{0, 4096, 64 << 10, 1 << 20, 3 << 20} {
				if !kit.Thorough() && free != 0 && free != 64<<10 && !(free == 3<<20 && k%2 == 1) {
					continue
				}
				cases = append(cases, c20FaultCase{Kind: "enospc", Tmpfs: "32m", K: k, Window: 1, Param: free})
			}
		}
	}
	// persisting faults (three stores in a row, then recovery)
	for _, k := range []int{2, 4, 7} {
		cases = append(cases, c20FaultCase{Kind: "emfile", K: k, Window: 3}, c20FaultCase{Kind: "enoent-dir-removed", K: k, Window: 3})
		if s.mountns {
			cases = append(cases, c20FaultCase{Kind: "erofs", Tmpfs: "32m", K: k, Window: 3}, c20FaultCase{Kind: "enospc", Tmpfs: "32m", K: k, Window: 3, Param: 8192})
		}
	}
	// the small tmpfs of the design: 256 KB, a large store cannot fit at all
	if s.mountns {
		cases = append(cases, c20FaultCase{Kind: "enospc-256k-tmpfs", Tmpfs: "256k", K: 3, Window: 4}, c20FaultCase{Kind: "enospc-256k-tmpfs", Tmpfs: "256k", K: 5, Window: 2},
			// the same without anybody removing the partial temp files: observed only (does a small store still fit afterwards?)
			c20FaultCase{Kind: "enospc-256k-tmpfs-debris", Tmpfs: "256k", K: 5, Window: 2})
	}

	ch := make(chan c20FaultCase, len(cases))
	for _, c := range cases {
		ch <- c
	}
	close(ch)
	var wg sync.WaitGroup
	for w := 0; w < 4; w++ {
		wg.Add(1)
		go func() {
			defer wg.Done()
			for c := range ch {
				s.faultCase(c)
			}
		}()
	}
	wg.Wait()
}

func (s *c20Sup) faultCase(c c20FaultCase) {
	dir, cleanup := s.newDir("fault-"+c.Kind, c.Tmpfs)
	defer cleanup()
	startNum := c.K - 2
	if strings.HasPrefix(c.Kind, "enospc-256k-tmpfs") {
		startNum = 2 // a small configuration; everything up to the fault is small
	}
	if startNum >= 1 {
		s.prepopulate(dir, startNum)
	} else {
		startNum = 0
	}
	first := startNum + 1
	if strings.HasPrefix(c.Kind, "enospc-256k-tmpfs") {
		first = c.K
	}
	var steps []c20Step
	for k := first; k <= c.K+c.Window+1; k++ {
		st := c20Step{K: k}
		if k >= c.K && k < c.K+c.Window {
			st.Fault = c.Kind
			on, off := k == c.K, k == c.K+c.Window-1
			switch c.Kind {
			case "bad-config":
				st.Flags = "bad"
			case "emfile":
				if on {
					st.PreCmd = "rlimit nofile 3"
				}
				if off {
					st.PostCmd = "rlimit restore"
				}
			case "efbig":
				st.Fault = fmt.Sprintf("efbig(limit=%d)", c.Param)
				if on {
					st.PreCmd = fmt.Sprintf("rlimit fsize %d", c.Param)
				}
				if off {
					st.PostCmd = "rlimit restore"
				}
			case "sigxfsz-crash":
				st.Fault = fmt.Sprintf("sigxfsz-crash(limit=%d)", c.Param)
				st.ExpectDeath = true
				st.PreCmd = fmt.Sprintf("rlimit fsize %d die", c.Param)
				st.PostCmd = "rlimit restore"
			case "enoent-dir-removed":
				if on {
					st.Pre = func() { os.RemoveAll(dir) }
				}
				if off {
					st.Post = func() { os.MkdirAll(dir, 0o755) }
				}
			case "enoent-dir-moved-away":
				if on {
					st.Pre = func() { os.Rename(dir, dir+".away") }
				}
				if off {
					st.Post = func() { os.Rename(dir+".away", dir) }
				}
			case "erofs":
				if on {
					st.Pre = func() {
						if err := syscall.Mount("", dir, "", syscall.MS_REMOUNT|syscall.MS_RDONLY, ""); err != nil {
							s.rec.Inconclusive("remount read-only failed", err.Error())
						}
					}
				}
				if off {
					st.Post = func() {
						if err := syscall.Mount("", dir, "", syscall.MS_REMOUNT, ""); err != nil {
							s.rec.Inconclusive("remount read-write failed", err.Error())
						}
					}
				}
			case "enospc":
				st.Fault = fmt.Sprintf("enospc(free=%d)", c.Param)
				if on {
					st.Pre = func() { c20Fill(dir, c.Param) }
				}
				if off {
					st.Post = func() { os.Remove(filepath.Join(dir, "filler")) }
				}
			case "enospc-256k-tmpfs-debris":
				// nothing to switch on or off
			case "enospc-256k-tmpfs":
				// nothing to switch on: the file system is simply too small for the large configuration;
				// after each attempt the debris is removed (as an operator would), so that a small configuration fits again
				st.Post = func() { c20Leftovers(dir, true) }
			}
		}
		steps = append(steps, st)
	}
	run := s.scripted("fault-"+c.Kind, dir, startNum, steps, "", "")
	s.reportCrash(run)
	if c.Kind == "sigxfsz-crash" && run.expected {
		if left := c20Leftovers(dir, false); len(left) > 0 && left[len(left)-1] > c20SmallLimit {
			s.aftermathFresh("fault-sigxfsz-crash-aftermath", dir, run.Disk, c.K+int(c.Param%1000), map[string]interface{}{"kind": "death by SIGXFSZ in mid-write", "store": c.K, "temp_file_bytes": c.Param})
		}
	}
	for _, r := range run.Steps {
		if r.Fault == "" {
			if !r.OK {
				s.rec.Count("store_failed_after_the_fault_was_lifted."+c.Kind, 1)
			}
			continue
		}
		if !r.Done {
			if c.Kind == "sigxfsz-crash" && run.expected {
				// the process died in mid-write at the chosen offset; scripted() has judged the file
				s.rec.Count("evaluations", 1)
				s.rec.Count("midwrite_crashes_delivered", 1)
				s.delivered.Lock()
				s.delivered.crashpoints++
				s.delivered.Unlock()
				s.rec.Distinct("nontrivial", "midwrite-crash", r.Op, r.Size, c.Param)
				if r.Size == "large" && c.Param > 4096 && s.wantSample("midwrite", 1) {
					s.rec.Sample(map[string]interface{}{"kind": "process killed by SIGXFSZ in mid-write", "fault": r.Fault, "store": r.K, "op": r.Op, "size": r.Size, "exit": run.Exit,
						"file_before": r.Before, "file_after": r.After, "leftover_sizes": r.Left})
				}
			}
			continue
		}
		if r.OK {
			s.rec.Count("fault_not_felt."+c.Kind, 1) // e.g. the configuration fitted into the free space / under the size limit
			continue
		}
		s.rec.Count("evaluations", 1)
		s.rec.Count("failures_delivered", 1)
		s.rec.Count("failures_delivered."+c.Kind, 1)
		s.rec.Count("leftover_temp_files", len(r.Left))
		s.delivered.Lock()
		s.delivered.faults++
		s.delivered.Unlock()
		errClass := c20ErrClass(r.Err)
		s.rec.Distinct("nontrivial", "fault", c.Kind, r.Op, r.Size, errClass)
		s.rec.Distinct("failure_kinds", c.Kind+":"+errClass)
		if r.MemCheck == "same" {
			s.rec.Count("rollback_checks", 1)
		}
		if strings.HasPrefix(c.Kind, "enospc") && r.Size == "large" && len(r.Left) > 0 && s.wantSample("fault", 1) {
			s.rec.Sample(map[string]interface{}{"kind": "real failure", "fault": r.Fault, "store": r.K, "op": r.Op, "size": r.Size, "api_error": r.Err,
				"memory_after": r.MemCheck + "/" + r.Mem, "file_before": r.Before, "file_after": r.After, "leftover_sizes": r.Left})
		}
	}
}

// c20ErrClass reduces an error text to its errno-like tail.
func c20ErrClass(e string) string {
	if i := strings.LastIndex(e, ": "); i >= 0 {
		e = e[i+2:]
	}
	if len(e) > 40 {
		e = e[:40]
	}
	return e
}

// c20Fill creates <dir>/filler so that about `free` bytes remain available on dir's file system.
func c20Fill(dir string, free int64) {
	var st syscall.Statfs_t
	if err := syscall.Statfs(dir, &st); err != nil {
		return
	}
	avail := int64(st.Bavail) * st.Bsize
	n := avail - free
	if n <= 0 {
		return
	}
	f, err := os.Create(filepath.Join(dir, "filler"))
	if err != nil {
		return
	}
	defer f.Close()
	buf := make([]byte, 1<<20)
	for n > 0 {
		c := int64(len(buf))
		if c > n {
			c = n
		}
		w, err := f.Write(buf[:c])
		n -= int64(w)
		if err != nil {
			return
		}
	}
}
