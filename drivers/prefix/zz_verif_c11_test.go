//go:build verif

package prefix

// C11 – entry point (6) for the prefix transport: the station-side ParseParams of the station's
// transport (Default: keyed) and of the registrar's (DefaultSet), followed by what station and
// registrar do with the result (GetDstPort, ParamStrings), and the client-side ParseParams /
// SetSessionParams (checked and unchecked, as the client applies a registrar's answer) on an
// arbitrary (library version, google.protobuf.Any) pair; TryFromID on the client-supplied prefix id.
// Oracle: no panic (recovered per case, reported with the framed input) + the per-input watchdog.
// Input framing: see kit.C11UnframeAny.

import (
	"math/rand"
	"os"
	"testing"

	kit "github.com/refraction-networking/conjure/internal/verifkit"
	pb "github.com/refraction-networking/conjure/proto"
	"google.golang.org/protobuf/proto"
	"google.golang.org/protobuf/types/known/anypb"
)

const verifC11Entry = "prefix.ParseParams"

var verifC11Seed = []byte("0123456789abcdef")
var verifC11Station *Transport

func verifC11Setup(t testing.TB) {
	var key [32]byte
	kit.Rand("c11-station-key").Read(key[:])
	var err error
	verifC11Station, err = Default([][32]byte{key})
	if err != nil {
		t.Fatal(err)
	}
}

func verifC11Exec(c *kit.C11Case) string {
	lv, a := kit.C11UnframeAny(c.In)
	clone := func() *anypb.Any {
		if a == nil {
			return nil
		}
		return proto.Clone(a).(*anypb.Any)
	}
	out := "station-ok"
	for _, tr := range []*Transport{verifC11Station, DefaultSet()} {
		p, err := tr.ParseParams(lv, clone())
		if err != nil {
			out = "station-refused"
		}
		_, _ = tr.GetDstPort(lv, verifC11Seed, p)
		_ = tr.ParamStrings(p)
		if pp, ok := p.(*pb.PrefixTransportParams); ok && pp != nil {
			if pf, err := TryFromID(PrefixID(pp.GetPrefixId())); err == nil && pf != nil {
				_, _, _, _ = pf.Bytes(), pf.ID(), pf.FlushPolicy(), pf.DstPort(verifC11Seed)
			}
		}
	}
	ct := &ClientTransport{}
	if err := ct.SetParams(nil); err != nil {
		return out + "/client-init-failed"
	}
	if _, err := ct.ParseParams(clone()); err != nil {
		out += "/client-refused"
	} else {
		out += "/client-ok"
	}
	_ = ct.SetSessionParams(clone())
	_, _ = ct.GetParams()
	_, _ = ct.GetDstPort(verifC11Seed)
	_ = ct.SetSessionParams(clone(), true)
	_, _ = ct.GetParams()
	_, _ = ct.GetDstPort(verifC11Seed)
	_, _ = ct.Name(), ct.String()
	return out
}

func verifC11Gen(r *rand.Rand, idx int) kit.C11Case { return kit.C11ParamsInput(r, "prefix") }

func TestVerifC11Params(t *testing.T) {
	rec := kit.NewRec("C11", "params-prefix")
	defer rec.Close()
	verifC11Setup(t)
	kit.C11Drive(rec, kit.C11Entry{Name: verifC11Entry, N: kit.Tier(40000, 2000000), Workers: 4, Gen: verifC11Gen, Exec: verifC11Exec, SampleEvery: 5000})
}

func FuzzVerifC11ParamsPrefix(f *testing.F) {
	verifC11Setup(f)
	for _, s := range kit.C11Seeds(verifC11Entry, 300, verifC11Gen) {
		f.Add(s)
	}
	f.Fuzz(func(t *testing.T, b []byte) {
		c := &kit.C11Case{In: b, Kind: "fuzz"}
		if p := kit.C11FuzzOne(verifC11Entry, b, func() { verifC11Exec(c) }); p != nil && os.Getenv("VERIF_C11_FUZZ_OUT") == "" {
			t.Fatalf("panic in %s: %s\n%v", p.Frame, p.Val, p.Stack)
		}
	})
}
