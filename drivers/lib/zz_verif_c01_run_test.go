//go:build verif

package lib

// C01 – evaluation of one case (three-way comparison), generators, vector files, test entry points.

import (
	"bufio"
	"bytes"
	"crypto/hmac"
	crand "crypto/rand"
	"crypto/sha256"
	"encoding/hex"
	"encoding/json"
	"fmt"
	"io"
	"math/big"
	mrand "math/rand"
	"net"
	"net/netip"
	"os"
	"path/filepath"
	"sort"
	"strings"
	"testing"

	"google.golang.org/protobuf/proto"
	"google.golang.org/protobuf/types/known/anypb"

	v0 "github.com/refraction-networking/conjure/internal/compatability/v0"
	v1 "github.com/refraction-networking/conjure/internal/compatability/v1"
	kit "github.com/refraction-networking/conjure/internal/verifkit"
	"github.com/refraction-networking/conjure/pkg/core"
	"github.com/refraction-networking/conjure/pkg/phantoms"
	"github.com/refraction-networking/conjure/pkg/transports/wrapping/prefix"
	pb "github.com/refraction-networking/conjure/proto"
)

// ---- comparison -----------------------------------------------------------------------------------

type c01Field struct {
	name string
	get  func(*c01Out) string
}

var c01Fields = []c01Field{
	{"seed", func(o *c01Out) string { return o.Seed }},
	{"phantom-ip", func(o *c01Out) string { return o.IP }},
	{"port", func(o *c01Out) string {
		if o.IP == "" {
			return ""
		}
		return fmt.Sprint(o.Port)
	}},
	{"identifier", func(o *c01Out) string { return o.ID }},
	{"obfs4-public-key", func(o *c01Out) string { return o.OPub }},
	{"obfs4-node-id", func(o *c01Out) string { return o.ONode }},
	{"dtls-client-cert-key", func(o *c01Out) string { return o.DCPub }},
	{"dtls-server-cert-key", func(o *c01Out) string { return o.DSPub }},
	{"dtls-client-cert-serial", func(o *c01Out) string { return o.DCSer }},
	{"dtls-server-cert-serial", func(o *c01Out) string { return o.DSSer }},
	{"dtls-client-cert-cn", func(o *c01Out) string { return o.DCCN }},
	{"dtls-server-cert-cn", func(o *c01Out) string { return o.DSCN }},
	{"dtls-hello-random", func(o *c01Out) string { return o.DRand }},
}

// c01Diff lists the fields on which a and b differ.  partial: b is a side that cannot observe every
// field (the client), so fields b leaves empty are skipped.
func c01Diff(a, b *c01Out, partial bool) []string {
	var d []string
	for _, f := range c01Fields {
		x, y := f.get(a), f.get(b)
		if partial && y == "" {
			continue
		}
		if f.name == "seed" && (x == "" || y == "") {
			continue
		}
		if x != y {
			d = append(d, f.name)
		}
	}
	return d
}

func c01ShortClass(c string) string {
	if i := strings.Index(c, ":"); i >= 0 && (strings.HasPrefix(c, "other:") || strings.HasPrefix(c, "client:")) {
		parts := strings.SplitN(c, ":", 4)
		if parts[0] == "other" {
			return "other"
		}
		if len(parts) >= 3 && (parts[2] == "other" || strings.HasPrefix(parts[2], "other")) {
			return parts[0] + ":" + parts[1] + ":other"
		}
		if len(parts) >= 3 {
			return parts[0] + ":" + parts[1] + ":" + parts[2]
		}
	}
	return c
}

// c01Effective reads the parameters out of the message that is actually sent to the station.
func c01Effective(p c01Params, m proto.Message) c01Params {
	e := c01Params{Kind: p.Kind, URL: p.URL}
	switch x := m.(type) {
	case *pb.GenericTransportParams:
		e.Rand = x.RandomizeDstPort
	case *pb.PrefixTransportParams:
		e.Rand, e.Prefix, e.Flush = x.RandomizeDstPort, x.PrefixId, x.CustomFlushPolicy
	case *pb.DTLSTransportParams:
		e.Rand, e.Unord = x.RandomizeDstPort, x.Unordered
	}
	return e
}

func c01NilMsg(m proto.Message) bool { return m == nil || !m.ProtoReflect().IsValid() }

type c01Opt struct {
	viaClient bool                        // the station receives what the client's GetParams returned (the real flow)
	keys      *core.SharedKeys            // secret produced by the real client key agreement (library version 4)
	frozen    bool                        // vector mode: the reference has been checked to equal the frozen answer
	sel       *phantoms.PhantomIPSelector // selector loaded by the repository's TOML loader (else built in memory)
}

// eval runs one case through station, client and reference and judges it.
// c01Prep is everything that is decided before the station sees the message.
type c01Prep struct {
	secret     []byte
	typed      proto.Message
	cl         *c01Client
	tp         *anypb.Any
	eff        c01Input // the case with the parameters that are actually sent
	normalised bool
	sel        *phantoms.PhantomIPSelector
	known      bool
}

func (h *c01Harness) prepare(in c01Input, cfg *c01Config, opt c01Opt) *c01Prep {
	rec := h.rec
	p := &c01Prep{eff: in}
	var err error
	if p.secret, err = hex.DecodeString(in.Secret); err != nil {
		h.t.Fatalf("infrastructure: bad secret in case: %v", err)
	}
	p.typed = c01TypedParams(in.Tr, in.P)
	p.cl = h.clientParams(in, p.typed)

	// what the station receives
	if in.P.Kind != "absent" {
		msg := p.typed
		if in.P.Kind == "set" && opt.viaClient && p.cl.err == "" && !c01NilMsg(p.cl.sent) {
			msg = p.cl.sent
		}
		if p.tp, err = c01Any(msg, in.P.URL); err != nil {
			h.t.Fatalf("infrastructure: anypb: %v", err)
		}
		p.eff.P = c01Effective(in.P, msg)
	}
	if in.P.Kind == "set" && !opt.viaClient && p.cl.err == "" && !c01NilMsg(p.cl.sent) {
		a, b := c01Effective(in.P, p.typed), c01Effective(in.P, p.cl.sent)
		if c01Bool(a.Rand) != c01Bool(b.Rand) || (in.Tr == "prefix" && (a.Prefix == nil) != (b.Prefix == nil)) ||
			(a.Prefix != nil && b.Prefix != nil && *a.Prefix != *b.Prefix) {
			p.normalised = true
			rec.Count("client_normalised_params", 1)
		}
	}
	p.sel = opt.sel
	if p.sel == nil {
		p.sel = &phantoms.PhantomIPSelector{Networks: map[uint]*phantoms.SubnetConfig{
			uint(cfg.Gen):          {WeightedSubnets: c01PBGroups(cfg.Groups)},
			uint(cfg.Gen) + 100000: h.decoy,
		}}
	}
	p.known = in.Gen == cfg.Gen
	return p
}

// reference derives R (as the station should answer) and Rk (as a client that knows the generation derives).
func (h *c01Harness) reference(eff c01Input, cfg *c01Config, known bool) (R, Rk c01Out) {
	var err error
	if R, err = c01RefDerive(eff, cfg.Groups, known); err != nil {
		h.t.Fatalf("infrastructure: reference failed on %+v: %v", eff, err)
	}
	Rk = R
	if !known {
		if Rk, err = c01RefDerive(eff, cfg.Groups, true); err != nil {
			h.t.Fatalf("infrastructure: reference failed on %+v: %v", eff, err)
		}
	}
	return R, Rk
}

// eval runs one single-family case through station, client and reference and judges it.
func (h *c01Harness) eval(in c01Input, cfg *c01Config, opt c01Opt) (S, C, R c01Out) {
	rec := h.rec
	rec.Case(map[string]interface{}{"in": in, "cfg": cfg})
	rec.Count("evaluations", 1)
	p := h.prepare(in, cfg, opt)
	msg := h.stationMsg(in, !in.V6, in.V6, p.secret, p.tp)
	var reg *DecoyRegistration
	regs, class := h.stationParse(p.sel, msg)
	switch {
	case class != "":
		S.Err = class
	case len(regs) != 1 || regs[0] == nil:
		h.t.Fatalf("infrastructure: expected exactly one registration, got %d for %+v", len(regs), in)
	default:
		reg = regs[0]
		S = h.stationObserve(in, reg)
	}
	R, Rk := h.reference(p.eff, cfg, p.known)

	var seed []byte
	var dRand io.Reader
	var err error
	if opt.keys != nil {
		seed, dRand = opt.keys.ConjureSeed, opt.keys.Reader
	} else if seed, dRand, err = c01RefKeys(p.secret, in.Lib); err != nil {
		h.t.Fatalf("infrastructure: %v", err)
	}
	C, fl := h.clientDerive(in, cfg.Groups, p.cl, seed, dRand, p.secret)
	if opt.keys != nil && C.Err == "" {
		C.Seed = hex.EncodeToString(seed)
	}

	fam := "v4"
	if in.V6 {
		fam = "v6"
	}
	refName := "reference"
	if opt.frozen {
		refName = "frozen-vector"
	}
	j := &c01Judgement{in: in, eff: p.eff, cfg: cfg, S: S, C: C, R: R, Rk: Rk, fl: fl, normalised: p.normalised,
		tag: fmt.Sprintf("%s:lib%d:%s", in.Tr, in.Lib, fam), refName: refName}
	h.judge(j)
	S, C = j.S, j.C

	// the derivation is a function of the message: ingesting the same message again (the station has by now
	// computed the identifier of an earlier registration with the same secret) must give the same answer
	if reg != nil && (in.Tr == "obfs4" || h.nEval%4 == 0) {
		if regs2, class2 := h.stationParse(p.sel, msg); class2 != "" || len(regs2) != 1 || regs2[0] == nil {
			rec.Violation("station-derivation-depends-on-history:refused-second-time:"+j.tag,
				"the station refuses a message it accepted a moment ago", map[string]interface{}{"in": in, "cfg": cfg, "first": S, "second_refusal": class2})
		} else {
			S2 := h.stationObserve(in, regs2[0])
			for _, f := range c01Diff(&S, &S2, false) {
				rec.Violation("station-derivation-depends-on-history:"+f+":"+j.tag,
					"ingesting the same message a second time yields a different "+f, map[string]interface{}{"in": in, "cfg": cfg, "first": S, "second": S2})
			}
			rec.Count("reingested_same_message", 1)
		}
	}
	h.nEval++
	return S, C, R
}

// evalDual: ONE dual-stack message (v4_support and v6_support, IPv4 registrant) through the real
// parseRegMessage; both returned registrations are observed - in both orders, the message being ingested
// once per order - and each is judged against the client and the reference of its family.  The two
// registrations come from one message and one secret: nothing one of them derives may depend on whether
// the identifier of its sibling (or of the same registration from the earlier ingest) was computed before.
func (h *c01Harness) evalDual(in c01Input, cfg *c01Config, opt c01Opt) {
	rec := h.rec
	in.V6 = false
	opt.keys = nil
	rec.Case(map[string]interface{}{"dual_stack": true, "in": in, "cfg": cfg})
	rec.Count("evaluations", 1)
	rec.Count("dual_stack_cases", 1)
	p := h.prepare(in, cfg, opt)
	msg := h.stationMsg(in, true, true, p.secret, p.tp)

	type side struct {
		in, eff c01Input
		R, Rk   c01Out
		C       c01Out
		fl      *c01Flight
	}
	var sides [2]*side // 0 = v4, 1 = v6
	for i, v6 := range []bool{false, true} {
		sd := &side{in: in, eff: p.eff}
		sd.in.V6, sd.eff.V6 = v6, v6
		sd.R, sd.Rk = h.reference(sd.eff, cfg, p.known)
		cl := p.cl
		if i == 1 {
			// a second client object for the second phantom, configured with what was actually registered
			e2 := sd.in
			e2.P = p.eff.P
			cl = h.clientParams(e2, c01TypedParams(in.Tr, p.eff.P))
		}
		seed, dRand, err := c01RefKeys(p.secret, in.Lib)
		if err != nil {
			h.t.Fatalf("infrastructure: %v", err)
		}
		sd.C, sd.fl = h.clientDerive(sd.in, cfg.Groups, cl, seed, dRand, p.secret)
		sides[i] = sd
	}
	// A family the station does not build although the reference derives it is acceptable only if its
	// sibling must be refused (the pinned tree refused such a message as a whole, later trees keep the
	// buildable half; the client gives up on both phantoms when one selection fails).  A family the
	// station DOES build is always judged against the plain reference of that family.
	var sib [2]c01Out
	for i := range sides {
		sib[i] = sides[i].R
		if o := sides[1-i]; sib[i].Err == "" && o.R.Err != "" {
			sib[i].Err = "sibling:" + o.R.Err
		}
	}

	for _, order := range []string{"v4-first", "v6-first"} {
		regs, class := h.stationParse(p.sel, msg)
		var S [2]c01Out
		var byFam [2]*DecoyRegistration
		if class != "" {
			S[0].Err, S[1].Err = class, class
		} else {
			ok := len(regs) <= 2
			for _, r := range regs {
				if r == nil {
					continue
				}
				k := 1
				if r.PhantomIp.To4() != nil {
					k = 0
				}
				if byFam[k] != nil {
					ok = false
				}
				byFam[k] = r
			}
			if !ok {
				rec.Violation(fmt.Sprintf("dual-stack:station-returns-wrong-registration-set:%s:lib%d", in.Tr, in.Lib),
					"a dual-stack message yielded more than one registration of a family",
					map[string]interface{}{"in": in, "cfg": cfg, "n": len(regs)})
				continue
			}
			seq := []int{0, 1}
			if order == "v6-first" {
				seq = []int{1, 0}
			}
			for _, k := range seq {
				if byFam[k] == nil {
					S[k].Err = "dual-stack-family-not-built"
					continue
				}
				S[k] = h.stationObserve(sides[k].in, byFam[k])
			}
		}
		for k, sd := range sides {
			fam := []string{"v4", "v6"}[k]
			R := sd.R
			if S[k].Err != "" {
				R = sib[k]
			}
			j := &c01Judgement{in: sd.in, eff: sd.eff, cfg: cfg, S: S[k], C: sd.C, R: R, Rk: sd.Rk, fl: sd.fl, normalised: p.normalised,
				tag: fmt.Sprintf("%s:lib%d:%s:identifier-order(%s)", in.Tr, in.Lib, fam, order), refName: "reference", pre: "dual-stack:",
				extra: map[string]interface{}{"identifier_computed_in_order": order, "sibling_registration": S[1-k]}}
			h.judge(j)
		}
	}
}

// c01Judgement carries one (family of a) case into the comparisons.
type c01Judgement struct {
	in, eff    c01Input
	cfg        *c01Config
	S, C, R    c01Out
	Rk         c01Out
	fl         *c01Flight
	normalised bool
	tag        string // <transport>:lib<k>:<family>[:dual(...)]
	refName    string
	pre        string // signature prefix ("" or "dual-stack:")
	extra      interface{}
}

// judge compares station, client and reference for one derived registration.
func (h *c01Harness) judge(j *c01Judgement) {
	rec := h.rec
	in, eff, cfg, fl, normalised, tag, refName := j.in, j.eff, j.cfg, j.fl, j.normalised, j.tag, j.refName
	S, C, R, Rk := j.S, j.C, j.R, j.Rk
	defer func() { j.S, j.C = S, C }()
	detail := func() interface{} {
		d := map[string]interface{}{"in": in, "sent_params": eff.P, "cfg": cfg, "station": S, "client": C, "reference": R}
		if j.extra != nil {
			d["dual_stack"] = j.extra
		}
		return d
	}
	viol := func(sig, msg string, det interface{}) { rec.Violation(j.pre+sig, msg, det) }

	// ---- what the client's first flight proves about its secrets ----------------------------------
	if fl != nil && C.Err == "" {
		switch in.Tr {
		case "min":
			if fl.err != nil {
				rec.Inconclusive("min WrapConn failed on a recording conn", fl.err.Error())
			} else {
				C.ID = hex.EncodeToString(fl.written)
			}
		case "prefix":
			var pid int32
			if eff.P.Prefix != nil {
				pid = *eff.P.Prefix
			}
			if in.P.Kind != "set" {
				pid = 0
			}
			sp, ok := h.prefixT.SupportedPrefixes[prefix.PrefixID(pid)]
			switch {
			case fl.err != nil:
				rec.Inconclusive("prefix WrapConn failed on a recording conn", fl.err.Error())
			case !ok:
				rec.Count("prefix_client_accepts_id_station_lacks", 1)
			case !bytes.HasPrefix(fl.written, sp.StaticMatch):
				viol(fmt.Sprintf("prefix-client-bytes!=station-static-match:pid%d", pid),
					"the bytes the client writes before the tag are not the prefix the station matches for that prefix id", detail())
			default:
				obf := fl.written[len(sp.StaticMatch):]
				if len(obf) != 64 {
					C.ID = fmt.Sprintf("tag-length-%d", len(obf))
				} else if id, err := h.prefixT.TagObfuscator.TryReveal(obf, h.priv); err != nil || id == nil {
					C.ID = "tag-does-not-reveal-under-station-key"
				} else {
					C.ID = hex.EncodeToString(id)
				}
			}
		case "obfs4":
			// the client handshake is X' | padding | HMAC(B|NODEID, X')[:16] | MAC; finding the mark computed
			// with the *station's* keys shows that the client holds the same public key and node id
			mark := func(pubHex, nodeHex string) (bool, bool) {
				p, e1 := hex.DecodeString(pubHex)
				n, e2 := hex.DecodeString(nodeHex)
				if e1 != nil || e2 != nil || len(p) != 32 || len(n) != 20 || len(fl.written) < 32+16+16 {
					return false, false
				}
				m := hmac.New(sha256.New, append(append([]byte{}, p...), n...))
				m.Write(fl.written[:32])
				return bytes.Contains(fl.written[32:], m.Sum(nil)[:16]), true
			}
			if len(fl.written) < 64 {
				rec.Inconclusive("obfs4 client wrote no handshake", fmt.Sprint(fl.err))
				break
			}
			if S.Err == "" {
				if found, ok := mark(S.OPub, S.ONode); ok && !found {
					viol("station!=client:obfs4-keys(mark):"+tag,
						"the obfs4 client handshake does not carry the mark for the station's node id / public key", detail())
				} else if ok {
					rec.Count("obfs4_mark_found_with_station_keys", 1)
				}
			}
			if Rk.Err == "" {
				if found, ok := mark(Rk.OPub, Rk.ONode); ok && !found {
					viol("client!=reference:obfs4-keys(mark):"+tag,
						"the obfs4 client handshake does not carry the mark for the reference node id / public key", detail())
				}
			}
		}
	}

	// ---- reference (or frozen vector) vs station -----------------------------------------------
	switch {
	case R.Err == "" && c01PrefixPreV3Refusal(in, &S):
		// the pinned tree accepted a parameterless prefix registration from a pre-v3 library (port 443, the
		// frozen vectors record that); no such client exists, so refusing it is legitimate - an ACCEPT is
		// still compared field by field below
		rec.Count("station_refuses_legitimately.prefix-pre-v3-without-params", 1)
	case R.Err == "" && S.Err != "":
		viol("station-refuses:"+c01ShortClass(S.Err)+":"+tag,
			"the station refuses a registration for which the published derivation ("+refName+") yields a phantom", detail())
	case R.Err == "" && S.Err == "":
		for _, f := range c01Diff(&S, &R, false) {
			viol("station!="+refName+":"+f+":"+tag, "the station derives a different "+f+" than the "+refName, detail())
		}
	case R.Err != "" && S.Err == "":
		rec.Count("station_derives_where_reference_refuses."+R.Err, 1)
	default:
		rec.Count("both_refuse."+R.Err, 1)
		if S.Err != R.Err {
			rec.Count("refusal_class_differs", 1)
		}
	}

	// ---- station vs client ---------------------------------------------------------------------
	switch {
	case S.Err == "" && C.Err == "":
		for _, f := range c01Diff(&S, &C, true) {
			if f == "port" && normalised {
				continue
			}
			viol("station!=client:"+f+":"+tag, "station and client derive a different "+f, detail())
		}
	case S.Err != "" && C.Err == "":
		legit := R.Err == c01ErrGen || R.Err == c01ErrPrefixLib || R.Err == c01ErrPortParams || strings.HasPrefix(R.Err, "sibling:")
		if !legit && R.Err != "" {
			viol("client-derives-where-station-refuses:"+R.Err+":"+tag,
				"the client library derives a phantom for inputs on which station and reference refuse", detail())
		}
		if legit {
			rec.Count("station_refuses_legitimately."+R.Err, 1)
		}
	case S.Err == "" && C.Err != "":
		rec.Count("client_only_refusal."+c01ShortClass(C.Err), 1)
	}

	// ---- client vs reference (also covers cases the station legitimately refuses) ------------------
	if C.Err == "" && Rk.Err == "" {
		for _, f := range c01Diff(&Rk, &C, true) {
			if f == "port" && normalised {
				continue
			}
			viol("client!=reference:"+f+":"+tag, "the client library derives a different "+f+" than the reference", detail())
		}
	}

	pk := fmt.Sprintf("%s/%d/%v/%s/%v/%v/%v/%s", in.Tr, in.Lib, in.V6, in.P.Kind, c01PtrStr(eff.P.Rand), c01PtrStr(eff.P.Prefix), c01PtrStr(eff.P.Flush), in.P.URL)
	rec.Distinct("param_combinations", pk)
	rec.Distinct("configurations", fmt.Sprint(cfg.Groups))
	if S.Err == "" && R.Err == "" && C.Err == "" {
		rec.Distinct("nontrivial", in.Secret, pk, in.Gen, fmt.Sprint(cfg.Groups), j.pre)
		rec.Count("three_way_compared", 1)
		if rec.WantSample() {
			rec.Sample(map[string]interface{}{"in": in, "groups": cfg.Groups, "derived_by_all_three": S})
		}
	}
	if S.Err != "" {
		rec.Count("station_refusals."+c01ShortClass(S.Err), 1)
	}
}

// c01PrefixPreV3Refusal: the station refuses a prefix registration of a library version < 3 with the
// "client couldn't support this transport" class.  Library versions before 3 have no prefix transport, so
// this refusal is legitimate whatever the parameters are (DESIGN.md C01 FA).
func c01PrefixPreV3Refusal(in c01Input, S *c01Out) bool {
	return in.Tr == "prefix" && in.Lib < 3 && S.Err == c01ErrPrefixLib
}

func c01PtrStr(p interface{}) string {
	switch x := p.(type) {
	case *bool:
		if x == nil {
			return "-"
		}
		return fmt.Sprint(*x)
	case *int32:
		if x == nil {
			return "-"
		}
		return fmt.Sprint(*x)
	}
	return "?"
}

// ---- generators -----------------------------------------------------------------------------------

// the checked-in subnet files, written out (so that the vectors do not move with them)
func c01FixedConfigs() []c01Config {
	return []c01Config{
		{Gen: 1, Origin: "pkg/station/lib/test/phantom_subnets.toml gen 1", Groups: []c01Group{{W: 9, Nets: []string{"192.122.190.0/24", "2001:48a8:687f:1::/64"}}}},
		{Gen: 2, Origin: "pkg/station/lib/test/phantom_subnets.toml gen 2", Groups: []c01Group{{W: 1, Nets: []string{"192.122.190.0/28", "2001:48a8:687f:1::/96"}}}},
		{Gen: 957, Origin: "pkg/station/lib/test/phantom_subnets.toml gen 957", Groups: []c01Group{
			{W: 9, RP: true, Nets: []string{"192.122.190.0/24", "2001:48a8:687f:1::/64"}}, {W: 1, Nets: []string{"141.219.0.0/16", "35.8.0.0/16"}}}},
		{Gen: 2, Origin: "internal/test_assets/phantom_subnets.toml gen 2", Groups: []c01Group{{W: 1, RP: true, Nets: []string{"192.122.190.0/28", "2001:48a8:687f:1::/96"}}}},
		{Gen: 957, Origin: "internal/test_assets/phantom_subnets.toml gen 957", Groups: []c01Group{
			{W: 9, Nets: []string{"192.122.190.0/24", "2001:48a8:687f:1::/64"}}, {W: 1, Nets: []string{"141.219.0.0/16", "35.8.0.0/16"}}}},
		{Gen: 1, Origin: "internal/test_assets/phantom_subnets_min.toml gen 1", Groups: []c01Group{{W: 1, Nets: []string{"192.122.190.0/32", "2001:48a8:687f:1::/128"}}}},
		{Gen: 1000, Origin: "pkg/station/lib/test/phantom_subnets_update.toml gen 1000", Groups: []c01Group{
			{W: 9, Nets: []string{"192.168.10.0/24", "2001:1::/64"}}, {W: 1, Nets: []string{"10.0.0.0/16"}}}},
		{Gen: 958, Origin: "pkg/phantoms tests", Groups: []c01Group{
			{W: 9, RP: true, Nets: []string{"192.122.190.0/24", "10.0.0.0/31", "2001:48a8:687f:1::/64"}}, {W: 1, RP: true, Nets: []string{"141.219.0.0/16", "35.8.0.0/16"}}}},
		{Gen: 959, Origin: "all groups randomise", Groups: []c01Group{
			{W: 5, RP: true, Nets: []string{"192.122.190.0/24", "2001:48a8:687f:1::/64"}}, {W: 5, RP: true, Nets: []string{"141.219.0.0/16", "2602:fc52:15::/48"}}}},
	}
}

func c01GenCIDR(r *mrand.Rand, v6 bool) string {
	if !v6 {
		lens := []int{32, 32, 31, 30, 29, 28, 24, 24, 24, 20, 16, 16, 12, 8}
		ones := lens[r.Intn(len(lens))]
		if r.Intn(4) == 0 {
			ones = 8 + r.Intn(25)
		}
		b := [4]byte{byte(1 + r.Intn(223)), byte(r.Intn(256)), byte(r.Intn(256)), byte(r.Intn(256))}
		p := netip.PrefixFrom(netip.AddrFrom4(b), ones)
		if r.Intn(12) != 0 {
			p = p.Masked() // sometimes keep host bits: a legal way to write the same network
		}
		return p.String()
	}
	lens := []int{128, 128, 127, 126, 120, 112, 96, 64, 64, 64, 56, 48, 32, 29, 16}
	ones := lens[r.Intn(len(lens))]
	if r.Intn(4) == 0 {
		ones = 16 + r.Intn(113)
	}
	var b [16]byte
	r.Read(b[:])
	first := []byte{0x20, 0x24, 0x26, 0x2a, 0x2c, 0x3f, 0xfc, 0xfd}
	b[0] = first[r.Intn(len(first))]
	p := netip.PrefixFrom(netip.AddrFrom16(b), ones)
	if r.Intn(12) != 0 {
		p = p.Masked()
	}
	return p.String()
}

func c01GenConfig(r *mrand.Rand) c01Config {
	c := c01Config{Gen: uint32(1 + r.Intn(3000)), Origin: "generated"}
	n := 1 + r.Intn(5)
	mode := r.Intn(6)
	base := uint32(1 + r.Intn(20))
	for i := 0; i < n; i++ {
		var w uint32
		switch mode {
		case 0:
			w = 1
		case 1:
			w = base
		case 2:
			w = base + uint32(i)*uint32(1+r.Intn(5))
		case 3:
			w = base + uint32(n-i)*7
		case 4:
			w = uint32(1 + r.Intn(3))
		default:
			w = uint32(1 + r.Int63n(4_000_000_000))
		}
		g := c01Group{W: w, RP: r.Intn(3) != 0}
		fm := r.Intn(12) // 0-9 both families, 10 v4 only, 11 v6 only
		k := 1 + r.Intn(3)
		if fm < 10 {
			k = 2 + r.Intn(3)
		}
		first := r.Intn(2) == 0
		for j := 0; j < k; j++ {
			v6 := r.Intn(2) == 0
			switch {
			case fm == 10:
				v6 = false
			case fm == 11:
				v6 = true
			case j == 0:
				v6 = first
			case j == 1:
				v6 = !first
			}
			g.Nets = append(g.Nets, c01GenCIDR(r, v6))
		}
		c.Groups = append(c.Groups, g)
	}
	return c
}

func c01GenSecret(r *mrand.Rand, lib uint32) string {
	n := 32
	fill := -1
	switch r.Intn(40) {
	case 0:
		fill = 0x00
	case 1:
		fill = 0xff
	case 2:
		n = []int{1, 8, 16, 31}[r.Intn(4)]
	case 3:
		n = []int{33, 48, 64}[r.Intn(3)]
	case 4, 5:
		// a seed whose varint overflows 64 bits: the legacy paths seed math/rand from varint(seed)
		if lib < 2 {
			for i := 0; i < 200000; i++ {
				b := make([]byte, 32)
				r.Read(b)
				seed, _, err := c01RefKeys(b, lib)
				if err != nil {
					break
				}
				if _, l := c01RefVarint(seed); l < 0 {
					return hex.EncodeToString(b)
				}
			}
		}
	}
	b := make([]byte, n)
	if fill >= 0 {
		for i := range b {
			b[i] = byte(fill)
		}
	} else {
		r.Read(b)
	}
	return hex.EncodeToString(b)
}

func c01PBool(r *mrand.Rand) *bool {
	switch r.Intn(5) {
	case 0:
		return nil
	case 1, 2:
		return proto.Bool(false)
	}
	return proto.Bool(true)
}

func c01GenParams(r *mrand.Rand, tr string, forVectors bool) c01Params {
	p := c01Params{Kind: "set", URL: []string{"", "", "proto", "tapdance"}[r.Intn(4)]}
	k := r.Intn(100)
	switch tr {
	case "min", "obfs4":
		if k < 12 {
			return c01Params{Kind: "absent"}
		} else if k < 20 {
			p.Kind = "empty"
			return p
		}
		p.Rand = c01PBool(r)
	case "prefix":
		if k < 6 {
			return c01Params{Kind: "absent"}
		} else if k < 11 {
			p.Kind = "empty"
			return p
		}
		p.Rand = c01PBool(r)
		switch j := r.Intn(100); {
		case j < 4:
			p.Prefix = nil
		case j < 10:
			p.Prefix = proto.Int32([]int32{10, 11, -2, 100, 1 << 20}[r.Intn(5)])
		case j < 16 && !forVectors:
			p.Prefix = proto.Int32(-1) // the client draws a prefix itself (not reproducible: not in the vectors)
		default:
			p.Prefix = proto.Int32(int32(r.Intn(10)))
		}
		if f := r.Intn(5); f < 3 {
			p.Flush = proto.Int32(int32(f))
		} else if f == 3 {
			p.Flush = proto.Int32(7) // unknown policy: falls back to the prefix's own
		}
	case "dtls":
		if k < 10 {
			return c01Params{Kind: "absent"}
		} else if k < 15 {
			p.Kind = "empty"
			return p
		}
		p.Rand = c01PBool(r)
		if r.Intn(3) == 0 {
			p.Unord = proto.Bool(r.Intn(2) == 0)
		}
	}
	return p
}

var c01Transports = []string{"min", "obfs4", "prefix", "dtls"}

func c01GenCase(r *mrand.Rand, cfgs []c01Config, forVectors bool) c01Input {
	in := c01Input{Lib: uint32(r.Intn(5)), V6: r.Intn(2) == 0, Tr: c01Transports[r.Intn(4)], Cfg: r.Intn(len(cfgs))}
	if in.Tr == "prefix" && in.Lib < 3 && r.Intn(5) != 0 {
		in.Lib = 3 + uint32(r.Intn(2)) // older libraries have no prefix transport: keep only a few such (refused) cases
	}
	in.Secret = c01GenSecret(r, in.Lib)
	in.LibUnset = in.Lib == 0 && r.Intn(2) == 0
	in.Gen = cfgs[in.Cfg].Gen
	if r.Intn(25) == 0 {
		in.Gen += uint32(1 + r.Intn(50)) // a generation the station does not know
	}
	in.P = c01GenParams(r, in.Tr, forVectors)
	return in
}

// c01Enumerated: small sub-spaces that are covered completely in every run.
func c01Enumerated(r *mrand.Rand, cfgs []c01Config, randomising []int) []c01Input {
	var out []c01Input
	bools := []*bool{nil, proto.Bool(false), proto.Bool(true)}
	flushes := []*int32{nil, proto.Int32(0), proto.Int32(1), proto.Int32(2)}
	pick := func() int { return randomising[r.Intn(len(randomising))] }
	// (1) every prefix id x randomise x flush policy x library 3,4
	for pid := int32(0); pid < 10; pid++ {
		for _, rb := range bools {
			for _, fl := range flushes {
				for _, lib := range []uint32{3, 4} {
					c := pick()
					out = append(out, c01Input{Secret: c01GenSecret(r, lib), Lib: lib, Gen: cfgs[c].Gen, V6: r.Intn(2) == 0, Tr: "prefix", Cfg: c,
						P: c01Params{Kind: "set", Rand: rb, Prefix: proto.Int32(pid), Flush: fl}})
				}
			}
		}
	}
	// (2) transport x library version x family x parameter shape
	for _, tr := range c01Transports {
		for lib := uint32(0); lib < 5; lib++ {
			for _, v6 := range []bool{false, true} {
				for _, p := range []c01Params{{Kind: "absent"}, {Kind: "empty"}, {Kind: "set", Rand: proto.Bool(true)}, {Kind: "set", Rand: proto.Bool(false)}} {
					c := pick()
					out = append(out, c01Input{Secret: c01GenSecret(r, lib), Lib: lib, Gen: cfgs[c].Gen, V6: v6, Tr: tr, Cfg: c, P: p})
				}
			}
		}
	}
	return out
}

// c01BoundaryCases: secrets searched so that the first 16-bit candidate of the seeded port draw sits
// exactly on the edge of the rejection sampler (first rejected value, largest accepted value, zero).
// A port range that is off by one at its upper end changes the answer only for such seeds.
func c01BoundaryCases(r *mrand.Rand, cfgs []c01Config, randomising []int, rounds int) []c01Input {
	var out []c01Input
	for round := 0; round < rounds; round++ {
		for _, lib := range []uint32{3, 4} {
			for _, tr := range c01Transports {
				lo := int64(1024)
				if tr == "obfs4" {
					lo = 22
				}
				bound := 65535 - lo
				for _, want := range []int64{bound, bound - 1} {
					var secret []byte
					for i := 0; i < 4_000_000; i++ {
						b := make([]byte, 32)
						r.Read(b)
						seed, _, err := c01RefKeys(b, lib)
						if err != nil {
							break
						}
						var c [2]byte
						if _, err := io.ReadFull(c01RefStream(seed, "phantom-select-dst-port"), c[:]); err != nil {
							break
						}
						if int64(c[0])<<8|int64(c[1]) == want {
							secret = b
							break
						}
					}
					if secret == nil {
						continue
					}
					c := randomising[r.Intn(len(randomising))]
					p := c01Params{Kind: "set", Rand: proto.Bool(true)}
					if tr == "prefix" {
						p.Prefix = proto.Int32(int32(r.Intn(10)))
					}
					out = append(out, c01Input{Secret: hex.EncodeToString(secret), Lib: lib, Gen: cfgs[c].Gen, V6: r.Intn(2) == 0, Tr: tr, Cfg: c, P: p})
				}
			}
		}
	}
	return out
}

func c01Randomising(cfgs []c01Config) []int {
	var idx []int
	for i, c := range cfgs {
		all := true
		v4, v6 := true, true
		for _, g := range c.Groups {
			all = all && g.RP
			h4, h6 := false, false
			for _, n := range g.Nets {
				if strings.Contains(n, ":") {
					h6 = true
				} else {
					h4 = true
				}
			}
			v4, v6 = v4 && h4, v6 && h6
		}
		if all && v4 && v6 {
			idx = append(idx, i)
		}
	}
	return idx
}

// ---- vector files -----------------------------------------------------------------------------------

type c01VecLine struct {
	T    string     `json:"t"` // hdr | cfg | vec
	Note string     `json:"note,omitempty"`
	Cfg  *c01Config `json:"cfg,omitempty"`
	In   *c01Input  `json:"in,omitempty"`
	Out  *c01Out    `json:"out,omitempty"`
}

func c01VectorsPath(name string) string {
	d := os.Getenv("VERIF_DIR")
	if d == "" {
		d = "/verif"
	}
	return filepath.Join(d, "vectors", name)
}

func c01LoadVectors(t *testing.T) (map[int]*c01Config, []c01VecLine) {
	f, err := os.Open(c01VectorsPath("c01_vectors.jsonl"))
	if err != nil {
		t.Fatalf("infrastructure: frozen vectors missing: %v", err)
	}
	defer f.Close()
	cfgs := map[int]*c01Config{}
	var vecs []c01VecLine
	sc := bufio.NewScanner(f)
	sc.Buffer(make([]byte, 1<<20), 8<<20)
	for sc.Scan() {
		var l c01VecLine
		if err := json.Unmarshal(sc.Bytes(), &l); err != nil {
			t.Fatalf("infrastructure: bad vector line: %v", err)
		}
		switch l.T {
		case "cfg":
			cfgs[l.Cfg.ID] = l.Cfg
		case "vec":
			vecs = append(vecs, l)
		}
	}
	return cfgs, vecs
}

// TestVerifC01GenVectors freezes what the station derives on the CURRENT tree.  Run once, by hand
// (VERIF_GEN_VECTORS=1), before any change to the phantom / key code; never part of a check.
func TestVerifC01GenVectors(t *testing.T) {
	if os.Getenv("VERIF_GEN_VECTORS") != "1" {
		t.Skip("generator; set VERIF_GEN_VECTORS=1")
	}
	path := c01VectorsPath("c01_vectors.jsonl")
	if _, err := os.Stat(path); err == nil && os.Getenv("VERIF_GEN_FORCE") != "1" {
		t.Fatalf("%s exists; frozen vectors are not regenerated (VERIF_GEN_FORCE=1 to override)", path)
	}
	os.Setenv("VERIF_OUT", t.TempDir())
	rec := kit.NewRec("C01", "genvectors")
	defer rec.Close()
	h := c01NewHarness(t, rec)
	r := mrand.New(mrand.NewSource(20260926))
	cfgs := c01FixedConfigs()
	for len(cfgs) < 130 {
		cfgs = append(cfgs, c01GenConfig(r))
	}
	for i := range cfgs {
		cfgs[i].ID = i
	}
	cases := c01Enumerated(r, cfgs, c01Randomising(cfgs))
	for len(cases) < 3700 {
		cases = append(cases, c01GenCase(r, cfgs, true))
	}
	var buf bytes.Buffer
	enc := json.NewEncoder(&buf)
	enc.Encode(c01VecLine{T: "hdr", Note: "C01 known-answer vectors: what the station (parseRegMessage -> NewRegistrationC2SWrapper, GetIdentifier, obfs4 keys, DTLS credentials) " +
		"derived on the pinned tree before any fix commit touched key or phantom derivation. Inputs are complete (secret, library version, generation, family, transport, " +
		"parameters, subnet configuration). Only well-formed configurations. Never regenerate."})
	for i := range cfgs {
		enc.Encode(c01VecLine{T: "cfg", Cfg: &cfgs[i]})
	}
	mism, refused := 0, 0
	for i := range cases {
		in := cases[i]
		cfg := &cfgs[in.Cfg]
		S, _, R := h.eval(in, cfg, c01Opt{})
		if fmt.Sprint(S) != fmt.Sprint(R) {
			mism++
			t.Logf("station and reference disagree on %+v:\n  station   %+v\n  reference %+v", in, S, R)
		}
		if S.Err != "" {
			refused++
		}
		if strings.HasPrefix(S.Err, "other:") {
			t.Fatalf("unclassified station refusal %q on %+v", S.Err, in)
		}
		enc.Encode(c01VecLine{T: "vec", In: &cases[i], Out: &S})
	}
	if rec.Violations() > 0 || mism > 0 {
		t.Fatalf("NOT freezing: %d violations, %d station/reference mismatches on the current tree - look at them first", rec.Violations(), mism)
	}
	if err := os.WriteFile(path, buf.Bytes(), 0o644); err != nil {
		t.Fatal(err)
	}
	t.Logf("wrote %d configurations, %d vectors (%d refusals), %d bytes to %s", len(cfgs), len(cases), refused, buf.Len(), path)
}

// ---- the repository's own hard-coded expectations (second, small vector file) ----------------------

type c01RepoExp struct {
	K      string     `json:"k"` // select | legacy-addr | offset
	From   string     `json:"from"`
	Seed   string     `json:"seed,omitempty"`
	Lib    uint32     `json:"lib,omitempty"`
	Fam    string     `json:"fam,omitempty"` // v4 | v6 | any
	Groups []c01Group `json:"groups,omitempty"`
	Net    string     `json:"net,omitempty"`
	Off    string     `json:"off,omitempty"`
	IP     string     `json:"ip,omitempty"`
	Err    bool       `json:"err,omitempty"`
}

func (h *c01Harness) repoExpectations(t *testing.T) {
	rec := h.rec
	f, err := os.Open(c01VectorsPath("c01_repo_expectations.jsonl"))
	if err != nil {
		t.Fatalf("infrastructure: %v", err)
	}
	defer f.Close()
	sc := bufio.NewScanner(f)
	n := 0
	for sc.Scan() {
		if len(bytes.TrimSpace(sc.Bytes())) == 0 || sc.Bytes()[0] == '#' {
			continue
		}
		var e c01RepoExp
		if err := json.Unmarshal(sc.Bytes(), &e); err != nil {
			t.Fatalf("infrastructure: bad expectation line: %v", err)
		}
		n++
		rec.Case(e)
		rec.Count("evaluations", 1)
		rec.Count("repo_expectations", 1)
		seed, _ := hex.DecodeString(e.Seed)
		bad := func(who, got string) {
			rec.Violation("repo-expectation:"+e.K+":"+who+":"+e.From, who+" no longer produces the answer hard-coded in the repository's tests at the pinned commit",
				map[string]interface{}{"expectation": e, "got": got})
		}
		switch e.K {
		case "select":
			// reference (self-check of the oracle: infrastructure if it fails)
			ip, _, class, err := c01RefSelect(seed, e.Lib, e.Groups, e.Fam)
			if err != nil || class != "" || c01IPString(ip) != e.IP {
				t.Fatalf("infrastructure: the reference does not reproduce %+v: %v %q %s", e, err, class, c01IPString(ip))
			}
			list := &pb.PhantomSubnetsList{WeightedSubnets: c01PBGroups(e.Groups)}
			if e.Lib >= 2 {
				var f phantoms.SubnetFilter
				switch e.Fam {
				case "v4":
					f = phantoms.V4Only
				case "v6":
					f = phantoms.V6Only
				}
				p, err := phantoms.SelectPhantom(seed, list, f, true)
				if err != nil {
					bad("client:phantoms.SelectPhantom", err.Error())
				} else if got := c01IPString(*p.IP()); got != e.IP {
					bad("client:phantoms.SelectPhantom", got)
				}
			} else if e.Fam != "any" {
				var p *net.IP
				var err error
				switch {
				case e.Lib == 1 && e.Fam == "v4":
					p, err = v1.SelectPhantom(seed, list, v1.V4Only, true)
				case e.Lib == 1:
					p, err = v1.SelectPhantom(seed, list, v1.V6Only, true)
				case e.Fam == "v4":
					p, err = v0.SelectPhantom(seed, list, v0.V4Only, true)
				default:
					p, err = v0.SelectPhantom(seed, list, v0.V6Only, true)
				}
				if err != nil {
					bad("client:compatability", err.Error())
				} else if got := c01IPString(*p); got != e.IP {
					bad("client:compatability", got)
				}
			}
			if e.Fam != "any" {
				sel := &phantoms.PhantomIPSelector{Networks: map[uint]*phantoms.SubnetConfig{7: {WeightedSubnets: c01PBGroups(e.Groups)}}}
				p, err := sel.Select(seed, 7, uint(e.Lib), e.Fam == "v6")
				if err != nil {
					bad("station:PhantomIPSelector.Select", err.Error())
				} else if got := c01IPString(*p.IP()); got != e.IP {
					bad("station:PhantomIPSelector.Select", got)
				}
			}
		case "legacy-addr":
			nets, err := c01RefParseNets([]string{e.Net}, "any")
			if err != nil || len(nets) != 1 {
				t.Fatalf("infrastructure: %v", err)
			}
			a, err := c01RefLegacyAddr(seed, nets[0])
			if err != nil || c01IPString(a) != e.IP {
				t.Fatalf("infrastructure: the reference does not reproduce %+v: %v %s", e, err, c01IPString(a))
			}
			_, ipn, _ := net.ParseCIDR(e.Net)
			if got, err := phantoms.SelectAddrFromSubnet(seed, ipn); err != nil || c01IPString(got) != e.IP {
				bad("station:phantoms.SelectAddrFromSubnet", fmt.Sprint(got, err))
			}
			if got, err := v1.SelectAddrFromSubnet(seed, ipn); err != nil || c01IPString(got) != e.IP {
				bad("client:v1.SelectAddrFromSubnet", fmt.Sprint(got, err))
			}
			if got, err := v0.SelectAddrFromSubnet(seed, ipn); err != nil || c01IPString(got) != e.IP {
				bad("client:v0.SelectAddrFromSubnet", fmt.Sprint(got, err))
			}
		case "offset":
			off, ok := new(big.Int).SetString(e.Off, 0)
			if !ok {
				t.Fatalf("infrastructure: bad offset %q", e.Off)
			}
			nets, err := c01RefParseNets([]string{e.Net}, "any")
			if err != nil || len(nets) != 1 {
				t.Fatalf("infrastructure: %v", err)
			}
			inside := off.Cmp(nets[0].size()) < 0
			if inside == e.Err || (inside && c01IPString(c01RefAdd(nets[0], off)) != e.IP) {
				t.Fatalf("infrastructure: the reference does not reproduce %+v", e)
			}
			got, err := phantoms.VerifC01AddrFromOffset(e.Net, off)
			if e.Err && err == nil {
				bad("phantoms.selectAddrFromSubnetOffset", "no error: "+c01IPString(got))
			} else if !e.Err && (err != nil || c01IPString(got) != e.IP) {
				bad("phantoms.selectAddrFromSubnetOffset", fmt.Sprint(got, err))
			}
		default:
			t.Fatalf("infrastructure: unknown expectation kind %q", e.K)
		}
	}
	if n == 0 {
		t.Fatal("infrastructure: no repository expectations read")
	}
}

// ---- test entry points ------------------------------------------------------------------------------

func TestVerifC01Vectors(t *testing.T) {
	rec := kit.NewRec("C01", "vectors")
	defer rec.Close()
	h := c01NewHarness(t, rec)
	cfgs, vecs := c01LoadVectors(t)
	if len(vecs) < 1000 {
		t.Fatalf("infrastructure: only %d vectors", len(vecs))
	}
	// (a) the oracle itself: the independent reference must reproduce every frozen answer exactly
	for _, v := range vecs {
		cfg := cfgs[v.In.Cfg]
		if cfg == nil {
			t.Fatalf("infrastructure: vector names unknown configuration %d", v.In.Cfg)
		}
		eff := *v.In
		if m := c01TypedParams(eff.Tr, eff.P); m != nil {
			eff.P = c01Effective(eff.P, m)
		}
		R, err := c01RefDerive(eff, cfg.Groups, v.In.Gen == cfg.Gen)
		if err != nil {
			t.Fatalf("infrastructure: reference failed on frozen input %+v: %v", v.In, err)
		}
		if fmt.Sprint(R) != fmt.Sprint(*v.Out) {
			t.Fatalf("infrastructure: the reference disagrees with a frozen vector (neither involves the current tree):\n  in        %+v\n  frozen    %+v\n  reference %+v", *v.In, *v.Out, R)
		}
		rec.Count("reference_validated_on_vectors", 1)
	}
	// (b) the current tree on the frozen inputs: station vs frozen answer vs client
	for i, v := range vecs {
		h.eval(*v.In, cfgs[v.In.Cfg], c01Opt{frozen: true})
		if i%3 == 0 {
			// the same frozen input sent as ONE dual-stack message (both families judged against the reference,
			// which has just been shown to equal the frozen answers)
			h.evalDual(*v.In, cfgs[v.In.Cfg], c01Opt{})
		}
	}
	rec.Exhaustive(fmt.Sprintf("all %d frozen vectors (incl. every prefix id x randomise x flush policy x lib 3,4 and transport x lib 0-4 x family x parameter shape)", len(vecs)))
	h.repoExpectations(t)
}

func TestVerifC01Random(t *testing.T) {
	rec := kit.NewRec("C01", "random")
	defer rec.Close()
	h := c01NewHarness(t, rec)
	r := kit.Rand("c01-random")
	total := kit.Tier(3000, 200000)

	cfgs := c01FixedConfigs()
	for len(cfgs) < kit.Tier(80, 3000) {
		cfgs = append(cfgs, c01GenConfig(r))
	}
	for i := range cfgs {
		cfgs[i].ID = i
	}

	// the checked-in files through the repository's own loader (the station then selects from exactly
	// what it would load at start-up); the reference gets the loaded groups
	type loaded struct {
		sel *phantoms.PhantomIPSelector
		cfg c01Config
	}
	var tomls []loaded
	for _, p := range []string{"./test/phantom_subnets.toml", "../../../internal/test_assets/phantom_subnets.toml", "../../../internal/test_assets/phantom_subnets_min.toml"} {
		sel, err := phantoms.SubnetsFromTomlFile(p)
		if err != nil {
			rec.Note("could not load " + p + ": " + err.Error())
			continue
		}
		var gens []int
		for g := range sel.Networks {
			gens = append(gens, int(g))
		}
		sort.Ints(gens)
		for _, g := range gens {
			c := c01Config{ID: -1, Gen: uint32(g), Origin: "loaded:" + p}
			for _, ws := range sel.Networks[uint(g)].WeightedSubnets {
				c.Groups = append(c.Groups, c01Group{W: ws.GetWeight(), RP: ws.GetRandomizeDstPort(), Nets: ws.GetSubnets()})
			}
			tomls = append(tomls, loaded{sel, c})
		}
	}

	cases := c01Enumerated(r, cfgs, c01Randomising(cfgs))
	bc := c01BoundaryCases(r, cfgs, c01Randomising(cfgs), kit.Tier(1, 4))
	rec.Count("port_sampler_boundary_cases", len(bc))
	cases = append(cases, bc...)
	rec.Exhaustive("every prefix id (0-9) x randomise (unset,false,true) x flush policy (unset,0,1,2) x lib 3,4; transport x lib 0-4 x family x parameter shape (absent, empty, randomise on/off)")
	// dual-stack grid: transport x library version x parameter shape, one message carrying both families
	var duals []c01Input
	{
		rnd := c01Randomising(cfgs)
		for _, tr := range c01Transports {
			for lib := uint32(0); lib < 5; lib++ {
				for _, p := range []c01Params{{Kind: "absent"}, {Kind: "empty"}, {Kind: "set", Rand: proto.Bool(true)}, {Kind: "set", Rand: proto.Bool(false)}} {
					c := rnd[r.Intn(len(rnd))]
					duals = append(duals, c01Input{Secret: c01GenSecret(r, lib), Lib: lib, Gen: cfgs[c].Gen, Tr: tr, Cfg: c, P: p})
				}
			}
		}
		rec.Exhaustive("dual-stack messages: transport x lib 0-4 x parameter shape (absent, empty, randomise on/off), both identifier orders")
	}
	for i := 0; i < total; i++ {
		var in c01Input
		var cfg *c01Config
		opt := c01Opt{viaClient: true}
		if i < len(cases) {
			in = cases[i]
			cfg = &cfgs[in.Cfg]
		} else if len(tomls) > 0 && r.Intn(8) == 0 {
			l := &tomls[r.Intn(len(tomls))]
			one := []c01Config{l.cfg}
			in = c01GenCase(r, one, false)
			in.Cfg = -1
			if in.Gen != l.cfg.Gen {
				in.Gen = 100000 + in.Gen // not a generation of that file
			}
			cfg, opt.sel = &l.cfg, l.sel
			rec.Count("cases_on_toml_loaded_selector", 1)
		} else {
			in = c01GenCase(r, cfgs, false)
			cfg = &cfgs[in.Cfg]
		}
		if dual := i >= len(cases) && i < len(cases)+len(duals); dual || (i >= len(cases)+len(duals) && r.Intn(6) == 0) {
			if dual {
				in = duals[i-len(cases)]
				cfg, opt.sel = &cfgs[in.Cfg], nil
			}
			h.evalDual(in, cfg, opt)
			continue
		}
		// library version 4 with a 32-byte random secret: let the real client key agreement make the secret
		if in.Lib == 4 && len(in.Secret) == 64 && r.Intn(2) == 0 {
			det := make([]byte, 4096)
			r.Read(det)
			saved := crand.Reader
			crand.Reader = io.MultiReader(bytes.NewReader(det), saved)
			keys, err := core.GenerateClientSharedKeys(h.pub)
			crand.Reader = saved
			if err != nil {
				t.Fatalf("infrastructure: GenerateClientSharedKeys: %v", err)
			}
			in.Secret = hex.EncodeToString(keys.SharedSecret)
			opt.keys = keys
			rec.Count("cases_with_client_generated_keys", 1)
		}
		h.eval(in, cfg, opt)
	}
}
