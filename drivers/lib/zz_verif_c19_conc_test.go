//go:build verif

package lib

// C19, stage "housekeeping-concurrent" – the statistics reporters, the expiry sweep and configuration
// reloads run CONCURRENTLY with registration ingest, as they do in a running station (the 5 s ticker
// goroutine of Stat(), the 3 min sweep goroutine, the SIGHUP loop and the ingest workers are all
// different goroutines).  The sequential stages cannot see a reporter that touches ingest state
// without the lock; the failure mode (`fatal error: concurrent map iteration and map write`) is
// process-fatal, hence this stage runs in its own child process: the oracle for it is the
// orchestrator's process-survival monitor (and, in the -race variant, the race detector restricted to
// statistics code).  Online oracles in here: no recoverable panic in any role; the reload oracle of the
// sequential stage (a failed part changes nothing, a successful reload takes effect), applied by the one
// goroutine that reloads.
//
// Roles, all on one accepted station per case:
//   reporter   one goroutine (a module is only ever reported from one goroutine in the station):
//              Stat().PrintStats(false), Stat().PrintStats(true), rm.PrintAndReset – with the modules
//              registered through Stat().AddStatsModule exactly as main.go:146-149 does;
//   ingest     G goroutines feeding valid registrations through the real ingestRegistration, plus a feeder
//              of valid C2SWrapper messages for the real HandleRegUpdates worker pool; generation,
//              transport and client_lib_version keep introducing NEW keys of the statistics maps;
//   accounts   connection / byte / proxy-session / ZMQ / liveness counters;
//   keeper     expiry sweep (with ageing) and reloads with valid, malformed and unreadable files.
// Work is a fixed number of operations per role; the reporter keeps reporting until the others are done.

import (
	"bytes"
	"crypto/sha256"
	"fmt"
	golog "log"
	"net"
	"os"
	"path/filepath"
	"strings"
	"sync"
	"sync/atomic"
	"testing"
	"time"

	kit "github.com/refraction-networking/conjure/internal/verifkit"
	"github.com/refraction-networking/conjure/pkg/core"
	"github.com/refraction-networking/conjure/pkg/phantoms"
	"github.com/refraction-networking/conjure/pkg/station/log"
	pb "github.com/refraction-networking/conjure/proto"
	"google.golang.org/protobuf/proto"
)

// verifC19LineSink counts what the reporters print (goroutine-safe).
type verifC19LineSink struct {
	mu                      sync.Mutex
	lines, breakdown, bytes int64
}

func (s *verifC19LineSink) Write(p []byte) (int, error) {
	s.mu.Lock()
	s.lines += int64(bytes.Count(p, []byte("\n")))
	s.bytes += int64(len(p))
	if bytes.Contains(p, []byte("libver-stats:")) || bytes.Contains(p, []byte("gen-stats:")) || bytes.Contains(p, []byte("tt-stats:")) {
		s.breakdown++
	}
	s.mu.Unlock()
	return len(p), nil
}

func (s *verifC19LineSink) snapshot() (lines, breakdown int64) {
	s.mu.Lock()
	defer s.mu.Unlock()
	return s.lines, s.breakdown
}

var verifC19ConcTransports = []pb.TransportType{
	pb.TransportType_Null, pb.TransportType_Min, pb.TransportType_Obfs4, pb.TransportType_Prefix, pb.TransportType_uTLS,
	pb.TransportType_Format, pb.TransportType_WASM, pb.TransportType_FTE, pb.TransportType_Quic, pb.TransportType_Webrtc,
}

const verifC19ConcGens = 48

// verifC19BigSubnets builds a subnets file with many generations (so that the per-generation statistics
// map keeps getting new keys); variant shifts the subnets so that two files select differently.
func verifC19BigSubnets(variant int) string {
	var b strings.Builder
	b.WriteString("[Networks]\n")
	for g := 1; g <= verifC19ConcGens; g++ {
		fmt.Fprintf(&b, "  [Networks.%d]\n    Generation = %d\n    [[Networks.%d.WeightedSubnets]]\n      Weight = %d\n      Subnets = [\"198.%d.%d.0/24\", \"2001:db9:%x:%x::/64\"]\n",
			g, g, g, 1+g%5, 18+variant, g, 0x100+variant, g)
	}
	return b.String()
}

func TestVerifC19Concurrent(t *testing.T) {
	race := os.Getenv("VERIF_C19_RACE") == "1"
	mon := "housekeeping-concurrent"
	if race {
		mon += "-race"
	}
	rec := kit.NewRec("C19", mon)
	defer rec.Close()

	// The registry singleton, initialised without the package's own 5 s / 60 s tickers: in this stage the
	// reporter goroutine IS the ticker (a second, slower reporter on the same modules is something the
	// station never has, and it would blur what overlapped with what).
	statSink := &verifC19LineSink{}
	mine := false
	statsOnce.Do(func() {
		statInstance = Stats{logger: log.New(statSink, "[STATS] ", golog.Ldate|golog.Lmicroseconds), generations: make(map[uint32]int64), genMutex: &sync.Mutex{}}
		mine = true
	})
	if !mine {
		t.Fatal("the Stats registry was initialised before this test (it must run in its own process)")
	}

	e := verifC19NewEnv(t, rec, "c19-conc-files")
	defer log.SetLevel(log.ErrorLevel)
	// two subnets files with many generations, added behind the pool
	bigA, bigB := len(e.subPaths), len(e.subPaths)+1
	for i, name := range []string{"big-a", "big-b"} {
		p := filepath.Join(e.dir, name+".toml")
		if err := os.WriteFile(p, []byte(verifC19BigSubnets(i)), 0o644); err != nil {
			t.Fatal(err)
		}
		if _, err := phantoms.SubnetsFromTomlFile(p); err != nil {
			t.Fatalf("subnets file %s: %v", name, err)
		}
		e.subPaths = append(e.subPaths, p)
	}
	badSub := -1
	for i, f := range e.subFiles {
		if f.Name == "bad-unclosed" {
			badSub = i
		}
	}

	type variant map[string]string
	variants := []variant{
		{"ingest_worker_count": "valid:1", "enable_v6": "valid:true"},
		{"ingest_worker_count": "valid:9", "enable_v6": "valid:true", "cache_expiration_time": "unset", "cache_expiration_nonlive": "unset"},
		{"ingest_worker_count": "valid:10", "enable_v6": "valid:true", "cache_expiration_nonlive": "unset", "cache_capacity": "valid:3"},
		{"ingest_worker_count": "valid:100", "enable_v6": "valid:true", "cache_expiration_time": "unset", "log_level": "valid:debug"},
		{"ingest_worker_count": "unset", "enable_v6": "valid:true", "cache_capacity": "valid:1", "cache_capacity_nonlive": "valid:3", "covert_blocklist_public_addrs": "valid:true"},
		{"ingest_worker_count": "zero", "enable_v6": "valid:true", "geoip_cc_db_path": "unset", "geoip_asn_db_path": "unset", "socket_name": "unset", "heartbeat_interval": "unset", "heartbeat_timeout": "unset", "connect_sockets": "unset"},
	}
	nVariants := kit.Tier(4, len(variants))
	ingesters := 6
	perIngester := kit.Tier(1500, 4000)
	feederMsgs := kit.Tier(1500, 4000)
	accountOps := kit.Tier(20000, 80000)
	keeperRounds := kit.Tier(40, 100)
	minReports := kit.Tier(60, 200)
	if race {
		perIngester, feederMsgs, accountOps, keeperRounds, minReports = perIngester/4, feederMsgs/4, accountOps/4, keeperRounds/2, minReports/2
	}
	// configurations the keeper reloads: two valid ones with different policies and three that must fail
	validB := kit.C19Variant(e.garbageDB, variant{"enable_v6": "valid:true", "covert_blocklist_subnets": "valid:three", "phantom_blocklist": "zero", "covert_blocklist_domains": "valid:three"})
	broken := kit.C19Config{Text: e.baseText + "\nbroken_key = \"abc\n", Class: "syntax-malformed", Desc: "syntax:unclosed-string", MustFail: "syntax"}
	ptype := kit.C19Variant(e.garbageDB, variant{"covert_blocklist_subnets": "ptype:int"})
	badEntry := kit.C19Variant(e.garbageDB, variant{"phantom_blocklist": "entry:garbage-only"})

	var totalOverlap, totalKeys int64
	for vi := 0; vi < nVariants; vi++ {
		cfg := kit.C19Variant(e.garbageDB, variants[vi])
		validA := cfg
		rec.Case(map[string]interface{}{"case": vi, "desc": cfg.Desc, "config": cfg.Text, "race_build": race,
			"roles": fmt.Sprintf("reporter ×1, ingest ×%d (%d each) + HandleRegUpdates feeder (%d msgs), accounts ×2 (%d ops), keeper (%d rounds)", ingesters, perIngester, feederMsgs, accountOps, keeperRounds)})
		rec.Count("evaluations", 1)
		e.setSub(e.subPaths[bigA])
		e.writeCfg(cfg)
		st, outcome, pn := e.startup(cfg.Text, true)
		if st == nil {
			t.Fatalf("variant %d (%s) is not accepted at start-up: %s %v", vi, cfg.Desc, outcome, pn)
		}
		rec.Distinct("nontrivial", cfg.Desc)
		rec.Distinct("liveness_modes", st.mode)
		for _, tt := range verifC19ConcTransports {
			_ = st.rm.AddTransport(tt, &mockTransport{})
		}
		// main.go:146-149
		statInstance.moduleStats, statInstance.verboseStats = nil, nil
		Stat().AddStatsModule(st.zi, false)
		Stat().AddStatsModule(st.rm.LivenessTester, false)
		Stat().AddStatsModule(GetProxyStats(), false)
		Stat().AddStatsModule(st.rm, false)

		var started, finished atomic.Int64 // report brackets
		var othersDone atomic.Bool
		var overlap, ingested, validIngested, accounted, fed, libverSeq atomic.Int64
		libverSeq.Store(int64(1000 + vi*10_000_000))
		directSink := &verifC19LineSink{}
		directLogger := log.New(directSink, "[STATS] ", golog.Ldate|golog.Lmicroseconds)
		role := func(name string, f func()) {
			if pn := kit.C19Try(f); pn != nil {
				rec.Violation(pn.Sig("housekeeping-concurrent:"+name), fmt.Sprintf("the %s role panicked while the other housekeeping roles were running: %s", name, pn.Val),
					map[string]interface{}{"panic": pn, "config": cfg.Text})
			}
		}

		var others sync.WaitGroup
		// ---- ingest: valid registrations through the real ingestRegistration -------------------------------
		for g := 0; g < ingesters; g++ {
			others.Add(1)
			go func(g int) {
				defer others.Done()
				role("ingest", func() {
					for i := 0; i < perIngester; i++ {
						lv := uint32(libverSeq.Add(1))
						secret := sha256.Sum256([]byte(fmt.Sprintf("c19-conc-%d-%d-%d", vi, g, i)))
						tt := verifC19ConcTransports[(i+g)%len(verifC19ConcTransports)]
						gen := uint32(1 + (i*7+g)%verifC19ConcGens)
						v6 := i%3 == 0
						keys, err := core.GenSharedKeys(uint(lv), secret[:], tt)
						if err != nil {
							continue
						}
						c2s := &pb.ClientToStation{
							ClientLibVersion: proto.Uint32(lv), DecoyListGeneration: proto.Uint32(gen), CovertAddress: proto.String("93.184.216.34:443"),
							Transport: tt.Enum(), V4Support: proto.Bool(!v6), V6Support: proto.Bool(v6), Flags: &pb.RegistrationFlags{Prescanned: proto.Bool(true)},
						}
						src := []pb.RegistrationSource{pb.RegistrationSource_API, pb.RegistrationSource_DetectorPrescan, pb.RegistrationSource_BidirectionalAPI, pb.RegistrationSource_DNS}[i%4]
						reg, err := st.rm.NewRegistration(c2s, &keys, v6, &src)
						if err != nil {
							continue
						}
						reg.registrationAddr = net.IPv4(203, 0, 113, byte(i)).To4()
						f1 := finished.Load()
						st.rm.ingestRegistration(reg)
						if started.Load() > f1 {
							overlap.Add(1) // a report was in progress at some moment of this ingest
						}
						ingested.Add(1)
						if reg.Valid { // set by the ingest itself (same goroutine): the registration reached AddRegStats
							validIngested.Add(1)
						}
					}
				})
			}(g)
		}
		// ---- ingest: valid wrapper messages for the real worker pool ----------------------------------------------
		others.Add(1)
		go func() {
			defer others.Done()
			role("feeder", func() {
				for i := 0; i < feederMsgs; i++ {
					lv := uint32(libverSeq.Add(1))
					secret := sha256.Sum256([]byte(fmt.Sprintf("c19-conc-feed-%d-%d", vi, i)))
					tt := verifC19ConcTransports[i%len(verifC19ConcTransports)]
					src := pb.RegistrationSource_API
					w := &pb.C2SWrapper{
						SharedSecret: secret[:],
						RegistrationPayload: &pb.ClientToStation{
							ClientLibVersion: proto.Uint32(lv), DecoyListGeneration: proto.Uint32(uint32(1 + i%verifC19ConcGens)), CovertAddress: proto.String("93.184.216.34:443"),
							Transport: tt.Enum(), V4Support: proto.Bool(true), V6Support: proto.Bool(i%2 == 0), Flags: &pb.RegistrationFlags{Prescanned: proto.Bool(true)},
						},
						RegistrationSource:  &src,
						RegistrationAddress: []byte{203, 0, 113, byte(i)},
					}
					b, err := proto.Marshal(w)
					if err != nil {
						continue
					}
					st.regChan <- b
					fed.Add(1)
				}
			})
		}()
		// ---- accounts: the counters the reporters print and reset ---------------------------------------------------------
		for a := 0; a < 2; a++ {
			others.Add(1)
			go func(a int) {
				defer others.Done()
				role("accounts", func() {
					src := pb.RegistrationSource_API
					for i := 0; i < accountOps; i++ {
						switch (i + a) % 10 {
						case 0:
							Stat().AddConn()
							Stat().AddBytes(int64(i%1500), "Up")
							Stat().CloseConn()
						case 1:
							Stat().AddConn()
							Stat().AddBytes(int64(i%900), "Down")
							Stat().ConnErr()
						case 2:
							Stat().AddLivenessPass()
							Stat().AddLivenessFail()
							Stat().AddLivenessCached()
						case 3:
							Stat().AddMissedReg()
							Stat().AddDupReg()
							Stat().AddErrReg()
						case 4:
							Stat().AddReg(uint32(i%200), &src)
							Stat().ExpireReg(uint32(i%200), &src)
						case 5:
							getProxyStats().addSession()
							getProxyStats().addBytes(int64(i%4000), i%2 == 0)
							getProxyStats().addCompleted(int64(i%3), i%2 == 0)
							getProxyStats().removeSession()
						case 6:
							st.zi.addZMQMessage()
							st.zi.addDroppedZMQMessage()
						case 7:
							st.rm.AddErrReg()
							st.rm.AddDupReg()
							st.rm.AddBlocklistedPhantomReg()
						case 8:
							st.rm.addIngestMessage()
							st.rm.addDroppedMessage()
							st.rm.addDNSResolution()
						case 9:
							st.rm.AddExpiredRegs(1, 0)
						}
						accounted.Add(1)
					}
				})
			}(a)
		}
		// ---- keeper: sweep + reloads (the only goroutine that reloads, so its before/after oracle is exact) ----
		others.Add(1)
		reloadsDone := 0
		go func() {
			defer others.Done()
			role("keeper", func() {
				plan := []kit.C19Reload{
					{ConfAct: "new", Conf: &validB, SubAct: "switch", SubIdx: bigB},
					{ConfAct: "new", Conf: &broken, SubAct: "same"},
					{ConfAct: "new", Conf: &validA, SubAct: "switch", SubIdx: badSub},
					{ConfAct: "missing", SubAct: "switch", SubIdx: bigA},
					{ConfAct: "new", Conf: &ptype, SubAct: "missing"},
					{ConfAct: "new", Conf: &validB, SubAct: "switch", SubIdx: bigA},
					{ConfAct: "new", Conf: &badEntry, SubAct: "dir"},
					{ConfAct: "dir", SubAct: "switch", SubIdx: bigB},
					{ConfAct: "new", Conf: &validA, SubAct: "switch", SubIdx: bigA},
				}
				for r := 0; r < keeperRounds; r++ {
					if r%3 == 0 {
						reg := st.rm.registeredDecoys
						reg.m.Lock()
						n := 0
						for _, to := range reg.decoysTimeouts {
							if n++; n%2 == 0 {
								to.registrationTime = to.registrationTime.Add(-7 * time.Hour)
							}
						}
						reg.m.Unlock()
					}
					rec.Count("sweeps", 1)
					st.rm.RemoveOldRegistrations()
					step := plan[r%len(plan)]
					if !e.reload(st, step, r) {
						return // a panic on the reload path was reported; a real station would be dead
					}
					reloadsDone++
				}
			})
		}()
		// ---- reporter ----------------------------------------------------------------------------------------------------------
		reports := 0
		var reporterDone sync.WaitGroup
		reporterDone.Add(1)
		go func() {
			defer reporterDone.Done()
			role("reporter", func() {
				for !othersDone.Load() || reports < minReports {
					started.Add(1)
					Stat().PrintStats(false)
					Stat().PrintStats(true)
					st.rm.PrintAndReset(directLogger)
					finished.Add(1)
					reports++
				}
			})
		}()

		waitCh := make(chan struct{})
		go func() { others.Wait(); close(waitCh) }()
		select {
		case <-waitCh:
		case <-time.After(8 * time.Minute):
			rec.Inconclusive("the concurrent housekeeping roles did not finish their fixed work within 8 minutes", kit.Stacks())
			t.Fatal("watchdog: roles did not finish (see inconclusive event)")
		}
		othersDone.Store(true)
		reporterDone.Wait()
		e.shutdown(st)
		statInstance.moduleStats, statInstance.verboseStats = nil, nil

		_, bd1 := statSink.snapshot()
		_, bd2 := directSink.snapshot()
		rec.Count("reports", reports)
		rec.Count("registrations_ingested_directly", int(ingested.Load()))
		rec.Count("wrapper_messages_fed", int(fed.Load()))
		rec.Count("ingests_overlapping_a_report", int(overlap.Load()))
		rec.Count("new_libver_keys", int(validIngested.Load()))
		rec.Count("account_ops", int(accounted.Load()))
		rec.Count("concurrent_reloads", reloadsDone)
		rec.Count("breakdown_lines_printed", int(bd2))
		_ = bd1
		totalOverlap += overlap.Load()
		totalKeys += validIngested.Load()
		if vi == 0 {
			rec.Sample(map[string]interface{}{"case": vi, "desc": cfg.Desc, "reports": reports, "registrations_ingested_directly": ingested.Load(),
				"ingests_overlapping_a_report": overlap.Load(), "concurrent_reloads": reloadsDone, "race_build": race})
		}
	}
	_, bdStat := statSink.snapshot()
	rec.Count("breakdown_lines_printed_by_registry", int(bdStat))
	if totalOverlap == 0 || bdStat == 0 || totalKeys == 0 {
		rec.Inconclusive("no registration was accounted while a report was running (or no report ever iterated a non-empty statistics map): the overlap this stage exists for did not happen",
			map[string]interface{}{"ingests_overlapping_a_report": totalOverlap, "breakdown_lines": bdStat, "new_keys": totalKeys, "gomaxprocs": os.Getenv("GOMAXPROCS")})
	}
	rec.Note(fmt.Sprintf("every directly ingested registration that became valid carries a fresh client_lib_version, i.e. created a new lvStats key (%d), and cycles %d generations × %d transports; %d of these ingests overlapped a running report",
		totalKeys, verifC19ConcGens, len(verifC19ConcTransports), totalOverlap))
}
