//go:build verif

package lib

import (
	"reflect"
	"strings"
)

// vTimeoutOf tells which registration a timeout record belongs to.  The record's own fields are read through
// reflection, so that a tree in which they were renamed or removed still compiles against the drivers; the map key
// ("<phantom>|<identifier>") is the fallback.
func vTimeoutOf(t *DecoyTimeout, key string) (decoy, identifier string) {
	v := reflect.ValueOf(t).Elem()
	fd, fi := v.FieldByName("decoy"), v.FieldByName("identifier")
	if fd.IsValid() && fi.IsValid() && fd.Kind() == reflect.String && fi.Kind() == reflect.String {
		return fd.String(), fi.String()
	}
	if i := strings.Index(key, "|"); i >= 0 {
		return key[:i], key[i+1:]
	}
	return "", ""
}
