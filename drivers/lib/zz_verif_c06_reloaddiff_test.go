//go:build verif

package lib

// C06 – monitor 3 ("reloaddiff"): differential of a RELOADED station against a FRESHLY STARTED one.
//
// A manager is launched from a configuration file and then reloaded through the path the station's
// SIGHUP handler uses (ParseConfig() on the rewritten file + RegistrationManager.OnReload(newConf.RegConfig))
// along chains of configurations whose neighbours differ only in ONE respect – in particular in
// respects whose effect on the parsed policy is DERIVED rather than spelled out in the string lists:
// covert_blocklist_public_addrs false<->true with identical lists (interface subnets), the allowlist
// going empty<->non-empty (the enable switch) with the other lists identical, the same set of entries
// in another spelling or another order, A -> B -> A, domain patterns identical while subnets change
// and vice versa, and no change at all.
//
// Oracle: after every reload the decision of the live manager for every covert of the universe (the
// station's own interface addresses and their subnets, loopback, v4-mapped forms, addresses inside /
// at the edge of / outside every prefix of the old and the new configuration, permitted literals,
// stable scripted names, malformed strings) equals the decision of a manager freshly started from the
// new file alone; literal coverts are additionally judged by the independent netip oracle of monitor 1
// against the new configuration.  Decisions before the reload are recorded too, so that the evidence
// shows how many decisions actually changed across each kind of reload.

import (
	"fmt"
	"math/rand"
	"net"
	"net/netip"
	"os"
	"path/filepath"
	"strings"
	"testing"

	kit "github.com/refraction-networking/conjure/internal/verifkit"
)

type c06RCfg struct {
	Block, Allow, Domains []string
	Public                bool
}

func (c c06RCfg) clone() c06RCfg {
	return c06RCfg{Block: append([]string(nil), c.Block...), Allow: append([]string(nil), c.Allow...), Domains: append([]string(nil), c.Domains...), Public: c.Public}
}

func (c c06RCfg) policy(id string) *c06Policy {
	return &c06Policy{ID: id, BlockText: c.Block, AllowText: c.Allow, Domains: c.Domains, PublicAddrs: c.Public}
}

func (c c06RCfg) String() string {
	return fmt.Sprintf("public_addrs=%v blocklist=%q allowlist=%q domains=%q", c.Public, c.Block, c.Allow, c.Domains)
}

func c06TOMLList(key string, l []string) string {
	var q []string
	for _, s := range l {
		q = append(q, "'"+s+"'") // TOML literal string: no escapes (no entry contains a single quote)
	}
	return key + " = [" + strings.Join(q, ", ") + "]\n"
}

func (c c06RCfg) write(path string) error {
	body := "enable_v4 = true\nenable_v6 = true\n" +
		c06TOMLList("covert_blocklist_domains", c.Domains) +
		c06TOMLList("covert_blocklist_subnets", c.Block) +
		fmt.Sprintf("covert_blocklist_public_addrs = %v\n", c.Public) +
		c06TOMLList("covert_allowlist_subnets", c.Allow) +
		"phantom_blocklist = []\n"
	return os.WriteFile(path, []byte(body), 0o600)
}

// respell returns another text for the same CIDR (host bits set / expanded IPv6), "" if none found.
func c06Respell(rng *rand.Rand, s string) string {
	pf, err := netip.ParsePrefix(s)
	if err != nil {
		return ""
	}
	if pf.Bits() < pf.Addr().BitLen() {
		b := pf.Masked().Addr().AsSlice()
		for try := 0; try < 4; try++ {
			i := pf.Bits() + rng.Intn(pf.Addr().BitLen()-pf.Bits())
			b[i/8] |= 1 << (7 - uint(i%8))
		}
		if a, ok := netip.AddrFromSlice(b); ok && !a.Is4In6() {
			if t := netip.PrefixFrom(a, pf.Bits()).String(); t != s {
				return t
			}
		}
	}
	if pf.Addr().Is6() && !pf.Addr().Is4In6() {
		if t := fmt.Sprintf("%s/%d", c06Expand6(pf.Addr(), false, false), pf.Bits()); t != s {
			return t
		}
	}
	return ""
}

func c06Permute(rng *rand.Rand, l []string) ([]string, bool) {
	if len(l) < 2 {
		return l, false
	}
	for try := 0; try < 8; try++ {
		out := append([]string(nil), l...)
		rng.Shuffle(len(out), func(i, j int) { out[i], out[j] = out[j], out[i] })
		if strings.Join(out, "\x00") != strings.Join(l, "\x00") {
			return out, true
		}
	}
	return l, false
}

var c06ReloadKinds = []string{"public-addrs-toggled", "allowlist-emptied-or-filled", "same-entries-respelled", "order-permuted", "subnets-changed-domains-same",
	"domains-changed-subnets-same", "back-to-earlier-config", "public-addrs-toggled-and-lists-changed", "nothing-changed", "everything-changed"}

// c06Step derives the next configuration of a chain.  It returns the kind actually applied ("" = this
// kind is not applicable to cur).
func c06Step(g *c06Gen, kind string, cur c06RCfg, history []c06RCfg) (c06RCfg, string) {
	next := cur.clone()
	lists := func() ([]string, []string) {
		p := g.policy("x")
		for len(p.BlockText) == 0 {
			p = g.policy("x")
		}
		return p.BlockText, p.AllowText
	}
	switch kind {
	case "public-addrs-toggled":
		next.Public = !cur.Public
	case "allowlist-emptied-or-filled":
		if len(cur.Allow) > 0 {
			next.Allow = nil
		} else {
			// an allowlist that permits some interesting things, the other lists stay as they are
			next.Allow = []string{[]string{"127.0.0.0/8", "192.0.2.0/24", "8.8.8.0/24", "10.0.0.0/8", "0.0.0.0/1"}[g.rng.Intn(5)], []string{"2001:db8::/32", "::1/128", "fd00::/8"}[g.rng.Intn(3)]}
		}
	case "same-entries-respelled":
		changed := false
		for _, l := range [][]string{next.Block, next.Allow} {
			for i := range l {
				if t := c06Respell(g.rng, l[i]); t != "" && g.rng.Intn(3) > 0 {
					l[i], changed = t, true
				}
			}
		}
		if !changed {
			return cur, ""
		}
	case "order-permuted":
		var a, b, c bool
		next.Block, a = c06Permute(g.rng, next.Block)
		next.Allow, b = c06Permute(g.rng, next.Allow)
		next.Domains, c = c06Permute(g.rng, next.Domains)
		if !a && !b && !c {
			return cur, ""
		}
	case "subnets-changed-domains-same":
		next.Block, _ = lists()
		if g.rng.Intn(3) == 0 {
			_, next.Allow = lists()
		}
	case "domains-changed-subnets-same":
		next.Domains = nil
		for n := g.rng.Intn(3); n >= 0; n-- {
			next.Domains = append(next.Domains, c06DomainPool[g.rng.Intn(len(c06DomainPool))])
		}
		if strings.Join(next.Domains, "\x00") == strings.Join(cur.Domains, "\x00") {
			return cur, ""
		}
	case "back-to-earlier-config":
		if len(history) < 2 {
			return cur, ""
		}
		next = history[g.rng.Intn(len(history)-1)].clone()
	case "public-addrs-toggled-and-lists-changed":
		next.Public = !cur.Public
		next.Block, _ = lists()
	case "nothing-changed":
	case "everything-changed":
		next.Block, next.Allow = lists()
		next.Domains = []string{c06DomainPool[g.rng.Intn(len(c06DomainPool))]}
		next.Public = g.rng.Intn(2) == 0
	}
	return next, kind
}

type c06RCovert struct {
	S     string
	Class string
	Name  bool // resolved through the scripted resolver (stable answers)
}

// own addresses and subnets of the local interfaces (what covert_blocklist_public_addrs is about)
func c06OwnAddrs() (own []netip.Addr, nets []netip.Prefix) {
	ifs, _ := net.Interfaces()
	for _, i := range ifs {
		as, err := i.Addrs()
		if err != nil {
			continue
		}
		for _, a := range as {
			if n, ok := a.(*net.IPNet); ok {
				ip, ok := netip.AddrFromSlice(n.IP)
				if !ok {
					continue
				}
				ip = ip.Unmap()
				ones, _ := n.Mask.Size()
				if pf, err := ip.Prefix(ones); err == nil {
					own = append(own, ip)
					nets = append(nets, pf)
				}
			}
		}
	}
	return
}

func TestVerifC06ReloadDifferential(t *testing.T) {
	rec := kit.NewRec("C06", "reloaddiff")
	defer rec.Close()
	dns, err := c06Resolver()
	if err != nil {
		t.Fatal(err)
	}
	hosts := c06HostsFile()
	os.Setenv("PHANTOM_SUBNET_LOCATION", "./test/phantom_subnets.toml")
	dir := t.TempDir()
	cfgPath := filepath.Join(dir, "station.toml")
	os.Setenv("CJ_STATION_CONFIG", cfgPath)
	// NewRegistrationManager / OnReload print a geoip warning per call: keep the child's stdout small
	if devnull, err := os.OpenFile(os.DevNull, os.O_WRONLY, 0); err == nil {
		saved := os.Stdout
		os.Stdout = devnull
		defer func() { os.Stdout = saved; devnull.Close() }()
	}

	g := &c06Gen{rng: kit.Rand("c06/reloaddiff"), dns: dns, hosts: hosts, tag: "rd"}
	own, ownNets := c06OwnAddrs()
	if len(own) == 0 {
		t.Fatal("no local interface addresses: the public-address part of the policy cannot be exercised")
	}

	// stable scripted names (one round, so that the live and the fresh manager get the same answer)
	type nm struct {
		name  string
		addr  netip.Addr
		class string
	}
	names := []nm{{"own.reload.verif.test", own[0], "name->own-address"}, {"loop.reload.verif.test", netip.MustParseAddr("127.0.0.1"), "name->loopback"},
		{"pub.reload.verif.test", netip.MustParseAddr("8.8.8.8"), "name->public"}, {"x.blocked.test", netip.MustParseAddr("8.8.8.8"), "name-matching-common-pattern"},
		{"six.reload.verif.test", netip.MustParseAddr("2001:db8::5"), "name->v6"}}
	for _, n := range names {
		if n.addr.Is4() {
			dns.Script(n.name, []c06Round{{V4: []netip.Addr{n.addr}}})
		} else {
			dns.Script(n.name, []c06Round{{V6: []netip.Addr{n.addr}}})
		}
	}

	universe := func(oldP, newP *c06Policy) []c06RCovert {
		var u []c06RCovert
		add := func(s, class string) { u = append(u, c06RCovert{S: s, Class: class}) }
		lit := func(a netip.Addr, port string) string {
			s := netip.AddrPortFrom(a, 0).String() // "1.2.3.4:0" / "[::1]:0"
			return s[:len(s)-1] + port
		}
		for i, a := range own {
			add(lit(a, "443"), "own-interface-address")
			if a.Is4() {
				add("[::ffff:"+a.String()+"]:443", "own-interface-address-v4-mapped")
			}
			add(lit(g.addrIn(ownNets[i]), "443"), "own-interface-subnet")
			if o := g.justOutside(ownNets[i]); o.IsValid() && !o.Is4In6() {
				add(lit(o, "443"), "just-outside-own-subnet")
			}
		}
		for _, s := range []string{"127.0.0.1:6379", "127.0.0.2:80", "[::1]:6379", "[::ffff:127.0.0.1]:6379", "0.0.0.0:6379"} {
			add(s, "loopback")
		}
		for _, s := range []string{"8.8.8.8:443", "[2001:db8::1]:80", "198.51.100.7:443", "10.1.2.3:80", "[fd12::1]:443"} {
			add(s, "fixed-literal")
		}
		for _, p := range []*c06Policy{oldP, newP} {
			for _, pf := range append(append([]netip.Prefix(nil), p.block...), p.allow...) {
				add(lit(g.addrIn(pf), "443"), "inside-configured-prefix")
				if o := g.justOutside(pf); o.IsValid() && !o.Is4In6() {
					add(lit(o, "443"), "edge-of-configured-prefix")
				}
			}
		}
		for i := 0; i < 10; i++ {
			s, form := g.literal(g.targetAddr(newP, g.rng.Intn(5) < 3), g.port())
			add(s, "generated:"+strings.SplitN(form, ":", 2)[0])
		}
		for _, n := range names {
			u = append(u, c06RCovert{S: n.name + ":443", Class: n.class, Name: true})
		}
		u = append(u, c06RCovert{S: "localhost:443", Class: "hosts-file-name", Name: true})
		for _, s := range []string{":443", "127.0.0.1", "127.0.0.1:99999", ""} {
			add(s, "malformed")
		}
		return u
	}

	parse := func(c c06RCfg) *RegConfig {
		if err := c.write(cfgPath); err != nil {
			t.Fatal(err)
		}
		conf, err := ParseConfig()
		if err != nil {
			t.Fatalf("ParseConfig refused a generated configuration (%v): %v", c, err)
		}
		return conf.RegConfig
	}

	reloads, chains := 0, 0
	runChain := func(start c06RCfg, kinds []string) {
		chains++
		cur := start
		live := NewRegistrationManager(parse(cur))
		if live == nil {
			t.Fatal("NewRegistrationManager returned nil")
		}
		history := []c06RCfg{cur}
		var trail []string
		trail = append(trail, "launch: "+cur.String())
		for _, want := range kinds {
			next, kind := c06Step(g, want, cur, history)
			if kind == "" {
				rec.Count("step_kind_not_applicable", 1)
				continue
			}
			oldP, newP := cur.policy("old"), next.policy(fmt.Sprintf("chain%d/step%d", chains, len(history)))
			if err := oldP.compile(); err != nil {
				t.Fatal(err)
			}
			if err := newP.compile(); err != nil {
				t.Fatal(err)
			}
			u := universe(oldP, newP)
			before := make([]string, len(u))
			for i, c := range u {
				before[i], _ = live.ParseOrResolveBlocklisted(c.S)
			}
			// the SIGHUP path: parse the rewritten file, hand its RegConfig to OnReload
			rec.Case(map[string]interface{}{"kind": kind, "from": cur.String(), "to": next.String()})
			live.OnReload(parse(next))
			// the reference: a station started from the new file alone (parsed separately)
			fresh := NewRegistrationManager(parse(next))
			if fresh == nil {
				t.Fatal("NewRegistrationManager returned nil")
			}
			reloads++
			trail = append(trail, fmt.Sprintf("reload (%s): %s", kind, next.String()))
			if len(trail) > 6 {
				trail = append(trail[:1], trail[len(trail)-5:]...)
			}
			changedHere := 0
			for i, c := range u {
				got, _ := live.ParseOrResolveBlocklisted(c.S)
				ref, _ := fresh.ParseOrResolveBlocklisted(c.S)
				if got != ref && c.Name {
					// a resolver hiccup under load must not look like a disagreement: ask both again
					for try := 0; try < 2 && got != ref; try++ {
						got, _ = live.ParseOrResolveBlocklisted(c.S)
						ref, _ = fresh.ParseOrResolveBlocklisted(c.S)
					}
				}
				rec.Count("evaluations", 1)
				key := fmt.Sprintf("pair[%s|%s]", kind, c.Class)
				rec.Count(key+".decisions", 1)
				if (before[i] == "") != (got == "") {
					rec.Count(key+".changed_across_reload", 1)
					rec.Count("decisions_changed_across_reload", 1)
					changedHere++
				}
				rec.Distinct("nontrivial", newP.ID, c.S)
				if got != ref {
					sig := "reload:returns-different-literal-than-a-fresh-start:" + kind
					msg := "after a reload the station returns another literal for a covert than a station freshly started from the same configuration"
					switch {
					case got != "" && ref == "":
						sig = "reload:admits-covert-a-fresh-start-refuses:" + kind
						msg = "after a reload the station admits a covert address that a station freshly started from the configuration now in force refuses"
					case got == "" && ref != "":
						sig = "reload:refuses-covert-a-fresh-start-admits:" + kind
						msg = "after a reload the station refuses a covert address that a station freshly started from the configuration now in force admits"
					}
					rec.Count("violations_by_sig["+sig+"]", 1)
					rec.Violation(sig, msg, map[string]interface{}{"covert": c.S, "covert_class": c.Class, "reloaded_station_returns": got, "fresh_station_returns": ref,
						"before_the_reload": before[i], "reload_kind": kind, "configurations": trail, "reported_public_addrs_after_reload": live.CovertBlocklistPublicAddrs})
				}
				// independent oracle on literals, against the configuration now in force
				if !c.Name {
					c06Judge(rec, newP, hosts, c06Obs{In: c.S, Out: got})
				}
			}
			rec.Count("reloads["+kind+"]", 1)
			if changedHere > 0 {
				rec.Count("reloads_that_changed_a_decision["+kind+"]", 1)
			}
			if rec.WantSample() && changedHere > 0 && (kind == "public-addrs-toggled" || kind == "allowlist-emptied-or-filled" || kind == "back-to-earlier-config") {
				rec.Sample(map[string]interface{}{"reload_kind": kind, "from": cur.String(), "to": next.String(), "coverts_compared_with_fresh_start": len(u), "decisions_changed_across_reload": changedHere})
			}
			cur = next
			history = append(history, cur)
		}
	}

	// fixed part: the derived-effect toggles on a few base configurations, both directions, enumerated
	bases := []c06RCfg{
		{Block: []string{"10.0.0.0/8", "172.16.0.0/12"}, Domains: []string{"localhost"}},
		{Block: []string{"127.0.0.1/32", "10.0.0.0/8", "172.16.0.0/12", "192.168.0.0/16", "fc00::/7", "fe80::0/16", "::1/128"}, Domains: []string{"localhost"}},
		{},
		{Block: []string{"8.8.8.0/24"}, Allow: []string{"127.0.0.0/8", "192.0.2.0/24", "8.8.0.0/16"}},
		{Domains: []string{`.*blocked\.test$`}},
	}
	for _, b := range bases {
		for _, pub := range []bool{false, true} {
			s := b.clone()
			s.Public = pub
			runChain(s, []string{"public-addrs-toggled", "public-addrs-toggled", "allowlist-emptied-or-filled", "public-addrs-toggled", "allowlist-emptied-or-filled", "nothing-changed",
				"same-entries-respelled", "order-permuted", "public-addrs-toggled", "back-to-earlier-config", "domains-changed-subnets-same", "public-addrs-toggled",
				"subnets-changed-domains-same", "back-to-earlier-config", "public-addrs-toggled-and-lists-changed", "public-addrs-toggled"})
		}
	}
	rec.Exhaustive(fmt.Sprintf("reloaddiff: %d base configurations × public_addrs {false,true} at launch × a fixed chain of 16 single-respect reloads", len(bases)))

	// seeded chains
	for n := kit.Tier(30, 600); n > 0; n-- {
		p := g.policy("start")
		start := c06RCfg{Block: p.BlockText, Allow: p.AllowText, Domains: p.Domains, Public: g.rng.Intn(2) == 0}
		var kinds []string
		for k := 0; k < 12; k++ {
			kinds = append(kinds, c06ReloadKinds[g.rng.Intn(len(c06ReloadKinds))])
		}
		runChain(start, kinds)
	}
	rec.Count("reloads", reloads)
	rec.Count("chains", chains)
	for _, n := range names {
		dns.Forget(n.name)
	}
}
