//go:build verif

package lib

// C06 – monitor 4 ("reloadrace"): concurrent differential with quiet points.
//
// One live manager; K (= number of cores; more checkers only starve the reloader) checker goroutines evaluate cheap literal coverts in a tight loop through the
// real ParseOrResolveBlocklisted; a reloader performs reloads in PAIRS back to back (R1: A -> B,
// at once R2: B -> C – checkers that lost their policy state to R1 are re-deriving it while R2 runs),
// through the SIGHUP path (ParseConfig on the rewritten file + OnReload).  Then a QUIET POINT: no new
// checks are issued, the reloader waits until every in-flight check has returned (a counter), and only
// then compares the live manager's decision for every distinguishing covert with the decision of a
// manager that was freshly started from C alone.  Whatever a racing check answered is legitimate; but
// once the reload has returned and nothing is in flight, the configuration in force is C.  A
// disagreement that persists over three more evaluations at the quiet point is
// `reload:stale-policy-after-quiet-point`.  No yield point of the repository is used or needed.
//
// The process runs with more Ps than cores during this phase, so that the kernel deschedules checker
// threads at arbitrary instructions (a hostile but legitimate schedule).

import (
	"fmt"
	"os"
	"path/filepath"
	"runtime"
	"sync"
	"sync/atomic"
	"testing"
	"time"

	kit "github.com/refraction-networking/conjure/internal/verifkit"
)

func TestVerifC06ReloadQuietPoint(t *testing.T) {
	rec := kit.NewRec("C06", "reloadrace")
	defer rec.Close()
	if _, err := c06Resolver(); err != nil { // nothing here resolves names; make sure nothing could leave the process
		t.Fatal(err)
	}
	os.Setenv("PHANTOM_SUBNET_LOCATION", "./test/phantom_subnets.toml")
	dir := t.TempDir()
	cfgPath := filepath.Join(dir, "station.toml")
	os.Setenv("CJ_STATION_CONFIG", cfgPath)
	if devnull, err := os.OpenFile(os.DevNull, os.O_WRONLY, 0); err == nil {
		saved := os.Stdout
		os.Stdout = devnull
		defer func() { os.Stdout = saved; devnull.Close() }()
	}

	// ---- configurations and distinguishing coverts (all literals: no resolver, checks cost ~1 µs) ----------
	const nCfg = 6
	cfgs := make([]c06RCfg, nCfg)
	for i := range cfgs {
		cfgs[i] = c06RCfg{Block: []string{fmt.Sprintf("10.%d.0.0/16", i)}, Domains: []string{fmt.Sprintf(`^203\.0\.113\.%d$`, i)}}
		if i%2 == 0 {
			cfgs[i].Block = append(cfgs[i].Block, "127.0.0.0/8", "::1/128")
		}
		if i == 2 || i == 5 {
			cfgs[i].Allow = []string{"10.0.0.0/8", "203.0.113.0/24", "8.8.8.0/24", "2001:db8::/32"}
		}
	}
	var coverts []string
	for i := 0; i < nCfg; i++ {
		coverts = append(coverts, fmt.Sprintf("10.%d.0.1:443", i), fmt.Sprintf("203.0.113.%d:443", i))
	}
	coverts = append(coverts, "127.0.0.1:6379", "[::1]:6379", "198.51.100.7:443", "8.8.8.8:443", "[2001:db8::1]:80", "[::ffff:10.3.0.1]:443", "[::ffff:127.0.0.1]:6379", "192.0.2.2:443")

	parse := func(c c06RCfg) *RegConfig {
		if err := c.write(cfgPath); err != nil {
			t.Fatal(err)
		}
		conf, err := ParseConfig()
		if err != nil {
			t.Fatalf("ParseConfig refused a configuration (%v): %v", c, err)
		}
		return conf.RegConfig
	}
	// the references: one manager freshly started from each configuration alone, never reloaded, asked
	// sequentially before anything runs concurrently
	ref := make([][]string, nCfg)
	fresh := make([]*RegistrationManager, nCfg)
	for i, c := range cfgs {
		fresh[i] = NewRegistrationManager(parse(c))
		if fresh[i] == nil {
			t.Fatal("NewRegistrationManager returned nil")
		}
		ref[i] = make([]string, len(coverts))
		for k, s := range coverts {
			ref[i][k], _ = fresh[i].ParseOrResolveBlocklisted(s)
		}
	}
	// every pair of configurations must be told apart by several coverts, in both directions
	for i := 0; i < nCfg; i++ {
		for j := 0; j < nCfg; j++ {
			if i == j {
				continue
			}
			nf, np := 0, 0
			for k := range coverts {
				if ref[i][k] != "" && ref[j][k] == "" {
					nf++
				}
				if ref[i][k] == "" && ref[j][k] != "" {
					np++
				}
			}
			if nf == 0 || np == 0 {
				t.Fatalf("configurations %d and %d are not distinguished in both directions (%d newly forbidden, %d newly permitted)", i, j, nf, np)
			}
			rec.Distinct("nontrivial", "pair", i, j)
		}
	}

	// the reloads use RegConfigs that came out of ParseConfig (the SIGHUP path), parsed ahead of the
	// concurrent phase so that the reloader spends its time in OnReload; a few instances per configuration
	const nInst = 4
	pool := make([][]*RegConfig, nCfg)
	for i, c := range cfgs {
		for k := 0; k < nInst; k++ {
			pool[i] = append(pool[i], parse(c))
		}
	}
	// OnReload re-reads the phantom subnet file every time: a minimal one keeps the reloader fast
	tiny := filepath.Join(dir, "phantoms.toml")
	if err := os.WriteFile(tiny, []byte("[Networks]\n  [Networks.1]\n    Generation = 1\n    [[Networks.1.WeightedSubnets]]\n      Weight = 1\n      Subnets = [\"192.122.190.0/24\", \"2001:48a8:687f:1::/64\"]\n"), 0o600); err != nil {
		t.Fatal(err)
	}
	os.Setenv("PHANTOM_SUBNET_LOCATION", tiny)

	live := NewRegistrationManager(parse(cfgs[0]))
	if live == nil {
		t.Fatal("NewRegistrationManager returned nil")
	}

	// ---- checkers ------------------------------------------------------------------------------------------------------
	cores := runtime.NumCPU()
	procs := 4 * cores
	oldProcs := runtime.GOMAXPROCS(procs)
	defer runtime.GOMAXPROCS(oldProcs)
	K := cores
	var paused, stop atomic.Bool
	var inflight, checks atomic.Int64
	var wg sync.WaitGroup
	for w := 0; w < K; w++ {
		wg.Add(1)
		go func(w int) {
			defer wg.Done()
			n := int64(0)
			for i := w; !stop.Load(); i++ {
				if paused.Load() {
					runtime.Gosched()
					continue
				}
				inflight.Add(1)
				if paused.Load() { // the quiet point began between the test and the announcement
					inflight.Add(-1)
					continue
				}
				live.ParseOrResolveBlocklisted(coverts[i%len(coverts)])
				inflight.Add(-1)
				n++
				if n&1023 == 0 {
					checks.Add(1024)
				}
			}
		}(w)
	}

	// ---- reloader ------------------------------------------------------------------------------------------------------
	rng := kit.Rand("c06/reloadrace")
	pairs := kit.Tier(12000, 120000)
	var tReload time.Duration
	nReloads := 0
	cur := 0
	hits, hitPairs, lastHitPair := 0, 0, -1
	t0 := time.Now()
	var quietWait time.Duration
	for p := 0; p < pairs; p++ {
		// a pair (sometimes three) of reloads back to back; the last two are R1 (-> b) and R2 (-> c, in force afterwards)
		burst := 2 + rng.Intn(4)/3
		x1 := time.Now()
		b, c := cur, cur
		for r := 0; r < burst; r++ {
			b = c
			c = (b + 1 + rng.Intn(nCfg-1)) % nCfg
			live.OnReload(pool[c][(p+r)%nInst])
		}
		nReloads += burst
		tReload += time.Since(x1)
		// quiet point
		paused.Store(true)
		q0 := time.Now()
		for inflight.Load() != 0 {
			runtime.Gosched()
		}
		quietWait += time.Since(q0)
		for k, s := range coverts {
			got, _ := live.ParseOrResolveBlocklisted(s)
			if got == ref[c][k] {
				continue
			}
			persists := true
			var again []string
			for try := 0; try < 3; try++ {
				g, _ := live.ParseOrResolveBlocklisted(s)
				again = append(again, g)
				if g == ref[c][k] {
					persists = false
				}
			}
			if !persists {
				rec.Inconclusive("a disagreement at the quiet point did not persist", map[string]interface{}{"covert": s, "first": got, "again": again, "fresh": ref[c][k]})
				continue
			}
			matches := "neither"
			switch {
			case got == ref[b][k]:
				matches = "the configuration before the last reload"
			case got == ref[cur][k]:
				matches = "the configuration before the burst"
			}
			hits++
			if lastHitPair != p {
				lastHitPair = p
				hitPairs++
			}
			rec.Violation("reload:stale-policy-after-quiet-point", "after a reload has returned and every check in flight has finished, the station still decides by an earlier configuration: it disagrees persistently with a station freshly started from the configuration in force",
				map[string]interface{}{"covert": s, "live_station_returns": got, "again": again, "fresh_station_returns": ref[c][k], "live_answer_matches": matches,
					"burst_index": p, "reloads_in_burst": burst, "before_burst": cfgs[cur].String(), "last_but_one_reload": cfgs[b].String(), "last_reload_in_force": cfgs[c].String(), "checks_so_far": checks.Load()})
		}
		rec.Count("evaluations", len(coverts))
		paused.Store(false)
		cur = c
	}
	elapsed := time.Since(t0)
	stop.Store(true)
	wg.Wait()
	rec.Count("reload_bursts", pairs)
	rec.Count("reloads", nReloads)
	rec.Count("quiet_points", pairs)
	rec.Count("concurrent_checks_thousands", int(checks.Load()/1000))
	rec.Count("checker_goroutines", K)
	rec.Count("stale_policy_observations", hits)
	rec.Count("quiet_points_with_stale_policy", hitPairs)
	rec.Distinct("nontrivial", "quiet-point-differential")
	rec.Sample(map[string]interface{}{"reload_bursts": pairs, "checker_goroutines": K, "gomaxprocs": procs, "concurrent_checks": checks.Load(), "distinguishing_coverts": len(coverts),
		"elapsed": elapsed.String(), "waiting_for_quiet": quietWait.String(), "reloads": nReloads, "reload": tReload.String(), "bursts_per_second": int(float64(pairs) / elapsed.Seconds())})
	if checks.Load() < int64(pairs) {
		rec.Inconclusive("the checkers hardly ran between the reloads", map[string]interface{}{"checks": checks.Load(), "pairs": pairs})
	}
}
