//go:build verif

package lib

// C07 – monitor "reload": admission across configuration reloads.
//
// A sequence = one real RegistrationManager, deliveries (real parseRegMessage + ingestRegistration, as in
// the table monitor) interleaved with configuration reloads through the path the station's SIGHUP loop
// uses: the new configuration is written to the station's TOML file and the phantom-subnet file, parsed
// by the real lib.ParseConfig() and handed to the real RegistrationManager.OnReload().  Between reloads
// the phantom blocklist grows to cover phantoms that were already seen, shrinks to release them, the
// covert blocklist / allowlist / domain patterns change and a ClientConf generation appears or
// disappears.  Phantoms, coverts and names come from small pools, so the same ones recur before and
// after each reload, with the same and with other client secrets.
//
// Oracle: the reference decision of the statement evaluated against the configuration IN FORCE at the
// moment of the delivery (own netip membership tests).  A registration identity (secret, phantom) that
// is delivered for the first time is judged in both directions (connectable + announced + probed exactly
// as required, or none of them); for an identity the station has been sent before only the direction
// that does not depend on what the station remembers is judged (see NOTES).
//
// What OnReload documents as not reloadable (address family toggles, sharing, transports, workers) is
// kept constant within a sequence.

import (
	"encoding/hex"
	"fmt"
	"math/rand"
	"net"
	"net/netip"
	"os"
	"path/filepath"
	"sort"
	"strings"
	"testing"
	"time"

	"google.golang.org/protobuf/proto"

	kit "github.com/refraction-networking/conjure/internal/verifkit"
	"github.com/refraction-networking/conjure/pkg/core"
	"github.com/refraction-networking/conjure/pkg/station/log"
	"github.com/refraction-networking/conjure/pkg/transports/wrapping/min"
	pb "github.com/refraction-networking/conjure/proto"
)

// ---- the world ---------------------------------------------------------------------------------------

var (
	// entries the phantom blocklist is drawn from
	c07rPhBlockPool = []string{
		"10.77.0.0/30", "10.77.1.0/30", "10.77.2.0/30", "10.77.3.0/30", // pinned IPv4 phantoms
		"10.77.8.0/30", "10.77.8.4/30", "10.77.9.0/29", // halves of generation 21's IPv4 subnet, all of generation 22's
		"2001:db8:77::/126", "2001:db8:77:1::/126", "2001:db8:77:2::/126", "2001:db8:77:3::/126",
		"2001:db8:77:8::/126", "2001:db8:77:8::4/126", "2001:db8:77:9::/125",
	}
	c07rPin4 = []string{"10.77.0.1", "10.77.0.2", "10.77.1.1", "10.77.1.2", "10.77.2.1", "10.77.2.2", "10.77.3.1", "10.77.3.2"}
	c07rPin6 = []string{"2001:db8:77::1", "2001:db8:77::2", "2001:db8:77:1::1", "2001:db8:77:1::2", "2001:db8:77:2::1", "2001:db8:77:2::2", "2001:db8:77:3::1", "2001:db8:77:3::2"}

	// covert policy pools: allowlist entries and blocklist entries never overlap (an address inside both is C06's subject)
	c07rCovAllowPool = []string{"203.0.113.0/28", "203.0.113.16/28", "2001:db8:c0::/64"}
	c07rCovBlockPool = []string{"198.51.100.0/28", "198.51.100.16/28", "2001:db8:bad::/64", "127.0.0.0/8"}
	c07rCoverts      = []string{"203.0.113.1:443", "203.0.113.2:80", "203.0.113.17:443", "[2001:db8:c0::5]:443", "198.51.100.1:443", "198.51.100.2:8080", "198.51.100.17:443",
		"[2001:db8:bad::9]:443", "192.0.2.1:443", "192.0.2.2:443", "localhost:8080"}
	c07rDomainPattern = `^localhost$`
)

type c07rCfg struct {
	phBlock  map[int]bool // indices into c07rPhBlockPool
	covBlock map[int]bool
	covAllow map[int]bool
	domain   bool // the pattern that matches "localhost" is configured
	gen22    bool // generation 22 is in the phantom-subnet file
}

func (c *c07rCfg) clone() *c07rCfg {
	n := &c07rCfg{phBlock: map[int]bool{}, covBlock: map[int]bool{}, covAllow: map[int]bool{}, domain: c.domain, gen22: c.gen22}
	for k := range c.phBlock {
		n.phBlock[k] = true
	}
	for k := range c.covBlock {
		n.covBlock[k] = true
	}
	for k := range c.covAllow {
		n.covAllow[k] = true
	}
	return n
}

func c07rList(pool []string, set map[int]bool) []string {
	var idx []int
	for k := range set {
		idx = append(idx, k)
	}
	sort.Ints(idx)
	out := []string{}
	for _, k := range idx {
		out = append(out, pool[k])
	}
	return out
}

func (c *c07rCfg) String() string {
	return fmt.Sprintf("phantom_blocklist=%v covert_blocklist=%v covert_allowlist=%v domain_pattern=%v gen22=%v",
		c07rList(c07rPhBlockPool, c.phBlock), c07rList(c07rCovBlockPool, c.covBlock), c07rList(c07rCovAllowPool, c.covAllow), c.domain, c.gen22)
}

func c07rTomlList(l []string) string {
	q := make([]string, len(l))
	for i, s := range l {
		q[i] = fmt.Sprintf("%q", s)
	}
	return "[" + strings.Join(q, ", ") + "]"
}

// write puts the configuration where the station reads it from.
func (c *c07rCfg) write(dir string, v4, v6 bool) error {
	station := fmt.Sprintf("enable_v4 = %v\nenable_v6 = %v\nenable_share_over_api = false\ningest_worker_count = 8\nphantom_blocklist = %s\ncovert_blocklist_subnets = %s\ncovert_allowlist_subnets = %s\n",
		v4, v6, c07rTomlList(c07rList(c07rPhBlockPool, c.phBlock)), c07rTomlList(c07rList(c07rCovBlockPool, c.covBlock)), c07rTomlList(c07rList(c07rCovAllowPool, c.covAllow)))
	if c.domain {
		station += "covert_blocklist_domains = ['" + c07rDomainPattern + "']\n"
	} else {
		station += "covert_blocklist_domains = []\n"
	}
	ph := `[Networks]
    [Networks.21]
        Generation = 21
        [[Networks.21.WeightedSubnets]]
            Weight = 1
            Subnets = ["10.77.8.0/29", "2001:db8:77:8::/125"]
`
	if c.gen22 {
		ph += `    [Networks.22]
        Generation = 22
        [[Networks.22.WeightedSubnets]]
            Weight = 1
            Subnets = ["10.77.9.0/29", "2001:db8:77:9::/125"]
`
	}
	sp, pp := filepath.Join(dir, "c07_reload_station.toml"), filepath.Join(dir, "c07_reload_phantoms.toml")
	if err := os.WriteFile(sp, []byte(station), 0o644); err != nil {
		return err
	}
	if err := os.WriteFile(pp, []byte(ph), 0o644); err != nil {
		return err
	}
	os.Setenv("CJ_STATION_CONFIG", sp)
	os.Setenv("PHANTOM_SUBNET_LOCATION", pp)
	return nil
}

// ---- the reference, against a configuration --------------------------------------------------------------

func c07rIn(pool []string, set map[int]bool, a netip.Addr) bool {
	a = a.Unmap()
	for k := range set {
		if netip.MustParsePrefix(pool[k]).Contains(a) {
			return true
		}
	}
	return false
}

func (c *c07rCfg) phantomBlocklisted(ip net.IP) bool {
	a, ok := netip.AddrFromSlice(ip)
	return ok && c07rIn(c07rPhBlockPool, c.phBlock, a)
}

// covertOK: the covert policy of the statement for the strings of the pool (literals, and the one name
// of the hosts file, which resolves to resolved).
func (c *c07rCfg) covertOK(covert string, localhost netip.Addr) bool {
	var a netip.Addr
	if strings.HasPrefix(covert, "localhost:") {
		if c.domain || !localhost.IsValid() {
			return false
		}
		a = localhost
	} else {
		ap, err := netip.ParseAddrPort(covert)
		if err != nil {
			return false
		}
		a = ap.Addr()
	}
	if len(c.covAllow) > 0 {
		return c07rIn(c07rCovAllowPool, c.covAllow, a)
	}
	return !c07rIn(c07rCovBlockPool, c.covBlock, a)
}

// ---- messages -------------------------------------------------------------------------------------------------

type c07rMsg struct {
	secret     []byte
	src        pb.RegistrationSource
	gen        uint32
	v4sup      bool
	v6sup      bool
	regV6      bool // registrant is an IPv6 address
	pin4, pin6 net.IP
	covert     string
	prescanned bool
	regAddr    net.IP
	port       int // registrar's dst_port override, -1 = none
}

func (m *c07rMsg) String() string {
	return fmt.Sprintf("secret=%s src=%s gen=%d v4sup=%v v6sup=%v registrant=%v ipv4addr=%v ipv6addr=%v dst_port=%d covert=%s prescanned=%v",
		hex.EncodeToString(m.secret[:6]), m.src, m.gen, m.v4sup, m.v6sup, m.regAddr, m.pin4, m.pin6, m.port, m.covert, m.prescanned)
}

func (m *c07rMsg) marshal() []byte {
	w := &pb.C2SWrapper{
		SharedSecret:       m.secret,
		RegistrationSource: m.src.Enum(),
		RegistrationPayload: &pb.ClientToStation{
			ClientLibVersion: proto.Uint32(4), Transport: pb.TransportType_Min.Enum(), DecoyListGeneration: proto.Uint32(m.gen),
			V4Support: proto.Bool(m.v4sup), V6Support: proto.Bool(m.v6sup), CovertAddress: proto.String(m.covert),
		},
		RegistrationAddress: []byte(m.regAddr),
	}
	if m.prescanned {
		w.RegistrationPayload.Flags = &pb.RegistrationFlags{Prescanned: proto.Bool(true)}
	}
	if m.pin4 != nil || m.pin6 != nil || m.port >= 0 {
		rr := &pb.RegistrationResponse{}
		if m.port >= 0 {
			rr.DstPort = proto.Uint32(uint32(m.port))
		}
		if m.pin4 != nil {
			b := m.pin4.To4()
			rr.Ipv4Addr = proto.Uint32(uint32(b[0])<<24 | uint32(b[1])<<16 | uint32(b[2])<<8 | uint32(b[3]))
		}
		if m.pin6 != nil {
			rr.Ipv6Addr = []byte(m.pin6.To16())
		}
		w.RegistrationResponse = rr
	}
	b, err := proto.Marshal(w)
	if err != nil {
		panic(err)
	}
	return b
}

// ---- one sequence -----------------------------------------------------------------------------------------------

type c07rIdentity struct {
	delivered bool // the station was sent this (secret, phantom) before
	admitted  bool // it was connectable at some point
	secret    []byte
	phantom   net.IP
	// every delivery of this identity with the values it carried and whether those values satisfied every
	// admission condition when they were delivered
	deliveries []c07rDelivery
}

type c07rDelivery struct {
	covert     netip.AddrPort // what the station stores for an admitted covert: the literal / resolved address and port
	port       uint16
	registrant string
	admissible bool
	why        string
}

// c07rObj returns the registration object the station hands to incoming connections for (phantom, secret).
func c07rObj(rm *RegistrationManager, phantom net.IP, secret []byte) *DecoyRegistration {
	for _, r := range rm.GetRegistrations(phantom) {
		if d, ok := r.(*DecoyRegistration); ok && string(d.SharedSecret()) == string(secret) {
			return d
		}
	}
	return nil
}

// elapse lets d pass for everything the station tracks (no sleeping: the clocks the station compares
// with time.Now() - the registration's own time and its timeout record - are moved into the past).
func (s *c07rSeq) elapse(d time.Duration) {
	r := s.rm.registeredDecoys
	r.m.Lock()
	for _, m := range r.decoys {
		for _, reg := range m {
			reg.RegistrationTime = reg.RegistrationTime.Add(-d)
		}
	}
	for _, t := range r.decoysTimeouts {
		t.registrationTime = t.registrationTime.Add(-d)
	}
	r.m.Unlock()
	s.h.rec.Count("time_passes["+d.String()+"]", 1)
	s.note("TIME PASSES: %v", d)
	if d >= 10*time.Minute {
		// the station's periodic sweep
		s.rm.RemoveOldRegistrations()
		for _, idn := range s.ids {
			if idn.phantom != nil && !c07Tracked(s.rm, idn.phantom, idn.secret) {
				// forgotten by the station: the next delivery is a first delivery again
				*idn = c07rIdentity{secret: idn.secret, phantom: idn.phantom}
			}
		}
	}
}

// variant: an earlier message of the sequence again (same secret, same phantoms, same generation and
// support flags = the same registration for the station) with exactly one thing changed - or nothing.
func (s *c07rSeq) variant() *c07rMsg {
	r := s.rng
	m := *s.sent[r.Intn(len(s.sent))]
	switch r.Intn(6) {
	case 0, 1:
		m.covert = c07rCoverts[r.Intn(len(c07rCoverts))]
	case 2:
		m.port = []int{-1, 443, 8443, 2222}[r.Intn(4)]
	case 3:
		if m.regV6 {
			m.regAddr = net.ParseIP(fmt.Sprintf("2001:db8:c1::%x", 1+r.Intn(40)))
		} else {
			m.regAddr = net.ParseIP(fmt.Sprintf("11.0.0.%d", 1+r.Intn(40))).To16()
		}
	case 4:
		m.prescanned = !m.prescanned
	}
	s.h.rec.Count("redeliveries_of_an_earlier_registration", 1)
	return &m
}

type c07rSeq struct {
	h         *c07H
	rng       *rand.Rand
	id        int
	dir       string
	cfg       *c07rCfg
	v4, v6    bool
	rm        *RegistrationManager
	localhost netip.Addr
	secrets   [][]byte
	ids       map[string]*c07rIdentity
	// phantoms the station was shown since the start of the sequence -> was it blocklisted when last seen
	seenPhantom map[string]bool
	sent        []*c07rMsg
	history     []string
	reloads     int
}

func (s *c07rSeq) note(f string, a ...interface{}) {
	s.history = append(s.history, fmt.Sprintf(f, a...))
	if len(s.history) > 40 {
		s.history = s.history[len(s.history)-40:]
	}
}

func (s *c07rSeq) viol(sig, msg string, m *c07rMsg, extra map[string]interface{}) {
	d := map[string]interface{}{"monitor": "reload", "sequence": s.id, "reloads_so_far": s.reloads, "configuration_in_force": s.cfg.String(),
		"station": fmt.Sprintf("enable_v4=%v enable_v6=%v", s.v4, s.v6), "message": m.String(), "message_hex": hex.EncodeToString(m.marshal()),
		"history_last_steps": append([]string(nil), s.history...), "station_log": s.h.logbuf.Take()}
	for k, v := range extra {
		d[k] = v
	}
	s.h.rec.Count("violations_by_sig["+sig+"]", 1)
	s.h.rec.Violation(sig, msg, d)
}

func (s *c07rSeq) reload(next *c07rCfg, why string) {
	if err := next.write(s.dir, s.v4, s.v6); err != nil {
		s.h.t.Fatal(err)
	}
	// what the station's SIGHUP loop does (cmd/application/main.go): ParseConfig, then OnReload
	conf, err := ParseConfig()
	if err != nil {
		s.h.t.Fatalf("infrastructure: generated configuration does not parse: %v", err)
	}
	s.rm.OnReload(conf.RegConfig)
	s.cfg = next
	s.reloads++
	s.h.rec.Count("reloads", 1)
	s.h.rec.Count("reloads["+why+"]", 1)
	s.note("RELOAD (%s) -> %s", why, next.String())
}

func (s *c07rSeq) nextCfg() (*c07rCfg, string) {
	n := s.cfg.clone()
	r := s.rng.Intn(100)
	switch {
	case r < 40:
		// grow the phantom blocklist over a phantom the station has already seen and found clean
		var cands []int
		for i, p := range c07rPhBlockPool {
			if n.phBlock[i] {
				continue
			}
			pf := netip.MustParsePrefix(p)
			for ph, bl := range s.seenPhantom {
				if a, err := netip.ParseAddr(ph); err == nil && !bl && pf.Contains(a) {
					cands = append(cands, i)
					break
				}
			}
		}
		sort.Ints(cands)
		if len(cands) > 0 {
			n.phBlock[cands[s.rng.Intn(len(cands))]] = true
			return n, "phantom-blocklist-grows-over-seen-phantom"
		}
		n.phBlock[s.rng.Intn(len(c07rPhBlockPool))] = true
		return n, "phantom-blocklist-grows"
	case r < 60:
		var have []int
		for k := range n.phBlock {
			have = append(have, k)
		}
		sort.Ints(have)
		if len(have) > 0 {
			delete(n.phBlock, have[s.rng.Intn(len(have))])
			return n, "phantom-blocklist-shrinks"
		}
		return n, "unchanged"
	case r < 72:
		k := s.rng.Intn(len(c07rCovBlockPool))
		if n.covBlock[k] {
			delete(n.covBlock, k)
		} else {
			n.covBlock[k] = true
		}
		return n, "covert-blocklist-changes"
	case r < 82:
		k := s.rng.Intn(len(c07rCovAllowPool))
		if n.covAllow[k] {
			delete(n.covAllow, k)
		} else {
			n.covAllow[k] = true
		}
		return n, "covert-allowlist-changes"
	case r < 88:
		n.domain = !n.domain
		return n, "domain-patterns-change"
	case r < 95:
		n.gen22 = !n.gen22
		return n, "generation-appears-or-disappears"
	}
	return n, "unchanged"
}

func (s *c07rSeq) message() *c07rMsg {
	r := s.rng
	m := &c07rMsg{}
	if len(s.secrets) > 0 && r.Intn(100) < 35 {
		m.secret = s.secrets[r.Intn(len(s.secrets))] // the same client again (possibly with other contents)
	} else {
		m.secret = make([]byte, 32)
		r.Read(m.secret)
		s.secrets = append(s.secrets, m.secret)
	}
	m.src = []pb.RegistrationSource{pb.RegistrationSource_API, pb.RegistrationSource_API, pb.RegistrationSource_Detector, pb.RegistrationSource_DetectorPrescan, pb.RegistrationSource_BidirectionalAPI}[r.Intn(5)]
	m.gen = 21
	if r.Intn(5) == 0 {
		m.gen = 22
	}
	switch r.Intn(10) {
	case 0, 1, 2, 3:
		m.v4sup, m.v6sup = true, true
	case 4, 5, 6:
		m.v4sup = true
	default:
		m.v6sup = true
	}
	if r.Intn(10) < 3 {
		m.regV6 = true
		m.regAddr = net.ParseIP(fmt.Sprintf("2001:db8:c1::%x", 1+r.Intn(40)))
	} else {
		m.regAddr = net.ParseIP(fmt.Sprintf("11.0.0.%d", 1+r.Intn(40))).To16()
	}
	if r.Intn(10) < 7 {
		m.pin4 = net.ParseIP(c07rPin4[r.Intn(len(c07rPin4))]).To4()
	}
	if r.Intn(10) < 7 {
		m.pin6 = net.ParseIP(c07rPin6[r.Intn(len(c07rPin6))])
	}
	m.covert = c07rCoverts[r.Intn(len(c07rCoverts))]
	m.prescanned = r.Intn(100) < 15
	m.port = -1
	if r.Intn(4) == 0 {
		m.port = []int{443, 8443, 2222}[r.Intn(3)]
	}
	return m
}

func (s *c07rSeq) derived(m *c07rMsg, v6 bool) net.IP {
	keys, err := core.GenSharedKeys(4, m.secret, pb.TransportType_Min)
	if err != nil {
		return nil
	}
	ip, err := s.rm.PhantomSelector.Select(keys.ConjureSeed, uint(m.gen), 4, v6)
	if err != nil || ip == nil {
		return nil
	}
	return *ip.IP()
}

// deliver pushes one message through the station and judges what it did.
func (s *c07rSeq) deliver(m *c07rMsg, live bool) {
	h := s.h
	msg := m.marshal()
	h.lastCase(fmt.Sprintf("reload seq %d after %d reloads: %s | %s", s.id, s.reloads, m.String(), s.cfg.String()))
	h.logbuf.Take()
	h.fr.Reset()
	h.live.take()
	h.live.mu.Lock()
	h.live.cur = c07Verdict{live: live}
	h.live.waitFor = nil
	h.live.mu.Unlock()

	type slotObs struct {
		created bool
		phantom net.IP
		port    uint16
		visible bool
		probes  []c07Call
		anns    []c07Ann
	}
	var obs [2]slotObs
	regs, perr := s.rm.parseRegMessage(msg)
	for _, reg := range regs {
		if reg == nil {
			continue
		}
		f := 1
		if reg.PhantomIp.To4() != nil {
			f = 0
		}
		o := &obs[f]
		o.created, o.phantom, o.port = true, append(net.IP(nil), reg.PhantomIp...), reg.PhantomPort
		s.rm.ingestRegistration(reg)
		o.probes = h.live.take()
		for _, p := range h.fr.Pubs() {
			o.anns = append(o.anns, c07DecodeAnn(p))
		}
		h.fr.Reset()
		o.visible = c07Visible(s.rm, o.phantom, m.secret, pb.TransportType_Min)
	}
	genKnown := m.gen == 21 || s.cfg.gen22
	covertOK := s.cfg.covertOK(m.covert, s.localhost)
	nontrivial := false
	for f := 0; f < 2; f++ {
		o := &obs[f]
		fam := c07FamName[f]
		phantom := o.phantom
		if phantom == nil {
			if f == 0 {
				phantom = m.pin4
			} else {
				phantom = m.pin6
			}
			if phantom == nil && genKnown {
				phantom = s.derived(m, f == 1)
			}
			if phantom != nil && !o.created {
				o.visible = c07Visible(s.rm, phantom, m.secret, pb.TransportType_Min)
			}
		}
		// the conditions of the statement, against the configuration in force
		var fail []string
		if !genKnown {
			fail = append(fail, "generation")
		}
		if f == 0 && !m.v4sup || f == 1 && !m.v6sup {
			fail = append(fail, "family-not-requested")
		}
		if f == 0 && !s.v4 || f == 1 && !s.v6 {
			fail = append(fail, "family-disabled")
		}
		if f == 0 && m.regV6 {
			fail = append(fail, "family-inconsistent")
		}
		pre := len(fail) == 0
		bl := phantom != nil && s.cfg.phantomBlocklisted(phantom)
		if bl {
			fail = append(fail, "phantom-blocklisted")
		}
		if !covertOK {
			fail = append(fail, "covert")
		}
		othersHold := len(fail) == 0
		if f == 0 && !m.prescanned && live {
			fail = append(fail, "liveness")
		}
		admit := len(fail) == 0
		if phantom == nil {
			// no phantom can be named for this half (unknown generation, or selection failed): nothing may have come of it
			if len(fail) == 0 {
				h.rec.Count("not_judged[phantom-unknown]", 1)
			} else if len(o.anns) > 0 || len(o.probes) > 0 {
				s.viol("reload:admit:inadmissible-but-acted-on:"+fail[0]+":"+fam, "the station acted on a registration that fails an admission condition under the configuration in force", m, nil)
			}
			continue
		}
		key := hex.EncodeToString(m.secret) + "@" + fmt.Sprint(phantom)
		idn := s.ids[key]
		if idn == nil {
			idn = &c07rIdentity{}
			s.ids[key] = idn
		}
		fresh := !idn.delivered
		ctx := map[string]interface{}{"family": fam, "phantom": fmt.Sprint(phantom), "first_delivery_of_this_secret_and_phantom": fresh,
			"observed": fmt.Sprintf("built=%v connectable=%v probes=%v announcements=%v parse_error=%v", o.created, o.visible, o.probes, o.anns, perr)}
		wasSeen, seenBefore := s.seenPhantom[fmt.Sprint(phantom)]
		if seenBefore && fresh && pre && covertOK {
			switch {
			case bl && !wasSeen:
				h.rec.Count("new_client_on_phantom_seen_clean_now_blocklisted", 1)
			case !bl && wasSeen:
				h.rec.Count("new_client_on_phantom_seen_blocklisted_now_released", 1)
			}
		}
		nNew := 0
		for _, a := range o.anns {
			if a.Op == "New" && a.Phantom == phantom.String() {
				nNew++
			}
		}
		np := len(o.probes)
		probeDue := f == 0 && !m.prescanned && othersHold
		why := ""
		if !admit {
			why = fail[0]
		}
		h.rec.Count("family_decisions", 1)
		switch {
		case fresh && admit:
			nontrivial = true
			h.rec.Count("expected_admitted", 1)
			switch {
			case !o.created:
				s.viol("reload:admit:admissible-registration-lost:"+fam, "every admission condition holds under the configuration in force, yet the station built no registration", m, ctx)
			case !o.visible:
				s.viol("reload:admit:admissible-not-connectable:"+fam, "every admission condition holds under the configuration in force, yet the registration is not returned for an incoming connection", m, ctx)
			case nNew == 0:
				s.viol("reload:admit:admissible-not-announced:"+fam, "every admission condition holds under the configuration in force, yet the registration was not announced", m, ctx)
			}
			if probeDue && o.created && np != 1 {
				s.viol("reload:probe:count:"+fam, "an admitted IPv4 registration that nobody pre-scanned must have been probed exactly once", m, ctx)
			}
			if !probeDue && np > 0 {
				s.viol("reload:probe:not-required:"+fam, "a liveness probe was sent although none was required", m, ctx)
			}
		case !admit && !idn.admitted:
			// never admissible so far, not admissible now: nothing may come of it, whatever the station remembers
			if o.created {
				nontrivial = true
			}
			h.rec.Count("expected_rejected["+why+"]", 1)
			if o.visible {
				s.viol("reload:admit:inadmissible-connectable:"+why+":"+fam, "a registration that fails an admission condition ("+why+") under the configuration in force is returned for an incoming connection", m, ctx)
			}
			if len(o.anns) > 0 {
				s.viol("reload:admit:inadmissible-announced:"+why+":"+fam, "a registration that fails an admission condition ("+why+") under the configuration in force was announced to the detector", m, ctx)
			}
			switch {
			case probeDue && fresh && o.created && np != 1:
				s.viol("reload:probe:count:"+fam, "the only thing standing against this registration is the phantom's answer, which must have been obtained by exactly one probe", m, ctx)
			case probeDue && np > 1:
				s.viol("reload:probe:repeated:"+fam, "more than one probe for one delivery", m, ctx)
			case !probeDue && np > 0:
				s.viol("reload:probe:not-required:not-admissible("+why+"):"+fam, "a liveness probe was sent for a registration that cannot be admitted under the configuration in force ("+why+")", m, ctx)
			}
		default:
			// the station was sent this identity before (and admitted it, or may remember having refused it):
			// the statement does not say whether a reload re-opens that decision.  Still: a registration that
			// stays admissible stays connectable, nothing is probed twice, nothing inadmissible-now is announced anew.
			h.rec.Count("repeated_identity", 1)
			if idn.admitted && admit && !o.visible {
				s.viol("reload:admit:admitted-registration-vanished:"+fam, "a registration that was connectable and is still admissible is no longer returned after being delivered again", m, ctx)
			}
			if idn.admitted && np > 0 {
				s.viol("reload:probe:not-required:already-admitted:"+fam, "a liveness probe was sent for a registration that had already been admitted", m, ctx)
			}
			if !admit && len(o.anns) > 0 {
				s.viol("reload:admit:inadmissible-announced:"+why+":"+fam, "a registration that fails an admission condition ("+why+") under the configuration in force was announced to the detector", m, ctx)
			}
			if !probeDue && np > 0 && !idn.admitted {
				s.viol("reload:probe:not-required:not-admissible("+why+"):"+fam, "a liveness probe was sent although none was required", m, ctx)
			}
		}
		for _, p := range o.probes {
			if p.Addr != phantom.String() {
				s.viol("reload:probe:wrong-target:"+fam, "the liveness probe went to another address than the registration's phantom", m, ctx)
			}
		}
		// whatever is connectable / announced must satisfy every admission condition WITH THE VALUES IT CARRIES:
		// its covert, port and registrant must be those of a delivery that was admissible when it arrived
		idn.secret, idn.phantom = m.secret, phantom
		dl := c07rDelivery{port: 443, registrant: m.regAddr.String(), admissible: admit, why: why}
		if m.port >= 0 {
			dl.port = uint16(m.port)
		}
		if strings.HasPrefix(m.covert, "localhost:") {
			dl.covert = netip.AddrPortFrom(s.localhost, 8080)
		} else {
			dl.covert, _ = netip.ParseAddrPort(m.covert)
		}
		idn.deliveries = append(idn.deliveries, dl)
		if o.visible {
			if obj := c07rObj(s.rm, phantom, m.secret); obj != nil {
				oc, _ := netip.ParseAddrPort(obj.Covert)
				matched, refusedWhy := false, ""
				for _, d := range idn.deliveries {
					same := d.port == obj.PhantomPort && d.registrant == obj.registrationAddr.String() && d.covert.IsValid() && oc.IsValid() && d.covert.Port() == oc.Port() && d.covert.Addr().Unmap() == oc.Addr().Unmap()
					if same && d.admissible {
						matched = true
					} else if same {
						refusedWhy = d.why
					} else if !d.admissible && refusedWhy == "" && d.port == obj.PhantomPort && d.registrant == obj.registrationAddr.String() && !d.covert.IsValid() {
						refusedWhy = d.why
					}
				}
				if !matched {
					if refusedWhy == "" {
						refusedWhy = "values-of-no-delivery"
					}
					ctx["connectable_object"] = fmt.Sprintf("covert=%q port=%d registrant=%v", obj.Covert, obj.PhantomPort, obj.registrationAddr)
					ctx["deliveries_of_this_registration"] = fmt.Sprintf("%+v", idn.deliveries)
					s.viol("redeliver:connectable-carries-values-of-a-refused-delivery:"+refusedWhy+":"+fam, "the registration returned for an incoming connection carries a covert / port / registrant that never satisfied the admission conditions (they come from a delivery that was refused: "+refusedWhy+")", m, ctx)
				}
			}
		}
		for _, a := range o.anns {
			if a.Op != "New" {
				continue
			}
			matched := false
			for _, d := range idn.deliveries {
				if d.admissible && uint32(d.port) == a.Port && d.registrant == a.Client {
					matched = true
				}
			}
			if !matched {
				ctx["deliveries_of_this_registration"] = fmt.Sprintf("%+v", idn.deliveries)
				s.viol("redeliver:announced-values-of-a-refused-delivery:"+fam, "the announcement carries a port / client that belong to no delivery that satisfied the admission conditions", m, ctx)
				break
			}
		}
		idn.delivered = true
		idn.admitted = idn.admitted || o.visible
		if pre && covertOK || o.created {
			// the station had reason to look this phantom up in its blocklist
			s.seenPhantom[fmt.Sprint(phantom)] = bl
		}
		s.note("deliver %s -> %s: built=%v connectable=%v probes=%d announcements=%d (reference: admit=%v %s)", m.String(), fam, o.created, o.visible, np, len(o.anns), admit, why)
	}
	h.rec.Count("evaluations", 1)
	if nontrivial {
		h.rec.Count("nontrivial_cases", 1)
		h.rec.Distinct("nontrivial", "reload", s.cfg.String(), m.src, m.gen, m.v4sup, m.v6sup, m.regV6, fmt.Sprint(m.pin4), fmt.Sprint(m.pin6), m.covert, m.prescanned, live, s.v4, s.v6)
	}
}

func TestVerifC07Reload(t *testing.T) {
	h := c07Setup(t, "reload")
	defer h.close()
	rng := kit.Rand("c07/reload")
	var localhost netip.Addr
	if a, err := net.ResolveIPAddr("ip", "localhost"); err == nil {
		if ip, ok := netip.AddrFromSlice(a.IP); ok && ip.Unmap().IsLoopback() {
			localhost = ip.Unmap()
		}
	}
	if !localhost.IsValid() {
		h.rec.Note("'localhost' does not resolve to a loopback address here: the hosts-file name is refused by the station and by the reference alike")
	}
	nseq := kit.Tier(150, 4000)
	steps := 60
	for q := 0; q < nseq; q++ {
		s := &c07rSeq{h: h, rng: rng, id: q, dir: kit.OutDir(), ids: map[string]*c07rIdentity{}, seenPhantom: map[string]bool{},
			v4: rng.Intn(100) < 88, v6: rng.Intn(100) < 88, localhost: localhost}
		s.cfg = &c07rCfg{phBlock: map[int]bool{}, covBlock: map[int]bool{}, covAllow: map[int]bool{}, gen22: rng.Intn(2) == 0}
		// the start configuration: sometimes empty, sometimes populated
		if q%3 != 0 {
			for i := range c07rPhBlockPool {
				if rng.Intn(4) == 0 {
					s.cfg.phBlock[i] = true
				}
			}
			for i := range c07rCovBlockPool {
				if rng.Intn(2) == 0 {
					s.cfg.covBlock[i] = true
				}
			}
			if rng.Intn(4) == 0 {
				s.cfg.covAllow[rng.Intn(len(c07rCovAllowPool))] = true
			}
			s.cfg.domain = rng.Intn(3) == 0
		}
		if err := s.cfg.write(s.dir, s.v4, s.v6); err != nil {
			t.Fatal(err)
		}
		conf, err := ParseConfig()
		if err != nil {
			t.Fatalf("infrastructure: start configuration does not parse: %v", err)
		}
		if conf.RegConfig.EnableIPv4 != s.v4 || conf.RegConfig.EnableIPv6 != s.v6 || len(conf.RegConfig.PhantomBlocklist) != len(s.cfg.phBlock) {
			t.Fatalf("infrastructure: the station's parser did not take over the generated configuration file")
		}
		s.rm = NewRegistrationManager(conf.RegConfig)
		if s.rm == nil {
			t.Fatal("infrastructure: NewRegistrationManager returned nil")
		}
		s.rm.Logger = log.New(h.logbuf, "[REG] ", 0)
		s.rm.LivenessTester = h.live
		if err := s.rm.AddTransport(pb.TransportType_Min, min.Transport{}); err != nil {
			t.Fatal(err)
		}
		s.note("START %s", s.cfg.String())
		for i := 0; i < steps; i++ {
			if i > 3 && rng.Intn(100) < 16 {
				n, why := s.nextCfg()
				s.reload(n, why)
				continue
			}
			if i > 3 && rng.Intn(100) < 14 {
				s.elapse([]time.Duration{0, 6 * time.Second, 6 * time.Second, 11 * time.Minute}[rng.Intn(4)])
				continue
			}
			var m *c07rMsg
			if len(s.sent) > 0 && rng.Intn(100) < 30 {
				m = s.variant()
			} else {
				m = s.message()
			}
			s.sent = append(s.sent, m)
			s.deliver(m, rng.Intn(100) < 14)
		}
		h.rec.Count("sequences", 1)
	}
	h.rec.Note("reload monitor: the configuration is written to the station's TOML / phantom-subnet files, parsed by the real ParseConfig and applied by the real OnReload (the body of the SIGHUP loop); address family toggles, sharing and transports are not reloadable (OnReload says so) and stay constant within a sequence")
}
