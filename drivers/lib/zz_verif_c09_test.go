//go:build verif

package lib

// C09 – concurrent ingest, lookup, activation and expiry behave like some serial order.
// This file: shared set-up and monitor 6 (controlled schedules over the verifhook.Yield points of the
// real ingestRegistration / removeOldRegistrations, with monitors 1-3 evaluated at EVERY schedule
// point: announce-once, visible ⇒ admitted, no lost update / bijection of the two maps).

import (
	"fmt"
	"net"
	"os"
	"sort"
	"strings"
	"sync"
	"testing"
	"time"

	"github.com/go-redis/redis/v8"
	"github.com/refraction-networking/conjure/internal/conjurepath"
	"github.com/refraction-networking/conjure/internal/verifhook"
	kit "github.com/refraction-networking/conjure/internal/verifkit"
	"github.com/refraction-networking/conjure/pkg/core"
	"github.com/refraction-networking/conjure/pkg/station/log"
	"github.com/refraction-networking/conjure/pkg/transports/wrapping/min"
	pb "github.com/refraction-networking/conjure/proto"
	"google.golang.org/protobuf/proto"
)

type c09Live struct {
	mu    sync.Mutex
	calls int
	gate  chan struct{} // if non-nil every probe blocks until it is closed
	in    int           // probes currently blocked
	// if non-nil: how long the probe of this phantom takes (real probes take up to seconds); set before the pipeline starts
	delayFor func(addr string, port uint16) time.Duration
}

func (l *c09Live) PhantomIsLive(addr string, port uint16) (bool, error) {
	l.mu.Lock()
	l.calls++
	g := l.gate
	if g != nil {
		l.in++
	}
	l.mu.Unlock()
	if l.delayFor != nil {
		if d := l.delayFor(addr, port); d > 0 {
			time.Sleep(d)
		}
	}
	if g != nil {
		<-g
		l.mu.Lock()
		l.in--
		l.mu.Unlock()
	}
	return false, nil
}
func (*c09Live) PrintAndReset(*log.Logger) {}
func (*c09Live) PrintStats(*log.Logger)    {}
func (*c09Live) Reset()                    {}
func (l *c09Live) blocked() int            { l.mu.Lock(); defer l.mu.Unlock(); return l.in }

type c09Env struct {
	rm    *RegistrationManager
	redis *kit.FakeRedis
	live  *c09Live
}

var c09Redis *kit.FakeRedis

func c09Setup(t testing.TB) *c09Env {
	os.Setenv("PHANTOM_SUBNET_LOCATION", conjurepath.Root+"/pkg/station/lib/test/phantom_subnets.toml")
	if c09Redis == nil {
		fr, err := kit.NewFakeRedis("127.0.0.1:0")
		if err != nil {
			t.Fatal(err)
		}
		c09Redis = fr
		once.Do(func() {})
		client = redis.NewClient(&redis.Options{Addr: fr.Addr(), PoolSize: 64})
	}
	conf := &RegConfig{EnableIPv4: true, EnableIPv6: true, CovertBlocklistSubnets: []string{"10.0.0.0/8", "127.0.0.0/8"}}
	conf.ParseBlocklists()
	rm := NewRegistrationManager(conf)
	if rm == nil {
		t.Fatal("nil registration manager")
	}
	rm.Logger = log.New(discard{}, "", 0)
	e := &c09Env{rm: rm, redis: c09Redis, live: &c09Live{}}
	rm.LivenessTester = e.live
	if err := rm.AddTransport(pb.TransportType_Min, min.Transport{}); err != nil {
		t.Fatal(err)
	}
	return e
}

func keysOf(secret []byte) *core.ConjureSharedKeys {
	return &core.ConjureSharedKeys{SharedSecret: secret}
}

type discard struct{}

func (discard) Write(p []byte) (int, error) { return len(p), nil }

// the covert is given in a non-canonical (v4-mapped, bracketed) form, so that the checked-and-resolved
// literal the station must end up with ("192.0.2.N:443") differs textually from what the client sent
func c09Covert(n int) (sent, admitted string) {
	return fmt.Sprintf("[::ffff:192.0.2.%d]:443", n), fmt.Sprintf("192.0.2.%d:443", n)
}

func c09Message(secret []byte, phantom net.IP, covertN int, src pb.RegistrationSource) []byte {
	sent, _ := c09Covert(covertN)
	w := &pb.C2SWrapper{
		SharedSecret: secret,
		RegistrationPayload: &pb.ClientToStation{
			ClientLibVersion: proto.Uint32(4), Transport: pb.TransportType_Min.Enum(), CovertAddress: proto.String(sent),
			DecoyListGeneration: proto.Uint32(957), V4Support: proto.Bool(true), V6Support: proto.Bool(false),
		},
		RegistrationSource:  &src,
		RegistrationAddress: []byte{203, 0, 113, 9},
		RegistrationResponse: &pb.RegistrationResponse{Ipv4Addr: proto.Uint32(uint32(phantom.To4()[0])<<24 | uint32(phantom.To4()[1])<<16 | uint32(phantom.To4()[2])<<8 | uint32(phantom.To4()[3])),
			DstPort: proto.Uint32(uint32(1000 + covertN))},
	}
	b, err := proto.Marshal(w)
	if err != nil {
		panic(err)
	}
	return b
}

// ---- a tiny cooperative scheduler over verifhook.Yield ----------------------------------------------

type c09Task struct {
	name   string
	gid    string
	at     string
	resume chan struct{}
	done   bool
	steps  int
}

type c09Sched struct {
	mu     sync.Mutex
	byGID  map[string]*c09Task
	events chan *c09Task // a task parked (at != "") or finished (done)
	tasks  []*c09Task
}

func newC09Sched() *c09Sched {
	s := &c09Sched{byGID: map[string]*c09Task{}, events: make(chan *c09Task, 16)}
	verifhook.Set(func(point string) {
		s.mu.Lock()
		t := s.byGID[kit.GoID()]
		s.mu.Unlock()
		if t == nil {
			return
		}
		t.at = point
		s.events <- t
		<-t.resume
	})
	return s
}

func (s *c09Sched) close() { verifhook.Set(nil) }

// spawn starts f as a task; it parks immediately at the pseudo point "start".
func (s *c09Sched) spawn(name string, f func()) *c09Task {
	t := &c09Task{name: name, resume: make(chan struct{})}
	s.tasks = append(s.tasks, t)
	ready := make(chan struct{})
	go func() {
		t.gid = kit.GoID()
		s.mu.Lock()
		s.byGID[t.gid] = t
		s.mu.Unlock()
		close(ready)
		t.at = "start"
		s.events <- t
		<-t.resume
		f()
		s.mu.Lock()
		delete(s.byGID, t.gid)
		s.mu.Unlock()
		t.done = true
		t.at = ""
		s.events <- t
	}()
	<-ready
	<-s.events // parked at start
	return t
}

// step resumes t and waits until it parks again or finishes.  Returns false if it did neither within
// the bound (it would then be blocked on something a parked task holds: a serialisation problem).
func (s *c09Sched) step(t *c09Task) bool {
	t.steps++
	t.resume <- struct{}{}
	select {
	case <-s.events:
		return true
	case <-time.After(20 * time.Second):
		return false
	}
}

func (s *c09Sched) runnable() []*c09Task {
	var out []*c09Task
	for _, t := range s.tasks {
		if !t.done {
			out = append(out, t)
		}
	}
	return out
}

// ---- the scenario -----------------------------------------------------------------------------------

type c09Scenario struct {
	Name      string
	SameReg   bool // both workers ingest the same registration (duplicate delivery)
	Sweeper   bool
	Activator bool
	Workers   int
	// the activator also activates the pre-existing registration X that is about to expire
	ActivateExpiring bool
}

type c09Obs struct {
	rec      *kit.Rec
	e        *c09Env
	phantom  net.IP
	keys     map[string]int // identifier (hex) -> covert number
	pubBase  int
	schedule []string
	label    string
	usedSeen map[string]bool
	oldX     string // identifier of a pre-existing expired registration
	oldZ     []string
	oldY     string // identifier of a pre-existing used registration (must survive)
}

func (o *c09Obs) viol(sig, msg string, extra map[string]interface{}) {
	d := map[string]interface{}{"scenario": o.label, "schedule": append([]string(nil), o.schedule...)}
	for k, v := range extra {
		d[k] = v
	}
	o.rec.Violation(sig, msg, d)
}

// check runs monitors 1-3 at a schedule point (all tasks parked, nothing else running).
func (o *c09Obs) check(final bool) {
	rd := o.e.rm.registeredDecoys
	// monitor 2: visible ⇒ admitted
	for id, r := range o.e.rm.GetRegistrations(o.phantom) {
		reg := r.(*DecoyRegistration)
		n, mine := o.keys[kit.Hex([]byte(id))]
		if !mine {
			continue
		}
		_, admitted := c09Covert(n)
		if reg.Covert != admitted {
			o.viol("visible-before-own-validation:covert-unresolved", "a connection handler can see a registration whose covert address has not been replaced by the checked literal yet",
				map[string]interface{}{"covert_seen": reg.Covert, "covert_admitted": admitted})
		}
	}
	// monitor 1: announce-once (every registration of a scenario has its own destination port, which the
	// announcement carries, so announcements can be attributed to registrations)
	news := map[int]int{}
	for _, p := range o.e.redis.Pubs()[o.pubBase:] {
		var m pb.StationToDetector
		if proto.Unmarshal(p.Payload, &m) == nil && m.GetOperation() == pb.StationOperations_New && m.GetPhantomIp() == o.phantom.String() {
			news[int(m.GetDstPort())]++
		}
	}
	rd.m.RLock()
	validByPort := map[int]bool{}
	for id, reg := range rd.decoys[o.phantom.String()] {
		if n, mine := o.keys[kit.Hex([]byte(id))]; mine && reg.Valid {
			validByPort[1000+n] = true
		}
	}
	// monitor 3: bijection of the two maps
	nTimeouts := 0
	for key, to := range rd.decoysTimeouts {
		toDecoy, toID := vTimeoutOf(to, key)
		if toDecoy != o.phantom.String() {
			continue
		}
		nTimeouts++
		if _, ok := rd.decoys[toDecoy][toID]; !ok {
			rd.m.RUnlock()
			o.viol("maps-disagree:timeout-record-without-registration", "a timeout record exists for a registration that is not tracked", map[string]interface{}{"identifier": kit.HexN([]byte(toID), 6)})
			rd.m.RLock()
		}
	}
	nRegs := len(rd.decoys[o.phantom.String()])
	usedNow := map[string]bool{}
	for key, to := range rd.decoysTimeouts {
		if toDecoy, toID := vTimeoutOf(to, key); toDecoy == o.phantom.String() && to.status == regStatusUsed {
			usedNow[kit.Hex([]byte(toID))] = true
		}
	}
	rd.m.RUnlock()
	if nRegs != nTimeouts {
		o.viol("maps-disagree:count", "registrations and timeout records on the phantom are not in bijection", map[string]interface{}{"registrations": nRegs, "timeout_records": nTimeouts})
	}
	for port, c := range news {
		if c > 1 {
			o.viol("announced-more-than-once", "a registration was announced to the detector as new more than once in one lifetime", map[string]interface{}{"new_announcements": c, "registration_port": port})
		}
	}
	if final {
		for port := range validByPort {
			if news[port] == 0 {
				o.viol("valid-but-never-announced", "a registration ended up valid without having been announced to the detector", map[string]interface{}{"registration_port": port})
			}
		}
	}
	for id := range o.usedSeen {
		if !usedNow[id] && id != o.oldX {
			// a used registration stays used as long as it is tracked (it cannot have expired in this scenario)
			o.viol("used-flag-lost", "a registration that had been marked used is no longer marked used", map[string]interface{}{"identifier": id[:12]})
		}
	}
	for id := range usedNow {
		o.usedSeen[id] = true
	}
}

var c09SchedEnv *c09Env

func c09RunSchedule(t testing.TB, rec *kit.Rec, sc c09Scenario, choose func(n int) int) (trace string) {
	// one manager for all schedules (building one costs ~20 ms: subnet file, liveness tester, GeoIP);
	// every schedule starts from an empty registry
	if c09SchedEnv == nil {
		c09SchedEnv = c09Setup(t)
	}
	e := c09SchedEnv
	e.rm.registeredDecoys = NewRegisteredDecoys()
	if err := e.rm.AddTransport(pb.TransportType_Min, min.Transport{}); err != nil {
		t.Fatal(err)
	}
	phantom := net.IPv4(192, 122, 190, 40).To4()
	o := &c09Obs{rec: rec, e: e, phantom: phantom, keys: map[string]int{}, usedSeen: map[string]bool{}, label: sc.Name}
	rng := kit.Rand("c09-sched-" + sc.Name)
	mkSecret := func() []byte { b := make([]byte, 32); rng.Read(b); return b }
	ident := func(secret []byte) string {
		return kit.Hex([]byte(min.Transport{}.GetIdentifier(&DecoyRegistration{Keys: keysOf(secret)})))
	}

	e.redis.Reset() // (the recorder would otherwise grow with every schedule and every check copies it)
	o.pubBase = 0
	// pre-existing state for the sweeper: X expired (11 min, unused), Y used (11 min, must survive)
	if sc.Sweeper {
		for i, name := range []string{"X", "Y", "Z1", "Z2"} {
			sec := mkSecret()
			regs, err := e.rm.parseRegMessage(c09Message(sec, phantom, 100+i, pb.RegistrationSource_API))
			if err != nil || len(regs) != 1 {
				t.Fatalf("pre-existing %s: %v", name, err)
			}
			e.rm.ingestRegistration(regs[0])
			switch name {
			case "Y":
				e.rm.MarkActive(regs[0])
				o.oldY = ident(sec)
			case "X":
				o.oldX = ident(sec)
			default:
				// further expired, never used registrations that are due in the same sweep as X: whatever
				// happens to X (it may be activated between scan and removal), these must be forgotten
				o.oldZ = append(o.oldZ, ident(sec))
			}
			o.keys[ident(sec)] = 100 + i
		}
		rd := e.rm.registeredDecoys
		rd.m.Lock()
		for _, to := range rd.decoysTimeouts {
			to.registrationTime = to.registrationTime.Add(-11 * time.Minute)
		}
		rd.m.Unlock()
	}
	s := newC09Sched()
	defer s.close()
	secrets := [][]byte{mkSecret(), mkSecret(), mkSecret()}
	deliveries := map[string]int{}
	for w := 0; w < sc.Workers; w++ {
		sec := secrets[0]
		n := 1
		if !sc.SameReg {
			sec, n = secrets[w], 1+w
		}
		o.keys[ident(sec)] = n
		deliveries[ident(sec)]++
		msg := c09Message(sec, phantom, n, pb.RegistrationSource_API)
		s.spawn(fmt.Sprintf("W%d", w+1), func() {
			regs, err := e.rm.parseRegMessage(msg)
			if err != nil {
				return
			}
			for _, r := range regs {
				e.rm.ingestRegistration(r)
			}
		})
	}
	if sc.Sweeper {
		s.spawn("S", func() { e.rm.RemoveOldRegistrations() })
	}
	if sc.Activator {
		s.spawn("A", func() {
			// what a connection handler does: look up, and activate what it found
			for id, r := range e.rm.GetRegistrations(phantom) {
				if hid := kit.Hex([]byte(id)); o.keys[hid] != 0 && (hid != o.oldX || sc.ActivateExpiring) && hid != o.oldY && !c09In(o.oldZ, hid) {
					e.rm.MarkActive(r.(*DecoyRegistration))
					o.usedSeen[kit.Hex([]byte(id))] = true
				}
			}
		})
	}
	var tr []string
	for {
		o.check(false)
		run := s.runnable()
		if len(run) == 0 {
			break
		}
		t := run[choose(len(run))]
		from := t.at
		if !s.step(t) {
			rec.Inconclusive("serialisation: a resumed task neither parked nor finished within 20 s", map[string]interface{}{"scenario": sc.Name, "task": t.name, "from": from, "trace": tr})
			return strings.Join(tr, " ")
		}
		step := fmt.Sprintf("%s:%s", t.name, from)
		tr = append(tr, step)
		o.schedule = tr
	}
	o.check(true)
	// quiescent end state: no lost update
	rd := e.rm.registeredDecoys
	rd.m.RLock()
	for id, reg := range rd.decoys[phantom.String()] {
		hid := kit.Hex([]byte(id))
		if want, ok := deliveries[hid]; ok && int(reg.regCount) != want {
			rd.m.RUnlock()
			o.viol("lost-update:delivery-count", "the number of deliveries recorded for a registration differs from the deliveries made", map[string]interface{}{"recorded": reg.regCount, "delivered": want})
			rd.m.RLock()
		}
	}
	zLeft := 0
	for _, z := range o.oldZ {
		if _, there := rd.decoys[phantom.String()][unhex(z)]; there {
			zLeft++
		}
	}
	_, xThere := rd.decoys[phantom.String()][unhex(o.oldX)]
	_, yThere := rd.decoys[phantom.String()][unhex(o.oldY)]
	rd.m.RUnlock()
	for hid := range deliveries {
		found := false
		for id := range e.rm.GetRegistrations(phantom) {
			if kit.Hex([]byte(id)) == hid {
				found = true
			}
		}
		if !found {
			o.viol("lost-update:registration-missing", "an ingested, admissible registration is not usable at the end", map[string]interface{}{"identifier": hid[:12]})
		}
	}
	if sc.Sweeper {
		switch {
		case o.usedSeen[o.oldX] && !xThere:
			// a handler found X (it was still tracked and valid) and activated it: from then on it is a used
			// registration younger than 6 h; no serial order of {activate, sweep} removes it
			o.viol("sweep:activated-registration-removed", "a registration that a connection handler had just found and marked used was removed by the sweep that had scanned it as unused (lost update)", nil)
		case !o.usedSeen[o.oldX] && xThere:
			o.viol("sweep:expired-registration-survived", "an expired registration is still tracked after the sweep completed", nil)
		}
		if zLeft > 0 {
			o.viol("sweep:expired-registration-survived:others-due-in-the-same-sweep", "expired, never used registrations are still tracked after the sweep that was due to remove them completed",
				map[string]interface{}{"still_tracked": zLeft, "of": len(o.oldZ)})
		}
		if !yThere {
			o.viol("sweep:live-registration-removed", "a used registration younger than 6 h was removed by the sweep", nil)
		}
	}
	return strings.Join(tr, " ")
}

func c09In(l []string, x string) bool {
	for _, y := range l {
		if y == x {
			return true
		}
	}
	return false
}

func unhex(s string) string {
	b := make([]byte, len(s)/2)
	for i := range b {
		fmt.Sscanf(s[2*i:2*i+2], "%02x", &b[i])
	}
	return string(b)
}

// TestVerifC09Schedules enumerates (DFS, stateless re-execution) or samples (seeded random walks) the
// interleavings of each scenario at yield-point granularity.
func TestVerifC09Schedules(t *testing.T) {
	rec := kit.NewRec("C09", "schedules")
	defer rec.Close()
	scenarios := []struct {
		sc         c09Scenario
		exhaustive bool
		walks      int
	}{
		{c09Scenario{Name: "2 workers same registration + activator", SameReg: true, Activator: true, Workers: 2}, true, 0},
		{c09Scenario{Name: "2 workers different registrations + activator", SameReg: false, Activator: true, Workers: 2}, true, 0},
		{c09Scenario{Name: "1 worker + sweeper + activator that also activates the expiring registration", SameReg: true, Sweeper: true, Activator: true, Workers: 1, ActivateExpiring: true}, true, 0},
		{c09Scenario{Name: "2 workers same registration + sweeper + activator", SameReg: true, Sweeper: true, Activator: true, Workers: 2}, kit.Thorough(), kit.Tier(400, 0)},
		{c09Scenario{Name: "3 workers same registration + sweeper + activator", SameReg: true, Sweeper: true, Activator: true, Workers: 3}, false, kit.Tier(300, 20000)},
		{c09Scenario{Name: "3 workers different registrations + sweeper + activator", SameReg: false, Sweeper: true, Activator: true, Workers: 3}, false, kit.Tier(200, 20000)},
	}
	for _, s := range scenarios {
		distinct := map[string]bool{}
		capped := false
		if s.exhaustive {
			// stateless DFS: a schedule is the list of choices; backtrack on the last choice that has an untried alternative
			var prefix []int
			var widths []int
			for {
				pos := 0
				var cur, w []int
				choose := func(n int) int {
					c := 0
					if pos < len(prefix) {
						c = prefix[pos]
					}
					if c >= n {
						c = n - 1
					}
					cur = append(cur, c)
					w = append(w, n)
					pos++
					return c
				}
				tr := c09RunSchedule(t, rec, s.sc, choose)
				distinct[tr] = true
				rec.Count("evaluations", 1)
				rec.Distinct("nontrivial", s.sc.Name, tr)
				rec.Distinct("schedules", s.sc.Name, tr)
				if rec.WantSample() && len(distinct)%97 == 5 {
					rec.Sample(map[string]interface{}{"scenario": s.sc.Name, "schedule": tr})
				}
				widths = w
				if len(distinct) >= 400000 {
					rec.Note("enumeration of '" + s.sc.Name + "' stopped at 400000 schedules (not exhaustive)")
					capped = true
					break
				}
				// next: increment the last position that can be incremented
				i := len(cur) - 1
				for i >= 0 && cur[i]+1 >= widths[i] {
					i--
				}
				if i < 0 {
					break
				}
				prefix = append(append([]int{}, cur[:i]...), cur[i]+1)
			}
			if !capped {
				rec.Exhaustive(fmt.Sprintf("all %d interleavings at yield points of: %s", len(distinct), s.sc.Name))
			}
		}
		if s.walks > 0 {
			rng := kit.Rand("c09-walk-" + s.sc.Name)
			for i := 0; i < s.walks; i++ {
				tr := c09RunSchedule(t, rec, s.sc, func(n int) int { return rng.Intn(n) })
				distinct[tr] = true
				rec.Count("evaluations", 1)
				rec.Distinct("nontrivial", s.sc.Name, tr)
				rec.Distinct("schedules", s.sc.Name, tr)
			}
		}
		rec.Count("schedules:"+s.sc.Name, len(distinct))
	}
	_ = sort.Strings
}
