//go:build verif

package lib

// C05 – the relay forwards exactly what it read, in order, up to the first failure, and always tears
// both sides down.  Monitor: scripted fault-injecting conn pairs around the real halfPipe / Proxy.

import (
	"bytes"
	"encoding/binary"
	"encoding/json"
	"fmt"
	"io"
	"net"
	"strings"
	"sync"
	"sync/atomic"
	"syscall"
	"testing"
	"time"

	kit "github.com/refraction-networking/conjure/internal/verifkit"
	"github.com/refraction-networking/conjure/pkg/core"
	"github.com/refraction-networking/conjure/pkg/station/log"
	pb "github.com/refraction-networking/conjure/proto"
)

// ---- fault universe -----------------------------------------------------------------------------

type c05Fault struct {
	Side string // client | covert
	Kind string // r-eof r-data+eof r-data+rst r-rst r-timeout r-data+timeout r-unknown w-short w-epipe w-rst-partial w-timeout close-err dl-err
	Pos  int    // read index / write index / deadline-call index
}

func (f c05Fault) String() string { return fmt.Sprintf("%s:%s@%d", f.Side, f.Kind, f.Pos) }

type c05Case struct {
	ClientChunks []int
	CovertChunks []int
	CovertEnd    string // eof | stall
	ClientEnd    string // "" = eof | stall (only used with a fault that ends a direction by itself)
	Faults       []c05Fault
}

func c05Data(tag byte, n int) []byte {
	b := make([]byte, n)
	for i := 0; i+8 <= n; i += 8 {
		binary.BigEndian.PutUint64(b[i:], uint64(tag)<<56|uint64(i/8))
	}
	for i := n - n%8; i < n; i++ {
		b[i] = tag ^ byte(i)
	}
	return b
}

// build one conn's script from the chunk plan and the faults that apply to it.
func c05Build(side string, tag byte, chunks []int, end string, faults []c05Fault, local, remote net.Addr) (*kit.ScriptConn, []byte) {
	total := 0
	for _, c := range chunks {
		total += c
	}
	all := c05Data(tag, total)
	var segs []kit.Seg
	off := 0
	for _, c := range chunks {
		segs = append(segs, kit.Seg{Data: all[off : off+c]})
		off += c
	}
	atEnd := kit.EndEOF
	if end == "stall" {
		atEnd = kit.EndBlock
	}
	conn := kit.NewScriptConn(side, local, remote, nil, atEnd)
	conn.WScript = map[int]kit.WStep{}
	conn.DeadlineErr = map[int]error{}
	conn.MaxBlock = 60 * time.Second
	cut := -1 // reads after index cut are dropped from the script (a terminal read fault)
	var termSeg *kit.Seg
	for _, f := range faults {
		if f.Side != side {
			continue
		}
		mk := func(op string, e error) error { return kit.NetOpErr(op, local, remote, e) }
		switch f.Kind {
		case "r-eof", "r-rst", "r-timeout", "r-unknown":
			if cut == -1 || f.Pos < cut {
				cut = f.Pos
				var e error
				switch f.Kind {
				case "r-eof":
					e = io.EOF
				case "r-rst":
					e = mk("read", kit.SysErr("read", syscall.ECONNRESET))
				case "r-timeout":
					e = mk("read", timeoutError{})
				case "r-unknown":
					e = mk("read", kit.SysErr("read", syscall.EIO))
				}
				termSeg = &kit.Seg{Err: e}
			}
		case "r-data+eof", "r-data+rst", "r-data+timeout":
			// the read at index Pos returns its data together with the error
			if f.Pos < len(segs) && (cut == -1 || f.Pos < cut) {
				cut = f.Pos + 1
				var e error
				switch f.Kind {
				case "r-data+eof":
					e = io.EOF
				case "r-data+rst":
					e = mk("read", kit.SysErr("read", syscall.ECONNRESET))
				case "r-data+timeout":
					e = mk("read", timeoutError{})
				}
				s := kit.Seg{Data: segs[f.Pos].Data, Err: e}
				termSeg = &s
			}
		case "w-short":
			conn.WScript[f.Pos] = kit.WStep{Accept: 3, Err: nil}
		case "w-epipe":
			conn.WScript[f.Pos] = kit.WStep{Accept: 0, Err: mk("write", kit.SysErr("write", syscall.EPIPE))}
		case "w-rst-partial":
			conn.WScript[f.Pos] = kit.WStep{Accept: 5, Err: mk("write", kit.SysErr("write", syscall.ECONNRESET))}
		case "w-timeout":
			conn.WScript[f.Pos] = kit.WStep{Accept: 1, Err: mk("write", timeoutError{})}
		case "w-block":
			// the peer stopped reading: the Write parks until somebody closes this conn
			conn.WScript[f.Pos] = kit.WStep{Block: true}
		case "close-err":
			conn.CloseErr = mk("close", kit.SysErr("close", syscall.EIO))
		case "close-slow":
			conn.CloseDelay = 15 * time.Millisecond
		case "close-slow-long": // a close that lingers for seconds (SO_LINGER on unacknowledged data is 10 s); Pos = milliseconds
			conn.CloseDelay = time.Duration(f.Pos) * time.Millisecond
		case "dl-err":
			conn.DeadlineErr[f.Pos] = mk("set", kit.SysErr("setsockopt", syscall.EINVAL))
		}
	}
	if termSeg != nil {
		if strings.HasPrefix(faults0Kind(termSeg), "data") {
			segs = append(append([]kit.Seg{}, segs[:cut-1]...), *termSeg)
		} else {
			if cut > len(segs) {
				cut = len(segs)
			}
			segs = append(append([]kit.Seg{}, segs[:cut]...), *termSeg)
		}
	}
	conn.Feed(segs...)
	// the byte stream this conn's reader can ever return, in order
	var stream []byte
	for _, s := range segs {
		stream = append(stream, s.Data...)
	}
	return conn, stream
}

func faults0Kind(s *kit.Seg) string {
	if len(s.Data) > 0 {
		return "data+err"
	}
	return "err"
}

type timeoutError struct{}

func (timeoutError) Error() string   { return "i/o timeout" }
func (timeoutError) Timeout() bool   { return true }
func (timeoutError) Temporary() bool { return true }

// ---- the monitor ----------------------------------------------------------------------------------

func c05Check(rec *kit.Rec, label string, src *kit.ScriptConn, srcStream []byte, dst *kit.ScriptConn, reported int64, dir string) {
	_, _, nread := src.Consumed()
	read := srcStream[:nread]
	got := dst.Written()
	if !bytes.HasPrefix(read, got) {
		rec.Violation("relay:"+dir+":not-a-prefix", "bytes delivered are not a prefix of the bytes read (loss, duplication or reordering)",
			map[string]interface{}{"case": label, "read": len(read), "delivered": len(got), "first_diff": firstDiff(read, got)})
	} else if len(got) < len(read) {
		// legitimate only if a write on dst failed or was short
		failed := false
		for _, o := range dst.Ops() {
			if o.Op == "write" && (o.Err != "" || o.N < o.Req) {
				failed = true
			}
		}
		if !failed {
			withErr := false
			for _, o := range src.Ops() {
				if o.Op == "read" && o.N > 0 && o.Err != "" {
					withErr = true
				}
			}
			sig := "relay:" + dir + ":bytes-lost-without-destination-failure"
			if withErr {
				sig = "relay:bytes-returned-with-error-dropped"
			}
			rec.Violation(sig, "the relay read bytes that it never delivered although the destination never failed",
				map[string]interface{}{"case": label, "read": len(read), "delivered": len(got), "data_with_error": withErr})
		}
	}
	if reported != int64(len(got)) {
		rec.Violation("relay:"+dir+":byte-count", "reported byte count differs from bytes actually delivered",
			map[string]interface{}{"case": label, "reported": reported, "delivered": len(got)})
	}
}

func firstDiff(a, b []byte) int {
	n := len(a)
	if len(b) < n {
		n = len(b)
	}
	for i := 0; i < n; i++ {
		if a[i] != b[i] {
			return i
		}
	}
	return n
}

// c05Terminates filters out scenarios in which no direction can ever end: a blocked Write keeps its
// direction from reading on, so the OTHER direction's source must reach its own end.
func c05Terminates(cs c05Case) bool {
	cb, vb := false, false
	for _, f := range cs.Faults {
		if f.Kind == "w-block" && f.Side == "client" {
			cb = true // Down may park writing to the client; Up (client reads) still reaches the client's EOF
		}
		if f.Kind == "w-block" && f.Side == "covert" {
			vb = true // Up may park writing to the covert; Down must end by itself
		}
	}
	if cb && vb {
		return false
	}
	if vb && cs.CovertEnd == "stall" {
		return false
	}
	return true
}

func c05RunHalfPipes(rec *kit.Rec, cs c05Case) {
	if !c05Terminates(cs) {
		return
	}
	label := fmt.Sprintf("client%v covert%v end=%s faults=%v", cs.ClientChunks, cs.CovertChunks, cs.CovertEnd, cs.Faults)
	if cs.ClientEnd == "stall" {
		label += " client-end=stall"
	}
	rec.CaseCheap(label)
	stationAddr := kit.TCPAddr("192.0.2.10", 443)
	clientAddr := kit.TCPAddr("203.0.113.77", 50123)
	covertAddr := kit.TCPAddr("198.51.100.9", 80)
	stationOut := kit.TCPAddr("192.0.2.10", 40001)
	clientEnd := "eof"
	if cs.ClientEnd == "stall" {
		clientEnd = "stall"
	}
	client, clientStream := c05Build("client", 0xC1, cs.ClientChunks, clientEnd, cs.Faults, stationAddr, clientAddr)
	covert, covertStream := c05Build("covert", 0xC0, cs.CovertChunks, cs.CovertEnd, cs.Faults, stationOut, covertAddr)

	var logbuf bytes.Buffer
	logger := log.New(&syncWriter{w: &logbuf}, "", 0)
	stats := &tunnelStats{proxyStats: getProxyStats()}
	wg := sync.WaitGroup{}
	wg.Add(2)
	go halfPipe(client, covert, &wg, logger, "Up verif", stats)
	go halfPipe(covert, client, &wg, logger, "Down verif", stats)
	done := make(chan struct{})
	go func() { wg.Wait(); close(done) }()
	select {
	case <-done:
	case <-time.After(45 * time.Second):
		// Has any direction ended at all?  A direction ends only after a Read / Write / SetDeadline
		// returned an error (EOF included).  If none did, both peers are merely stalled (e.g. one side's
		// send buffer is full while the other is silent): the relay is right to wait, nothing to judge.
		ended := false
		for _, c := range []*kit.ScriptConn{client, covert} {
			for _, o := range c.Ops() {
				if o.Err != "" && o.Op != "close" {
					ended = true
				}
			}
		}
		gs := kit.InFunc(kit.Stacks(), "lib.halfPipe")
		if ended {
			rec.Violation("teardown:relay-did-not-return", "one direction ended but the relay did not return (other side never torn down)",
				map[string]interface{}{"case": label, "goroutines_in_halfPipe": len(gs), "client_ops": opsTail(client), "covert_ops": opsTail(covert)})
		} else {
			rec.Inconclusive("scenario stalls without any direction ending (discarded)", label)
		}
		client.Close()
		covert.Close()
		<-done
		return
	}
	// both directions returned: at that instant each conn must have seen a Close call *return* (each half closes
	// its destination synchronously before it reports completion; only the extra close of its source is asynchronous)
	if cd, vd := client.ClosesDone(), covert.ClosesDone(); cd == 0 || vd == 0 {
		rec.Violation("teardown:returned-before-close-finished", "the relay reported completion while a connection was not closed yet",
			map[string]interface{}{"case": label, "client_close_calls_started": client.Closes(), "client_close_calls_finished": cd, "covert_close_calls_started": covert.Closes(), "covert_close_calls_finished": vd})
	}
	deadline := time.Now().Add(20 * time.Second)
	for (client.Closes() == 0 || covert.Closes() == 0) && time.Now().Before(deadline) {
		time.Sleep(50 * time.Microsecond)
	}
	if client.Closes() == 0 {
		rec.Violation("teardown:client-conn-never-closed", "client connection was never closed after the relay ended", map[string]interface{}{"case": label})
	}
	if covert.Closes() == 0 {
		rec.Violation("teardown:covert-conn-never-closed", "covert connection was never closed after the relay ended", map[string]interface{}{"case": label})
	}
	if left := kit.WaitNoGoroutineIn(20*time.Second, "station/lib.halfPipe"); left != nil {
		rec.Violation("teardown:goroutine-left-behind", "a relay goroutine is still alive after both directions returned",
			map[string]interface{}{"case": label, "stack": left[0].Raw})
	}
	c05Check(rec, label, client, clientStream, covert, atomic.LoadInt64(&stats.BytesUp), "up")
	c05Check(rec, label, covert, covertStream, client, atomic.LoadInt64(&stats.BytesDown), "down")
	// Nothing was made to fail and the covert side never ends by itself: the only event that can end this relay is the
	// client's end of stream.  "Forwards … up to the point where one side fails" then means that the upload direction read
	// the client's stream to its end (and, by the check above, delivered all of it).
	if len(cs.Faults) == 0 && cs.CovertEnd == "stall" && cs.ClientEnd != "stall" {
		_, _, nread := client.Consumed()
		if term := client.State().TerminalReadErr; nread < len(clientStream) || term != io.EOF {
			rec.Violation("relay:up:ended-although-neither-side-failed", "the relay stopped reading a healthy source although neither connection had failed or ended",
				map[string]interface{}{"case": label, "read": nread, "client_sent": len(clientStream), "first_read_error": fmt.Sprint(term), "client_ops": opsTail(client)})
		}
	}

	rec.Count("evaluations", 1)
	rec.Count("bytes_relayed", len(covert.Written())+len(client.Written()))
	rec.Distinct("nontrivial", label)
	for _, f := range cs.Faults {
		rec.Distinct("fault_kinds", f.Side, f.Kind)
	}
	if rec.WantSample() && len(cs.Faults) == 2 {
		rec.Sample(map[string]interface{}{"case": label, "client_ops": opsTail(client), "covert_ops": opsTail(covert),
			"bytes_up": stats.BytesUp, "bytes_down": stats.BytesDown})
	}
}

func opsTail(c *kit.ScriptConn) []string {
	ops := c.Ops()
	var out []string
	for _, o := range ops {
		out = append(out, o.String())
	}
	if len(out) > 14 {
		out = append([]string{"…"}, out[len(out)-14:]...)
	}
	return out
}

type syncWriter struct {
	mu sync.Mutex
	w  *bytes.Buffer
}

func (s *syncWriter) Write(p []byte) (int, error) {
	s.mu.Lock()
	defer s.mu.Unlock()
	return s.w.Write(p)
}
func (s *syncWriter) String() string {
	s.mu.Lock()
	defer s.mu.Unlock()
	return s.w.String()
}

func c05FaultUniverse(maxPos int) []c05Fault {
	var u []c05Fault
	for _, side := range []string{"client", "covert"} {
		for _, k := range []string{"r-eof", "r-data+eof", "r-data+rst", "r-rst", "r-timeout", "r-data+timeout", "r-unknown"} {
			for p := 0; p <= maxPos; p++ {
				u = append(u, c05Fault{side, k, p})
			}
		}
		for _, k := range []string{"w-short", "w-epipe", "w-rst-partial", "w-timeout", "w-block"} {
			for p := 0; p <= maxPos; p++ {
				u = append(u, c05Fault{side, k, p})
			}
		}
		u = append(u, c05Fault{side, "close-err", 0})
		u = append(u, c05Fault{side, "close-slow", 0})
		for p := 0; p <= maxPos+2; p++ {
			u = append(u, c05Fault{side, "dl-err", p})
		}
	}
	return u
}

func TestVerifC05HalfPipe(t *testing.T) {
	rec := kit.NewRec("C05", "halfpipe")
	defer rec.Close()
	rng := kit.Rand("c05")
	maxPos := kit.Tier(4, 6)
	u := c05FaultUniverse(maxPos)
	chunkings := [][]int{{}, {1}, {8}, {8, 16, 24}, {40000}, {1000, 1, 33000, 7}, {8, 8, 8, 8, 8, 8, 8}}
	ends := []string{"eof", "stall"}

	// no fault, every chunking pair
	for _, a := range chunkings {
		for _, b := range chunkings {
			for _, e := range ends {
				c05RunHalfPipes(rec, c05Case{ClientChunks: a, CovertChunks: b, CovertEnd: e})
			}
		}
	}
	// every single fault × a few chunkings (exhaustive over the fault universe)
	for _, f := range u {
		for _, ch := range [][2][]int{{chunkings[3], chunkings[3]}, {chunkings[5], chunkings[2]}, {chunkings[6], chunkings[6]}, {chunkings[1], chunkings[0]}} {
			for _, e := range ends {
				c05RunHalfPipes(rec, c05Case{ClientChunks: ch[0], CovertChunks: ch[1], CovertEnd: e, Faults: []c05Fault{f}})
			}
		}
	}
	rec.Exhaustive(fmt.Sprintf("every single fault (%d kinds×positions×sides) × 4 chunking pairs × 2 covert endings", len(u)))
	// closes that linger for seconds: whatever bounded wait the relay may use internally, nothing may be left behind
	// (dedicated cases, they cost real time: kept out of the pair universe)
	for _, ms := range []int{2500, 6000, 11000}[:kit.Tier(1, 3)] {
		for _, side := range []string{"client", "covert"} {
			c05RunHalfPipes(rec, c05Case{ClientChunks: chunkings[3], CovertChunks: chunkings[2], CovertEnd: "eof", Faults: []c05Fault{{side, "close-slow-long", ms}}})
		}
	}
	c05RunHalfPipes(rec, c05Case{ClientChunks: chunkings[2], CovertChunks: chunkings[3], CovertEnd: "stall", Faults: []c05Fault{{"client", "close-slow-long", 2500}, {"covert", "close-slow-long", 2500}}})
	// both peers fall silent and the only thing that ends a direction is a SetDeadline that fails while the deadlines are
	// first armed (call 0 or 1 on either conn): the relay must tear down at once, not wait for a deadline it never set
	for _, side := range []string{"client", "covert"} {
		for _, pos := range []int{0, 1} {
			for _, ch := range [][]int{{}, {8}} {
				c05RunHalfPipes(rec, c05Case{ClientChunks: ch, CovertChunks: ch, CovertEnd: "stall", ClientEnd: "stall", Faults: []c05Fault{{side, "dl-err", pos}}})
			}
		}
	}
	// reads that return (0, nil) – io.Reader allows them ("nothing happened"), record-oriented wrapping transports produce
	// them for keep-alive records – interspersed with data, a few and many per direction: nothing failed, so every byte
	// must arrive (added after seeded change C05-O: a guard that counts empty reads over the tunnel's whole lifetime)
	emptyish := func(n, k int) []int {
		var c []int
		for i := 0; i < n; i++ {
			for j := 0; j < k; j++ {
				c = append(c, 0)
			}
			c = append(c, 12)
		}
		return append(c, 0)
	}
	for _, ch := range [][]int{emptyish(3, 1), emptyish(40, 3), emptyish(150, 1), emptyish(300, 2), emptyish(1100, 1)} {
		for _, e := range ends {
			c05RunHalfPipes(rec, c05Case{ClientChunks: ch, CovertChunks: chunkings[3], CovertEnd: e})
			c05RunHalfPipes(rec, c05Case{ClientChunks: chunkings[3], CovertChunks: ch, CovertEnd: e})
			c05RunHalfPipes(rec, c05Case{ClientChunks: ch, CovertChunks: ch, CovertEnd: e, Faults: []c05Fault{{"covert", "r-data+eof", len(ch) - 2}}})
		}
	}
	// pairs
	nPairs := kit.Tier(3000, 100000)
	if nPairs >= len(u)*len(u) {
		nPairs = len(u) * len(u)
	}
	for i := 0; i < nPairs; i++ {
		f1, f2 := u[rng.Intn(len(u))], u[rng.Intn(len(u))]
		a, b := chunkings[rng.Intn(len(chunkings))], chunkings[rng.Intn(len(chunkings))]
		c05RunHalfPipes(rec, c05Case{ClientChunks: a, CovertChunks: b, CovertEnd: ends[rng.Intn(2)], Faults: []c05Fault{f1, f2}})
	}
}

// ---- Proxy end to end: scripted client, real loopback covert ---------------------------------------

func c05Reg(covert string) *DecoyRegistration {
	src := pb.RegistrationSource_API
	var tr Transport = c05Transport{}
	return &DecoyRegistration{
		PhantomIp:          net.ParseIP("192.0.2.10"),
		PhantomPort:        443,
		Keys:               &core.ConjureSharedKeys{SharedSecret: bytes.Repeat([]byte{0xAB}, 32)},
		Covert:             covert,
		Transport:          pb.TransportType_Min,
		TransportPtr:       &tr,
		RegistrationSource: &src,
		registrationAddr:   net.ParseIP("203.0.113.77"),
	}
}

type c05Transport struct{ Transport }

func (c05Transport) ParamStrings(p any) []string { return nil }

func TestVerifC05Proxy(t *testing.T) {
	rec := kit.NewRec("C05", "proxy")
	defer rec.Close()
	rng := kit.Rand("c05proxy")
	n := kit.Tier(150, 3000)
	modes := []string{"client-finishes-first", "covert-finishes-first", "reply-then-rst", "close-immediately", "client-rst", "dial-refused", "client-rst-slow-covert", "client-finishes-first-covert-lingers"}
	for i := 0; i < n; i++ {
		mode := modes[i%len(modes)]
		upN := []int{0, 1, 8, 4096, 70000}[rng.Intn(5)]
		downN := []int{0, 1, 8, 4096, 70000}[rng.Intn(5)]
		if mode == "client-rst-slow-covert" {
			// a large upload to a covert that is slow to read (the kernel's send queue holds bytes the station
			// has already written and counted) and then a hard error on the client side; no reply bytes, so
			// nothing can be unread on the station's side of the covert connection when it closes
			upN, downN = 4<<20, 0
		}
		label := fmt.Sprintf("mode=%s up=%d down=%d", mode, upN, downN)
		rec.CaseCheap(label)

		ln, err := net.Listen("tcp", "127.0.0.1:0")
		if err != nil {
			t.Fatal(err)
		}
		covertAddr := ln.Addr().String()
		down := c05Data(0xD0, downN)
		var covertGot []byte
		covertDone := make(chan struct{})
		covertRelease := make(chan struct{})
		go func() {
			defer close(covertDone)
			c, err := ln.Accept()
			if err != nil {
				return
			}
			defer c.Close()
			switch mode {
			case "close-immediately":
				return
			case "reply-then-rst":
				c.Write(down)
				// wait for the upload so the reset does not destroy data in flight that we count
				buf := make([]byte, upN)
				io.ReadFull(c, buf)
				covertGot = buf
				c.(*net.TCPConn).SetLinger(0)
				return
			case "covert-finishes-first":
				buf := make([]byte, upN)
				io.ReadFull(c, buf)
				covertGot = buf
				c.Write(down)
				return
			case "client-rst-slow-covert":
				time.Sleep(300 * time.Millisecond)
				b, _ := io.ReadAll(c)
				covertGot = b
				return
			case "client-finishes-first-covert-lingers":
				// a keep-alive covert: it sees the end of the client's stream and keeps its side open; the station must
				// tear the tunnel down by itself
				c.Write(down)
				b, _ := io.ReadAll(c)
				covertGot = b
				<-covertRelease
				return
			default:
				c.Write(down)
				b, _ := io.ReadAll(c)
				covertGot = b
			}
		}()
		if mode == "dial-refused" {
			ln.Close()
		}

		up := c05Data(0xE0, upN)
		var segs []kit.Seg
		for off := 0; off < len(up); {
			k := 1 + rng.Intn(20000)
			if off+k > len(up) {
				k = len(up) - off
			}
			segs = append(segs, kit.Seg{Data: up[off : off+k]})
			off += k
		}
		atEnd := kit.EndBlock
		switch mode {
		case "client-rst", "client-rst-slow-covert":
			segs = append(segs, kit.Seg{Err: kit.NetOpErr("read", kit.TCPAddr("192.0.2.10", 443), kit.TCPAddr("203.0.113.77", 50123), kit.SysErr("read", syscall.ECONNRESET))})
		case "client-finishes-first", "client-finishes-first-covert-lingers":
			atEnd = kit.EndEOF
		}
		client := kit.NewScriptConn("client", kit.TCPAddr("192.0.2.10", 443), kit.TCPAddr("203.0.113.77", 50123), segs, atEnd)
		client.MaxBlock = 60 * time.Second
		client.CloseDelay = 15 * time.Millisecond // a close that takes time: Proxy must not return before it finished

		var logbuf bytes.Buffer
		sw := &syncWriter{w: &logbuf}
		logger := log.New(sw, "", 0)
		gauge0 := atomic.LoadInt64(&getProxyStats().sessionsProxying)
		reg := c05Reg(covertAddr)
		done := make(chan struct{})
		go func() { Proxy(reg, client, logger); close(done) }()
		closesDoneAtReturn := -1
		select {
		case <-done:
			closesDoneAtReturn = client.ClosesDone()
		case <-time.After(60 * time.Second):
			rec.Violation("teardown:proxy-did-not-return", "Proxy did not return after one side ended", map[string]interface{}{"case": label, "client_ops": opsTail(client)})
			close(covertRelease)
			client.Close()
			ln.Close()
			<-done
		}
		select {
		case <-covertRelease:
		default:
			close(covertRelease)
		}
		ln.Close()
		<-covertDone
		if g := atomic.LoadInt64(&getProxyStats().sessionsProxying); g != gauge0 {
			rec.Violation("teardown:session-gauge", "session gauge did not return to its starting value", map[string]interface{}{"case": label, "before": gauge0, "after": g})
		}
		if left := kit.WaitNoGoroutineIn(20*time.Second, "station/lib.halfPipe", "station/lib.Proxy"); left != nil {
			rec.Violation("teardown:goroutine-left-behind", "a relay goroutine is still alive after Proxy returned", map[string]interface{}{"case": label, "stack": left[0].Raw})
		}
		// summary line
		var ts tunnelStats
		line := sw.String()
		if idx := strings.Index(line, "proxy closed "); idx >= 0 {
			js := line[idx+len("proxy closed "):]
			if nl := strings.IndexByte(js, '\n'); nl >= 0 {
				js = js[:nl]
			}
			if err := json.Unmarshal([]byte(js), &ts); err != nil {
				rec.Violation("summary:unparsable", "tunnel summary is not valid JSON", map[string]interface{}{"case": label, "line": js})
			}
		} else {
			rec.Violation("summary:missing", "no tunnel summary was logged", map[string]interface{}{"case": label})
		}
		// a failed covert dial (refused, or reset before connect() returned) ends Proxy before the relay
		// starts; closing the client is then the caller's job (handleNewConn) and outside the statement
		if ts.CovertDialErr == "" {
			if closesDoneAtReturn == 0 {
				rec.Violation("teardown:returned-before-close-finished", "Proxy returned while the client connection was not closed yet",
					map[string]interface{}{"case": label, "client_close_calls_started": client.Closes(), "client_ops": opsTail(client)})
			}
			deadline := time.Now().Add(20 * time.Second)
			for client.Closes() == 0 && time.Now().Before(deadline) {
				time.Sleep(100 * time.Microsecond)
			}
			if client.Closes() == 0 {
				rec.Violation("teardown:client-conn-never-closed", "client connection never closed after Proxy returned", map[string]interface{}{"case": label, "client_ops": opsTail(client), "log": sw.String()})
			}
		}
		gotDown := client.Written()
		if !bytes.HasPrefix(down, gotDown) {
			rec.Violation("relay:down:not-a-prefix", "client received bytes that are not a prefix of what the covert sent", map[string]interface{}{"case": label})
		}
		if ts.BytesDown != int64(len(gotDown)) {
			rec.Violation("relay:down:byte-count", "BytesDown differs from bytes delivered to the client", map[string]interface{}{"case": label, "reported": ts.BytesDown, "delivered": len(gotDown)})
		}
		if mode != "dial-refused" && !bytes.HasPrefix(up, covertGot) {
			rec.Violation("relay:up:not-a-prefix", "covert received bytes that are not a prefix of what the client sent", map[string]interface{}{"case": label})
		}
		if mode == "client-rst-slow-covert" && int64(len(covertGot)) != ts.BytesUp {
			// every byte the station reports as relayed was accepted by the covert's connection before the
			// station closed it (no unread data on the station's side): a covert that keeps reading gets them all
			rec.Violation("relay:up:written-bytes-destroyed-at-teardown", "bytes the station had written to (and counted for) the covert never reached it although the covert kept reading",
				map[string]interface{}{"case": label, "reported_BytesUp": ts.BytesUp, "covert_received": len(covertGot)})
		}
		switch mode {
		case "client-finishes-first", "covert-finishes-first":
			// the direction that cannot be cut short by the other one must arrive completely
			// (with reply bytes possibly still unread when the station closes, the kernel answers the
			// close with a RST that can destroy bytes already written – TCP behaviour outside the
			// statement – so strict arrival is only demanded when no reply bytes can be pending)
			if (mode == "covert-finishes-first" || downN == 0) && !bytes.Equal(covertGot, up) {
				rec.Violation("relay:up:clean-run-incomplete", "covert did not receive exactly the client's bytes although nothing failed before they were sent", map[string]interface{}{"case": label, "sent": len(up), "got": len(covertGot)})
			}
			if ts.BytesUp != int64(len(up)) {
				rec.Violation("relay:up:byte-count", "BytesUp differs from bytes delivered to the covert", map[string]interface{}{"case": label, "reported": ts.BytesUp, "delivered": len(up)})
			}
			if mode == "covert-finishes-first" && !bytes.Equal(gotDown, down) {
				rec.Violation("relay:down:clean-run-incomplete", "client did not receive exactly the covert's bytes although the client side never failed", map[string]interface{}{"case": label, "sent": len(down), "got": len(gotDown)})
			}
		}
		rec.Count("evaluations", 1)
		rec.Distinct("nontrivial", label)
		if rec.WantSample() {
			rec.Sample(map[string]interface{}{"case": label, "summary": ts, "client_ops": opsTail(client)})
		}
	}
}
