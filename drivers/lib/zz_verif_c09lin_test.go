//go:build verif

package lib

// C09 – monitor 4: histories of the registry API (RegisteredDecoys) recorded at the caller boundary
// under free-running concurrency; the orchestrator checks them offline with porcupine against a
// sequential map model, partitioned by phantom.  Announcements are observed through the registry's
// own registerForDetector / updateInDetector function fields (called inside the critical section).

import (
	"encoding/json"
	"fmt"
	"net"
	"os"
	"path/filepath"
	"sync"
	"testing"
	"time"

	kit "github.com/refraction-networking/conjure/internal/verifkit"
	"github.com/refraction-networking/conjure/pkg/transports/wrapping/min"
	pb "github.com/refraction-networking/conjure/proto"
)

// LinOp is one operation of a recorded history (JSON, one history per line).
type c09LinOp struct {
	Client  int    `json:"c"`
	Op      string `json:"op"` // exists track trackifnot register get count active remove
	Phantom int    `json:"p"`
	ID      int    `json:"id"`  // registration index within the phantom (unused for get/count)
	Out     int    `json:"out"` // bool as 0/1, count, or bitmask of visible ids
	Call    int64  `json:"call"`
	Ret     int64  `json:"ret"`
}

func TestVerifC09Linearizability(t *testing.T) {
	rec := kit.NewRec("C09", "linearizability")
	defer rec.Close()
	out, err := os.Create(filepath.Join(kit.OutDir(), "c09_histories.jsonl"))
	if err != nil {
		t.Fatal(err)
	}
	defer out.Close()
	enc := json.NewEncoder(out)
	nHist := kit.Tier(400, 6000)
	const nPhantoms, nIDs, nClients, opsPerClient = 2, 3, 5, 9
	tr := min.Transport{}
	src := pb.RegistrationSource_API
	for h := 0; h < nHist; h++ {
		rd := NewRegisteredDecoys()
		rd.transports[pb.TransportType_Min] = tr
		rd.timeoutUnused = -1 // every unused registration counts as expired for getExpiredRegistrations
		// announcements are attributed to the calling goroutine
		var annMu sync.Mutex
		ann := map[string]int{}
		rd.registerForDetector = func(d *DecoyRegistration) { annMu.Lock(); ann[kit.GoID()]++; annMu.Unlock() }
		rd.updateInDetector = func(d *DecoyRegistration) { annMu.Lock(); ann[kit.GoID()]++; annMu.Unlock() }
		took := func() int {
			annMu.Lock()
			defer annMu.Unlock()
			g := kit.GoID()
			n := ann[g]
			ann[g] = 0
			return n
		}

		phantoms := make([]net.IP, nPhantoms)
		secrets := make([][][]byte, nPhantoms)
		idOf := map[string]int{}
		hr := kit.Rand(fmt.Sprint("c09-lin-", h))
		for p := range phantoms {
			phantoms[p] = net.IPv4(192, 122, 200, byte(p+1)).To4()
			secrets[p] = make([][]byte, nIDs)
			for i := range secrets[p] {
				s := make([]byte, 32)
				hr.Read(s)
				secrets[p][i] = s
				idOf[fmt.Sprint(p, "/", tr.GetIdentifier(&DecoyRegistration{Keys: keysOf(s)}))] = i
			}
		}
		newReg := func(p, i int) *DecoyRegistration {
			return &DecoyRegistration{PhantomIp: phantoms[p], PhantomPort: 443, Keys: keysOf(secrets[p][i]), Transport: pb.TransportType_Min, RegistrationSource: &src, Covert: "192.0.2.1:443"}
		}
		var mu sync.Mutex
		var hist []c09LinOp
		var wg sync.WaitGroup
		start := make(chan struct{})
		for c := 0; c < nClients; c++ {
			wg.Add(1)
			go func(c int) {
				defer wg.Done()
				r := kit.Rand(fmt.Sprint("c09-lin-", h, "-", c))
				<-start
				for k := 0; k < opsPerClient; k++ {
					p, i := r.Intn(nPhantoms), r.Intn(nIDs)
					op := c09LinOp{Client: c, Phantom: p, ID: i}
					kinds := []string{"exists", "track", "trackifnot", "register", "register", "get", "get", "count", "active"}
					if c == 0 {
						kinds = []string{"sweep"} // a single remover, as in the station
					}
					kind := kinds[r.Intn(len(kinds))]
					if r.Intn(4) == 0 {
						time.Sleep(time.Duration(r.Intn(30)) * time.Microsecond)
					}
					switch kind {
					case "exists":
						op.Op = "exists"
						op.Call = kit.Tick()
						if rd.RegistrationExists(newReg(p, i)) != nil {
							op.Out = 1
						}
						op.Ret = kit.Tick()
					case "track":
						op.Op = "track"
						op.Call = kit.Tick()
						rd.Track(newReg(p, i))
						op.Ret = kit.Tick()
					case "trackifnot":
						op.Op = "trackifnot"
						op.Call = kit.Tick()
						ex, _ := rd.TrackIfNotExists(newReg(p, i))
						op.Ret = kit.Tick()
						if ex {
							op.Out = 1
						}
					case "register":
						op.Op = "register"
						took()
						op.Call = kit.Tick()
						rd.register(phantoms[p].String(), newReg(p, i))
						op.Ret = kit.Tick()
						op.Out = took()
					case "get":
						op.Op = "get"
						op.Call = kit.Tick()
						regs := rd.getRegistrations(phantoms[p])
						op.Ret = kit.Tick()
						for id := range regs {
							op.Out |= 1 << uint(idOf[fmt.Sprint(p, "/", id)])
						}
					case "count":
						op.Op = "count"
						op.Call = kit.Tick()
						op.Out = rd.countRegistrations(phantoms[p])
						op.Ret = kit.Tick()
					case "active":
						op.Op = "active"
						took()
						op.Call = kit.Tick()
						rd.markActive(newReg(p, i))
						op.Ret = kit.Tick()
						op.Out = took()
					case "sweep":
						// the sweeper's two steps: an atomic snapshot of expired records, then one removal each
						for _, idx := range rd.getExpiredRegistrations() {
							rd.m.RLock()
							to := rd.decoysTimeouts[idx]
							var rp, ri int
							ok := to != nil
							if ok {
								toDecoy, toID := vTimeoutOf(to, idx)
								for pi := range phantoms {
									if phantoms[pi].String() == toDecoy {
										rp = pi
									}
								}
								ri = idOf[fmt.Sprint(rp, "/", toID)]
							}
							rd.m.RUnlock()
							if !ok {
								continue
							}
							rop := c09LinOp{Client: c, Op: "remove", Phantom: rp, ID: ri}
							rop.Call = kit.Tick()
							if rd.removeRegistration(idx) != nil {
								rop.Out = 1
							}
							rop.Ret = kit.Tick()
							mu.Lock()
							hist = append(hist, rop)
							mu.Unlock()
						}
						continue
					}
					mu.Lock()
					hist = append(hist, op)
					mu.Unlock()
				}
			}(c)
		}
		close(start)
		wg.Wait()
		if err := enc.Encode(hist); err != nil {
			t.Fatal(err)
		}
		rec.Count("evaluations", 1)
		rec.Count("operations", len(hist))
		if rec.WantSample() && h%50 == 7 {
			n := len(hist)
			if n > 10 {
				n = 10
			}
			rec.Sample(map[string]interface{}{"history": h, "first_operations": hist[:n]})
		}
	}
}
