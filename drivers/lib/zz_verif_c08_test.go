//go:build verif

package lib

// C08 – registrations expire on schedule: never early, never kept past their lifetime.
//
// Monitor: histories over {register, duplicate, validate, connect, let time pass, sweep, look up} are executed
// against the real RegistrationManager / RegisteredDecoys (real min, obfs4, prefix and DTLS transports supply
// the identifiers; registrations are built by the real parseRegMessage).  Time is simulated by back-dating the
// registrationTime of every timeout record in whole minutes from inside the package; nothing sleeps.  An
// executable reference map keyed by (secret, transport, phantom) holding {age, validated, used} says which
// registrations must be tracked; after every operation the real tracked set (the two maps, read under the
// lock) is compared with it, and at every look-up the exported API (TotalRegistrations, CountRegistrations,
// GetRegistrations) as well.  See NOTES_c08.md for what is and is not demanded.

import (
	"context"
	"errors"
	"fmt"
	"io"
	"math/bits"
	"net"
	"os"
	"reflect"
	"runtime"
	"runtime/debug"
	"sort"
	"strings"
	"sync"
	"testing"
	"time"

	"github.com/refraction-networking/conjure/internal/conjurepath"
	kit "github.com/refraction-networking/conjure/internal/verifkit"
	"github.com/refraction-networking/conjure/pkg/core"
	cjdtls "github.com/refraction-networking/conjure/pkg/dtls"
	"github.com/refraction-networking/conjure/pkg/station/log"
	cdtls "github.com/refraction-networking/conjure/pkg/transports/connecting/dtls"
	tmin "github.com/refraction-networking/conjure/pkg/transports/wrapping/min"
	"github.com/refraction-networking/conjure/pkg/transports/wrapping/obfs4"
	"github.com/refraction-networking/conjure/pkg/transports/wrapping/prefix"
	pb "github.com/refraction-networking/conjure/proto"
	"google.golang.org/protobuf/proto"
	"google.golang.org/protobuf/types/known/anypb"
)

// ---- stand-ins --------------------------------------------------------------------------------------

type c08Live struct{}

func (c08Live) PhantomIsLive(string, uint16) (bool, error) { return false, nil }
func (c08Live) PrintAndReset(*log.Logger)                  {}
func (c08Live) PrintStats(*log.Logger)                     {}
func (c08Live) Reset()                                     {}

type c08Listener struct{}

func (c08Listener) AcceptWithContext(context.Context, *cjdtls.Config) (net.Conn, error) {
	return nil, errors.New("verif: stand-in listener")
}

type c08DNAT struct{}

func (c08DNAT) AddEntry(*net.IP, uint16, *net.IP, uint16) error {
	return errors.New("verif: stand-in DNAT")
}

// ---- universe: the registrations a history can talk about ---------------------------------------

// c08Covert is where the registrations want to be proxied to: a loopback port nothing listens on, so that the
// real Proxy() of a connection does everything it does to the registration and returns on "connection refused".
const c08Covert = "127.0.0.1:1"

const (
	c08Unused = 10  // minutes: lifetime of a registration that has not carried a connection
	c08Active = 360 // minutes: lifetime of one that has
)

type c08Key struct {
	S, T    int
	V6      bool
	tt      pb.TransportType
	name    string // e.g. s0/min/v4
	msg     []byte // the C2SWrapper a registrar would deliver
	tmpl    *DecoyRegistration
	phantom net.IP
	pstr    string
	ident   string
	pidx    int
	sib     uint64 // keys with the same secret and phantom but another transport
	co      uint64 // keys of other secrets on the same phantom
}

type c08Universe struct {
	keys     []c08Key
	phantoms []net.IP
	pstrs    []string
	onPh     []uint64                  // keys per phantom index
	byEntry  map[string]map[string]int // phantom string -> identifier -> key index
	trs      map[pb.TransportType]Transport
	conf     *RegConfig
}

type c08TransportSpec struct {
	name   string
	tt     pb.TransportType
	params proto.Message
}

var c08Transports = []c08TransportSpec{
	{"min", pb.TransportType_Min, &pb.GenericTransportParams{RandomizeDstPort: proto.Bool(false)}},
	{"prefix", pb.TransportType_Prefix, &pb.PrefixTransportParams{PrefixId: proto.Int32(int32(prefix.Min)), RandomizeDstPort: proto.Bool(false)}},
	{"obfs4", pb.TransportType_Obfs4, &pb.GenericTransportParams{RandomizeDstPort: proto.Bool(false)}},
	{"dtls", pb.TransportType_DTLS, &pb.DTLSTransportParams{RandomizeDstPort: proto.Bool(false)}},
}

func c08NewManager(t *testing.T, u *c08Universe) *RegistrationManager {
	rm := NewRegistrationManager(u.conf)
	if rm == nil {
		t.Fatal("infrastructure: NewRegistrationManager returned nil")
	}
	rm.Logger = log.New(io.Discard, "", 0)
	rm.LivenessTester = c08Live{}
	for tt, tr := range u.trs {
		if err := rm.AddTransport(tt, tr); err != nil {
			t.Fatalf("infrastructure: AddTransport: %v", err)
		}
	}
	return rm
}

// c08Pin describes which secrets get a registrar-assigned phantom (RegistrationResponse override), so that
// registrations of different clients share a phantom, as they do on a busy station.
type c08Pin struct {
	v4 uint32
	v6 net.IP
}

func c08BuildUniverse(t *testing.T, nSecrets, nTransports int, pins map[int]c08Pin) *c08Universe {
	os.Setenv("PHANTOM_SUBNET_LOCATION", conjurepath.Root+"/pkg/station/lib/test/phantom_subnets.toml")
	u := &c08Universe{byEntry: map[string]map[string]int{}, trs: map[pb.TransportType]Transport{}}
	u.conf = &RegConfig{EnableIPv4: true, EnableIPv6: true}
	u.conf.ParseBlocklists()
	var priv [32]byte
	copy(priv[:], "verif-c08-station-private-key-00")
	priv[0] &= 248
	priv[31] &= 127
	priv[31] |= 64
	prefT, err := prefix.Default([][32]byte{priv})
	if err != nil {
		t.Fatalf("infrastructure: prefix.Default: %v", err)
	}
	all := map[pb.TransportType]Transport{
		pb.TransportType_Min: tmin.Transport{}, pb.TransportType_Prefix: prefT,
		pb.TransportType_Obfs4: obfs4.Transport{}, pb.TransportType_DTLS: cdtls.VerifNewTransport(c08Listener{}, c08DNAT{}),
	}
	for i := 0; i < nTransports; i++ {
		u.trs[c08Transports[i].tt] = all[c08Transports[i].tt]
	}
	rm := c08NewManager(t, u)

	rng := kit.Rand("c08-universe")
	phIdx := map[string]int{}
	lastErr := ""
	for s := 0; s < nSecrets; s++ {
		pin, pinned := pins[s]
		for try := 0; ; try++ {
			if try > 5000 {
				t.Fatalf("infrastructure: cannot find a secret whose derived phantoms have the wanted families (last error: %s)", lastErr)
			}
			secret := make([]byte, 32)
			rng.Read(secret)
			var ks []c08Key
			ok := true
			for ti := 0; ti < nTransports && ok; ti++ {
				for _, v6 := range []bool{false, true} {
					k := c08Key{S: s, T: ti, V6: v6, tt: c08Transports[ti].tt}
					fam := "v4"
					if v6 {
						fam = "v6"
					}
					k.name = fmt.Sprintf("s%d/%s/%s", s, c08Transports[ti].name, fam)
					ap, err := anypb.New(c08Transports[ti].params)
					if err != nil {
						t.Fatal(err)
					}
					src := pb.RegistrationSource_API
					w := &pb.C2SWrapper{
						SharedSecret: secret,
						RegistrationPayload: &pb.ClientToStation{
							ClientLibVersion: proto.Uint32(core.CurrentClientLibraryVersion()), Transport: c08Transports[ti].tt.Enum(),
							CovertAddress: proto.String(c08Covert), DecoyListGeneration: proto.Uint32(957),
							V4Support: proto.Bool(!v6), V6Support: proto.Bool(v6), TransportParams: ap,
						},
						RegistrationSource:  &src,
						RegistrationAddress: []byte(net.IPv4(203, 0, 113, byte(10+s)).To4()),
					}
					if pinned {
						w.RegistrationResponse = &pb.RegistrationResponse{Ipv4Addr: proto.Uint32(pin.v4), Ipv6Addr: []byte(pin.v6.To16())}
					}
					k.msg, err = proto.Marshal(w)
					if err != nil {
						t.Fatal(err)
					}
					regs, err := rm.parseRegMessage(k.msg)
					if err != nil || len(regs) != 1 || regs[0] == nil {
						// phantom selection refuses some seeds (C14's business): take another secret
						lastErr = fmt.Sprintf("parseRegMessage(%s): %d registrations, err %v", k.name, len(regs), err)
						ok = false
						break
					}
					k.tmpl = regs[0]
					if (k.tmpl.PhantomIp.To4() == nil) != v6 {
						ok = false // the v6-capable selection drew a v4 phantom: take another secret
						break
					}
					k.phantom = append(net.IP(nil), k.tmpl.PhantomIp...)
					k.pstr = k.phantom.String()
					k.ident = u.trs[k.tt].GetIdentifier(k.tmpl)
					if k.ident == "" {
						t.Fatalf("infrastructure: empty identifier for %s", k.name)
					}
					ks = append(ks, k)
				}
			}
			if !ok {
				continue
			}
			for _, k := range ks {
				pi, seen := phIdx[k.pstr]
				if !seen {
					pi = len(u.phantoms)
					phIdx[k.pstr] = pi
					u.phantoms = append(u.phantoms, k.phantom)
					u.pstrs = append(u.pstrs, k.pstr)
					u.onPh = append(u.onPh, 0)
					u.byEntry[k.pstr] = map[string]int{}
				}
				k.pidx = pi
				if _, dup := u.byEntry[k.pstr][k.ident]; dup {
					t.Fatalf("infrastructure: two universe registrations share phantom and identifier (%s)", k.name)
				}
				u.byEntry[k.pstr][k.ident] = len(u.keys)
				u.onPh[pi] |= 1 << uint(len(u.keys))
				u.keys = append(u.keys, k)
			}
			break
		}
	}
	if len(u.keys) > 64 {
		t.Fatal("infrastructure: universe too large for the bit sets")
	}
	for i := range u.keys {
		for j := range u.keys {
			if i == j || u.keys[i].pidx != u.keys[j].pidx {
				continue
			}
			if u.keys[i].S == u.keys[j].S {
				u.keys[i].sib |= 1 << uint(j)
			} else {
				u.keys[i].co |= 1 << uint(j)
			}
		}
	}
	return u
}

// ---- operations -------------------------------------------------------------------------------------

const (
	c08Reg    = iota // deliver the registration: TrackRegistration (a duplicate if it is tracked already)
	c08Val           // validation succeeded: AddRegistration
	c08Con           // a connection matched it: GetRegistrations(phantom)[identifier] then MarkActive
	c08Adv           // let D minutes pass
	c08Sweep         // RemoveOldRegistrations
	c08Look          // look everything up through the exported API
	c08Ingest        // the whole real ingest pipeline on a freshly parsed message (register + validate, or duplicate)
)

type c08Op struct {
	Kind uint8
	K    int8  // key index
	D    int16 // minutes
}

func (o c08Op) keyed() bool {
	return o.Kind == c08Reg || o.Kind == c08Val || o.Kind == c08Con || o.Kind == c08Ingest
}

// c08Enum describes one exhaustive enumeration.
type c08Enum struct {
	alpha, alphaS0 []c08Op // all letters; the letters allowed while no registration has been named yet
	maxLen         int
	symmetric      bool // enumerate modulo renaming of the two secrets: the first registration named is one of secret 0
	proxy          bool // matched connections also go through the real Proxy() (a refused loopback dial each)
}

func (en *c08Enum) letters(seenKey bool) []c08Op {
	if en.symmetric && !seenKey {
		return en.alphaS0
	}
	return en.alpha
}

func (u *c08Universe) opString(o c08Op) string {
	switch o.Kind {
	case c08Reg:
		return "register(" + u.keys[o.K].name + ")"
	case c08Val:
		return "validate(" + u.keys[o.K].name + ")"
	case c08Con:
		return "connect(" + u.keys[o.K].name + ")"
	case c08Ingest:
		return "ingest(" + u.keys[o.K].name + ")"
	case c08Adv:
		if o.D%60 == 0 {
			return fmt.Sprintf("advance(%dh)", o.D/60)
		}
		return fmt.Sprintf("advance(%dm)", o.D)
	case c08Sweep:
		return "sweep"
	default:
		return "lookup"
	}
}

func (u *c08Universe) seqString(seq []c08Op) string {
	s := make([]string, len(seq))
	for i, o := range seq {
		s[i] = u.opString(o)
	}
	return strings.Join(s, " ")
}

// ---- reference ------------------------------------------------------------------------------------

type c08Ent struct {
	tracked, valid, used bool
	age                  int  // whole minutes since it was first tracked (a duplicate does not renew it)
	hadSib, hadCo        bool // during this tracking epoch it was tracked together with a sibling / a co-tenant
	ever                 bool // was tracked at some point of this history
	proxied              bool // a connection of it went through the real Proxy()
	lastUsed             bool
}

const (
	c08Keep = iota
	c08Expired
	c08Either // exactly on a boundary: real elapsed nanoseconds decide, either outcome is accepted
)

func (e *c08Ent) status() int {
	lim := c08Unused
	if e.used {
		lim = c08Active
	}
	switch {
	case e.age < lim:
		return c08Keep
	case e.age == lim:
		return c08Either
	}
	return c08Expired
}

func (e *c08Ent) usedStr() string {
	if e.used || (!e.tracked && e.lastUsed) {
		return "used"
	}
	return "unused"
}

func (e *c08Ent) ctx() string {
	switch {
	case e.hadSib:
		return "same-secret-two-transports"
	case e.hadCo:
		return "shared-phantom"
	}
	return "alone"
}

// ---- worker: one real RegistrationManager + one reference ------------------------------------------

// c08Cnt counts what the sweeps of one history had to decide.
type c08Cnt struct {
	sweepsBusy int
	nKeep      int
	nExpUnused int
	nExpUsed   int
	nKeptUsed  int // kept by a sweep only because it had carried a connection (age >= 10 min)
	nEither    int
	nAdoptGone int
	nExpProxy  int // expired although (in fact: regardless of whether) it had been proxied
}

type c08Viol struct {
	sig, msg string
	pos      int
	witness  interface{} // the state at the moment of the observation (only built for the first few per signature)
}

type c08Worker struct {
	t     *testing.T
	u     *c08Universe
	rec   *kit.Rec
	rm    *RegistrationManager
	m     []c08Ent
	fresh bool // parse the message afresh for every delivery (else: copy of the once-parsed registration)
	proxy bool // a matched connection also goes through the real Proxy(), as in the connection handler
	full  bool // API-level look-up after every operation (else: after the last one)

	detNew, detUpd int64

	// per history
	seq        []c08Op
	reportFrom int
	structBad  bool
	diverged   bool
	viols      []c08Viol
	touched    uint64 // phantoms the history has mentioned
	c          c08Cnt
	prevC      c08Cnt // the counters before the last operation of the history

	// totals
	evals, nontrivial, cut, lookups, steps int64
	decKeep, decExpUnused, decExpUsed      int64
	decKeptUsed, decEither, adoptGone      int64
	dupDeliveries, connMatched, connNone   int64
	shapes                                 map[uint64]struct{}
	sigN                                   map[string]int
	slow                                   int64
	fastObjections, fastMismatch           int64
	proxyCalls, decExpProxy                int64
	crossChecks                            int64
}

func c08NewWorker(t *testing.T, u *c08Universe, rec *kit.Rec) *c08Worker {
	return &c08Worker{t: t, u: u, rec: rec, rm: c08NewManager(t, u), m: make([]c08Ent, len(u.keys)),
		shapes: map[uint64]struct{}{}, sigN: map[string]int{}}
}

func (w *c08Worker) reset() {
	rd := NewRegisteredDecoys()
	// the detector channel is not what this property is about (C10): count the announcements instead of
	// publishing them to Redis
	rd.registerForDetector = func(*DecoyRegistration) { w.detNew++ }
	rd.updateInDetector = func(*DecoyRegistration) { w.detUpd++ }
	w.rm.registeredDecoys = rd
	for tt, tr := range w.u.trs {
		if err := w.rm.AddTransport(tt, tr); err != nil {
			panic(fmt.Sprintf("infrastructure: AddTransport: %v", err))
		}
	}
	for i := range w.m {
		w.m[i] = c08Ent{}
	}
	w.structBad, w.diverged = false, false
	w.viols = w.viols[:0]
	w.c = c08Cnt{}
	w.touched = 0
}

func (w *c08Worker) newReg(k int, fresh bool) *DecoyRegistration {
	if fresh || w.fresh {
		regs, err := w.rm.parseRegMessage(w.u.keys[k].msg)
		if err != nil || len(regs) != 1 {
			panic(fmt.Sprintf("infrastructure: parseRegMessage(%s): %v", w.u.keys[k].name, err))
		}
		return regs[0]
	}
	d := *w.u.keys[k].tmpl // what a second parse of the same bytes yields (the key material is only read)
	return &d
}

func (w *c08Worker) modelTrack(k int) {
	e := &w.m[k]
	*e = c08Ent{tracked: true, ever: true}
	key := &w.u.keys[k]
	for rest := key.sib | key.co; rest != 0; rest &= rest - 1 {
		j := bits.TrailingZeros64(rest)
		if !w.m[j].tracked {
			continue
		}
		if key.sib&(1<<uint(j)) != 0 {
			e.hadSib, w.m[j].hadSib = true, true
		} else {
			e.hadCo, w.m[j].hadCo = true, true
		}
	}
}

func (w *c08Worker) modelUntrack(k int) {
	e := &w.m[k]
	e.lastUsed = e.used
	e.tracked, e.valid, e.used = false, false, false
}

func (w *c08Worker) violate(pos int, sig, msg string) {
	v := c08Viol{sig: sig, msg: msg, pos: pos}
	if pos >= w.reportFrom && w.sigN[sig] < 2 {
		v.witness = w.witness(v)
	}
	w.viols = append(w.viols, v)
}

// apply executes one operation on the real code and on the reference.
func (w *c08Worker) apply(pos int, o c08Op) {
	w.steps++
	if o.Kind == c08Reg || o.Kind == c08Val || o.Kind == c08Con || o.Kind == c08Ingest {
		w.touched |= 1 << uint(w.u.keys[o.K].pidx)
	}
	switch o.Kind {
	case c08Reg:
		k := int(o.K)
		if err := w.rm.TrackRegistration(w.newReg(k, false)); err != nil {
			panic(fmt.Sprintf("infrastructure: TrackRegistration(%s): %v", w.u.keys[k].name, err))
		}
		if w.m[k].tracked {
			w.dupDeliveries++
		} else {
			w.modelTrack(k)
		}
	case c08Val:
		k := int(o.K)
		w.rm.AddRegistration(w.newReg(k, false))
		if !w.m[k].tracked {
			w.modelTrack(k)
		}
		w.m[k].valid = true
	case c08Ingest:
		k := int(o.K)
		w.rm.ingestRegistration(w.newReg(k, true))
		if w.m[k].tracked {
			w.dupDeliveries++ // the pipeline stops at "duplicate": nothing is (re)validated
		} else {
			w.modelTrack(k)
			w.m[k].valid = true
		}
	case c08Con:
		k := int(o.K)
		key := &w.u.keys[k]
		e := &w.m[k]
		got, ok := w.rm.GetRegistrations(key.phantom)[key.ident]
		expect := e.tracked && e.valid
		if e.tracked && e.status() != c08Keep {
			expect = ok && e.valid // past its lifetime but not swept yet: it may or may not still match
		}
		switch {
		case ok && !expect && !e.tracked:
			w.diverged = true
			w.violate(pos, "match:forgotten-registration-matches:"+e.usedStr()+":"+e.ctx(),
				fmt.Sprintf("a connection for %s matched although the registration had expired and been swept", key.name))
		case ok && !expect:
			w.diverged = true
			w.violate(pos, "match:unvalidated-registration-matches", fmt.Sprintf("a connection for %s matched although it was never validated", key.name))
		case !ok && expect:
			w.diverged = true
			w.violate(pos, "match:live-registration-does-not-match:"+e.usedStr()+":"+e.ctx(),
				fmt.Sprintf("%s is validated and within its lifetime (age %d min, %s) but the look-up by phantom and identifier does not return it", key.name, e.age, e.usedStr()))
		}
		if ok {
			dr, isReg := got.(*DecoyRegistration)
			if !isReg || string(dr.Keys.SharedSecret) != string(key.tmpl.Keys.SharedSecret) || dr.Transport != key.tt {
				w.diverged = true
				w.violate(pos, "match:wrong-registration", fmt.Sprintf("the look-up for %s returned another registration", key.name))
			} else {
				// what handleNewConn does with the registration a transport returned: MarkActive, then Proxy
				w.rm.MarkActive(dr)
				if w.proxy {
					laddr := &net.TCPAddr{IP: key.phantom, Port: int(dr.PhantomPort)}
					raddr := &net.TCPAddr{IP: net.IPv4(203, 0, 113, byte(10+key.S)).To4(), Port: 40000 + pos}
					Proxy(dr, kit.NewScriptConn("client", laddr, raddr, nil, kit.EndEOF), w.rm.Logger)
					w.proxyCalls++
				}
				if expect {
					e.used = true
					e.proxied = e.proxied || w.proxy
				}
				w.connMatched++
			}
		} else {
			w.connNone++
		}
	case c08Adv:
		rd := w.rm.registeredDecoys
		d := time.Duration(o.D) * time.Minute
		rd.m.Lock()
		for _, to := range rd.decoysTimeouts {
			to.registrationTime = to.registrationTime.Add(-d)
		}
		rd.m.Unlock()
		for i := range w.m {
			if w.m[i].tracked {
				w.m[i].age += int(o.D)
			}
		}
	case c08Sweep:
		w.rm.RemoveOldRegistrations()
		busy := false
		for i := range w.m {
			e := &w.m[i]
			if !e.tracked {
				continue
			}
			busy = true
			switch e.status() {
			case c08Keep:
				w.c.nKeep++
				if e.age >= c08Unused {
					w.c.nKeptUsed++
				}
			case c08Expired:
				if e.used {
					w.c.nExpUsed++
					if e.proxied {
						w.c.nExpProxy++
					}
				} else {
					w.c.nExpUnused++
				}
				w.modelUntrack(i)
			case c08Either:
				w.c.nEither++ // resolved by observe()
			}
		}
		if busy {
			w.c.sweepsBusy++
		}
	case c08Look:
	}
}

// observe reads the two maps under the lock and compares the tracked set with the reference.
func (w *c08Worker) observe(pos int, afterSweep bool) {
	u := w.u
	rd := w.rm.registeredDecoys
	var seen, covered uint64
	nrec, unknownEntries, unknownRecs, emptyBuckets, doubleRecs := 0, 0, 0, 0, 0
	rd.m.RLock()
	for p, set := range rd.decoys {
		if len(set) == 0 {
			emptyBuckets++
		}
		ids := u.byEntry[p]
		for id := range set {
			if k, ok := ids[id]; ok {
				seen |= 1 << uint(k)
			} else {
				unknownEntries++
			}
		}
	}
	for tkey, to := range rd.decoysTimeouts {
		nrec++
		toDecoy, toID := vTimeoutOf(to, tkey)
		if k, ok := u.byEntry[toDecoy][toID]; ok {
			if covered&(1<<uint(k)) != 0 {
				doubleRecs++
			}
			covered |= 1 << uint(k)
		} else {
			unknownRecs++
		}
	}
	rd.m.RUnlock()

	if unknownEntries > 0 {
		w.diverged = true
		w.violate(pos, "tracked:unknown-entry", fmt.Sprintf("%d tracked entries that no delivered registration explains", unknownEntries))
		return
	}
	var tracked uint64
	for k := range w.m {
		e := &w.m[k]
		real := seen&(1<<uint(k)) != 0
		switch {
		case e.tracked && e.status() == c08Keep:
			if !real {
				w.diverged = true
				w.violate(pos, "early:"+e.usedStr()+":"+e.ctx(),
					fmt.Sprintf("%s (age %d min, %s) is within its lifetime but is no longer tracked", u.keys[k].name, e.age, e.usedStr()))
			}
		case e.tracked:
			// past its lifetime and not swept yet, or exactly on a boundary at a sweep: accept what the code did
			if !real {
				w.modelUntrack(k)
				w.c.nAdoptGone++
			}
		case real:
			w.diverged = true
			if e.ever {
				w.violate(pos, "kept:"+e.usedStr()+":"+e.ctx(),
					fmt.Sprintf("%s outlived its lifetime: the reference expired it (%s) at a sweep but it is still tracked", u.keys[k].name, e.usedStr()))
			} else {
				w.violate(pos, "tracked:never-registered", fmt.Sprintf("%s is tracked but was never delivered", u.keys[k].name))
			}
		}
		if e.tracked {
			tracked |= 1 << uint(k)
		}
	}
	if w.diverged {
		return
	}
	// timeout records: exactly one per tracked registration, none for anything else (bounded state, and a
	// registration without a record can never expire)
	missing := tracked &^ covered
	orphan := covered &^ tracked
	bad := missing != 0 || orphan != 0 || unknownRecs != 0 || doubleRecs != 0 || nrec != bits.OnesCount64(tracked)
	if bad && !w.structBad {
		ctx := "alone"
		pick := missing | orphan
		if pick == 0 {
			pick = tracked
		}
		for rest := pick; rest != 0; rest &= rest - 1 {
			c := w.m[bits.TrailingZeros64(rest)].ctx()
			if c == "same-secret-two-transports" || (c == "shared-phantom" && ctx == "alone") {
				ctx = c
			}
		}
		kind := "count"
		switch {
		case missing != 0:
			kind = "missing"
		case orphan != 0 || unknownRecs != 0:
			kind = "orphan"
		case doubleRecs != 0:
			kind = "double"
		}
		w.violate(pos, "timeout-records:"+kind+":"+ctx,
			fmt.Sprintf("%d timeout records for %d tracked registrations (without a record: %s; records for untracked registrations: %s, unexplained: %d)",
				nrec, bits.OnesCount64(tracked), w.names(missing), w.names(orphan), unknownRecs))
	}
	w.structBad = bad
	if afterSweep && emptyBuckets > 0 {
		w.violate(pos, "leftover:empty-phantom-bucket", fmt.Sprintf("%d phantoms keep an empty bucket after the sweep", emptyBuckets))
	}
}

func (w *c08Worker) names(set uint64) string {
	if set == 0 {
		return "-"
	}
	var s []string
	for rest := set; rest != 0; rest &= rest - 1 {
		s = append(s, w.u.keys[bits.TrailingZeros64(rest)].name)
	}
	return strings.Join(s, ",")
}

// lookup compares the exported API with the reference (the reference equals the tracked set at this point).
func (w *c08Worker) lookup(pos int) {
	w.lookups++
	u := w.u
	total := 0
	for k := range w.m {
		if w.m[k].tracked {
			total++
		}
	}
	if got := w.rm.registeredDecoys.TotalRegistrations(); got != total {
		w.diverged = true
		w.violate(pos, "count:total", fmt.Sprintf("TotalRegistrations() = %d, reference %d", got, total))
		return
	}
	for pi, ph := range u.phantoms {
		if !w.full && w.touched&(1<<uint(pi)) == 0 {
			continue // never mentioned: observe() has just seen that nothing is tracked there
		}
		want, wantValid := 0, uint64(0)
		var dontCare uint64
		for rest := u.onPh[pi]; rest != 0; rest &= rest - 1 {
			k := bits.TrailingZeros64(rest)
			e := &w.m[k]
			if !e.tracked {
				continue
			}
			want++
			if e.status() != c08Keep {
				dontCare |= 1 << uint(k)
			} else if e.valid {
				wantValid |= 1 << uint(k)
			}
		}
		if got := w.rm.CountRegistrations(ph); got != want {
			w.diverged = true
			w.violate(pos, "count:phantom", fmt.Sprintf("CountRegistrations(%s) = %d, reference %d", u.pstrs[pi], got, want))
			return
		}
		var gotValid uint64
		for id, r := range w.rm.GetRegistrations(ph) {
			k, ok := u.byEntry[u.pstrs[pi]][id]
			if !ok {
				w.diverged = true
				w.violate(pos, "lookup:unknown-identifier", fmt.Sprintf("GetRegistrations(%s) returns an identifier nothing explains", u.pstrs[pi]))
				return
			}
			dr, isReg := r.(*DecoyRegistration)
			if !isReg || dr.Transport != u.keys[k].tt || string(dr.Keys.SharedSecret) != string(u.keys[k].tmpl.Keys.SharedSecret) {
				w.diverged = true
				w.violate(pos, "lookup:wrong-registration", fmt.Sprintf("GetRegistrations(%s)[identifier of %s] is another registration", u.pstrs[pi], u.keys[k].name))
				return
			}
			gotValid |= 1 << uint(k)
		}
		gotValid &^= dontCare
		if x := gotValid &^ wantValid; x != 0 {
			k := bits.TrailingZeros64(x)
			e := &w.m[k]
			w.diverged = true
			if e.tracked {
				w.violate(pos, "lookup:unvalidated-returned", fmt.Sprintf("GetRegistrations(%s) returns %s, which was never validated", u.pstrs[pi], u.keys[k].name))
			} else {
				w.violate(pos, "lookup:expired-returned:"+e.usedStr()+":"+e.ctx(), fmt.Sprintf("GetRegistrations(%s) returns the expired %s", u.pstrs[pi], u.keys[k].name))
			}
			return
		}
		if x := wantValid &^ gotValid; x != 0 {
			k := bits.TrailingZeros64(x)
			w.diverged = true
			w.violate(pos, "lookup:valid-not-returned:"+w.m[k].usedStr()+":"+w.m[k].ctx(),
				fmt.Sprintf("GetRegistrations(%s) does not return %s (validated, age %d min, %s)", u.pstrs[pi], u.keys[k].name, w.m[k].age, w.m[k].usedStr()))
			return
		}
	}
}

func c08PanicSite(stack string) string {
	for _, l := range strings.Split(stack, "\n") {
		if !strings.HasPrefix(l, "github.com/refraction-networking/conjure/") {
			continue
		}
		fn := l
		if i := strings.LastIndex(fn, "("); i > 0 {
			fn = fn[:i]
		}
		if strings.Contains(fn, "c08") || strings.Contains(fn, "verifkit") {
			continue
		}
		return strings.TrimPrefix(fn, "github.com/refraction-networking/conjure/")
	}
	return "?"
}

// step executes one operation and the checks that follow it.
func (w *c08Worker) step(i int, o c08Op, last bool) {
	w.apply(i, o)
	if !w.diverged {
		w.observe(i, o.Kind == c08Sweep)
	}
	if !w.diverged && (w.full || last || o.Kind == c08Look) {
		w.lookup(i)
	}
}

// run executes one history from an empty registry.  It returns true if the real code diverged from the
// reference in the tracked set (the history is then not worth extending: the reference cannot follow).
// Only violations that appear at or after position reportFrom are reported (exhaustive enumeration is
// prefix closed: what an earlier position shows was reported for the shorter history).
func (w *c08Worker) run(seq []c08Op, reportFrom int, count bool) (diverged bool) {
	w.reset()
	w.seq, w.reportFrom = seq, reportFrom
	t0 := time.Now()
	func() {
		defer func() {
			if r := recover(); r != nil {
				st := string(debug.Stack())
				if strings.Contains(fmt.Sprint(r), "infrastructure:") {
					panic(r)
				}
				w.diverged = true
				w.violate(len(seq)-1, "panic:"+c08PanicSite(st), fmt.Sprintf("the registry panicked: %v", r))
			}
		}()
		for i, o := range seq {
			if i == len(seq)-1 {
				w.prevC = w.c
			}
			w.step(i, o, i == len(seq)-1)
			if w.diverged {
				break
			}
		}
	}()
	if el := time.Since(t0); el > 30*time.Second {
		// ages are kept a whole minute away from the limits; a history that took this long is not judged
		w.slow++
		w.rec.Inconclusive("history took too long in real time to be judged", map[string]interface{}{"elapsed": el.String(), "history": w.u.seqString(seq)})
		return true
	}
	w.report()
	if count {
		w.account(seq)
	}
	return w.diverged
}

func (w *c08Worker) report() {
	for _, v := range w.viols {
		if v.pos < w.reportFrom {
			if w.reportFrom < 1<<30 {
				w.cut++
			}
			continue
		}
		w.sigN[v.sig]++
		w.rec.Violation(v.sig, v.msg, v.witness)
	}
}

// account does the coverage bookkeeping for one executed history.
func (w *c08Worker) account(seq []c08Op) {
	w.evals++
	if w.c.sweepsBusy > 0 {
		w.nontrivial++
		h := uint64(14695981039346656037)
		mix := func(x uint64) { h = (h ^ x) * 1099511628211 }
		for _, o := range seq {
			mix(uint64(o.Kind)<<16 | uint64(uint16(o.D)))
		}
		mix(uint64(w.c.nKeep)<<40 | uint64(w.c.nExpUnused)<<20 | uint64(w.c.nExpUsed))
		w.shapes[h] = struct{}{}
	}
}

// addDecisions adds the sweep decisions of the last operation (cur minus what the prefix had) to the totals.
func (w *c08Worker) addDecisions(prev c08Cnt) {
	w.decKeep += int64(w.c.nKeep - prev.nKeep)
	w.decExpUnused += int64(w.c.nExpUnused - prev.nExpUnused)
	w.decExpUsed += int64(w.c.nExpUsed - prev.nExpUsed)
	w.decKeptUsed += int64(w.c.nKeptUsed - prev.nKeptUsed)
	w.decEither += int64(w.c.nEither - prev.nEither)
	w.adoptGone += int64(w.c.nAdoptGone - prev.nAdoptGone)
	w.decExpProxy += int64(w.c.nExpProxy - prev.nExpProxy)
}

// ---- enumeration without re-executing the prefix ------------------------------------------------------
//
// Depth-first enumeration executes only the LAST operation of each history with the real code, on a copy of
// the real state its prefix produced (the two maps are copied entry by entry, the ages are preserved by
// shifting registrationTime by the real time that passed since the copy was taken).  Anything the checks
// object to is re-executed from an empty registry by run() and only what run() observes is reported; a
// sample of the unobjectionable histories is re-executed as well and the two states are compared, so an
// unfaithful copy shows up as "inconclusive", never as a verdict.

type c08Frame struct {
	decoys    map[string]map[string]*DecoyRegistration
	timeouts  map[string]*DecoyTimeout
	at        time.Time
	m         []c08Ent
	structBad bool
	touched   uint64
	c         c08Cnt
}

// c08CanCopy reports whether the registry still has exactly the state this file knows how to copy.
func c08CanCopy() (bool, string) {
	want := map[string]bool{"decoys": true, "transports": true, "decoysTimeouts": true, "m": true, "timeoutActive": true,
		"timeoutUnused": true, "registerForDetector": true, "updateInDetector": true}
	rt := reflect.TypeOf(RegisteredDecoys{})
	for i := 0; i < rt.NumField(); i++ {
		if !want[rt.Field(i).Name] {
			return false, "RegisteredDecoys has a field this driver does not know: " + rt.Field(i).Name
		}
	}
	if rt.NumField() != len(want) {
		return false, "RegisteredDecoys lost a field"
	}
	tt := reflect.TypeOf(DecoyTimeout{})
	for i := 0; i < tt.NumField(); i++ {
		switch k := tt.Field(i).Type.Kind(); {
		case k == reflect.String || k == reflect.Int || k == reflect.Bool || k == reflect.Int64:
		case tt.Field(i).Type == reflect.TypeOf(time.Time{}):
		default:
			return false, "DecoyTimeout has a field that a struct copy may not copy: " + tt.Field(i).Name
		}
	}
	return true, ""
}

// take turns the live state into an immutable frame (the live maps are handed over, not copied).
func (w *c08Worker) take() *c08Frame {
	rd := w.rm.registeredDecoys
	rd.m.Lock()
	f := &c08Frame{decoys: rd.decoys, timeouts: rd.decoysTimeouts, at: time.Now(), m: append([]c08Ent(nil), w.m...),
		structBad: w.structBad, touched: w.touched, c: w.c}
	rd.decoys, rd.decoysTimeouts = nil, nil
	rd.m.Unlock()
	return f
}

// restore makes the live state a private copy of the frame.
func (w *c08Worker) restore(f *c08Frame) {
	rd := w.rm.registeredDecoys
	decoys := make(map[string]map[string]*DecoyRegistration, len(f.decoys))
	for p, set := range f.decoys {
		c := make(map[string]*DecoyRegistration, len(set))
		for id, r := range set {
			d := *r
			c[id] = &d
		}
		decoys[p] = c
	}
	timeouts := make(map[string]*DecoyTimeout, len(f.timeouts))
	shift := time.Since(f.at)
	for idx, to := range f.timeouts {
		d := *to
		d.registrationTime = d.registrationTime.Add(shift)
		timeouts[idx] = &d
	}
	rd.m.Lock()
	rd.decoys, rd.decoysTimeouts = decoys, timeouts
	rd.m.Unlock()
	copy(w.m, f.m)
	w.structBad, w.touched, w.c = f.structBad, f.touched, f.c
	w.diverged = false
	w.viols = w.viols[:0]
}

// digest summarises the real state and the reference (for comparing the two ways of getting there).
func (w *c08Worker) digest() string {
	var parts []string
	rd := w.rm.registeredDecoys
	rd.m.RLock()
	for p, set := range rd.decoys {
		for id, r := range set {
			parts = append(parts, fmt.Sprintf("D %s %x valid=%v n=%d tunnels=%d", p, id, r.Valid, r.regCount, r.tunnelCount))
		}
	}
	for idx, to := range rd.decoysTimeouts {
		toDecoy, toID := vTimeoutOf(to, idx)
		parts = append(parts, fmt.Sprintf("T %x -> %s %x used=%v age=%s", idx, toDecoy, toID, to.status == regStatusUsed,
			time.Since(to.registrationTime).Round(time.Minute)))
	}
	rd.m.RUnlock()
	sort.Strings(parts)
	return strings.Join(parts, "\n") + fmt.Sprintf("\nM %+v bad=%v", w.m, w.structBad)
}

// dfs visits every extension of the history buf[:n], whose state is f.
func (w *c08Worker) dfs(buf []c08Op, n int, f *c08Frame, en *c08Enum, seenKey bool) {
	for _, a := range en.letters(seenKey) {
		buf[n] = a
		seq := buf[:n+1]
		w.restore(f)
		w.seq, w.reportFrom = seq, 1<<30 // the fast path never reports by itself
		panicked := false
		func() {
			defer func() {
				if r := recover(); r != nil {
					if strings.Contains(fmt.Sprint(r), "infrastructure:") {
						panic(r)
					}
					panicked = true
				}
			}()
			w.step(n, a, true)
		}()
		if panicked || w.diverged || len(w.viols) > 0 {
			// re-execute the whole history from an empty registry; only that run reports
			w.fastObjections++
			div := w.run(seq, n, true)
			if len(w.viols) == 0 && !div {
				w.rec.Inconclusive("the copied state objected but the re-executed history did not", w.u.seqString(seq))
				w.fastMismatch++
			}
			w.addDecisions(f.c)
			if div || panicked {
				continue
			}
		} else {
			w.addDecisions(f.c)
			w.account(seq)
			if w.evals%4099 == 0 {
				// cross-check the copy against a re-execution
				fast := w.digest()
				w.run(seq, 1<<30, false)
				if slow := w.digest(); slow != fast {
					w.fastMismatch++
					w.rec.Inconclusive("the copied state differs from the re-executed history", map[string]interface{}{"history": w.u.seqString(seq), "copied": fast, "re-executed": slow})
				}
				w.crossChecks++
			}
		}
		if n+1 < en.maxLen {
			w.dfs(buf, n+1, w.take(), en, seenKey || a.keyed())
		}
	}
}

func (w *c08Worker) witness(v c08Viol) interface{} {
	u := w.u
	var hist []string
	for i, o := range w.seq {
		s := u.opString(o)
		if i == v.pos {
			s += "   <== observed here"
		}
		hist = append(hist, s)
		if i == v.pos {
			break
		}
	}
	var ref []string
	for k := range w.m {
		e := &w.m[k]
		if e.tracked {
			ref = append(ref, fmt.Sprintf("%s{age=%dm valid=%v used=%v}", u.keys[k].name, e.age, e.valid, e.used))
		}
	}
	var real, recs []string
	rd := w.rm.registeredDecoys
	rd.m.RLock()
	for p, set := range rd.decoys {
		for id, r := range set {
			n := "?"
			if k, ok := u.byEntry[p][id]; ok {
				n = u.keys[k].name
			}
			real = append(real, fmt.Sprintf("%s{valid=%v}", n, r.Valid))
		}
	}
	for idx, to := range rd.decoysTimeouts {
		n := "?"
		toDecoy, toID := vTimeoutOf(to, idx)
		if k, ok := u.byEntry[toDecoy][toID]; ok {
			n = u.keys[k].name
		}
		recs = append(recs, fmt.Sprintf("record[%s…%s] -> %s age=%s used=%v", kit.HexN([]byte(idx[:4]), 4), toDecoy, n,
			time.Since(to.registrationTime).Round(time.Minute), to.status == regStatusUsed))
	}
	rd.m.RUnlock()
	sort.Strings(real)
	sort.Strings(recs)
	return map[string]interface{}{"history": hist, "reference_tracked": ref, "real_tracked": real, "real_timeout_records": recs}
}

func (w *c08Worker) flush(mon string) {
	r := w.rec
	r.Count("evaluations", int(w.evals))
	r.Count("histories_with_expiry_decision", int(w.nontrivial))
	r.Count("operations_executed", int(w.steps))
	r.Count("api_lookups", int(w.lookups))
	r.Count("sweep_decisions_keep", int(w.decKeep))
	r.Count("sweep_decisions_keep_only_because_used", int(w.decKeptUsed))
	r.Count("sweep_decisions_expire_unused", int(w.decExpUnused))
	r.Count("sweep_decisions_expire_used", int(w.decExpUsed))
	r.Count("sweep_decisions_expire_used_after_real_proxy", int(w.decExpProxy))
	r.Count("connections_through_real_proxy", int(w.proxyCalls))
	r.Count("sweep_decisions_on_boundary_either_accepted", int(w.decEither))
	r.Count("past_lifetime_gone_before_sweep_accepted", int(w.adoptGone))
	r.Count("duplicate_deliveries", int(w.dupDeliveries))
	r.Count("connections_matched", int(w.connMatched))
	r.Count("connections_unmatched", int(w.connNone))
	r.Count("detector_new", int(w.detNew))
	r.Count("detector_update", int(w.detUpd))
	r.Count("violations_in_prefix_not_rereported", int(w.cut))
	r.Count("histories_too_slow_not_judged", int(w.slow))
	r.Count("histories_re_executed_from_scratch_after_objection", int(w.fastObjections))
	r.Count("copied_state_cross_checks", int(w.crossChecks))
	r.Count("copied_state_mismatches", int(w.fastMismatch))
	for h := range w.shapes {
		r.Distinct("nontrivial", mon, h)
	}
}

func c08Workers() int {
	n := runtime.GOMAXPROCS(0) / 2
	if n > kit.Tier(6, 8) {
		n = kit.Tier(6, 8)
	}
	if n < 1 {
		n = 1
	}
	return n
}

// ---- exhaustive: every history up to a bounded length over a small universe --------------------------

func TestVerifC08Exhaustive(t *testing.T) {
	rec := kit.NewRec("C08", "exhaustive")
	defer rec.Close()
	u := c08BuildUniverse(t, 2, 2, nil) // 2 secrets x {min, prefix} x {v4, v6}; phantoms derived from the secrets
	var alphabet []c08Op
	for _, kind := range []uint8{c08Reg, c08Val, c08Con} {
		for k := range u.keys {
			alphabet = append(alphabet, c08Op{Kind: kind, K: int8(k)})
		}
	}
	for _, d := range []int16{4, 7, 180, 240} {
		alphabet = append(alphabet, c08Op{Kind: c08Adv, D: d})
	}
	alphabet = append(alphabet, c08Op{Kind: c08Sweep})
	var alphaS0 []c08Op
	for _, a := range alphabet {
		if !a.keyed() || u.keys[a.K].S == 0 {
			alphaS0 = append(alphaS0, a)
		}
	}

	old := debug.SetGCPercent(1000) // the live heap is tiny and everything else is garbage
	defer debug.SetGCPercent(old)
	canCopy, why := c08CanCopy()
	if !canCopy {
		rec.Note("every history is re-executed from an empty registry (slow): " + why)
	}
	var all []*c08Worker
	// quick: every history up to 4, and up to 5 modulo renaming of the two secrets; thorough: up to 5, and up to 6 modulo renaming
	for _, en := range []*c08Enum{
		{alpha: alphabet, alphaS0: alphaS0, maxLen: kit.Tier(4, 5), symmetric: false, proxy: true},
		{alpha: alphabet, alphaS0: alphaS0, maxLen: kit.Tier(5, 6), symmetric: true, proxy: !kit.Thorough()}, // 17 M refused dials would not fit the thorough budget
	} {
		all = append(all, c08Enumerate(t, rec, u, en, canCopy)...)
		what := fmt.Sprintf("every history of length <= %d over the %d-letter alphabet {register, validate, connect} x {2 secrets x (min, prefix) x (v4, v6 phantom)} + advance{4m,7m,3h,4h} + sweep", en.maxLen, len(alphabet))
		if en.proxy {
			what += "; every matched connect = look-up + MarkActive + the real Proxy()"
		} else {
			what += "; a matched connect = look-up + MarkActive"
		}
		if en.symmetric {
			what += ", modulo renaming of the two secrets (the first registration a history names belongs to secret 0)"
		}
		rec.Exhaustive(what + "; a duplicate is register of a tracked registration; a look-up follows every history, and every prefix is a history; a history whose tracked set already diverged is not extended")
	}
	for _, w := range all {
		w.flush("exhaustive")
	}
	rec.Note(fmt.Sprintf("universe: %s", c08UniverseString(u)))

	// a few written-out histories (re-run on a separate worker so that they do not count twice)
	sw := c08NewWorker(t, u, rec)
	sw.proxy = true
	c08Guard(t, func() {
		op := func(kind uint8, k int) c08Op { return c08Op{Kind: kind, K: int8(k)} }
		adv := func(d int16) c08Op { return c08Op{Kind: c08Adv, D: d} }
		sweep := c08Op{Kind: c08Sweep}
		for _, h := range [][]c08Op{
			{op(c08Reg, 0), adv(7), sweep, adv(4), sweep},
			{op(c08Reg, 0), op(c08Val, 0), op(c08Con, 0), adv(180), sweep, adv(240)},
			{op(c08Reg, 0), op(c08Reg, 4), adv(7), op(c08Reg, 0), adv(4), sweep},
			// one secret, two transports, same phantom (key 0 = s0/min/v4, key 2 = s0/prefix/v4)
			{op(c08Reg, 0), op(c08Reg, 2), adv(180), sweep},
			{op(c08Val, 0), op(c08Con, 0), op(c08Reg, 2), adv(240), adv(240), sweep},
			{op(c08Val, 0), op(c08Reg, 2), op(c08Con, 0), adv(7), adv(4), sweep},
		} {
			sw.reset()
			sw.seq, sw.reportFrom = h, 1<<30 // written out only, nothing is reported from here
			var trace []string
			for i, o := range h {
				sw.apply(i, o)
				if !sw.diverged {
					sw.observe(i, o.Kind == c08Sweep)
				}
				if !sw.diverged {
					sw.lookup(i)
				}
				n, recs := sw.rm.registeredDecoys.TotalRegistrations(), 0
				sw.rm.registeredDecoys.m.RLock()
				recs = len(sw.rm.registeredDecoys.decoysTimeouts)
				sw.rm.registeredDecoys.m.RUnlock()
				trace = append(trace, fmt.Sprintf("%s -> tracked %d, timeout records %d", u.opString(o), n, recs))
			}
			var dis []string
			for _, v := range sw.viols {
				dis = append(dis, fmt.Sprintf("after operation %d: %s", v.pos+1, v.sig))
			}
			rec.Sample(map[string]interface{}{"history": trace, "disagreements_with_reference": dis})
		}
	})
}

// c08Enumerate runs one exhaustive enumeration on a pool of workers and returns them (for their counters).
func c08Enumerate(t *testing.T, rec *kit.Rec, u *c08Universe, en *c08Enum, canCopy bool) []*c08Worker {
	// slow enumeration: every history is executed from an empty registry
	var visit func(w *c08Worker, buf []c08Op, n int, seenKey bool, maxLen int)
	visit = func(w *c08Worker, buf []c08Op, n int, seenKey bool, maxLen int) {
		div := w.run(buf[:n], n-1, true)
		w.addDecisions(w.prevC)
		if div || n >= maxLen {
			return
		}
		for _, a := range en.letters(seenKey) {
			buf[n] = a
			visit(w, buf, n+1, seenKey || a.keyed(), maxLen)
		}
	}
	// below runs everything below a prefix that was itself already visited
	below := func(w *c08Worker, buf []c08Op, n int, seenKey bool, maxLen int) {
		if n > 0 && w.run(buf[:n], 1<<30, false) {
			return // the prefix diverged: reported when it was visited, not extended
		}
		if !canCopy {
			for _, a := range en.letters(seenKey) {
				buf[n] = a
				visit(w, buf, n+1, seenKey || a.keyed(), maxLen)
			}
			return
		}
		if n == 0 {
			w.reset()
		}
		e2 := *en
		e2.maxLen = maxLen
		w.dfs(buf, n, w.take(), &e2, seenKey)
	}

	// histories of length 1 and 2 are visited here; the sub-trees below them are fanned out to the workers
	root := c08NewWorker(t, u, rec)
	root.proxy = en.proxy
	c08Guard(t, func() {
		top := 2
		if en.maxLen < top {
			top = en.maxLen
		}
		below(root, make([]c08Op, 2), 0, false, top)
	})
	workers := []*c08Worker{root}
	if en.maxLen <= 2 {
		return workers
	}
	var jobs [][2]c08Op
	for _, a := range en.letters(false) {
		for _, b := range en.letters(a.keyed()) {
			jobs = append(jobs, [2]c08Op{a, b})
		}
	}
	ch := make(chan [2]c08Op, len(jobs))
	for _, j := range jobs {
		ch <- j
	}
	close(ch)
	var wg sync.WaitGroup
	var mu sync.Mutex
	var fatal interface{}
	for i := 0; i < c08Workers(); i++ {
		w := c08NewWorker(t, u, rec)
		w.proxy = en.proxy
		workers = append(workers, w)
		wg.Add(1)
		go func() {
			defer wg.Done()
			defer func() {
				if r := recover(); r != nil {
					mu.Lock()
					fatal = fmt.Sprintf("%v\n%s", r, debug.Stack())
					mu.Unlock()
				}
			}()
			buf := make([]c08Op, en.maxLen)
			for j := range ch {
				buf[0], buf[1] = j[0], j[1]
				below(w, buf, 2, j[0].keyed() || j[1].keyed(), en.maxLen)
			}
		}()
	}
	wg.Wait()
	if fatal != nil {
		t.Fatalf("infrastructure: worker failed: %v", fatal)
	}
	return workers
}

func c08Guard(t *testing.T, f func()) {
	defer func() {
		if r := recover(); r != nil {
			t.Fatalf("infrastructure: %v\n%s", r, debug.Stack())
		}
	}()
	f()
}

func c08UniverseString(u *c08Universe) string {
	var s []string
	for _, k := range u.keys {
		s = append(s, k.name+"@"+k.pstr)
	}
	return strings.Join(s, " ")
}

// ---- random: long histories over a larger universe ---------------------------------------------------

func TestVerifC08Random(t *testing.T) {
	rec := kit.NewRec("C08", "random")
	defer rec.Close()
	pins := map[int]c08Pin{
		0: {0xC07ABE4D, net.ParseIP("2001:48a8:687f:1::4d")}, 1: {0xC07ABE4D, net.ParseIP("2001:48a8:687f:1::4d")},
		2: {0xC07ABE4E, net.ParseIP("2001:48a8:687f:1::4e")}, 3: {0xC07ABE4E, net.ParseIP("2001:48a8:687f:1::4e")},
	}
	u := c08BuildUniverse(t, 6, 4, pins) // 6 secrets x {min, prefix, obfs4, dtls} x {v4, v6}; secrets 0/1 and 2/3 share registrar-assigned phantoms
	n := kit.Tier(2000, 100000)
	const length = 40
	nw := c08Workers()
	type job struct {
		i   int
		seq []c08Op
	}
	// all histories are drawn up front from the seeded generator (determinism does not depend on scheduling)
	rng := kit.Rand("c08-random")
	seqs := make([][]c08Op, n)
	for i := range seqs {
		// the registrations this history talks about: a handful, so that operations meet
		var active []int
		siblingFree := i%2 == 0
		for len(active) < 3+rng.Intn(5) {
			k := rng.Intn(len(u.keys))
			ok := true
			for _, a := range active {
				if a == k || (siblingFree && u.keys[k].sib&(1<<uint(a)) != 0) {
					ok = false
				}
			}
			if ok {
				active = append(active, k)
			} else if siblingFree && rng.Intn(8) == 0 {
				break
			}
		}
		if len(active) == 0 {
			active = []int{rng.Intn(len(u.keys))}
		}
		seq := make([]c08Op, length)
		for j := range seq {
			k := int8(active[rng.Intn(len(active))])
			switch r := rng.Intn(100); {
			case r < 22:
				seq[j] = c08Op{Kind: c08Reg, K: k}
			case r < 30:
				if u.keys[k].tt == pb.TransportType_DTLS {
					seq[j] = c08Op{Kind: c08Reg, K: k} // the pipeline would start a real DTLS dial for a connecting transport
				} else {
					seq[j] = c08Op{Kind: c08Ingest, K: k}
				}
			case r < 45:
				seq[j] = c08Op{Kind: c08Val, K: k}
			case r < 60:
				seq[j] = c08Op{Kind: c08Con, K: k}
			case r < 78:
				seq[j] = c08Op{Kind: c08Adv, D: []int16{4, 7, 180, 240}[rng.Intn(4)]}
			case r < 92:
				seq[j] = c08Op{Kind: c08Sweep}
			default:
				seq[j] = c08Op{Kind: c08Look}
			}
		}
		seqs[i] = seq
	}
	// a deterministic handful first: every registration of the universe is validated, connected through the real
	// Proxy(), aged past 6 hours and swept (it must be forgotten, however many tunnels it carried)
	var fixed [][]c08Op
	for k := range u.keys {
		kk := int8(k)
		adv := func(d int16) c08Op { return c08Op{Kind: c08Adv, D: d} }
		first := c08Op{Kind: c08Ingest, K: kk}
		if u.keys[k].tt == pb.TransportType_DTLS {
			first = c08Op{Kind: c08Val, K: kk}
		}
		fixed = append(fixed,
			[]c08Op{{Kind: c08Val, K: kk}, {Kind: c08Con, K: kk}, adv(240), adv(240), {Kind: c08Sweep}, {Kind: c08Look}, {Kind: c08Con, K: kk}},
			[]c08Op{first, {Kind: c08Con, K: kk}, {Kind: c08Con, K: kk}, adv(180), {Kind: c08Sweep}, {Kind: c08Con, K: kk}, adv(240), {Kind: c08Sweep}, {Kind: c08Look}, {Kind: c08Reg, K: kk}, adv(7), adv(4), {Kind: c08Sweep}})
	}
	seqs = append(fixed, seqs...)
	n = len(seqs)
	ch := make(chan job, n)
	for i, s := range seqs {
		ch <- job{i, s}
	}
	close(ch)
	var workers []*c08Worker
	var wg sync.WaitGroup
	var mu sync.Mutex
	var fatal interface{}
	for i := 0; i < nw; i++ {
		w := c08NewWorker(t, u, rec)
		w.fresh, w.full, w.proxy = true, true, true
		workers = append(workers, w)
		wg.Add(1)
		go func() {
			defer wg.Done()
			defer func() {
				if r := recover(); r != nil {
					mu.Lock()
					fatal = fmt.Sprintf("%v\n%s", r, debug.Stack())
					mu.Unlock()
				}
			}()
			for j := range ch {
				w.run(j.seq, 0, true)
				w.addDecisions(c08Cnt{})
				if j.i == 1 || j.i == len(fixed) || j.i == len(fixed)+1 {
					rec.Sample(map[string]interface{}{"history": u.seqString(j.seq), "sweep_decisions": fmt.Sprintf("kept %d (of which %d only because used), expired unused %d, expired used %d", w.c.nKeep, w.c.nKeptUsed, w.c.nExpUnused, w.c.nExpUsed),
						"violations": len(w.viols)})
				}
			}
		}()
	}
	wg.Wait()
	if fatal != nil {
		t.Fatalf("infrastructure: worker failed: %v", fatal)
	}
	var viaProxy int64
	for _, w := range workers {
		viaProxy += w.decExpProxy
		w.flush("random")
	}
	if viaProxy < int64(len(fixed)) {
		t.Fatalf("infrastructure: only %d sweeps had to forget a registration that had been connected through the real Proxy(); the workload does not exercise what it claims", viaProxy)
	}
	rec.Note(fmt.Sprintf("universe: %s", c08UniverseString(u)))
	rec.Note("even-numbered histories never track one secret with two transports on the same phantom at once, so that long histories are judged to the end even while the known shared-timeout-record finding is open")
}
