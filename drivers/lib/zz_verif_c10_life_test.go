//go:build verif

package lib

// C10, lifetime agreement – "the detector forwards a session for as long as the station would accept it" is a
// statement about histories, not about single messages: the station may keep a registration alive (or change its
// state) without telling the detector.  This driver runs operation sequences against the real code
//
//	D<i> first / repeated delivery of registration i     O<i> re-delivery from another registrant address
//	S<i> re-delivery from another registration source    M<i> MarkActive (a connection used the registration)
//	t<d> time passes (every timeout record is back-dated by d; nothing sleeps)
//	L    the real sweep (RemoveOldRegistrations), then a lookup of every registration delivered so far
//
// and records (a) every message that was actually published, at the virtual instant it was published, and (b) at
// every lookup whether the station still serves the registration for a connection.  The orchestrator feeds (a) to
// the detector's own Rust code (session map, expiry sweep, lookup) under the same virtual clock and compares with (b).

import (
	"bufio"
	"crypto/sha256"
	"encoding/hex"
	"encoding/json"
	"fmt"
	"math/rand"
	"net"
	"os"
	"path/filepath"
	"strings"
	"testing"
	"time"

	"google.golang.org/protobuf/proto"

	kit "github.com/refraction-networking/conjure/internal/verifkit"
	pb "github.com/refraction-networking/conjure/proto"
)

type c10LReg struct {
	cs        c10Case
	twin      *DecoyRegistration // built by parseRegMessage, never ingested: the key for looking the registration up
	last      *DecoyRegistration // the object the station tracked last
	delivered bool
	state     string // state announced last: unused | used
	tAnn      uint64 // virtual instant of that announcement
	hadDup    bool
	tDup      uint64
}

var c10LSteps = map[string]time.Duration{
	"t1m": time.Minute, "t4m": 4 * time.Minute, "t7m": 7 * time.Minute, "t10m": 10 * time.Minute, "t11m": 11 * time.Minute,
	"t3h": 3 * time.Hour, "t4h": 4 * time.Hour, "t6h": 6 * time.Hour, "t6h1m": 6*time.Hour + time.Minute,
}

func TestVerifC10Lifetime(t *testing.T) {
	rec := kit.NewRec("C10", "lifetime")
	defer rec.Close()
	rm, fr := c10NewStation(t)
	defer fr.Close()
	rd := rm.registeredDecoys

	outPath := filepath.Join(kit.OutDir(), "c10_life_records.jsonl")
	outF, err := os.Create(outPath)
	if err != nil {
		t.Fatal(err)
	}
	w := bufio.NewWriterSize(outF, 1<<20)
	enc := json.NewEncoder(w)
	emit := func(r *c10Rec) {
		if err := enc.Encode(r); err != nil {
			t.Fatalf("infrastructure: writing %s: %v", outPath, err)
		}
	}
	defer func() {
		w.Flush()
		outF.Close()
	}()
	emit(&c10Rec{T: "S", Unused: uint64(rd.timeoutUnused.Nanoseconds()), Active: uint64(rd.timeoutActive.Nanoseconds())})

	nextID, nseq := 0, 0
	rng := kit.Rand("c10-lifetime")

	// run executes one sequence on fresh registrations (fresh secrets), then forgets them
	run := func(fam string, regs []*c10LReg, ops []string) {
		nseq++
		var vt uint64
		var done []string
		emit(&c10Rec{T: "R"})
		emit(&c10Rec{T: "Q", Seq: nseq, Fam: fam, Ops: strings.Join(ops, " ")})
		rec.CaseCheap(fmt.Sprintf("seq#%d %s: %s", nseq, fam, strings.Join(ops, " ")))
		for _, r := range regs {
			msg, err := r.cs.wrapper()
			if err != nil {
				t.Fatalf("infrastructure: marshal: %v", err)
			}
			if tw, err := rm.parseRegMessage(msg); err == nil && len(tw) == 1 && tw[0] != nil {
				r.twin = tw[0]
			}
		}
		// published since the last Reset -> "M" records at the current virtual instant, and the driver's notes on
		// which state was announced last (used only for the window statistics and the signature, never for a verdict)
		took := func(r *c10LReg, redelivery bool) {
			pubs := fr.Pubs()
			fr.Reset()
			for _, p := range pubs {
				nextID++
				x := c10Rec{T: "M", ID: nextID, Kind: "seq", Seq: nseq, Raw: hex.EncodeToString(p.Payload), Chan: p.Channel, Tr: r.cs.tr}
				m := &pb.StationToDetector{}
				if err := proto.Unmarshal(p.Payload, m); err != nil {
					x.T = "U"
					emit(&x)
					continue
				}
				x.Phantom, x.Client, x.Timeout, x.DPort, x.SPort = m.PhantomIp, m.ClientIp, m.TimeoutNs, m.DstPort, m.SrcPort
				if m.Operation != nil {
					v := int32(*m.Operation)
					x.Op = &v
					switch *m.Operation {
					case pb.StationOperations_New:
						r.state, r.tAnn, r.hadDup = "unused", vt, false
					case pb.StationOperations_Update:
						r.state, r.tAnn, r.hadDup = "used", vt, false
					}
				}
				if m.Proto != nil {
					v := int32(*m.Proto)
					x.Proto = &v
				}
				emit(&x)
				rec.Count("published", 1)
			}
			if redelivery && len(pubs) == 0 {
				r.hadDup, r.tDup = true, vt
			}
		}
		current := func(r *c10LReg) *DecoyRegistration {
			if r.twin == nil {
				return nil
			}
			cur := rd.RegistrationExists(r.twin)
			if cur != nil {
				r.last = cur
			}
			return cur
		}
		for _, op := range ops {
			done = append(done, op)
			switch {
			case op == "L":
				rm.RemoveOldRegistrations()
				for i, r := range regs {
					if !r.delivered || r.last == nil {
						continue
					}
					cur := current(r)
					holds := false
					if cur != nil {
						rd.m.RLock()
						holds = cur.Valid
						rd.m.RUnlock()
						if holds {
							// what a connection handler does: the registrations on the connection's destination address
							holds = false
							for _, g := range rm.GetRegistrations(cur.PhantomIp) {
								if g == cur {
									holds = true
								}
							}
						}
					}
					obj := r.last
					life := uint64(rd.timeoutUnused.Nanoseconds())
					if r.state == "used" {
						life = uint64(rd.timeoutActive.Nanoseconds())
					}
					nextID++
					x := c10Rec{T: "L", ID: nextID, Seq: nseq, Fam: fam, Ops: strings.Join(done, " "), Reg: i, Holds: holds, State: r.state,
						HadDup: r.hadDup, VT: vt, AgeAnn: vt - r.tAnn, Tr: r.cs.tr, Case: r.cs.String(),
						EPhantom: hex.EncodeToString(obj.PhantomIp), EClient: hex.EncodeToString(obj.registrationAddr),
						EPort: uint32(obj.GetDstPort()), TrProto: int32(c10TrProto[r.cs.tr]), ELife: life,
						PClass: c10ClassOfIP(obj.PhantomIp), CClass: r.cs.cclass}
					if r.hadDup {
						x.AgeDup = vt - r.tDup
						x.Window = r.state != "" && x.AgeAnn >= life && x.AgeDup < life
					}
					emit(&x)
					rec.Count("lookups", 1)
					if holds {
						rec.Count("lookups_station_serves", 1)
					}
				}
			case strings.HasPrefix(op, "t"):
				d := c10LSteps[op]
				rm.VerifBackdate(d) // the shared export shim: every timeout record moves d into the past
				vt += uint64(d.Nanoseconds())
				emit(&c10Rec{T: "A", NS: uint64(d.Nanoseconds())})
			default:
				r := regs[int(op[1]-'0')]
				fr.Reset()
				switch op[0] {
				case 'M':
					if cur := current(r); cur != nil {
						rd.m.RLock()
						valid := cur.Valid
						rd.m.RUnlock()
						if valid { // a connection can only match a registration the station still serves
							rm.MarkActive(cur)
						}
					}
					took(r, false)
				case 'D', 'O', 'S':
					d := r.cs
					switch op[0] {
					case 'O':
						if r.cs.cclass == "v4" {
							d.registr = net.IPv4(203, 0, 113, byte(1+nseq%250)).To4()
						} else if r.cs.cclass == "v4mapped" {
							d.registr = net.IPv4(203, 0, 113, byte(1+nseq%250)).To16()
						} else {
							d.registr = net.ParseIP(fmt.Sprintf("2001:db8:ffff::%x", 1+nseq%60000))
						}
					case 'S':
						d.src = pb.RegistrationSource_DNS
					}
					msg, err := d.wrapper()
					if err != nil {
						t.Fatalf("infrastructure: marshal: %v", err)
					}
					was := current(r) != nil
					if built, err := rm.parseRegMessage(msg); err == nil {
						for _, b := range built {
							if b != nil {
								rm.ingestRegistration(b)
							}
						}
					}
					if current(r) != nil {
						r.delivered = true
					}
					took(r, was)
				}
			}
		}
		// forget everything: older than any lifetime, then the real sweep
		rm.VerifBackdate(100 * time.Hour)
		rm.RemoveOldRegistrations()
		if n, m := rm.VerifTotals(); n != 0 || m != 0 {
			rec.Count("leftover_after_purge", 1)
		}
		rec.Count("sequences", 1)
		rec.Count("sequences_"+fam, 1)
	}

	secret := func(n, i int) []byte {
		h := sha256.Sum256([]byte(fmt.Sprintf("c10-life/%d/%d/%d", kit.Seed(), n, i)))
		return h[:]
	}
	// the two registrations of the exhaustive families: r1 shares r0's secret (hence its phantom) but uses another transport
	exhRegs := func() []*c10LReg {
		n := nseq + 1
		r0 := &c10LReg{cs: c10Case{n: n, tr: "min", gen: 1, lib: 4, v4s: true, cclass: "v4", registr: net.IPv4(198, 51, 100, 9).To4(),
			pdesc: "absent", ovclass: "none", secret: secret(n, 0)}}
		r1 := &c10LReg{cs: c10Case{n: n, tr: "prefix", gen: 1, lib: 4, v4s: true, cclass: "v4", registr: net.IPv4(198, 51, 100, 9).To4(),
			params: &pb.PrefixTransportParams{PrefixId: proto.Int32(0)}, pdesc: "prefix=0", ovclass: "none", secret: secret(n, 0)}}
		return []*c10LReg{r0, r1}
	}
	// exhaustive: D0, every word of length <= k over the alphabet, L
	var enum func(alpha []string, k int, cur []string, f func([]string))
	enum = func(alpha []string, k int, cur []string, f func([]string)) {
		f(cur)
		if len(cur) == k {
			return
		}
		for _, a := range alpha {
			enum(alpha, k, append(cur, a), f)
		}
	}
	alpha1 := []string{"D0", "O0", "S0", "M0", "t4m", "t7m", "t4h", "L"}
	alpha2 := append(append([]string{}, alpha1...), "D1", "O1", "S1", "M1")
	k1, k2 := kit.Tier(4, 5), kit.Tier(3, 4)
	enum(alpha1, k1, nil, func(mid []string) {
		if len(mid) > 0 && mid[len(mid)-1] == "L" {
			return // the sequence without that L, which also ends in L, covers it
		}
		ops := append(append([]string{"D0"}, mid...), "L")
		run("exh1", exhRegs()[:1], ops)
	})
	rec.Exhaustive(fmt.Sprintf("one registration: D0 w L for every word w of length <= %d over {D0 O0 S0 M0 t4m t7m t4h L}", k1))
	enum(alpha2, k2, nil, func(mid []string) {
		if len(mid) > 0 && mid[len(mid)-1] == "L" {
			return
		}
		touches1 := false
		for _, o := range mid {
			if strings.HasSuffix(o, "1") {
				touches1 = true
			}
		}
		if !touches1 {
			return // covered by the one-registration family
		}
		ops := append(append([]string{"D0"}, mid...), "L")
		run("exh2", exhRegs(), ops)
	})
	rec.Exhaustive(fmt.Sprintf("two registrations (same secret and phantom, min and prefix): D0 w L for every word w of length <= %d that touches the second one", k2))

	// seeded random: 1-3 generated registrations (any transport, family, generation, override), longer sequences, more steps
	steps := []string{"t1m", "t4m", "t7m", "t10m", "t11m", "t3h", "t4h", "t6h", "t6h1m"}
	nrand := kit.Tier(400, 30000)
	for s := 0; s < nrand; s++ {
		nr := 1 + rng.Intn(3)
		var regs []*c10LReg
		for i := 0; i < nr; i++ {
			regs = append(regs, &c10LReg{cs: c10LCase(rng, nseq+1, secret(nseq+1, i))})
		}
		if nr > 1 && rng.Intn(3) == 0 { // same secret, another transport
			regs[1].cs.secret = regs[0].cs.secret
		}
		n := 6 + rng.Intn(11)
		ops := []string{"D0"}
		for len(ops) < n {
			switch k := rng.Intn(100); {
			case k < 30:
				ops = append(ops, steps[rng.Intn(len(steps))])
			case k < 50:
				ops = append(ops, "L")
			default:
				ops = append(ops, fmt.Sprintf("%c%d", "DOSM"[rng.Intn(4)], rng.Intn(nr)))
			}
		}
		ops = append(ops, "L")
		run("rand", regs, ops)
	}
	rec.Note(fmt.Sprintf("records in %s; the detector's table is the detector's own code in the orchestrator's shim", filepath.Base(outPath)))
}

// c10LCase draws a well-formed single-family registration from the announce driver's generator.
func c10LCase(r *rand.Rand, n int, secret []byte) c10Case {
	for {
		var c c10Case
		c.gen_(r, n)
		c.secret = secret
		if strings.HasPrefix(c.cclass, "len") || strings.Contains(c.ovclass, "len") {
			continue
		}
		if c.v4s && c.v6s {
			c.v4s = r.Intn(2) == 0
			c.v6s = !c.v4s
		}
		if c.v4s && c.cclass != "v4" && c.cclass != "v4mapped" {
			continue // no IPv4 registration is built for an IPv6 / absent registrant
		}
		return c
	}
}
