//go:build verif

package lib

// C10, lifetime agreement – "the detector forwards a session for as long as the station would accept it" is a
// statement about histories, not about single messages: the station may keep a registration alive (or change its
// state) without telling the detector.  This driver runs operation sequences against the real code
//
//	D<i> first / repeated delivery of registration i     O<i> re-delivery from another registrant address
//	S<i> re-delivery from another registration source    M<i> MarkActive (a connection used the registration)
//	G<i> a connection handler matches a connection to registration i and keeps the object (GetRegistrations)
//	H<i> that handler calls MarkActive on the object it holds, whatever has happened to the registration since
//	t<d> time passes (every timeout record is back-dated by d; nothing sleeps)
//	L    the real sweep (RemoveOldRegistrations), then a lookup of every registration delivered so far
//
// Every sequence ends with the station's shutdown order: HandleRegUpdates(ctx) running, cancel(), wg.Wait(), Cleanup().
//
// and records (a) every message that was actually published, at the virtual instant it was published, and (b) at
// every lookup whether the station still serves the registration for a connection.  The orchestrator feeds (a) to
// the detector's own Rust code (session map, expiry sweep, lookup) under the same virtual clock and compares with (b).

import (
	"bufio"
	"context"
	"crypto/sha256"
	"encoding/hex"
	"encoding/json"
	"fmt"
	"math/rand"
	"net"
	"os"
	"path/filepath"
	"strings"
	"sync"
	"testing"
	"time"

	"google.golang.org/protobuf/proto"

	kit "github.com/refraction-networking/conjure/internal/verifkit"
	pb "github.com/refraction-networking/conjure/proto"
)

type c10LReg struct {
	cs        c10Case
	twin      *DecoyRegistration // built by parseRegMessage, never ingested: the key for looking the registration up
	last      *DecoyRegistration // the object the station tracked last
	delivered bool
	held      *DecoyRegistration // the object a connection handler obtained by a lookup (op G) and still holds
	annUntr   bool               // something was published for it while the station did not track it
	staleMark bool               // MarkActive on a held object that was no longer the tracked one published something
	state     string             // state announced last: unused | used
	tAnn      uint64             // virtual instant of that announcement
	hadDup    bool
	tDup      uint64
}

var c10LSteps = map[string]time.Duration{
	"t1m": time.Minute, "t4m": 4 * time.Minute, "t7m": 7 * time.Minute, "t10m": 10 * time.Minute, "t11m": 11 * time.Minute,
	"t3h": 3 * time.Hour, "t4h": 4 * time.Hour, "t6h": 6 * time.Hour, "t6h1m": 6*time.Hour + time.Minute,
}

func TestVerifC10Lifetime(t *testing.T) {
	rec := kit.NewRec("C10", "lifetime")
	defer rec.Close()
	rm, fr := c10NewStation(t)
	defer fr.Close()
	rd := rm.registeredDecoys

	outPath := filepath.Join(kit.OutDir(), "c10_life_records.jsonl")
	outF, err := os.Create(outPath)
	if err != nil {
		t.Fatal(err)
	}
	w := bufio.NewWriterSize(outF, 1<<20)
	enc := json.NewEncoder(w)
	emit := func(r *c10Rec) {
		if err := enc.Encode(r); err != nil {
			t.Fatalf("infrastructure: writing %s: %v", outPath, err)
		}
	}
	defer func() {
		w.Flush()
		outF.Close()
	}()
	emit(&c10Rec{T: "S", Unused: uint64(rd.timeoutUnused.Nanoseconds()), Active: uint64(rd.timeoutActive.Nanoseconds())})

	nextID, nseq := 0, 0
	rng := kit.Rand("c10-lifetime")

	// run executes one sequence on fresh registrations (fresh secrets), then forgets them
	rm.IngestWorkerCount = 2
	run := func(fam string, regs []*c10LReg, ops []string) {
		nseq++
		var vt uint64
		var done []string
		emit(&c10Rec{T: "R"})
		emit(&c10Rec{T: "Q", Seq: nseq, Fam: fam, Ops: strings.Join(ops, " ")})
		rec.CaseCheap(fmt.Sprintf("seq#%d %s: %s", nseq, fam, strings.Join(ops, " ")))
		for _, r := range regs {
			msg, err := r.cs.wrapper()
			if err != nil {
				t.Fatalf("infrastructure: marshal: %v", err)
			}
			if tw, err := rm.parseRegMessage(msg); err == nil && len(tw) == 1 && tw[0] != nil {
				r.twin = tw[0]
			}
		}
		// published since the last Reset -> "M" records at the current virtual instant, and the driver's notes on
		// which state was announced last (used only for the window statistics and the signature, never for a verdict)
		took := func(r *c10LReg, redelivery, stale bool) {
			pubs := fr.Pubs()
			fr.Reset()
			var trackedObj *DecoyRegistration
			if r.twin != nil {
				trackedObj = rd.RegistrationExists(r.twin)
			}
			trackedNow := trackedObj != nil
			for _, p := range pubs {
				nextID++
				x := c10Rec{T: "M", ID: nextID, Kind: "seq", Seq: nseq, Raw: hex.EncodeToString(p.Payload), Chan: p.Channel, Tr: r.cs.tr,
					Tracked: &trackedNow, Ops: strings.Join(done, " "), Case: r.cs.String(), Fam: fam}
				if !trackedNow {
					r.annUntr = true
				} else {
					// the registration this message is about, as the station holds it
					x.EPhantom, x.EClient = hex.EncodeToString(trackedObj.PhantomIp), hex.EncodeToString(trackedObj.registrationAddr)
					x.EPort = uint32(trackedObj.GetDstPort())
				}
				if stale {
					x.Stale, r.staleMark = true, true
				}
				m := &pb.StationToDetector{}
				if err := proto.Unmarshal(p.Payload, m); err != nil {
					x.T = "U"
					emit(&x)
					continue
				}
				x.Phantom, x.Client, x.Timeout, x.DPort, x.SPort = m.PhantomIp, m.ClientIp, m.TimeoutNs, m.DstPort, m.SrcPort
				if m.Operation != nil {
					v := int32(*m.Operation)
					x.Op = &v
					switch *m.Operation {
					case pb.StationOperations_New:
						r.state, r.tAnn, r.hadDup = "unused", vt, false
						if !stale {
							r.staleMark = false
						}
					case pb.StationOperations_Update:
						r.state, r.tAnn, r.hadDup = "used", vt, false
					}
				}
				if m.Proto != nil {
					v := int32(*m.Proto)
					x.Proto = &v
				}
				emit(&x)
				rec.Count("published", 1)
			}
			if redelivery && len(pubs) == 0 {
				r.hadDup, r.tDup = true, vt
			}
		}
		current := func(r *c10LReg) *DecoyRegistration {
			if r.twin == nil {
				return nil
			}
			cur := rd.RegistrationExists(r.twin)
			if cur != nil {
				r.last = cur
			}
			return cur
		}
		for _, op := range ops {
			done = append(done, op)
			switch {
			case op == "L":
				rm.RemoveOldRegistrations()
				for i, r := range regs {
					if !r.delivered || r.last == nil {
						continue
					}
					cur := current(r)
					holds := false
					if cur != nil {
						rd.m.RLock()
						holds = cur.Valid
						rd.m.RUnlock()
						if holds {
							// what a connection handler does: the registrations on the connection's destination address
							holds = false
							for _, g := range rm.GetRegistrations(cur.PhantomIp) {
								if g == cur {
									holds = true
								}
							}
						}
					}
					obj := r.last
					life := uint64(rd.timeoutUnused.Nanoseconds())
					if r.state == "used" {
						life = uint64(rd.timeoutActive.Nanoseconds())
					}
					nextID++
					x := c10Rec{T: "L", ID: nextID, Seq: nseq, Fam: fam, Ops: strings.Join(done, " "), Reg: i, Holds: holds, State: r.state,
						HadDup: r.hadDup, AnnUntracked: r.annUntr, Stale: r.staleMark, VT: vt, AgeAnn: vt - r.tAnn, Tr: r.cs.tr, Case: r.cs.String(),
						EPhantom: hex.EncodeToString(obj.PhantomIp), EClient: hex.EncodeToString(obj.registrationAddr),
						EPort: uint32(obj.GetDstPort()), TrProto: int32(c10TrProto[r.cs.tr]), ELife: life,
						PClass: c10ClassOfIP(obj.PhantomIp), CClass: r.cs.cclass}
					if r.hadDup {
						x.AgeDup = vt - r.tDup
						x.Window = r.state != "" && x.AgeAnn >= life && x.AgeDup < life
					}
					emit(&x)
					rec.Count("lookups", 1)
					if holds {
						rec.Count("lookups_station_serves", 1)
					}
				}
			case strings.HasPrefix(op, "t"):
				d := c10LSteps[op]
				rm.VerifBackdate(d) // the shared export shim: every timeout record moves d into the past
				vt += uint64(d.Nanoseconds())
				emit(&c10Rec{T: "A", NS: uint64(d.Nanoseconds())})
			default:
				r := regs[int(op[1]-'0')]
				fr.Reset()
				switch op[0] {
				case 'G':
					// what a transport's WrapConnection does: the registrations on the connection's destination
					r.held = nil
					if cur := current(r); cur != nil {
						for _, g := range rm.GetRegistrations(cur.PhantomIp) {
							if g == cur {
								r.held = cur
							}
						}
					}
				case 'H':
					// the handler goes on with the object it matched, however long ago that was
					stale := false
					if r.held != nil {
						cur := current(r)
						stale = cur != nil && cur != r.held
						rm.MarkActive(r.held)
					}
					took(r, false, stale)
				case 'M':
					if cur := current(r); cur != nil {
						rd.m.RLock()
						valid := cur.Valid
						rd.m.RUnlock()
						if valid { // a connection can only match a registration the station still serves
							rm.MarkActive(cur)
						}
					}
					took(r, false, false)
				case 'D', 'O', 'S':
					d := r.cs
					switch op[0] {
					case 'O':
						if r.cs.cclass == "v4" {
							d.registr = net.IPv4(203, 0, 113, byte(1+nseq%250)).To4()
						} else if r.cs.cclass == "v4mapped" {
							d.registr = net.IPv4(203, 0, 113, byte(1+nseq%250)).To16()
						} else {
							d.registr = net.ParseIP(fmt.Sprintf("2001:db8:ffff::%x", 1+nseq%60000))
						}
					case 'S':
						d.src = pb.RegistrationSource_DNS
					}
					msg, err := d.wrapper()
					if err != nil {
						t.Fatalf("infrastructure: marshal: %v", err)
					}
					was := current(r) != nil
					if built, err := rm.parseRegMessage(msg); err == nil {
						for _, b := range built {
							if b != nil {
								rm.ingestRegistration(b)
							}
						}
					}
					if current(r) != nil {
						r.delivered = true
					}
					took(r, was, false)
				}
			}
		}
		// ---- the station shuts down in whatever state the sequence left it (cmd/application/main.go: cancel(),
		// wg.Wait(), then the deferred Cleanup()); the Clear must reach the detector and empty its map
		nreg, _ := rm.VerifTotals()
		nvalid := 0
		rd.m.RLock()
		for _, byID := range rd.decoys {
			for _, g := range byID {
				if g.Valid {
					nvalid++
				}
			}
		}
		rd.m.RUnlock()
		registry := "has-valid"
		switch {
		case nreg == 0:
			registry = "empty"
		case nvalid == 0:
			registry = "only-unvalidated"
		}
		if ops[len(ops)-1] == "L" {
			registry += ",swept"
		} else {
			registry += ",unswept"
		}
		// the ingest machinery is started and stopped around the shutdown for every random sequence and every 8th
		// enumerated one (it costs more than the rest of a short sequence); the others call Cleanup() on the idle manager
		stopped := make(chan struct{})
		how := "Cleanup()"
		if fam == "rand" || nseq%8 == 0 {
			how = "HandleRegUpdates(ctx) running, cancel(), wg.Wait(), Cleanup()"
			ctx, cancel := context.WithCancel(context.Background())
			var wg sync.WaitGroup
			wg.Add(1)
			go rm.HandleRegUpdates(ctx, make(chan interface{}), &wg)
			cancel()
			go func() { wg.Wait(); close(stopped) }()
			rec.Count("shutdowns_with_ingest_lifecycle", 1)
		} else {
			close(stopped)
		}
		tm := time.NewTimer(60 * time.Second)
		select {
		case <-stopped:
			tm.Stop()
			fr.Reset()
			rm.Cleanup()
			pubs := fr.Pubs()
			fr.Reset()
			desc := fmt.Sprintf("seq#%d %s [%s] then %s; registry: %d tracked, %d valid", nseq, fam, strings.Join(ops, " "), how, nreg, nvalid)
			if len(pubs) == 0 {
				nextID++
				emit(&c10Rec{T: "P", ID: nextID, Kind: "seq-clear", Seq: nseq, Fam: fam, Ops: strings.Join(ops, " "), Case: desc, Registry: registry, VT: vt})
				rec.Count("shutdowns_without_any_publication", 1)
			}
			for _, p := range pubs {
				nextID++
				x := c10Rec{T: "M", ID: nextID, Kind: "seq-clear", Seq: nseq, Fam: fam, Ops: strings.Join(ops, " "), Case: desc, Registry: registry,
					Raw: hex.EncodeToString(p.Payload), Chan: p.Channel, VT: vt}
				m := &pb.StationToDetector{}
				if err := proto.Unmarshal(p.Payload, m); err != nil {
					x.T = "U"
					emit(&x)
					continue
				}
				x.Phantom, x.Client, x.Timeout, x.DPort, x.SPort = m.PhantomIp, m.ClientIp, m.TimeoutNs, m.DstPort, m.SrcPort
				if m.Operation != nil {
					v := int32(*m.Operation)
					x.Op = &v
				}
				if m.Proto != nil {
					v := int32(*m.Proto)
					x.Proto = &v
				}
				emit(&x)
			}
			rec.Count("shutdowns", 1)
			rec.Count("shutdowns_registry_"+registry, 1)
		case <-tm.C:
			rec.Inconclusive("HandleRegUpdates did not return within 60 s after cancel; the shutdown of this sequence was not observed", nseq)
		}

		// forget everything: older than any lifetime, then the real sweep
		rm.VerifBackdate(100 * time.Hour)
		rm.RemoveOldRegistrations()
		if n, m := rm.VerifTotals(); n != 0 || m != 0 {
			rec.Count("leftover_after_purge", 1)
		}
		rec.Count("sequences", 1)
		rec.Count("sequences_"+fam, 1)
	}

	secret := func(n, i int) []byte {
		h := sha256.Sum256([]byte(fmt.Sprintf("c10-life/%d/%d/%d", kit.Seed(), n, i)))
		return h[:]
	}
	// the two registrations of the exhaustive families: r1 shares r0's secret (hence its phantom) but uses another transport
	exhRegs := func() []*c10LReg {
		n := nseq + 1
		r0 := &c10LReg{cs: c10Case{n: n, tr: "min", gen: 1, lib: 4, v4s: true, cclass: "v4", registr: net.IPv4(198, 51, 100, 9).To4(),
			pdesc: "absent", ovclass: "none", secret: secret(n, 0)}}
		r1 := &c10LReg{cs: c10Case{n: n, tr: "prefix", gen: 1, lib: 4, v4s: true, cclass: "v4", registr: net.IPv4(198, 51, 100, 9).To4(),
			params: &pb.PrefixTransportParams{PrefixId: proto.Int32(0)}, pdesc: "prefix=0", ovclass: "none", secret: secret(n, 0)}}
		return []*c10LReg{r0, r1}
	}
	// exhaustive: D0, every word of length <= k over the alphabet, L
	var enum func(alpha []string, k int, cur []string, f func([]string))
	enum = func(alpha []string, k int, cur []string, f func([]string)) {
		f(cur)
		if len(cur) == k {
			return
		}
		for _, a := range alpha {
			enum(alpha, k, append(cur, a), f)
		}
	}
	// re-delivery from another source (S) differs from D only in a field the duplicate path does not read: it is
	// enumerated in the thorough tier and drawn in the random sequences of both tiers
	alpha1 := []string{"D0", "O0", "M0", "G0", "H0", "t4m", "t7m", "t4h", "L"}
	alpha2 := append(append([]string{}, alpha1...), "D1", "O1", "M1", "G1", "H1")
	if kit.Thorough() {
		alpha1 = append(alpha1, "S0")
		alpha2 = append(alpha2, "S0", "S1")
	}
	k1, k2 := kit.Tier(4, 5), kit.Tier(3, 4)
	enum(alpha1, k1, nil, func(mid []string) {
		if len(mid) > 0 && mid[len(mid)-1] == "L" {
			return // the sequence without that L, which also ends in L, covers it
		}
		ops := append(append([]string{"D0"}, mid...), "L")
		run("exh1", exhRegs()[:1], ops)
		if len(mid) > 0 && strings.HasPrefix(mid[len(mid)-1], "t") {
			// the same history, but the station shuts down before its sweep has run
			run("exh1", exhRegs()[:1], append([]string{"D0"}, mid...))
		}
	})
	rec.Exhaustive(fmt.Sprintf("one registration: D0 w L for every word w of length <= %d over {%s}, then the shutdown; and D0 w + shutdown (no sweep) for every such w that ends with a time step", k1, strings.Join(alpha1, " ")))
	enum(alpha2, k2, nil, func(mid []string) {
		if len(mid) > 0 && mid[len(mid)-1] == "L" {
			return
		}
		touches1 := false
		for _, o := range mid {
			if strings.HasSuffix(o, "1") {
				touches1 = true
			}
		}
		if !touches1 {
			return // covered by the one-registration family
		}
		ops := append(append([]string{"D0"}, mid...), "L")
		run("exh2", exhRegs(), ops)
	})
	rec.Exhaustive(fmt.Sprintf("two registrations (same secret and phantom, min and prefix): D0 w L + shutdown for every word w of length <= %d over {%s} that touches the second one", k2, strings.Join(alpha2, " ")))

	// scripted: the shortest histories of the situations this monitor exists for, so that each is executed at every
	// seed and tier whatever the bounds above are
	for _, sc := range []string{
		"D0 t4m D0 t7m L",             // re-delivery, then a lookup between the two lifetimes (unused)
		"D0 M0 t4h D0 t4h L",          // the same for a used registration
		"D0 t4h M0 t4h L",             // first use late in life: the registry is empty at shutdown, the detector still diverts
		"D0 G0 t4h L H0 L",            // a handler's MarkActive on an object the sweep has removed
		"D0 G0 t4h H0 L",              // ... on one that is overdue but not yet swept
		"D0 G0 t4h L D0 H0 t4m t7m L", // ... removed and registered again by the same client
		"D0 G0 t4h L O0 H0 t4m t7m L", // ... removed and registered again from another client address
		"D0 G0 t4h L O0 H0 t4m t7m",   // the same, shutting down before the sweep
	} {
		run("script", exhRegs()[:1], strings.Fields(sc))
	}

	// seeded random: 1-3 generated registrations (any transport, family, generation, override), longer sequences, more steps
	steps := []string{"t1m", "t4m", "t7m", "t10m", "t11m", "t3h", "t4h", "t6h", "t6h1m"}
	nrand := kit.Tier(400, 30000)
	for s := 0; s < nrand; s++ {
		nr := 1 + rng.Intn(3)
		var regs []*c10LReg
		for i := 0; i < nr; i++ {
			regs = append(regs, &c10LReg{cs: c10LCase(rng, nseq+1, secret(nseq+1, i))})
		}
		if nr > 1 && rng.Intn(3) == 0 { // same secret, another transport
			regs[1].cs.secret = regs[0].cs.secret
		}
		if nr > 1 && rng.Intn(6) == 0 { // tracked but never validated: the covert address is malformed
			regs[nr-1].cs.covert = "no port here"
		}
		n := 6 + rng.Intn(11)
		ops := []string{"D0"}
		for len(ops) < n {
			switch k := rng.Intn(100); {
			case k < 30:
				ops = append(ops, steps[rng.Intn(len(steps))])
			case k < 50:
				ops = append(ops, "L")
			default:
				ops = append(ops, fmt.Sprintf("%c%d", "DOSMGH"[rng.Intn(6)], rng.Intn(nr)))
			}
		}
		if rng.Intn(4) != 0 {
			ops = append(ops, "L")
		}
		run("rand", regs, ops)
	}
	rec.Note(fmt.Sprintf("records in %s; the detector's table is the detector's own code in the orchestrator's shim", filepath.Base(outPath)))
}

// c10LCase draws a well-formed single-family registration from the announce driver's generator.
func c10LCase(r *rand.Rand, n int, secret []byte) c10Case {
	for {
		var c c10Case
		c.gen_(r, n)
		c.secret = secret
		if strings.HasPrefix(c.cclass, "len") || strings.Contains(c.ovclass, "len") {
			continue
		}
		if c.v4s && c.v6s {
			c.v4s = r.Intn(2) == 0
			c.v6s = !c.v4s
		}
		if c.v4s && c.cclass != "v4" && c.cclass != "v4mapped" {
			continue // no IPv4 registration is built for an IPv6 / absent registrant
		}
		return c
	}
}
