//go:build verif

package lib

// C06 – monitor 2, history class: the SAME registration (same shared secret, hence same phantom and
// identifier) is delivered several times with DIFFERENT covert addresses, and the tracked records are
// back-dated between the deliveries (whole minutes, from inside the package).  Afterwards the monitor
// looks at what a connection handler would get – rm.GetRegistrations(phantom) – and demands of every
// VALID registration object of that secret what the statement demands: its Covert is a literal IP:port
// that policy permits and that was checked at one of the deliveries; the real Proxy is run on it and a
// forbidden listener must never accept.  It is NOT demanded that a later delivery be admitted (treating
// it as a duplicate of the tracked, never validated one is fine).

import (
	"bytes"
	"fmt"
	"net"
	"net/netip"
	"strings"
	"time"

	"google.golang.org/protobuf/proto"

	kit "github.com/refraction-networking/conjure/internal/verifkit"
	"github.com/refraction-networking/conjure/pkg/station/log"
	pb "github.com/refraction-networking/conjure/proto"
)

var c06HistoryKinds = []string{"forbidden-then-permitted", "permitted-then-forbidden", "forbiddenA-then-forbiddenB", "blocked-name-then-permitted-literal",
	"forbidden-literal-then-permitted-name", "empty-host-then-permitted", "forbidden-then-permitted-then-forbidden", "rebinding-name-then-permitted-literal"}
var c06HistoryAges = []int{0, 1, 5, 9} // minutes the tracked records are back-dated between two deliveries

func (e *c06E2E) regMsg(secret []byte, covert string, src pb.RegistrationSource, dual bool) []byte {
	v4, v6 := true, dual
	gen, libv := uint32(1), uint32(2)
	tr := pb.TransportType_Min
	c2sw := &pb.C2SWrapper{
		SharedSecret: secret,
		RegistrationPayload: &pb.ClientToStation{
			CovertAddress:       &covert,
			Transport:           &tr,
			V4Support:           &v4,
			V6Support:           &v6,
			DecoyListGeneration: &gen,
			ClientLibVersion:    &libv,
			Flags:               e.msgFlags(),
		},
		RegistrationSource:  &src,
		RegistrationAddress: net.ParseIP("203.0.113.77").To16(),
	}
	msg, err := proto.Marshal(c2sw)
	if err != nil {
		e.t.Fatal(err)
	}
	return msg
}

// c06Backdate makes every tracking record of reg (timeout record found by scanning for its phantom and
// identifier, and the tracked object's own RegistrationTime) d older.  Returns the number of timeout
// records touched.
func c06Backdate(rm *RegistrationManager, reg *DecoyRegistration, d time.Duration) int {
	rd := rm.registeredDecoys
	rd.m.Lock()
	defer rd.m.Unlock()
	t, ok := rd.transports[reg.Transport]
	if !ok {
		return 0
	}
	id, ph := t.GetIdentifier(reg), reg.PhantomIp.String()
	n := 0
	for _, to := range rd.decoysTimeouts {
		if to != nil && to.decoy == ph && to.identifier == id {
			to.registrationTime = to.registrationTime.Add(-d)
			n++
		}
	}
	if tr := rd.decoys[ph][id]; tr != nil {
		tr.RegistrationTime = tr.RegistrationTime.Add(-d)
	}
	return n
}

type c06Delivery struct {
	Covert string
	Name   string // scripted name inside Covert ("" = none)
}

func (e *c06E2E) runHistory(kind string, ageMin int, mode string, src pb.RegistrationSource, dual bool, secret []byte) {
	e.seq++
	pol, rm := e.pols[mode], e.rms[mode]
	label := fmt.Sprintf("history:%s backdate=%dmin policy=%s source=%s dual=%v flags=%s", kind, ageMin, mode, src, dual, e.flagsName)
	e.rec.Case(label)
	e.logbuf.Take()

	var lnA, lnB, ln1, ln6 *c06Listener
	var err error
	for try := 0; ; try++ {
		if lnA, err = c06Listen("permitted-127.0.0.5", c06Allowed, 0); err != nil {
			e.t.Fatal(err)
		}
		p := lnA.Port()
		lnB, err = c06Listen("forbidden-127.0.0.66", c06Blocked, p)
		if err == nil {
			ln1, err = c06Listen("forbidden-127.0.0.1", c06Loop4, p)
		}
		if err == nil {
			ln6, err = c06Listen("forbidden-::1", c06Loop6, p)
		}
		if err == nil {
			break
		}
		for _, l := range []*c06Listener{lnA, lnB, ln1, ln6} {
			if l != nil {
				l.Close()
			}
		}
		lnA, lnB, ln1, ln6 = nil, nil, nil, nil
		if try > 50 {
			e.t.Fatalf("cannot get the same port on all loopback addresses: %v", err)
		}
	}
	listeners := []*c06Listener{lnA, lnB, ln1, ln6}
	defer func() {
		for _, l := range listeners {
			l.Close()
		}
	}()
	port := lnA.Port()

	lit := func(ip string) c06Delivery { return c06Delivery{Covert: fmt.Sprintf("%s:%d", ip, port)} }
	named := func(rounds []c06Round) c06Delivery {
		n := fmt.Sprintf("e%d.history.verif.test", e.seq)
		e.dns.Script(n, rounds)
		return c06Delivery{Covert: fmt.Sprintf("%s:%d", n, port), Name: n}
	}
	var ds []c06Delivery
	switch kind {
	case "forbidden-then-permitted":
		ds = []c06Delivery{lit("127.0.0.66"), lit("127.0.0.5")}
	case "permitted-then-forbidden":
		ds = []c06Delivery{lit("127.0.0.5"), lit("127.0.0.66")}
	case "forbiddenA-then-forbiddenB":
		ds = []c06Delivery{lit("127.0.0.66"), lit("127.0.0.1")}
	case "blocked-name-then-permitted-literal":
		ds = []c06Delivery{named([]c06Round{{V4: []netip.Addr{c06Blocked}}}), lit("127.0.0.5")}
	case "forbidden-literal-then-permitted-name":
		ds = []c06Delivery{lit("127.0.0.66"), named([]c06Round{{V4: []netip.Addr{c06Allowed}}})}
	case "empty-host-then-permitted":
		ds = []c06Delivery{{Covert: fmt.Sprintf(":%d", port)}, lit("127.0.0.5")}
	case "forbidden-then-permitted-then-forbidden":
		ds = []c06Delivery{lit("127.0.0.66"), lit("127.0.0.5"), lit("127.0.0.1")}
	case "rebinding-name-then-permitted-literal":
		// the name is forbidden at its first lookup, permitted at the second, forbidden from then on
		ds = []c06Delivery{named([]c06Round{{V4: []netip.Addr{c06Blocked}}, {V4: []netip.Addr{c06Allowed}}, {V4: []netip.Addr{c06Blocked}}}), lit("127.0.0.5")}
	default:
		e.t.Fatalf("unknown history kind %q", kind)
	}
	defer func() {
		for _, d := range ds {
			if d.Name != "" {
				e.dns.Forget(d.Name)
			}
		}
	}()

	// ---- the deliveries -------------------------------------------------------------------------------------
	var first []*DecoyRegistration
	var trace []string
	for di, d := range ds {
		regs, err := rm.parseRegMessage(e.regMsg(secret, d.Covert, src, dual))
		if err != nil || len(regs) == 0 {
			e.rec.Count("parse_failed", 1)
			e.parseFails++
			if e.parseFails > 20 {
				e.t.Fatalf("parseRegMessage keeps failing on well-formed registrations: %v\n%s", err, e.logbuf.Take())
			}
			return
		}
		if di == 0 {
			first = regs
		}
		for _, reg := range regs {
			rm.ingestRegistration(reg)
		}
		e.rec.Count("history_deliveries", 1)
		st := "untracked"
		if tr := rm.registeredDecoys.RegistrationExists(regs[0]); tr != nil {
			rm.registeredDecoys.m.RLock()
			st = fmt.Sprintf("tracked valid=%v covert=%q", tr.Valid, tr.Covert)
			rm.registeredDecoys.m.RUnlock()
		}
		trace = append(trace, fmt.Sprintf("deliver %q -> %s", d.Covert, st))
		if di < len(ds)-1 && ageMin > 0 {
			n := 0
			for _, reg := range regs {
				n += c06Backdate(rm, reg, time.Duration(ageMin)*time.Minute)
			}
			trace = append(trace, fmt.Sprintf("back-date %d min (%d timeout records)", ageMin, n))
			if n == 0 {
				e.rec.Count("history_backdate_found_no_record", 1)
			}
		}
	}
	// the last delivery once more (a plain duplicate)
	if regs, err := rm.parseRegMessage(e.regMsg(secret, ds[len(ds)-1].Covert, src, dual)); err == nil {
		for _, reg := range regs {
			rm.ingestRegistration(reg)
		}
	}

	// everything the resolver handed out for the names of this history, and the literals supplied
	var checkedIPs []netip.Addr
	for _, d := range ds {
		if d.Name != "" {
			_, _, h := e.dns.Snapshot(d.Name)
			checkedIPs = append(checkedIPs, h...)
		} else if sx := c06Parse(d.Covert, e.hosts); sx.IsLit {
			checkedIPs = append(checkedIPs, sx.Lit)
		}
	}
	queries := func() int {
		n := 0
		for _, d := range ds {
			if d.Name != "" {
				a, _, _ := e.dns.Snapshot(d.Name)
				n += a
			}
		}
		return n
	}

	// ---- what a connection handler gets ------------------------------------------------------------------------
	nValid := 0
	for _, f := range first {
		for _, r := range rm.GetRegistrations(f.PhantomIp) {
			stored, ok := r.(*DecoyRegistration)
			if !ok || stored.Keys == nil || !bytes.Equal(stored.Keys.SharedSecret, f.Keys.SharedSecret) {
				continue // another scenario's registration on the same phantom
			}
			nValid++
			rm.registeredDecoys.m.RLock()
			storedCovert := stored.Covert
			rm.registeredDecoys.m.RUnlock()
			detail := func(extra map[string]interface{}) map[string]interface{} {
				d := map[string]interface{}{"scenario": label, "history": trace, "valid_registration_covert": storedCovert, "phantom": f.PhantomIp.String(), "policy": pol.desc()}
				for k, v := range extra {
					d[k] = v
				}
				return d
			}
			viol := func(sig, msg string, extra map[string]interface{}) {
				e.rec.Count("violations_by_sig["+sig+"]", 1)
				e.rec.Violation(sig, msg, detail(extra))
			}
			ap, perr := netip.ParseAddrPort(storedCovert)
			isLit := perr == nil
			switch {
			case !isLit:
				viol("e2e:history:valid-registration-covert-not-literal", "after several deliveries of one registration with different coverts, the valid registration object carries a covert that is not a literal IP:port (it was never checked / resolved)", map[string]interface{}{"parse_error": perr.Error()})
			case pol.forbidden(ap.Addr()) != "":
				viol("e2e:history:valid-registration-covert-forbidden", "after several deliveries of one registration with different coverts, the valid registration object carries a covert that policy forbids: the address that was checked is not the address that will be dialed",
					map[string]interface{}{"why": pol.forbidden(ap.Addr())})
			default:
				found := false
				for _, c := range checkedIPs {
					if c06SameTarget(c, ap.Addr()) {
						found = true
					}
				}
				if !found || int(ap.Port()) != port {
					viol("e2e:history:valid-registration-covert-from-nowhere", "the covert of the valid registration is neither a literal supplied in one of the deliveries nor an answer the resolver gave for one of the supplied names", nil)
				}
			}

			// the tunnel
			q0 := queries()
			client := kit.NewScriptConn("client", kit.TCPAddr("192.0.2.10", 443), kit.TCPAddr("203.0.113.77", 50123), []kit.Seg{{Data: []byte(fmt.Sprintf("c06h-%d", e.seq))}}, kit.EndEOF)
			client.MaxBlock = 60 * time.Second
			plog := log.New(e.logbuf, "[PROXY] ", 0)
			done := make(chan struct{})
			go func() { Proxy(stored, client, plog); close(done) }()
			select {
			case <-done:
			case <-time.After(90 * time.Second):
				e.rec.Inconclusive("Proxy did not return within 90 s", map[string]interface{}{"scenario": label, "covert": storedCovert})
				client.Close()
				for _, l := range listeners {
					l.ln.Close()
				}
				<-done
				return
			}
			if q1 := queries(); q1 > q0 {
				viol("e2e:history:resolved-again-at-dial", "the resolver was asked when the tunnel was opened: the address dialed is not an address that was checked at admission", map[string]interface{}{"A_queries_at_dial": q1 - q0})
			}
			for _, l := range listeners {
				acc, err := l.Settle()
				if err != nil {
					e.rec.Inconclusive("listener could not be settled", map[string]interface{}{"scenario": label, "listener": l.Name, "err": err.Error()})
					continue
				}
				for _, a := range acc {
					e.rec.Count("covert_connections_observed", 1)
					if why := pol.forbidden(l.IP); why != "" {
						via := "stale-forbidden-literal"
						switch {
						case !isLit && strings.HasPrefix(storedCovert, ":"):
							via = "stale-empty-host"
						case !isLit:
							via = "stale-unresolved-name"
						case pol.forbidden(ap.Addr()) == "":
							via = "permitted-literal"
						}
						viol("e2e:history:connected-to-forbidden-address:"+via, "the station opened a covert connection to an address that policy forbids ("+why+"): the valid registration did not hold the address that was checked",
							map[string]interface{}{"listener": l.Name, "accepted_local": a.Local, "accepted_remote": a.Remote, "received": a.Got})
					} else if isLit {
						if la, err := netip.ParseAddrPort(a.Local); err != nil || c06Dialed(la.Addr()) != c06Dialed(ap.Addr()) || la.Port() != ap.Port() {
							viol("e2e:history:dialed-address-differs-from-admitted", "the connection arrived at an address other than the literal of the valid registration", map[string]interface{}{"accepted_local": a.Local})
						}
					}
				}
			}
			if e.histSamples < 2 && (ageMin > 0 || len(ds) > 2) {
				e.histSamples++
				e.rec.Sample(map[string]interface{}{"scenario": label, "history": trace, "valid_registration_covert": storedCovert})
			}
		}
	}
	if nValid > 0 {
		e.rec.Count("history_ended_with_valid_registration", 1)
	} else {
		e.rec.Count("history_ended_without_valid_registration", 1)
	}
	e.rec.Count("evaluations", 1)
	e.rec.Count("history_evaluations", 1)
	e.rec.Distinct("nontrivial", "history", kind, ageMin, mode, src.String(), dual, e.flagsName)
	e.rec.Count("flags["+e.flagsName+"].cases", 1)
	e.rec.Distinct("history_kinds", kind, ageMin, mode)
}
